//! Suite Z (C09): whatever a client sends, the request terminates with a result or an error and the server keeps
//! serving. Every request runs on its own task behind a watchdog (240 s: a loop under the largest legal gas allowance, 12000 x 4 MiB, needs about 30 s); a liveness probe (read, simulation, and every few
//! requests a write round) follows each one. Oracle families: `panic`, `hang`, `wedged`.
//!
//! The Bitcoin node is a small in-process mock (JSON-RPC over HTTP): it knows a handful of canned transactions and one
//! block header and answers "not found" (-5) for everything else, so that the Bitcoin helper contracts can be driven
//! through all their paths without the environment fault the property excludes.
#![allow(dead_code)]
use std::collections::BTreeMap;
use std::io::{Read, Write};
use std::path::Path;
use std::sync::atomic::{AtomicU64, Ordering};
use std::sync::{Arc, Mutex};
use std::time::Duration;

use alloy::primitives::keccak256;
use base64::prelude::*;
use serde_json::{json, Value};

use crate::asm;
use crate::eng::{self, h256, Inst, Resp};
use crate::out::Out;
use crate::rng::Rng;

pub struct Params {
    pub cases: u64,
    pub max_ops: u64,
}

const PKS: [&str; 6] = ["5120aa", "0014cc", "76a914dd88ac", "", "51", "6a"];

// ------------------------------------------------------------------------------------------------ canned Bitcoin data

/// A few structurally valid transactions: (txid as the precompiles take it (big endian display order), raw hex)
fn canned_txs() -> Vec<(String, String)> {
    use bitcoin::absolute::LockTime;
    use bitcoin::transaction::Version;
    use bitcoin::{Amount, OutPoint, ScriptBuf, Sequence, Transaction, TxIn, TxOut, Txid, Witness};
    let mut out: Vec<(String, String)> = Vec::new();
    let mut prev: Option<Txid> = None;
    for k in 0..4u64 {
        let n_in = 1 + (k % 3) as usize;
        let n_out = 1 + ((k + 1) % 3) as usize;
        let mut input = Vec::new();
        for i in 0..n_in {
            let txid = match (prev, i) {
                (Some(p), 0) => p,
                _ => {
                    let mut b = [0u8; 32];
                    b[0] = 0x10 + k as u8;
                    b[31] = i as u8 + 1;
                    Txid::from_raw_hash(bitcoin::hashes::Hash::from_byte_array(b))
                }
            };
            input.push(TxIn { previous_output: OutPoint { txid, vout: (i as u32) % 2 }, script_sig: ScriptBuf::new(), sequence: Sequence::MAX, witness: Witness::new() });
        }
        let mut output = Vec::new();
        for o in 0..n_out {
            let amt = match (k, o) {
                (3, 0) => u64::MAX / 2 + 7, // sums of outputs wrap in u64
                (3, 1) => u64::MAX / 2 + 11,
                _ => 1000 * (o as u64 + 1) + k,
            };
            output.push(TxOut { value: Amount::from_sat(amt), script_pubkey: ScriptBuf::from_bytes(vec![0x51, 0x20, k as u8, o as u8]) });
        }
        let tx = Transaction { version: Version::TWO, lock_time: LockTime::ZERO, input, output };
        let txid = tx.compute_txid();
        prev = Some(txid);
        out.push((txid.to_string(), bitcoin::consensus::encode::serialize_hex(&tx)));
    }
    out
}

const CANNED_BLOCK: &str = "00000000000000000000aaaaaaaaaaaaaaaaaaaaaaaaaaaaaaaaaaaaaaaaaaaa";

/// Starts the mock node; returns its URL.
fn start_mock_node() -> String {
    let listener = std::net::TcpListener::bind("127.0.0.1:0").unwrap();
    let port = listener.local_addr().unwrap().port();
    let txs: BTreeMap<String, String> = canned_txs().into_iter().collect();
    std::thread::spawn(move || {
        for stream in listener.incoming() {
            let Ok(mut s) = stream else { continue };
            let txs = txs.clone();
            std::thread::spawn(move || {
                let _ = s.set_read_timeout(Some(Duration::from_secs(5)));
                loop {
                    // one HTTP request
                    let mut buf = Vec::new();
                    let mut tmp = [0u8; 4096];
                    let (mut head_end, mut clen) = (None, 0usize);
                    loop {
                        let n = match s.read(&mut tmp) {
                            Ok(0) | Err(_) => return,
                            Ok(n) => n,
                        };
                        buf.extend_from_slice(&tmp[..n]);
                        if head_end.is_none() {
                            if let Some(p) = buf.windows(4).position(|w| w == b"\r\n\r\n") {
                                head_end = Some(p + 4);
                                let head = String::from_utf8_lossy(&buf[..p]).to_lowercase();
                                clen = head.lines().find_map(|l| l.strip_prefix("content-length:").map(|v| v.trim().parse::<usize>().unwrap_or(0))).unwrap_or(0);
                            }
                        }
                        if let Some(h) = head_end {
                            if buf.len() >= h + clen {
                                break;
                            }
                        }
                    }
                    let body = &buf[head_end.unwrap()..];
                    let req: Value = serde_json::from_slice(body).unwrap_or(Value::Null);
                    let answer_one = |r: &Value| -> Value {
                        let id = r["id"].clone();
                        let method = r["method"].as_str().unwrap_or("");
                        let p0 = r["params"][0].as_str().unwrap_or("").to_lowercase();
                        let verbose = r["params"][1].as_bool().unwrap_or(false) || r["params"][1].as_u64().unwrap_or(0) > 0;
                        let not_found = json!({"result": null, "error": {"code": -5, "message": "No such mempool or blockchain transaction"}, "id": id});
                        match method {
                            "getrawtransaction" => match txs.get(&p0) {
                                Some(hex) if verbose => json!({"result": {"hex": hex, "txid": p0, "hash": p0, "size": hex.len() / 2, "vsize": hex.len() / 2, "version": 2, "locktime": 0, "vin": [], "vout": [], "blockhash": CANNED_BLOCK, "confirmations": 10, "time": 1700000000, "blocktime": 1700000000, "in_active_chain": true}, "error": null, "id": id}),
                                Some(hex) => json!({"result": hex, "error": null, "id": id}),
                                None => not_found,
                            },
                            "getblockheader" if p0 == CANNED_BLOCK => json!({"result": {"hash": CANNED_BLOCK, "confirmations": 10, "height": 1, "version": 2, "versionHex": "00000002", "merkleroot": CANNED_BLOCK, "time": 1700000000, "mediantime": 1700000000, "nonce": 0, "bits": "1d00ffff", "difficulty": 1.0, "chainwork": CANNED_BLOCK, "nTx": 1, "previousblockhash": CANNED_BLOCK}, "error": null, "id": id}),
                            "getblockheader" => json!({"result": null, "error": {"code": -5, "message": "Block not found"}, "id": id}),
                            "getblockchaininfo" => json!({"result": {"chain": "regtest", "blocks": 1, "headers": 1, "bestblockhash": CANNED_BLOCK, "difficulty": 1.0, "mediantime": 1700000000, "verificationprogress": 1.0, "initialblockdownload": false, "chainwork": CANNED_BLOCK, "size_on_disk": 1, "pruned": false, "warnings": ""}, "error": null, "id": id}),
                            _ => json!({"result": null, "error": {"code": -32601, "message": "Method not found"}, "id": id}),
                        }
                    };
                    let resp = match &req {
                        Value::Array(a) => Value::Array(a.iter().map(answer_one).collect()),
                        r => answer_one(r),
                    };
                    let body = resp.to_string();
                    let msg = format!("HTTP/1.1 200 OK\r\nContent-Type: application/json\r\nContent-Length: {}\r\nConnection: keep-alive\r\n\r\n{}", body.len(), body);
                    if s.write_all(msg.as_bytes()).is_err() {
                        return;
                    }
                }
            });
        }
    });
    format!("http://127.0.0.1:{}", port)
}

// ------------------------------------------------------------------------------------------------ generation

fn sel(sig: &str) -> Vec<u8> {
    keccak256(sig.as_bytes())[..4].to_vec()
}

fn abi_word(n: u64) -> Vec<u8> {
    asm::word(n)
}

fn abi_bytes_tail(b: &[u8]) -> Vec<u8> {
    let mut v = abi_word(b.len() as u64);
    v.extend_from_slice(b);
    while v.len() % 32 != 0 {
        v.push(0);
    }
    v
}

/// call data for one of the five helper contracts: mostly ABI-valid, sometimes mangled
fn helper_call(r: &mut Rng) -> (String, Vec<u8>) {
    let txs = canned_txs();
    let txid_of = |r: &mut Rng| -> Vec<u8> {
        match r.below(4) {
            0 => r.bytes(32),
            _ => hex::decode(&r.pick(&txs).0).unwrap(),
        }
    };
    let (addr, mut data) = match r.below(5) {
        0 => ("0x00000000000000000000000000000000000000fa", sel("getTxId()")),
        1 => {
            let mut d = sel("getTxDetails(bytes32)");
            d.extend(txid_of(r));
            ("0x00000000000000000000000000000000000000fd", d)
        }
        2 => {
            let mut d = sel("getLastSatLocation(bytes32,uint256,uint256)");
            d.extend(txid_of(r));
            d.extend(match r.below(5) { 0 => vec![0xff; 32], 1 => abi_word(u64::MAX), _ => abi_word(r.below(4)) });
            d.extend(match r.below(5) { 0 => vec![0xff; 32], 1 => abi_word(u64::MAX), _ => abi_word(r.below(3000)) });
            ("0x00000000000000000000000000000000000000fc", d)
        }
        3 => {
            let mut d = sel("getLockedPkscript(bytes,uint256)");
            let pk: Vec<u8> = match r.below(6) {
                0 => vec![],
                1 => vec![0x51],
                2 => hex::decode("5120").unwrap(),
                3 => { let mut v = vec![0x51, 0x20]; v.extend(r.bytes(32)); v }
                4 => { let n = r.below(80) as usize; r.bytes(n) }
                _ => { let mut v = vec![0x00, 0x14]; v.extend(r.bytes(20)); v }
            };
            d.extend(abi_word(64));
            d.extend(match r.below(6) { 0 => abi_word(0), 1 => abi_word(16), 2 => abi_word(17), 3 => abi_word(65535), 4 => abi_word(65536), _ => vec![0xff; 32] });
            d.extend(abi_bytes_tail(&pk));
            ("0x00000000000000000000000000000000000000fb", d)
        }
        _ => {
            let mut d = sel("verify(bytes,bytes,bytes)");
            let (a, b, c) = ({ let n = r.below(40) as usize; r.bytes(n) }, { let n = r.below(40) as usize; r.bytes(n) }, { let n = r.below(120) as usize; r.bytes(n) });
            let (ta, tb, tc) = (abi_bytes_tail(&a), abi_bytes_tail(&b), abi_bytes_tail(&c));
            d.extend(abi_word(96));
            d.extend(abi_word(96 + ta.len() as u64));
            d.extend(abi_word(96 + ta.len() as u64 + tb.len() as u64));
            d.extend(ta);
            d.extend(tb);
            d.extend(tc);
            ("0x00000000000000000000000000000000000000fe", d)
        }
    };
    // mangle: truncate, extend, flip offsets
    match r.below(8) {
        0 => { let n = r.below(data.len() as u64 + 1) as usize; data.truncate(n); }
        1 => data.extend(r.bytes(33)),
        2 if data.len() > 36 => { for b in &mut data[4..36] { *b = 0xff; } }
        _ => {}
    }
    (addr.to_string(), data)
}

fn weird_string(r: &mut Rng) -> String {
    match r.below(16) {
        0 => String::new(),
        1 => "0x".into(),
        2 => "0x0".into(),
        3 => "0xzz".into(),
        4 => "latest".into(),
        5 => "pending".into(),
        6 => "earliest".into(),
        7 => "0\u{e9}\u{e9}".into(),        // a multi-byte character right where `0x` would end
        8 => "\u{1F600}x12".into(),
        9 => "0x".to_string() + &"f".repeat(r.below(80) as usize),
        10 => "-1".into(),
        11 => "18446744073709551616".into(),
        12 => "=".repeat(1 + r.below(5) as usize),
        13 => "A".repeat(1 + r.below(9) as usize),
        14 => h256(r.below(5)),
        _ => hex::encode({ let n = r.below(12) as usize; r.bytes(n) }),
    }
}

fn weird_value(r: &mut Rng, depth: u32) -> Value {
    match r.below(if depth > 2 { 9 } else { 12 }) {
        0 => Value::Null,
        1 => json!(r.chance(50)),
        2 => json!(*r.pick(&[0u64, 1, 2, 10, 11, 255, 65536, 1 << 53, u64::MAX / 2, u64::MAX - 1, u64::MAX])),
        3 => json!(-(r.below(3) as i64) - 1),
        4 => json!(1.5),
        5 | 6 | 7 | 8 => json!(weird_string(r)),
        9 => Value::Array((0..r.below(4)).map(|_| weird_value(r, depth + 1)).collect()),
        10 => {
            let mut m = serde_json::Map::new();
            for k in ["from", "to", "data", "input", "fromBlock", "toBlock", "address", "topics", "opReturnTxIds", "bitcoinTxHexes"] {
                if r.chance(30) {
                    m.insert(k.to_string(), weird_value(r, depth + 1));
                }
            }
            Value::Object(m)
        }
        _ => json!(format!("0x{}", hex::encode({ let n = r.below(40) as usize; r.bytes(n) }))),
    }
}

/// payloads for the base64 field: every prefix byte, truncated / garbage bodies, padding, a small bomb
fn weird_payload(r: &mut Rng) -> String {
    let body: Vec<u8> = { let n = r.below(40) as usize; r.bytes(n) };
    match r.below(10) {
        0 => String::new(),
        1 => "=".into(),
        2 => "!!!not base64!!!".into(),
        3 => {
            // zstd frame claiming a huge content size
            let mut d = vec![0x02u8, 0x28, 0xb5, 0x2f, 0xfd, 0xe4];
            d.extend(u64::MAX.to_le_bytes());
            d.extend(r.bytes(8));
            BASE64_STANDARD_NO_PAD.encode(d)
        }
        4 => {
            // a real zstd bomb: 2 MiB of zeros
            let raw = vec![0u8; 2 * 1024 * 1024];
            let mut buf = vec![0u8; zstd_safe::compress_bound(raw.len())];
            let n = zstd_safe::compress(&mut buf[..], &raw, 3).unwrap_or(0);
            let mut d = vec![0x02u8];
            d.extend_from_slice(&buf[..n]);
            BASE64_STANDARD_NO_PAD.encode(d)
        }
        5 => {
            let mut d = vec![0x01u8];
            d.extend(nada::encode(body.clone()));
            let mut s = BASE64_STANDARD_NO_PAD.encode(d);
            s.truncate(s.len().saturating_sub(r.below(3) as usize));
            s
        }
        _ => {
            let mut d = vec![*r.pick(&[0u8, 1, 2, 3, 0xff])];
            d.extend(body);
            let mut s = BASE64_STANDARD_NO_PAD.encode(d);
            if r.chance(30) {
                s.push_str("==");
            }
            s
        }
    }
}

fn random_code(r: &mut Rng) -> Vec<u8> {
    match r.below(8) {
        0 => { let n = r.below(200) as usize; r.bytes(n) }
        // deep recursion: calls itself until the call depth / gas runs out
        1 => asm::cat(&[&asm::push(0), &asm::push(0), &asm::push(0), &asm::push(0), &asm::push(0), &[asm::ADDRESS, asm::GAS, asm::CALL, asm::STOP]]),
        // memory blow-up: MSTORE at a huge offset
        2 => asm::cat(&[&asm::push(1), &asm::push(u64::MAX / 4), &[asm::MSTORE, asm::STOP]]),
        // creates children in a loop
        3 => asm::cat(&[&[asm::JUMPDEST], &asm::push(0), &asm::push(0), &asm::push(0), &[asm::CREATE, asm::POP], &asm::push(0), &[asm::JUMP]]),
        4 => asm::burner_runtime(),
        5 => asm::suicide_runtime(),
        6 => vec![asm::INVALID],
        // returns a 1 MiB+ buffer
        _ => asm::cat(&[&asm::push(3 << 20), &asm::push(0), &[asm::RETURN]]),
    }
}

pub fn gen(r: &mut Rng, p: &Params) -> Vec<String> {
    let methods: Vec<String> = {
        let dir = tempfile::tempdir().unwrap();
        let rt = eng::runtime();
        eng::configure("regtest", false);
        let mut i = Inst::open(dir.path(), rt);
        let mut m = i.method_names();
        i.close();
        m.sort();
        m.into_iter().filter(|m| m != "verif_state").collect()
    };
    let mut out = sample_lines(); // clean calls to the node-backed helpers first
    let txs = canned_txs();
    for c in 0..p.cases {
        out.push(format!("case Z{}", c));
        out.push(format!("setup {}", r.below(4)));
        for _ in 0..(10 + r.below(p.max_ops)) {
            let req: Value = match r.below(20) {
                // any method, arbitrary parameters
                0..=4 => {
                    let m = r.pick(&methods).clone();
                    let params: Vec<Value> = (0..r.below(10)).map(|_| weird_value(r, 0)).collect();
                    json!({"jsonrpc": "2.0", "id": 1, "method": m, "params": params})
                }
                // indexer calls with plausible shapes and weird fields
                5..=8 => {
                    let pk = if r.chance(70) { json!(*r.pick(&PKS)) } else { json!(weird_string(r)) };
                    let (d, b) = match r.below(4) {
                        0 => (json!(format!("0x{}", hex::encode(random_code(r)))), Value::Null),
                        1 => (Value::Null, json!(weird_payload(r))),
                        2 => (json!(weird_string(r)), json!(weird_payload(r))),
                        _ => (Value::Null, Value::Null),
                    };
                    let ts = if r.chance(80) { json!(1_700_000_000u64 + r.below(5)) } else { weird_value(r, 0) };
                    let hash = if r.chance(70) { json!(h256(r.below(3))) } else { json!(weird_string(r)) };
                    let idx = if r.chance(70) { json!(r.below(3)) } else { weird_value(r, 0) };
                    let insc = json!(weird_string(r));
                    let len = if r.chance(70) { json!(*r.pick(&[0u64, 1, 100, 100_000, 100_000, 4 * 1024 * 1024, 4 * 1024 * 1024 + 1, u64::MAX / 12000 + 1, u64::MAX])) } else { weird_value(r, 0) };
                    let txid = if r.chance(70) { json!(h256(r.below(3))) } else { json!(weird_string(r)) };
                    match r.below(6) {
                        0 => json!({"jsonrpc": "2.0", "id": 1, "method": "brc20_deploy", "params": [pk, d, b, ts, hash, idx, insc, len, txid]}),
                        1 => json!({"jsonrpc": "2.0", "id": 1, "method": "brc20_call", "params": [pk, Value::Null, json!(weird_string(r)), d, b, ts, hash, idx, insc, len, txid]}),
                        2 => json!({"jsonrpc": "2.0", "id": 1, "method": "brc20_transact", "params": [d, b, ts, hash, idx, insc, len, txid]}),
                        3 => json!({"jsonrpc": "2.0", "id": 1, "method": *r.pick(&["brc20_deposit", "brc20_withdraw"]), "params": [pk, json!(weird_string(r)), weird_value(r, 0), ts, hash, idx, insc]}),
                        4 => json!({"jsonrpc": "2.0", "id": 1, "method": "brc20_mine", "params": [*r.pick(&[0u64, 1, 2, 11, 300]), ts]}),
                        _ => json!({"jsonrpc": "2.0", "id": 1, "method": *r.pick(&["brc20_finaliseBlock", "brc20_reorg", "brc20_commitToDatabase", "brc20_clearCaches", "brc20_initialise"]), "params": [weird_value(r, 0), weird_value(r, 0), weird_value(r, 0)]}),
                    }
                }
                // simulations: random code, helper contracts, standard precompiles, overrides
                9..=15 => {
                    let n = 1 + r.below(3);
                    let mut calls = Vec::new();
                    let mut ids = Vec::new();
                    for _ in 0..n {
                        let mut call = serde_json::Map::new();
                        match r.below(6) {
                            0 => { call.insert("data".into(), json!(format!("0x{}", hex::encode(asm::deployer(&random_code(r)))))); }
                            1 => { call.insert("data".into(), json!(format!("0x{}", hex::encode(random_code(r))))); }
                            2 => {
                                call.insert("to".into(), json!(format!("0x{:040x}", 1 + r.below(0x12))));
                                call.insert("data".into(), json!(format!("0x{}", hex::encode({ let n = r.below(300) as usize; r.bytes(n) }))));
                            }
                            3 => {
                                call.insert("to".into(), json!("@probe"));
                                call.insert("data".into(), json!(format!("0x{}", hex::encode(sel("getTxId()")))));
                            }
                            _ => {
                                let (a, d) = helper_call(r);
                                call.insert("to".into(), json!(a));
                                call.insert("data".into(), json!(format!("0x{}", hex::encode(d))));
                            }
                        }
                        match r.below(5) {
                            0 => { call.insert("from".into(), json!("@probe")); }
                            1 => { call.insert("from".into(), json!("0xc54dd4581af2dbf18e4d90840226756e9d2b3cdb")); }
                            2 => {}
                            _ => { call.insert("from".into(), json!(format!("{:?}", eng::pkscript_addr(*r.pick(&PKS))))); }
                        }
                        ids.push(h256(0xabc0 + r.below(4)));
                        calls.push(Value::Object(call));
                    }
                    let block: Value = match r.below(5) { 0 => json!("latest"), 1 => json!("pending"), 2 => json!(weird_string(r)), _ => Value::Null };
                    let mut hexes = serde_json::Map::new();
                    for (id, hx) in &txs {
                        if r.chance(50) {
                            let mut h = hx.clone();
                            if r.chance(15) { h.truncate(h.len() / 2 * 2 - 2 * r.below(10).min(h.len() as u64 / 2 - 1) as usize); }
                            hexes.insert(format!("0x{}", id), json!(format!("0x{}", h)));
                        }
                    }
                    let pd = if r.chance(60) { json!({"opReturnTxIds": ids, "bitcoinTxHexes": hexes}) } else { Value::Null };
                    match r.below(4) {
                        0 => json!({"jsonrpc": "2.0", "id": 1, "method": "eth_call", "params": [calls[0], block]}),
                        1 => json!({"jsonrpc": "2.0", "id": 1, "method": "eth_estimateGas", "params": [calls[0], block]}),
                        2 => json!({"jsonrpc": "2.0", "id": 1, "method": "eth_callMany", "params": [calls, block, pd]}),
                        _ => json!({"jsonrpc": "2.0", "id": 1, "method": "eth_estimateGasMany", "params": [calls, block, pd]}),
                    }
                }
                // queries with boundary arguments
                16 | 17 => {
                    let m = *r.pick(&["eth_getBlockByNumber", "eth_getBlockByHash", "eth_getLogs", "eth_getStorageAt", "eth_getCode", "eth_getTransactionByBlockNumberAndIndex", "debug_getRawBlock", "debug_getBlockTraceString", "debug_getBlockTraceHash", "debug_traceTransaction", "brc20_getTxReceiptByInscriptionId", "brc20_balance", "eth_getTransactionCount", "eth_getBlockTransactionCountByNumber", "txpool_content", "debug_getRawReceipts", "debug_getRawHeader"]);
                    let params: Vec<Value> = (0..(1 + r.below(3))).map(|_| if r.chance(60) { json!(weird_string(r)) } else { weird_value(r, 0) }).collect();
                    json!({"jsonrpc": "2.0", "id": 1, "method": m, "params": params})
                }
                // protocol level: batches, notifications, malformed envelopes
                18 => match r.below(5) {
                    0 => json!([{"jsonrpc": "2.0", "id": 1, "method": "eth_blockNumber", "params": []}, {"jsonrpc": "2.0", "method": "brc20_mine", "params": [1, 1]}, 7, null]),
                    1 => json!({"jsonrpc": "1.0", "id": null, "method": 5}),
                    2 => json!([]),
                    3 => json!({"jsonrpc": "2.0", "method": "eth_blockNumber"}),
                    _ => json!({"jsonrpc": "2.0", "id": {"a": 1}, "method": "eth_chainId", "params": {"x": 1}}),
                },
                // a contract that uses the helpers, deployed and called as transactions
                _ => {
                    let (a, d) = helper_call(r);
                    let addr = u64::from_str_radix(&a[a.len() - 2..], 16).unwrap_or(0xfa);
                    // runtime: copy calldata, STATICCALL helper, return what it returned
                    let rt = asm::cat(&[
                        &[asm::CALLDATASIZE], &asm::push(0), &asm::push(0), &[asm::CALLDATACOPY],
                        &asm::push(0), &asm::push(0), &[asm::CALLDATASIZE], &asm::push(0), &asm::push(addr), &[asm::GAS, asm::STATICCALL, asm::POP],
                        &[asm::RETURNDATASIZE], &asm::push(0), &asm::push(0), &[asm::RETURNDATACOPY, asm::RETURNDATASIZE], &asm::push(0), &[asm::RETURN],
                    ]);
                    json!({"jsonrpc": "2.0", "id": 1, "method": "z_helper_tx", "params": [format!("0x{}", hex::encode(asm::deployer(&rt))), format!("0x{}", hex::encode(d))]})
                }
            };
            out.push(format!("z {}", req));
        }
    }
    out
}

// ------------------------------------------------------------------------------------------------ execution

static LAST_PANIC: Mutex<String> = Mutex::new(String::new());
static PANICS: AtomicU64 = AtomicU64::new(0);

fn install_panic_recorder() {
    std::panic::set_hook(Box::new(|info| {
        PANICS.fetch_add(1, Ordering::SeqCst);
        let msg = format!("{}", info);
        if let Ok(mut g) = LAST_PANIC.lock() {
            *g = msg.chars().take(400).collect();
        }
    }));
}

struct Live {
    inst: Inst,
    probe: Option<String>,
    height: u64,
    ts: u64,
    n_hash: u64,
}

fn raw_with_watchdog(inst: &Inst, rt: &Arc<tokio::runtime::Runtime>, req: &str, limit: Duration) -> Option<Resp> {
    let (tx, rx) = std::sync::mpsc::channel();
    let inst_ptr = inst as *const Inst as usize;
    let req = req.to_string();
    let _ = rt;
    // Inst::raw blocks the calling thread: run it on a helper thread and wait with a deadline
    let h = std::thread::spawn(move || {
        // SAFETY: the instance outlives the call unless the watchdog fires, in which case the case is abandoned and
        // the instance is leaked on purpose (never dropped) by the caller.
        let inst = unsafe { &*(inst_ptr as *const Inst) };
        let _ = tx.send(inst.raw(&req));
    });
    match rx.recv_timeout(limit) {
        Ok(r) => {
            let _ = h.join();
            Some(r)
        }
        Err(_) => None,
    }
}

fn setup(scratch: &Path, n: u64, rt: &Arc<tokio::runtime::Runtime>, variant: u64) -> Live {
    let dir = scratch.join(format!("z{}", n));
    let _ = std::fs::remove_dir_all(&dir);
    let inst = Inst::open(&dir, rt.clone());
    let mut l = Live { inst, probe: None, height: 0, ts: 1_700_000_000, n_hash: 0 };
    match variant {
        0 => {} // empty database
        _ => {
            let _ = l.inst.call("brc20_initialise", json!([h256(0), l.ts, 0]));
            l.ts += 600;
            l.n_hash += 1;
            let hash = h256(5_000_000 + l.n_hash);
            let code = format!("0x{}", hex::encode(asm::deployer(&asm::probe_runtime())));
            let r = l.inst.call("brc20_deploy", json!(["5120aa", code, Value::Null, l.ts, hash, 0, "zprobe", 1_000_000, h256(1)]));
            l.probe = r.ok.as_ref().and_then(|v| v["contractAddress"].as_str().map(|s| s.to_string()));
            let _ = l.inst.call("brc20_finaliseBlock", json!([l.ts, hash, 1]));
            if variant >= 2 {
                let _ = l.inst.call("brc20_mine", json!([variant * 5, l.ts]));
                let _ = l.inst.call("brc20_commitToDatabase", json!([]));
            }
        }
    }
    l
}

pub fn exec(lines: &[String], out: &mut Out, scratch: &Path) {
    let url = start_mock_node();
    eng::configure("regtest", false);
    brc20_prog::verif::CONFIG.write_fn_unchecked(|c| {
        c.bitcoin_rpc_url = url.clone();
        c.bitcoin_rpc_user = "u".into();
        c.bitcoin_rpc_password = "p".into();
        c.fail_on_bitcoin_rpc_error = true;
    });
    install_panic_recorder();
    let rt = eng::runtime();
    let limit = Duration::from_secs(std::env::var("VERIF_Z_TIMEOUT").ok().and_then(|s| s.parse().ok()).unwrap_or(240));
    let mut live: Option<Live> = None;
    let mut n_inst = 0u64;
    let mut case = String::new();
    let mut since_write = 0u64;
    let mut leaked: Vec<Live> = Vec::new();
    for line in lines {
        if let Some(id) = line.strip_prefix("case ") {
            case = id.to_string();
            out.case(id);
            if let Some(mut l) = live.take() {
                l.inst.close();
                let _ = std::fs::remove_dir_all(&l.inst.dir);
            }
            continue;
        }
        if let Some(v) = line.strip_prefix("setup ") {
            n_inst += 1;
            live = Some(setup(scratch, n_inst, &rt, v.parse().unwrap_or(1)));
            out.line(line, "ok");
            continue;
        }
        let Some(req) = line.strip_prefix("z ") else { continue };
        let Some(l) = live.as_mut() else { continue };
        // resolve placeholders
        let mut reqv: Value = serde_json::from_str(req).unwrap_or(Value::Null);
        let probe = l.probe.clone().unwrap_or_else(|| "0x00000000000000000000000000000000000000aa".into());
        let mut text = reqv.to_string().replace("\"@probe\"", &format!("\"{}\"", probe));
        let mut two_step: Option<(String, String)> = None;
        if reqv["method"] == "z_helper_tx" {
            // a deploy + call pair as real transactions in one block
            two_step = Some((reqv["params"][0].as_str().unwrap_or("0x").to_string(), reqv["params"][1].as_str().unwrap_or("0x").to_string()));
            reqv = Value::Null;
            text.clear();
        }
        let _ = reqv;
        // a request that kills the whole process (allocation failure, stack overflow, abort) leaves its text here
        let _ = std::fs::write(scratch.parent().unwrap_or(scratch).join("Z.inflight"), format!("{}\n{}\n", case, line));
        let before_panics = PANICS.load(Ordering::SeqCst);
        let mut verdict = "ok".to_string();
        let mut requests: Vec<String> = Vec::new();
        if let Some((code, data)) = two_step {
            l.ts += 600;
            l.n_hash += 1;
            let hash = h256(5_000_000 + l.n_hash);
            requests.push(json!({"jsonrpc": "2.0", "id": 1, "method": "brc20_clearCaches", "params": []}).to_string());
            requests.push(json!({"jsonrpc": "2.0", "id": 1, "method": "brc20_deploy", "params": ["5120aa", code, Value::Null, l.ts, hash, 0, format!("zh{}", l.n_hash), 1_000_000, h256(0xabc1)]}).to_string());
            requests.push(json!({"jsonrpc": "2.0", "id": 1, "method": "brc20_call", "params": ["5120aa", Value::Null, format!("zh{}", l.n_hash), data, Value::Null, l.ts, hash, 1, format!("zc{}", l.n_hash), 1_000_000, h256(0xabc2)]}).to_string());
            requests.push(json!({"jsonrpc": "2.0", "id": 1, "method": "brc20_clearCaches", "params": []}).to_string());
        } else {
            requests.push(text);
        }
        for rq in &requests {
            match raw_with_watchdog(&l.inst, &rt, rq, limit) {
                None => {
                    verdict = "hang".into();
                    out.oracle_fail(&case, "hang", &format!("no answer within {:?}: {}", limit, rq.chars().take(300).collect::<String>()));
                    break;
                }
                Some(r) => {
                    if r.panicked || PANICS.load(Ordering::SeqCst) != before_panics {
                        let msg = LAST_PANIC.lock().map(|g| g.clone()).unwrap_or_default();
                        if msg.contains("Bitcoin RPC unreachable") {
                            if std::env::var("VERIF_DEBUG").is_ok() {
                                eprintln!("env-fault: {}", msg);
                            }
                            verdict = "env-fault".into();
                        } else {
                            verdict = "panic".into();
                            out.oracle_fail(&case, "panic", &format!("`{}` while serving {}", msg.replace('\n', " "), rq.chars().take(300).collect::<String>()));
                        }
                        break;
                    }
                    out.count(if r.is_ok() { "answered-result" } else { "answered-error" });
                    // which helper contract a simulation addressed, and whether it produced a result
                    for (a, name) in [("fa", "helper-txid"), ("fb", "helper-locked-pkscript"), ("fc", "helper-last-sat"), ("fd", "helper-tx-details"), ("fe", "helper-bip322")] {
                        if rq.contains(&format!("\"to\":\"0x00000000000000000000000000000000000000{}\"", a)) {
                            out.count(&format!("{}-{}", name, if r.is_ok() { "result" } else { "error" }));
                        }
                    }
                    if std::env::var("VERIF_DEBUG").is_ok() {
                        eprintln!("{} -> {:?}", rq.chars().take(200).collect::<String>(), r);
                    }
                }
            }
        }
        // liveness: a read, a simulation, and every few requests a write round
        if verdict == "ok" {
            let mut probes: Vec<(&str, Value)> = vec![("eth_blockNumber", json!([])), ("txpool_content", json!([]))];
            // a simulation waits for the block under construction: only probed at a block boundary
            if l.inst.state()["lbi"]["waiting_tx_count"].as_u64() == Some(0) {
                probes.push(("eth_call", json!([{"from": format!("{:?}", eng::pkscript_addr("5120aa")), "data": format!("0x{}", hex::encode(asm::deployer(&asm::store_runtime())))}])));
            }
            for (m, p) in probes {
                let rq = json!({"jsonrpc": "2.0", "id": 1, "method": m, "params": p}).to_string();
                match raw_with_watchdog(&l.inst, &rt, &rq, limit) {
                    Some(r) if r.is_ok() => {}
                    Some(r) => {
                        verdict = "wedged".into();
                        out.oracle_fail(&case, "wedged", &format!("after {}: liveness probe {} answered {:?}", req.chars().take(300).collect::<String>(), m, r.err));
                        break;
                    }
                    None => {
                        verdict = "wedged".into();
                        out.oracle_fail(&case, "wedged", &format!("after {}: liveness probe {} did not answer", req.chars().take(300).collect::<String>(), m));
                        break;
                    }
                }
            }
            since_write += 1;
            if verdict == "ok" && since_write >= 6 {
                since_write = 0;
                // write round: drop whatever the fuzz left under construction, mine one block, commit
                let mut okw = true;
                let mut before: Option<Value> = None;
                for (m, p) in [("brc20_clearCaches", json!([])), ("brc20_mine", json!([1, l.ts])), ("brc20_commitToDatabase", json!([]))] {
                    if m == "brc20_mine" {
                        // the height the cleared instance is back at (its last commit)
                        before = l.inst.call("eth_blockNumber", json!([])).ok;
                    }
                    let rq = json!({"jsonrpc": "2.0", "id": 1, "method": m, "params": p}).to_string();
                    match raw_with_watchdog(&l.inst, &rt, &rq, limit) {
                        Some(r) if r.is_ok() => {}
                        other => {
                            okw = false;
                            verdict = "wedged".into();
                            out.oracle_fail(&case, "wedged", &format!("after {}: write round {} answered {:?}", req.chars().take(300).collect::<String>(), m, other.map(|r| r.err)));
                            break;
                        }
                    }
                }
                if okw {
                    let after = l.inst.call("eth_blockNumber", json!([])).ok;
                    let n = |v: &Option<Value>| v.as_ref().and_then(|x| x.as_str()).and_then(|s| u64::from_str_radix(s.trim_start_matches("0x"), 16).ok());
                    // an empty database reports height 0 before its first block
                    if let (Some(a), Some(b)) = (n(&before), n(&after)) {
                        if b != a + 1 && !(a == 0 && b == 0) {
                            verdict = "wedged".into();
                            out.oracle_fail(&case, "wedged", &format!("write round: height {} -> {} (expected one more block)", a, b));
                        }
                    }
                    out.count("write-rounds");
                }
            }
        }
        out.line(&format!("z {}", req.chars().take(200).collect::<String>().replace('\n', " ")), &verdict);
        if verdict != "ok" {
            // the instance may be poisoned, empty or stuck: continue the case on a fresh one
            let old = live.take().unwrap();
            if verdict == "hang" {
                // a thread is still serving the request (and may keep allocating): the run ends here, the process
                // exits when `main` returns
                leaked.push(old);
                out.count("stopped-after-hang");
                std::mem::forget(leaked);
                return;
            } else {
                let mut o = old;
                o.inst.close();
                let _ = std::fs::remove_dir_all(&o.inst.dir);
            }
            n_inst += 1;
            live = Some(setup(scratch, n_inst, &rt, 1));
        }
    }
    if let Some(mut l) = live.take() {
        l.inst.close();
    }
    let _ = std::fs::remove_file(scratch.parent().unwrap_or(scratch).join("Z.inflight"));
    std::mem::forget(leaked);
}

/// prints a clean call to each of the two node-backed helpers (development aid)
pub fn sample_lines() -> Vec<String> {
    let txs = canned_txs();
    let mut v = vec!["case Zs".to_string(), "setup 2".to_string()];
    for (id, _) in &txs {
        // a satoshi inside the first output, one far beyond what the inputs carry, and the same in the other outputs
        for (vout, sat) in [(0u64, 5u64), (0, 1_000_000), (1, 5), (1, 1_000_000), (2, 1_000_000), (3, 0)] {
            let mut d = sel("getLastSatLocation(bytes32,uint256,uint256)");
            d.extend(hex::decode(id).unwrap());
            d.extend(abi_word(vout));
            d.extend(abi_word(sat));
            v.push(format!("z {}", json!({"jsonrpc": "2.0", "id": 1, "method": "eth_call", "params": [{"to": "0x00000000000000000000000000000000000000fc", "data": format!("0x{}", hex::encode(d))}]})));
        }
        let mut d = sel("getTxDetails(bytes32)");
        d.extend(hex::decode(id).unwrap());
        v.push(format!("z {}", json!({"jsonrpc": "2.0", "id": 1, "method": "eth_call", "params": [{"to": "0x00000000000000000000000000000000000000fd", "data": format!("0x{}", hex::encode(d))}]})));
    }
    v
}
