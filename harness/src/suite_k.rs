//! Suite K: the BRC20 bridge ledger. Deposits / withdrawals through the RPC, user calls to the controller and
//! directly to token contracts (transfer, approve, transferFrom, adversarial mint / burn / owner-only overloads) by
//! several pkscripts, against the real embedded controller bytecode running in revm.
//! The Lean ledger model answers the same `k ...` lines (status of every call, balances, supplies).
//! Oracle (C07 on the real code): total supply = sum of balances of all known holders, only successful deposits /
//! withdrawals change a supply, an overdraft changes nothing, brc20_balance is case-insensitive in the ticker.
use std::collections::{BTreeMap, BTreeSet};
use std::path::Path;

use alloy::primitives::{Address, Bytes, U256};
use alloy_sol_types::{sol, SolCall};
use serde_json::{json, Value};

use crate::eng::{self, h256, pkscript_addr, Inst};
use crate::out::Out;
use crate::rng::Rng;

sol! {
    function transfer(bytes, address, uint256) returns (bool);
    function approve(bytes, address, uint256) returns (bool);
    function transferFrom(bytes, address, address, uint256) returns (bool);
    function mint(bytes, address, uint256) returns (bool);
    function burn(bytes, address, uint256) returns (bool);
    function getTickerAddress(bytes) returns (address);
}
mod tok {
    alloy_sol_types::sol! {
        function transfer(address, uint256) returns (bool);
        function approve(address, uint256) returns (bool);
        function transferFrom(address, address, uint256) returns (bool);
        function mint(address, uint256) returns (bool);
        function burn(address, uint256) returns (bool);
        function balanceOf(address) returns (uint256);
        function totalSupply() returns (uint256);
    }
    pub mod owner {
        alloy_sol_types::sol! {
            function approve(address, address, uint256) returns (bool);
            function transferFrom(address, address, address, uint256) returns (bool);
        }
    }
}

const PKS: [&str; 4] = ["5120aa", "5120bb01", "0014cc", "76a914dd88ac"];
// the last one has a non-ASCII cased letter: tickers are case-insensitive for those too
const TICKS: [&str; 4] = ["ordi", "sats", "Ab", "\u{f6}rdi"];
const CONTROLLER: &str = "0xc54dd4581af2dbf18e4d90840226756e9d2b3cdb";

pub struct Params {
    pub cases: u64,
    pub max_ops: u64,
}

fn amt(r: &mut Rng) -> String {
    match r.below(8) {
        0 => "0".into(),
        1 => "1".into(),
        2 => "57896044618658097711785492504343953926634992332820282019728792003956564819968".into(), // 2^255
        3 => "115792089237316195423570985008687907853269984665640564039457584007913129639935".into(), // 2^256-1
        _ => format!("{}", 1 + r.below(1000)),
    }
}

fn small(r: &mut Rng) -> String {
    if r.chance(12) { amt(r) } else { format!("{}", r.pick(&[0u64, 1, 1, 2, 3, 5, 10, 100])) }
}

pub fn gen(r: &mut Rng, p: &Params) -> Vec<String> {
    let mut lines = Vec::new();
    for c in 0..p.cases {
        lines.push(format!("case K{}", c));
        for _ in 0..(8 + r.below(p.max_ops)) {
            let pk = *r.pick(&PKS);
            let pk2 = *r.pick(&PKS);
            let pk3 = *r.pick(&PKS);
            let t = *r.pick(&TICKS);
            let t_cased = if r.chance(30) { t.to_uppercase() } else { t.to_string() };
            lines.push(match r.below(16) {
                0..=3 => format!("dep {} {} {}", pk, t_cased, amt(r)),
                4 | 5 => format!("wd {} {} {}", pk, t_cased, amt(r)),
                6 => format!("uctl {} transfer {} {} {}", pk, t, pk2, small(r)),
                7 => format!("uctl {} approve {} {} {}", pk, t, if r.chance(40) { "controller" } else { pk2 }, small(r)),
                8 => format!("uctl {} transferFrom {} {} {} {}", pk, t, pk2, pk3, small(r)),
                9 => format!("uctl {} {} {} {} {}", pk, r.pick(&["mint", "burn"]), t, pk2, amt(r)),
                10 => format!("utok {} {} transfer {} {}", pk, t, pk2, small(r)),
                11 => format!("utok {} {} approve {} {}", pk, t, if r.chance(40) { "controller" } else { pk2 }, small(r)),
                12 => format!("utok {} {} transferFrom {} {} {}", pk, t, pk2, pk3, small(r)),
                13 => format!("utok {} {} {} {} {}", pk, t, r.pick(&["mint", "burn"]), pk2, amt(r)),
                14 => format!("utok {} {} {} {} {} {}", pk, t, r.pick(&["approveAs", "transferFromAs3"]), pk2, pk3, amt(r)),
                _ => format!("bal {} {}", pk, t_cased),
            });
        }
        lines.push("audit".into());
    }
    lines
}

struct K {
    inst: Inst,
    ts: u64,
    n: u64,
    /// reference: supply per lower-cased ticker as implied by successful deposits / withdrawals
    supply: BTreeMap<String, U256>,
    holders: BTreeSet<String>,
    tickers: BTreeSet<String>,
}

fn addr_hex(a: Address) -> String {
    hex::encode(a.as_slice())
}
fn who(s: &str) -> Address {
    if s == "controller" {
        CONTROLLER.parse().unwrap()
    } else {
        pkscript_addr(s)
    }
}
fn amount(s: &str) -> U256 {
    U256::from_str_radix(s, 10).unwrap_or(U256::ZERO)
}

impl K {
    /// one transaction in its own block; returns the receipt status
    fn tx(&mut self, method: &str, params: Value) -> Option<bool> {
        self.ts += 600;
        self.n += 1;
        let r = self.inst.call(method, params);
        let status = r.ok.as_ref().and_then(|rc| rc["status"].as_str().map(|s| s == "0x1"));
        let _ = self.inst.call("brc20_finaliseBlock", json!([self.ts, h256(0), if r.is_ok() { 1 } else { 0 }]));
        status
    }
    fn user_call(&mut self, pk: &str, to: &str, data: Vec<u8>) -> Option<bool> {
        let ts = self.ts + 600;
        self.tx(
            "brc20_call",
            json!([pk, to, Value::Null, format!("0x{}", hex::encode(&data)), Value::Null, ts, h256(0), 0, format!("k{}", self.n), 1_000_000, h256(7)]),
        )
    }
    fn token_addr(&self, t: &str) -> Option<String> {
        let data = getTickerAddressCall::new((Bytes::from(t.to_lowercase().into_bytes()),)).abi_encode();
        let r = self.inst.call("eth_call", json!([{"to": CONTROLLER, "data": format!("0x{}", hex::encode(data))}]));
        let s = r.ok?.as_str()?.trim_start_matches("0x").to_string();
        let a = format!("0x{}", &s[s.len().saturating_sub(40)..]);
        if a.chars().skip(2).all(|c| c == '0') {
            None
        } else {
            Some(a)
        }
    }
    fn eth_u256(&self, to: &str, data: Vec<u8>) -> U256 {
        let r = self.inst.call("eth_call", json!([{"to": to, "data": format!("0x{}", hex::encode(data))}]));
        r.ok.and_then(|v| v.as_str().map(|s| U256::from_str_radix(s.trim_start_matches("0x"), 16).unwrap_or(U256::ZERO))).unwrap_or(U256::ZERO)
    }
    fn balance_rpc(&self, pk: &str, t: &str) -> U256 {
        let r = self.inst.call("brc20_balance", json!([pk, t]));
        r.ok.and_then(|v| v.as_str().map(|s| U256::from_str_radix(s.trim_start_matches("0x"), 16).unwrap_or(U256::ZERO))).unwrap_or(U256::ZERO)
    }
}

pub fn exec(lines: &[String], out: &mut Out, scratch: &Path) {
    eng::configure("regtest", false);
    let rt = eng::runtime();
    let mut k: Option<K> = None;
    let mut case = String::new();
    let mut n_inst = 0;
    for line in lines {
        let ws: Vec<&str> = line.split(' ').filter(|w| !w.is_empty()).collect();
        if ws.is_empty() {
            continue;
        }
        if ws[0] == "case" {
            if let Some(mut old) = k.take() {
                old.inst.close();
                let _ = std::fs::remove_dir_all(&old.inst.dir);
            }
            case = ws[1].to_string();
            out.case(&case);
            n_inst += 1;
            let inst = Inst::open(&scratch.join(format!("k{}", n_inst)), rt.clone());
            let _ = inst.call("brc20_initialise", json!([h256(0), 1_700_000_000u64, 0]));
            k = Some(K { inst, ts: 1_700_000_000, n: 0, supply: BTreeMap::new(), holders: BTreeSet::new(), tickers: BTreeSet::new() });
            continue;
        }
        let Some(kk) = k.as_mut() else { continue };
        let st = |b: Option<bool>| if b == Some(true) { "ok" } else { "revert" };
        match ws.as_slice() {
            [op @ ("dep" | "wd"), pk, t, a] => {
                let tl = t.to_lowercase();
                kk.holders.insert(pk.to_string());
                kk.tickers.insert(tl.clone());
                let before = kk.balance_rpc(pk, &tl);
                let before_supply = kk.token_addr(&tl).map(|ta| kk.eth_u256(&ta, tok::totalSupplyCall::new(()).abi_encode())).unwrap_or(U256::ZERO);
                let ts = kk.ts + 600;
                let n = kk.n;
                let status = kk.tx(
                    if *op == "dep" { "brc20_deposit" } else { "brc20_withdraw" },
                    json!([pk, t, format!("0x{:x}", amount(a)), ts, h256(0), 0, format!("k{}", n)]),
                );
                let after = kk.balance_rpc(pk, &tl);
                // the property, on the real code
                let v = amount(a);
                if *op == "dep" {
                    let fits = before_supply.checked_add(v).is_some();
                    if (status == Some(true)) != fits {
                        out.oracle_fail(&case, "deposit", &format!("deposit of {} with supply {}: status {:?}", v, before_supply, status));
                    }
                    let want = if fits { before + v } else { before };
                    if after != want {
                        out.oracle_fail(&case, "deposit", &format!("balance after deposit of {} is {}, expected {}", v, after, want));
                    }
                } else {
                    let can = before >= v && kk.token_addr(&tl).is_some();
                    if (status == Some(true)) != can {
                        out.oracle_fail(&case, "withdraw", &format!("withdrawal of {} from a balance of {}: status {:?}", v, before, status));
                    }
                    let want = if can { before - v } else { before };
                    if after != want {
                        out.oracle_fail(&case, "withdraw", &format!("balance after withdrawal of {} from {} is {}", v, before, after));
                    }
                }
                let (m, sender) = (if *op == "dep" { "mint" } else { "burn" }, "0000000000000000000000000000000000003ca6");
                out.line(&format!("k ctl {} {} {} {} {}", sender, m, hex::encode(tl.as_bytes()), addr_hex(pkscript_addr(pk)), v), st(status));
                audit(kk, out, &case, Some((&tl, *op, status == Some(true), v)));
            }
            ["uctl", pk, what, t, rest @ ..] => {
                let tl = t.to_lowercase();
                let tb = Bytes::from(tl.clone().into_bytes());
                kk.holders.insert(pk.to_string());
                for p in rest.iter().take(rest.len() - 1) {
                    if *p != "controller" {
                        kk.holders.insert(p.to_string());
                    }
                }
                let v = amount(rest[rest.len() - 1]);
                let (data, flat) = match (*what, rest) {
                    ("transfer", [to, _]) => (transferCall::new((tb, who(to), v)).abi_encode(), format!("transfer {} {} {}", hex::encode(tl.as_bytes()), addr_hex(who(to)), v)),
                    ("approve", [sp, _]) => (approveCall::new((tb, who(sp), v)).abi_encode(), format!("approve {} {} {}", hex::encode(tl.as_bytes()), addr_hex(who(sp)), v)),
                    ("transferFrom", [f, to, _]) => (transferFromCall::new((tb, who(f), who(to), v)).abi_encode(), format!("transferFrom {} {} {} {}", hex::encode(tl.as_bytes()), addr_hex(who(f)), addr_hex(who(to)), v)),
                    ("mint", [to, _]) => (mintCall::new((tb, who(to), v)).abi_encode(), format!("mint {} {} {}", hex::encode(tl.as_bytes()), addr_hex(who(to)), v)),
                    ("burn", [f, _]) => (burnCall::new((tb, who(f), v)).abi_encode(), format!("burn {} {} {}", hex::encode(tl.as_bytes()), addr_hex(who(f)), v)),
                    _ => continue,
                };
                let status = kk.user_call(pk, CONTROLLER, data);
                out.line(&format!("k ctl {} {}", addr_hex(pkscript_addr(pk)), flat), st(status));
                audit(kk, out, &case, None);
            }
            ["utok", pk, t, what, rest @ ..] => {
                let tl = t.to_lowercase();
                kk.holders.insert(pk.to_string());
                for p in rest.iter().take(rest.len() - 1) {
                    if *p != "controller" {
                        kk.holders.insert(p.to_string());
                    }
                }
                let v = amount(rest[rest.len() - 1]);
                let Some(ta) = kk.token_addr(&tl) else {
                    // no such token yet: nothing to call (the model answers revert too)
                    out.line(&format!("k tok {} {} transfer {} 0", addr_hex(pkscript_addr(pk)), hex::encode(tl.as_bytes()), addr_hex(pkscript_addr(pk))), "revert");
                    continue;
                };
                let (data, flat) = match (*what, rest) {
                    ("transfer", [to, _]) => (tok::transferCall::new((who(to), v)).abi_encode(), format!("transfer {} {}", addr_hex(who(to)), v)),
                    ("approve", [sp, _]) => (tok::approveCall::new((who(sp), v)).abi_encode(), format!("approve {} {}", addr_hex(who(sp)), v)),
                    ("transferFrom", [f, to, _]) => (tok::transferFromCall::new((who(f), who(to), v)).abi_encode(), format!("transferFrom {} {} {}", addr_hex(who(f)), addr_hex(who(to)), v)),
                    ("mint", [a, _]) => (tok::mintCall::new((who(a), v)).abi_encode(), format!("mint {} {}", addr_hex(who(a)), v)),
                    ("burn", [a, _]) => (tok::burnCall::new((who(a), v)).abi_encode(), format!("burn {} {}", addr_hex(who(a)), v)),
                    ("approveAs", [o, sp, _]) => (tok::owner::approveCall::new((who(o), who(sp), v)).abi_encode(), format!("approveAs {} {} {}", addr_hex(who(o)), addr_hex(who(sp)), v)),
                    ("transferFromAs3", [f, to, _]) => {
                        let sp = pkscript_addr(pk);
                        (tok::owner::transferFromCall::new((sp, who(f), who(to), v)).abi_encode(), format!("transferFromAs {} {} {} {}", addr_hex(sp), addr_hex(who(f)), addr_hex(who(to)), v))
                    }
                    _ => continue,
                };
                let status = kk.user_call(pk, &ta, data);
                out.line(&format!("k tok {} {} {}", addr_hex(pkscript_addr(pk)), hex::encode(tl.as_bytes()), flat), st(status));
                audit(kk, out, &case, None);
            }
            ["bal", pk, t] => {
                let tl = t.to_lowercase();
                let b = kk.balance_rpc(pk, t);
                // tickers are case-insensitive
                if b != kk.balance_rpc(pk, &tl) || b != kk.balance_rpc(pk, &t.to_uppercase()) {
                    out.oracle_fail(&case, "ticker-case", &format!("brc20_balance({}, {}) depends on the case of the ticker", pk, t));
                }
                out.line(&format!("k bal {} {}", hex::encode(tl.as_bytes()), addr_hex(pkscript_addr(pk))), &format!("{}", b));
            }
            ["audit"] => {
                // balances and supplies of everything seen, for the model
                let ticks: Vec<String> = kk.tickers.iter().cloned().collect();
                let holders: Vec<String> = kk.holders.iter().cloned().collect();
                for t in &ticks {
                    let s = kk.token_addr(t).map(|ta| kk.eth_u256(&ta, tok::totalSupplyCall::new(()).abi_encode())).unwrap_or(U256::ZERO);
                    out.line(&format!("k supply {}", hex::encode(t.as_bytes())), &format!("{}", s));
                    for h in &holders {
                        out.line(&format!("k bal {} {}", hex::encode(t.as_bytes()), addr_hex(pkscript_addr(h))), &format!("{}", kk.balance_rpc(h, t)));
                    }
                }
            }
            _ => out.line(line, "bad-op"),
        }
    }
    if let Some(mut old) = k.take() {
        old.inst.close();
    }
    let _ = std::fs::remove_dir_all(scratch);
}

/// total supply = sum of the balances of every holder seen (pkscripts and the controller itself); a supply moves only
/// with a successful deposit / withdrawal, by exactly the amount
fn audit(kk: &mut K, out: &mut Out, case: &str, indexer_op: Option<(&str, &str, bool, U256)>) {
    let ticks: Vec<String> = kk.tickers.iter().cloned().collect();
    for t in ticks {
        let Some(ta) = kk.token_addr(&t) else { continue };
        let supply = kk.eth_u256(&ta, tok::totalSupplyCall::new(()).abi_encode());
        let mut sum = U256::ZERO;
        for h in kk.holders.iter() {
            sum = sum.wrapping_add(kk.eth_u256(&ta, tok::balanceOfCall::new((pkscript_addr(h),)).abi_encode()));
        }
        sum = sum.wrapping_add(kk.eth_u256(&ta, tok::balanceOfCall::new((who("controller"),)).abi_encode()));
        if sum != supply {
            out.oracle_fail(case, "supply-sum", &format!("ticker {}: total supply {} but the holders' balances sum to {}", t, supply, sum));
        }
        let before = kk.supply.get(&t).cloned().unwrap_or(U256::ZERO);
        let want = match indexer_op {
            Some((tt, "dep", true, v)) if tt == t => before.wrapping_add(v),
            Some((tt, "wd", true, v)) if tt == t => before.wrapping_sub(v),
            _ => before,
        };
        if supply != want {
            out.oracle_fail(case, "supply-moved", &format!("ticker {}: supply went from {} to {} ({})", t, before, supply, if indexer_op.is_some() { "indexer operation" } else { "user transaction" }));
        }
        kk.supply.insert(t, supply);
    }
}
