//! Suite A: authentication over real HTTP (the server exactly as `start()` builds it).
//!   http auth=<on|off> hdr=<none|ok|wronguser|wrongpass|malformed|lower|suffix|b64case> kind=<call|notif|batch> methods=<a,b,~c,!>
//! In a batch `~m` is a notification and `!` a malformed entry. Answer: one letter per entry: F forwarded,
//! U 401 Unauthorized, `-` for a bare notification (no response either way; judged by its effect).
//! Oracle (C12): without the correct header no protected method is forwarded and the state does not change; public
//! methods are forwarded; with the correct header (or auth off) everything is forwarded.
use std::io::{Read, Write};
use std::net::TcpStream;
use std::path::Path;

use base64::prelude::*;
use brc20_prog::verif as v;
use serde_json::{json, Value};

use crate::eng;
use crate::out::Out;
use crate::rng::Rng;

pub struct Params {
    pub cases: u64,
}

const HDRS: [&str; 8] = ["none", "ok", "wronguser", "wrongpass", "malformed", "lower", "suffix", "b64case"];

fn method_table() -> (Vec<String>, Vec<String>) {
    let deny: Vec<String> = v::INDEXER_METHODS.iter().cloned().collect();
    let dir = std::env::temp_dir().join(format!("verif-a-names-{}", std::process::id()));
    let rt = eng::runtime();
    let mut inst = eng::Inst::open(&dir, rt);
    let mut names: Vec<String> = inst.method_names().into_iter().filter(|m| !m.starts_with("verif_")).collect();
    names.sort();
    inst.close();
    let _ = std::fs::remove_dir_all(&dir);
    (names, deny)
}

pub fn gen(r: &mut Rng, p: &Params) -> Vec<String> {
    let (names, deny) = method_table();
    let public: Vec<&String> = names.iter().filter(|m| !deny.contains(m)).collect();
    let mut lines = vec!["case A-on".to_string()];
    // every method x every header as a single call, auth on
    for m in &names {
        for h in HDRS {
            lines.push(format!("http auth=on hdr={} kind=call methods={}", h, m));
        }
        lines.push(format!("http auth=on hdr=none kind=notif methods={}", m));
        lines.push(format!("http auth=on hdr=wrongpass kind=notif methods={}", m));
    }
    // batches: a protected method at every position among public ones, as call and as notification, plus malformed entries
    for d in &deny {
        for pos in 0..4usize {
            for form in ["", "~"] {
                let mut entries: Vec<String> = (0..3).map(|_| (*r.pick(&public)).clone()).collect();
                entries.insert(pos.min(entries.len()), format!("{}{}", form, d));
                if r.chance(30) {
                    let at = r.below(entries.len() as u64 + 1) as usize;
                    entries.insert(at, "!".into());
                }
                lines.push(format!("http auth=on hdr={} kind=batch methods={}", r.pick(&["none", "wronguser", "wrongpass", "malformed", "b64case"]), entries.join(",")));
            }
        }
        lines.push(format!("http auth=on hdr=ok kind=batch methods={},{}", d, public[0]));
    }
    for _ in 0..p.cases {
        let n = 1 + r.below(6);
        let entries: Vec<String> = (0..n)
            .map(|_| {
                let m = if r.chance(40) { r.pick(&deny).clone() } else { (*r.pick(&public)).clone() };
                match r.below(10) {
                    0 => "!".to_string(),
                    1 | 2 => format!("~{}", m),
                    _ => m,
                }
            })
            .collect();
        lines.push(format!("http auth=on hdr={} kind=batch methods={}", r.pick(&HDRS), entries.join(",")));
    }
    lines.push("case A-off".to_string());
    for m in &names {
        lines.push(format!("http auth=off hdr={} kind=call methods={}", r.pick(&["none", "wrongpass", "ok"]), m));
    }
    lines
}

fn header_for(kind: &str) -> Option<String> {
    let ok = BASE64_STANDARD.encode("user:pass");
    match kind {
        "none" => None,
        "ok" => Some(format!("Basic {}", ok)),
        "wronguser" => Some(format!("Basic {}", BASE64_STANDARD.encode("resu:pass"))),
        "wrongpass" => Some(format!("Basic {}", BASE64_STANDARD.encode("user:ssap"))),
        "malformed" => Some("Basic !!!".to_string()),
        "lower" => Some(format!("basic {}", ok)),
        "suffix" => Some(format!("Basic {}x", ok)),
        "b64case" => Some(format!("Basic {}", ok.chars().map(|c| if c.is_ascii_lowercase() { c.to_ascii_uppercase() } else { c.to_ascii_lowercase() }).collect::<String>())),
        _ => None,
    }
}

fn post(port: u16, auth: Option<&str>, body: &str) -> Option<String> {
    let mut s = TcpStream::connect(("127.0.0.1", port)).ok()?;
    s.set_read_timeout(Some(std::time::Duration::from_secs(20))).ok()?;
    let mut req = format!("POST / HTTP/1.1\r\nHost: 127.0.0.1\r\nContent-Type: application/json\r\nConnection: close\r\nContent-Length: {}\r\n", body.len());
    if let Some(a) = auth {
        req.push_str(&format!("Authorization: {}\r\n", a));
    }
    req.push_str("\r\n");
    req.push_str(body);
    s.write_all(req.as_bytes()).ok()?;
    let mut buf = Vec::new();
    let _ = s.read_to_end(&mut buf);
    let text = String::from_utf8_lossy(&buf).to_string();
    let (head, body) = text.split_once("\r\n\r\n")?;
    if head.to_lowercase().contains("transfer-encoding: chunked") {
        // de-chunk
        let mut out = String::new();
        let mut rest = body;
        while let Some((len, tail)) = rest.split_once("\r\n") {
            let n = usize::from_str_radix(len.trim(), 16).unwrap_or(0);
            if n == 0 || tail.len() < n {
                break;
            }
            out.push_str(&tail[..n]);
            rest = tail[n..].trim_start_matches("\r\n");
        }
        Some(out)
    } else {
        Some(body.to_string())
    }
}

fn params_of(m: &str) -> Value {
    // harmless, well-typed parameters where cheap; a forwarded call may still fail inside - it only must not be 401
    match m {
        "brc20_mine" => json!([1, 1700000000]),
        "brc20_reorg" => json!([0]),
        "brc20_finaliseBlock" => json!([1700000000, eng::h256(0), 0]),
        "brc20_initialise" => json!([eng::h256(0), 1700000000, 0]),
        _ => json!([]),
    }
}

struct Server {
    port: u16,
    handle: jsonrpsee::server::ServerHandle,
}

fn start_server(rt: &tokio::runtime::Runtime, dir: &Path, auth: bool) -> Server {
    let port = {
        let l = std::net::TcpListener::bind("127.0.0.1:0").unwrap();
        l.local_addr().unwrap().port()
    };
    let _ = std::fs::remove_dir_all(dir);
    std::fs::create_dir_all(dir).unwrap();
    let db = v::Brc20ProgDatabase::new(dir).unwrap();
    let engine = v::BRC20ProgEngine::new(db);
    let mut cfg = v::Brc20ProgConfig::from_env();
    cfg.brc20_prog_rpc_server_url = format!("127.0.0.1:{}", port);
    cfg.brc20_prog_rpc_server_enable_auth = auth;
    cfg.brc20_prog_rpc_server_user = Some("user".into());
    cfg.brc20_prog_rpc_server_password = Some("pass".into());
    let handle = rt.block_on(v::start_rpc_server(engine, cfg)).expect("server");
    Server { port, handle }
}

fn probe(port: u16) -> String {
    // what an unauthenticated observer can see of the state
    // re-serialised through serde_json::Value: object keys sorted (the pool is a map of maps)
    let q = |m: &str, p: Value| {
        let raw = post(port, None, &json!({"jsonrpc":"2.0","id":1,"method":m,"params":p}).to_string()).unwrap_or_default();
        serde_json::from_str::<Value>(&raw).map(|v| v.to_string()).unwrap_or(raw)
    };
    format!("{}|{}|{}", q("eth_blockNumber", json!([])), q("txpool_content", json!([])), q("eth_getTransactionCount", json!(["0x0000000000000000000000000000000000003Ca6", "latest"])))
}

pub fn exec(lines: &[String], out: &mut Out, scratch: &Path) {
    eng::configure("regtest", false);
    let rt = tokio::runtime::Builder::new_multi_thread().worker_threads(4).enable_all().build().unwrap();
    let deny: Vec<String> = v::INDEXER_METHODS.iter().cloned().collect();
    let mut server: Option<Server> = None;
    let mut case = String::new();
    let mut n = 0;
    for line in lines {
        let op = line.split(' ').next().unwrap_or("");
        if op == "case" {
            if let Some(s) = server.take() {
                let _ = s.handle.stop();
                rt.block_on(s.handle.stopped());
            }
            case = line.split(' ').nth(1).unwrap_or("?").to_string();
            out.case(&case);
            n += 1;
            server = Some(start_server(&rt, &scratch.join(format!("a{}", n)), case.ends_with("on")));
            continue;
        }
        let Some(srv) = server.as_ref() else { continue };
        let f: std::collections::BTreeMap<String, String> = line.split(' ').skip(1).filter_map(|w| w.split_once('=')).map(|(a, b)| (a.to_string(), b.to_string())).collect();
        let auth_on = f.get("auth").map(|s| s == "on").unwrap_or(true);
        let hdr = header_for(f.get("hdr").map(|s| s.as_str()).unwrap_or("none"));
        let authorised = !auth_on || f.get("hdr").map(|s| s == "ok").unwrap_or(false);
        let kind = f.get("kind").cloned().unwrap_or_default();
        let entries: Vec<String> = f.get("methods").cloned().unwrap_or_default().split(',').map(|s| s.to_string()).collect();
        let before = if authorised { String::new() } else { probe(srv.port) };
        let mut answer = String::new();
        match kind.as_str() {
            "call" | "notif" => {
                let m = &entries[0];
                let body = if kind == "call" {
                    json!({"jsonrpc":"2.0","id":1,"method":m,"params":params_of(m)}).to_string()
                } else {
                    json!({"jsonrpc":"2.0","method":m,"params":params_of(m)}).to_string()
                };
                let resp = post(srv.port, hdr.as_deref(), &body).unwrap_or_default();
                if kind == "notif" {
                    answer.push('-');
                } else {
                    let v: Value = serde_json::from_str(&resp).unwrap_or(Value::Null);
                    let unauthorized = v["error"]["code"].as_i64() == Some(401);
                    answer.push(if unauthorized { 'U' } else { 'F' });
                    let protected = deny.contains(m);
                    if !authorised && protected && !unauthorized {
                        out.oracle_fail(&case, "unauth-forwarded", &format!("{} without valid credentials ({}) was not answered 401: {}", m, f.get("hdr").cloned().unwrap_or_default(), resp.chars().take(120).collect::<String>()));
                    }
                    if (authorised || !protected) && unauthorized {
                        out.oracle_fail(&case, "auth-refused", &format!("{} was answered 401 although {}", m, if authorised { "the credentials are correct / auth is off" } else { "it is a public method" }));
                    }
                }
            }
            _ => {
                let mut arr = Vec::new();
                for (i, e) in entries.iter().enumerate() {
                    if e == "!" {
                        arr.push(json!(1));
                    } else if let Some(m) = e.strip_prefix('~') {
                        arr.push(json!({"jsonrpc":"2.0","method":m,"params":params_of(m)}));
                    } else {
                        arr.push(json!({"jsonrpc":"2.0","id":i + 1,"method":e,"params":params_of(e)}));
                    }
                }
                let resp = post(srv.port, hdr.as_deref(), &Value::Array(arr).to_string()).unwrap_or_default();
                let v: Value = serde_json::from_str(&resp).unwrap_or(Value::Null);
                let items: Vec<Value> = v.as_array().cloned().unwrap_or_default();
                let mut refused_notifs = items.iter().filter(|r| r["id"].as_i64() == Some(0) && r["error"]["code"].as_i64() == Some(401)).count();
                for (i, e) in entries.iter().enumerate() {
                    if e == "!" {
                        answer.push('F');
                    } else if let Some(m) = e.strip_prefix('~') {
                        let protected = deny.contains(&m.to_string());
                        // refused notifications come back as id-0 error entries, in order
                        if !authorised && protected && refused_notifs > 0 {
                            refused_notifs -= 1;
                            answer.push('U');
                        } else {
                            answer.push('F');
                            if !authorised && protected {
                                out.oracle_fail(&case, "unauth-forwarded", &format!("notification {} at batch position {} was not refused", m, i));
                            }
                        }
                    } else {
                        let r = items.iter().find(|r| r["id"].as_u64() == Some(i as u64 + 1));
                        let unauthorized = r.map(|r| r["error"]["code"].as_i64() == Some(401)).unwrap_or(false);
                        answer.push(if unauthorized { 'U' } else { 'F' });
                        let protected = deny.contains(e);
                        if !authorised && protected && !unauthorized {
                            out.oracle_fail(&case, "unauth-forwarded", &format!("{} at batch position {} of an unauthenticated batch was not answered 401", e, i));
                        }
                        if (authorised || !protected) && unauthorized {
                            out.oracle_fail(&case, "auth-refused", &format!("{} at batch position {} was answered 401", e, i));
                        }
                    }
                }
            }
        }
        if !authorised {
            let after = probe(srv.port);
            if before != after {
                out.oracle_fail(&case, "unauth-state-change", &format!("state visible to an observer changed after `{}`: {} -> {}", line, before, after));
            }
        }
        out.line(line, &answer);
    }
    if let Some(s) = server.take() {
        let _ = s.handle.stop();
        rt.block_on(s.handle.stopped());
    }
    let _ = std::fs::remove_dir_all(scratch);
}
