//! Suite D (C11): concurrent readers against the indexer on the real engine. Each case runs in a child process
//! (stuck threads cannot be killed): reader threads loop over every read method, writer threads loop over indexer
//! sequences; a monitor ends the process when every thread has been stuck for several seconds and names what was in
//! flight. Oracle family: `deadlock`. Odd cases run two indexer threads (two indexer clients at once are outside the
//! property, which speaks of readers against THE indexer, but they make an order inversion between indexer paths visible).
#![allow(dead_code)]
use std::path::Path;
use std::sync::atomic::{AtomicBool, AtomicU64, Ordering};
use std::sync::{Arc, Mutex};
use std::time::{Duration, Instant};

use serde_json::{json, Value};

use crate::asm;
use crate::eng::{self, h256, Inst};
use crate::out::Out;
use crate::rng::Rng;

pub struct Params {
    pub cases: u64,
}

pub fn gen(r: &mut Rng, p: &Params) -> Vec<String> {
    let mut out = Vec::new();
    for c in 0..p.cases {
        out.push(format!("case D{}", c));
        out.push(format!("stress seed={} readers={} writers={} millis={}", r.next() % 1_000_000, 4 + r.below(5), 1 + c % 2, 2500));
    }
    out
}

fn kv(line: &str) -> std::collections::BTreeMap<String, String> {
    line.split(' ').filter_map(|w| w.split_once('=')).map(|(k, v)| (k.to_string(), v.to_string())).collect()
}

pub fn exec(lines: &[String], out: &mut Out, scratch: &Path) {
    let exe = std::env::current_exe().unwrap();
    let mut case = String::new();
    let mut n = 0u64;
    for line in lines {
        if let Some(id) = line.strip_prefix("case ") {
            case = id.to_string();
            out.case(id);
            continue;
        }
        if !line.starts_with("stress ") {
            continue;
        }
        n += 1;
        let f = kv(line);
        let dir = scratch.join(format!("d{}", n));
        let _ = std::fs::remove_dir_all(&dir);
        let res = std::process::Command::new(&exe)
            .args(["dchild", "D", "--dir", dir.to_str().unwrap(), "--seed", f.get("seed").map(|s| s.as_str()).unwrap_or("1"),
                "--readers", f.get("readers").map(|s| s.as_str()).unwrap_or("4"), "--writers", f.get("writers").map(|s| s.as_str()).unwrap_or("1"),
                "--millis", f.get("millis").map(|s| s.as_str()).unwrap_or("2500")])
            .stderr(std::process::Stdio::null())
            .output();
        let _ = std::fs::remove_dir_all(&dir);
        match res {
            Ok(o) => {
                let text = String::from_utf8_lossy(&o.stdout).to_string();
                let last = text.lines().last().unwrap_or("").to_string();
                if last.starts_with("DEADLOCK") {
                    out.oracle_fail(&case, "deadlock", &format!("all threads stuck: {}", last));
                    out.line(line, "deadlock");
                } else if last.starts_with("done") {
                    for w in last.split(' ').skip(1) {
                        if let Some((k, v)) = w.split_once('=') {
                            for _ in 0..v.parse::<u64>().unwrap_or(0) {
                                out.count(k);
                            }
                        }
                    }
                    out.line(line, "ok");
                } else {
                    out.oracle_fail(&case, "stress-child", &format!("child ended with {:?}: {}", o.status.code(), last.chars().take(200).collect::<String>()));
                    out.line(line, "child-failed");
                }
            }
            Err(e) => {
                out.oracle_fail(&case, "stress-child", &format!("cannot start the child: {}", e));
                out.line(line, "child-failed");
            }
        }
    }
}

/// The child: never returns normally; prints `done calls=<n>` or `DEADLOCK inflight=<..>` and exits.
pub fn child(dir: &Path, seed: u64, readers: u64, writers: u64, millis: u64) {
    eng::configure("regtest", false);
    let rt = eng::runtime();
    let inst = Arc::new(Inst::open(dir, rt.clone()));
    // a little chain to read from
    let mut ts = 1_700_000_000u64;
    let _ = inst.call("brc20_initialise", json!([h256(0), ts, 0]));
    ts += 600;
    let code = format!("0x{}", hex::encode(asm::deployer(&asm::store_runtime())));
    let hash = h256(9_000_001);
    let r = inst.call("brc20_deploy", json!(["5120aa", code, Value::Null, ts, hash, 0, "d0", 1_000_000, h256(1)]));
    let contract = r.ok.as_ref().and_then(|v| v["contractAddress"].as_str().map(|s| s.to_string())).unwrap_or_default();
    let txh = r.ok.as_ref().and_then(|v| v["transactionHash"].as_str().map(|s| s.to_string())).unwrap_or_default();
    let _ = inst.call("brc20_finaliseBlock", json!([ts, hash, 1]));
    let bh = inst.call("eth_getBlockByNumber", json!(["0x1", false])).ok.and_then(|b| b["hash"].as_str().map(|s| s.to_string())).unwrap_or_default();
    let _ = inst.call("brc20_mine", json!([3, ts]));

    let stop = Arc::new(AtomicBool::new(false));
    let progress: Arc<Vec<AtomicU64>> = Arc::new((0..(readers + writers)).map(|_| AtomicU64::new(0)).collect());
    let inflight: Arc<Mutex<Vec<String>>> = Arc::new(Mutex::new(vec![String::new(); (readers + writers) as usize]));
    let from = format!("{:?}", eng::pkscript_addr("5120aa"));
    let reads: Vec<(String, Value)> = vec![
        ("eth_blockNumber".into(), json!([])),
        ("eth_getBlockByNumber".into(), json!(["0x1", true])),
        ("eth_getBlockByHash".into(), json!([bh, true])),
        ("eth_getBlockTransactionCountByHash".into(), json!([bh])),
        ("eth_getBlockTransactionCountByNumber".into(), json!(["0x1"])),
        ("eth_getTransactionByHash".into(), json!([txh])),
        ("eth_getTransactionReceipt".into(), json!([txh])),
        ("eth_getTransactionByBlockHashAndIndex".into(), json!([bh, 0])),
        ("eth_getTransactionByBlockNumberAndIndex".into(), json!([1, 0])),
        ("eth_getLogs".into(), json!([{"fromBlock": "0x0", "toBlock": "0x3"}])),
        ("eth_getCode".into(), json!([contract])),
        ("eth_getStorageAt".into(), json!([contract, "0x0"])),
        ("eth_getTransactionCount".into(), json!([from])),
        ("eth_call".into(), json!([{"from": from, "to": contract, "data": format!("0x{}", hex::encode(asm::cat(&[&asm::word(1), &asm::word(2)])))}])),
        ("eth_estimateGas".into(), json!([{"from": from, "to": contract, "data": format!("0x{}", hex::encode(asm::cat(&[&asm::word(1), &asm::word(2)])))}])),
        ("txpool_content".into(), json!([])),
        ("debug_getBlockTraceString".into(), json!(["1"])),
        ("debug_getBlockTraceHash".into(), json!(["1"])),
        ("debug_traceTransaction".into(), json!([txh])),
        ("debug_getRawBlock".into(), json!(["1"])),
        ("debug_getRawBlock".into(), json!([bh])),
        ("debug_getRawReceipts".into(), json!([bh])),
        ("brc20_getTxReceiptByInscriptionId".into(), json!(["d0"])),
        ("brc20_getInscriptionIdByContractAddress".into(), json!([contract])),
        ("brc20_balance".into(), json!(["5120aa", "ordi"])),
    ];
    let mut handles = Vec::new();
    for t in 0..(readers + writers) {
        let (inst, stop, progress, inflight, reads) = (inst.clone(), stop.clone(), progress.clone(), inflight.clone(), reads.clone());
        let is_writer = t >= readers;
        let contract = contract.clone();
        handles.push(std::thread::spawn(move || {
            let mut r = Rng::new(seed.wrapping_mul(31).wrapping_add(t));
            let mut ts = 1_700_100_000u64 + t * 1_000_000;
            let mut k = 0u64;
            while !stop.load(Ordering::SeqCst) {
                let (m, p): (String, Value) = if is_writer {
                    k += 1;
                    ts += 600;
                    match r.below(8) {
                        0 => ("brc20_commitToDatabase".into(), json!([])),
                        1 => ("brc20_clearCaches".into(), json!([])),
                        2 => ("brc20_mine".into(), json!([1, ts])),
                        3 => ("brc20_reorg".into(), json!([r.below(6)])),
                        4 | 5 => {
                            // a block with one call, finalised by the next iteration (or refused: another writer was faster)
                            let hash = h256(9_100_000 + t * 100_000 + k);
                            let _ = inst.call("brc20_call", json!(["5120aa", contract, Value::Null, format!("0x{}", hex::encode(asm::cat(&[&asm::word(1), &asm::word(k)]))), Value::Null, ts, hash, 0, format!("dw{}-{}", t, k), 100_000, h256(2)]));
                            ("brc20_finaliseBlock".into(), json!([ts, hash, 1]))
                        }
                        _ => ("brc20_mine".into(), json!([2, ts])),
                    }
                } else {
                    let (m, p) = r.pick(&reads).clone();
                    (m, p)
                };
                if let Ok(mut g) = inflight.lock() {
                    g[t as usize] = m.clone();
                }
                let _ = inst.call(&m, p);
                progress[t as usize].fetch_add(1, Ordering::SeqCst);
            }
        }));
    }
    // monitor
    let start = Instant::now();
    let mut last: Vec<u64> = progress.iter().map(|p| p.load(Ordering::SeqCst)).collect();
    let mut last_change = Instant::now();
    loop {
        std::thread::sleep(Duration::from_millis(100));
        let now: Vec<u64> = progress.iter().map(|p| p.load(Ordering::SeqCst)).collect();
        if now != last {
            last = now;
            last_change = Instant::now();
        }
        if last_change.elapsed() > Duration::from_secs(8) {
            let g = inflight.lock().map(|g| g.clone()).unwrap_or_default();
            println!("DEADLOCK after {} calls, in flight: {}", last.iter().sum::<u64>(), g.join(","));
            std::process::exit(3);
        }
        if start.elapsed() > Duration::from_millis(millis) && !stop.load(Ordering::SeqCst) {
            stop.store(true, Ordering::SeqCst);
        }
        if stop.load(Ordering::SeqCst) && handles.iter().all(|h| h.is_finished()) {
            println!("done calls={}", last.iter().sum::<u64>());
            std::process::exit(0);
        }
    }
}
