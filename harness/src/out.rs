//! Output sink shared by all suites: `ops` (lines fed to the model), `impl` (what the implementation answered,
//! one line per op line), `oracle` (implementation-vs-reference failures found by the harness itself).
use std::collections::BTreeMap;
use std::fs::File;
use std::io::{BufWriter, Write};
use std::path::Path;

pub struct Out {
    ops: BufWriter<File>,
    imp: BufWriter<File>,
    oracle: BufWriter<File>,
    pub lines: u64,
    pub cases: u64,
    pub oracle_failures: u64,
    pub hist: BTreeMap<String, u64>,
    pub samples: Vec<String>,
    cur_case: Vec<String>,
}

impl Out {
    pub fn new(dir: &Path, suite: &str) -> Self {
        std::fs::create_dir_all(dir).unwrap();
        let f = |n: &str| BufWriter::new(File::create(dir.join(format!("{}.{}", suite, n))).unwrap());
        Out {
            ops: f("ops"),
            imp: f("impl"),
            oracle: f("oracle"),
            lines: 0,
            cases: 0,
            oracle_failures: 0,
            hist: BTreeMap::new(),
            samples: Vec::new(),
            cur_case: Vec::new(),
        }
    }
    pub fn case(&mut self, id: &str) {
        self.flush_sample();
        self.cases += 1;
        self.line(&format!("case {}", id), "case");
    }
    fn flush_sample(&mut self) {
        if !self.cur_case.is_empty() && self.samples.len() < 3 {
            let s: Vec<String> = self.cur_case.iter().take(40).cloned().collect();
            self.samples.push(s.join(" ; "));
        }
        self.cur_case.clear();
    }
    /// One op line and the implementation's answer to it.
    pub fn line(&mut self, op: &str, answer: &str) {
        debug_assert!(!op.contains('\n') && !answer.contains('\n'));
        writeln!(self.ops, "{}", op).unwrap();
        writeln!(self.imp, "{}", answer).unwrap();
        self.lines += 1;
        let kind = op.split(' ').next().unwrap_or("").to_string();
        *self.hist.entry(kind).or_insert(0) += 1;
        if self.cur_case.len() < 40 {
            self.cur_case.push(format!("{} => {}", op, if answer.len() > 60 { &answer[..60] } else { answer }));
        }
    }
    pub fn count(&mut self, what: &str) {
        *self.hist.entry(what.to_string()).or_insert(0) += 1;
    }
    /// The implementation disagreed with the harness's own reference (independent of the Lean model).
    pub fn oracle_fail(&mut self, case: &str, family: &str, what: &str) {
        self.oracle_failures += 1;
        writeln!(self.oracle, "{}\t{}\t{}", case, family, what).unwrap();
    }
    pub fn finish(mut self, dir: &Path, suite: &str) {
        self.flush_sample();
        self.ops.flush().unwrap();
        self.imp.flush().unwrap();
        self.oracle.flush().unwrap();
        let stats = serde_json::json!({
            "suite": suite,
            "lines": self.lines,
            "cases": self.cases,
            "oracle_failures": self.oracle_failures,
            "histogram": self.hist,
            "samples": self.samples,
        });
        std::fs::write(dir.join(format!("{}.stats.json", suite)), serde_json::to_string_pretty(&stats).unwrap()).unwrap();
    }
}
