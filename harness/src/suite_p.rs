//! Suite P: inscription payloads (`decode_bytes_from_inscription_data`, `Base64Bytes::from_bytes`, `select_bytes`).
//!
//! Op lines (text arguments are hex of their UTF-8 bytes, `~` = empty):
//!   dec <hextext> [z]           decode a base64 data string; exec appends the zstd oracle `z` for the model
//!   enc <hexbytes> [zenc]       pack with the published encoder; exec appends the zstd length/hash
//!   sel <rawhex|-> <b64hex|-> [z]
//!   pk  <hexbytes>              oracle only: pack, then decode with 0..3 '=' appended, through both RPC fields
//!   big <kind> <n>              oracle only: payloads around CALLDATA_LIMIT built from a pattern (not sent to the model
//!                               as bytes; the derived `dec` lines are)
//! Oracle (property C15 on the real code): pack->decode is the identity for every padding, hex and base64 fields
//! select the same bytes, no decode yields more than CALLDATA_LIMIT bytes, nothing panics.
use std::panic::{catch_unwind, AssertUnwindSafe};

use alloy::primitives::Bytes;
use base64::prelude::*;
use brc20_prog::types::{Base64Bytes, RawBytes};
use brc20_prog::verif::{decode_bytes_from_inscription_data, select_bytes, CALLDATA_LIMIT};

use crate::out::Out;
use crate::rng::Rng;

fn fnv(b: &[u8]) -> u64 {
    let mut h: u64 = 0xcbf29ce484222325;
    for x in b {
        h = (h ^ (*x as u64)).wrapping_mul(0x100000001b3);
    }
    h
}
fn hx(s: &str) -> String {
    if s.is_empty() {
        "~".into()
    } else {
        hex::encode(s.as_bytes())
    }
}
fn unhx(s: &str) -> String {
    if s == "~" {
        String::new()
    } else {
        String::from_utf8(hex::decode(s).unwrap_or_default()).unwrap_or_default()
    }
}
fn hb(b: &[u8]) -> String {
    if b.is_empty() {
        "~".into()
    } else {
        hex::encode(b)
    }
}
fn unhb(s: &str) -> Vec<u8> {
    if s == "~" {
        vec![]
    } else {
        hex::decode(s).unwrap_or_default()
    }
}

fn pattern(r: &mut Rng, kind: u64, n: usize) -> Vec<u8> {
    match kind {
        0 => r.bytes(n),                                                          // incompressible
        1 => vec![0u8; n],                                                        // zeros
        2 => (0..n).map(|i| if i % 7 == 3 { 0xff } else { 0 }).collect(),         // zero runs + ff
        3 => (0..n).map(|i| if i % 5 == 0 { 0 } else { 1 + (i % 200) as u8 }).collect(), // literals, short zero runs
        4 => (0..n).map(|i| (i % 251) as u8 + 1).collect(),                       // compressible literals
        5 => vec![0xffu8; n],
        _ => (0..n).map(|_| *r.pick(&[0u8, 0, 0, 0xff, 1, 2, 0x41])).collect(),
    }
}

pub struct Params {
    pub cases: u64,
    pub big: u64,
}

pub fn gen(rng: &mut Rng, p: &Params) -> Vec<String> {
    let r = rng;
    let mut lines = vec!["case P0".to_string()];
    // fixed edge cases first
    for s in ["", "=", "==", "A", "AQ", "AQ=", "AQ==", "AA", "AAA", "AAAA", "AB", "AQE", "Ag", "Aw", "/w", "AQ A", "AQ\n", "A=Q", "AP8", "AP8A", "Af8", "Af8B", "Af8A", "Af//", "Af8D", "Af8C", "éé"] {
        lines.push(format!("dec {}", hx(s)));
    }
    for i in 0..p.cases {
        if i % 40 == 39 {
            lines.push(format!("case P{}", i / 40 + 1));
        }
        let n = *r.pick(&[0usize, 1, 2, 3, 4, 5, 7, 31, 64, 254, 255, 256, 257, 511, 1000, 3000, 4095, 4096, 4097, 9000, 70_000]);
        // the larger sizes mostly with incompressible bytes (the encoder must fall back to the raw form)
        let kind = if n >= 4095 && r.chance(60) { 0 } else { r.below(7) };
        let x = pattern(r, kind, n);
        match r.below(6) {
            0 | 1 => {
                lines.push(format!("pk {}", hb(&x)));
                lines.push(format!("enc {}", hb(&x)));
                if let Ok(s) = Base64Bytes::from_bytes(Bytes::from(x.clone())) {
                    let s = s.to_string();
                    let pad = "=".repeat(r.below(4) as usize);
                    lines.push(format!("dec {}", hx(&format!("{}{}", s, pad))));
                    lines.push(format!("sel {} -", hx(&format!("0x{}", hex::encode(&x)))));
                    lines.push(format!("sel - {}", hx(&s)));
                }
            }
            2 => {
                // hand-packed with each prefix, including unknown ones
                let prefix = *r.pick(&[0u8, 0, 1, 1, 2, 3, 4, 0x7f, 0xff]);
                let mut data = vec![prefix];
                data.extend_from_slice(&x);
                let s = BASE64_STANDARD_NO_PAD.encode(&data);
                lines.push(format!("dec {}", hx(&s)));
                lines.push(format!("dec {}", hx(&format!("{}=", s))));
            }
            3 => {
                // damaged text: a character replaced, a character dropped, junk after padding
                let mut data = vec![r.below(3) as u8];
                data.extend_from_slice(&x);
                let mut s: Vec<char> = BASE64_STANDARD_NO_PAD.encode(&data).chars().collect();
                if !s.is_empty() {
                    match r.below(4) {
                        0 => {
                            let i = r.below(s.len() as u64) as usize;
                            s[i] = *r.pick(&['-', '_', ' ', '=', '*', 'B', '/', '+']);
                        }
                        1 => {
                            s.pop();
                        }
                        2 => {
                            s.extend("=junk".chars());
                        }
                        _ => {
                            let i = s.len() - 1;
                            s[i] = *r.pick(&['B', 'C', 'D', 'Q', 'g', 'w', '/']);
                        }
                    }
                }
                lines.push(format!("dec {}", hx(&s.into_iter().collect::<String>())));
            }
            4 => {
                // nada streams written by hand: reserved sequences, dangling FF, runs
                let mut data = vec![1u8];
                for _ in 0..r.below(12) {
                    match r.below(6) {
                        0 => data.extend_from_slice(&[0xff, 0]),
                        1 => data.extend_from_slice(&[0xff, 1]),
                        2 => data.extend_from_slice(&[0xff, 2]),
                        3 => {
                            data.push(0xff);
                            data.push(3 + r.below(253) as u8)
                        }
                        4 => data.push(0xff),
                        _ => data.push(1 + r.below(254) as u8),
                    }
                }
                lines.push(format!("dec {}", hx(&BASE64_STANDARD_NO_PAD.encode(&data))));
            }
            _ => {
                // field selection
                let raw = match r.below(5) {
                    0 => "-".to_string(),
                    1 => hx(&format!("0x{}", hex::encode(&x))),
                    2 => hx(&hex::encode(&x)),
                    3 => hx(&format!("0x{}", hex::encode(&x).to_uppercase())),
                    _ => hx(&format!("0x{}z", hex::encode(&x))),
                };
                let b = match r.below(3) {
                    0 => "-".to_string(),
                    1 => hx(&BASE64_STANDARD_NO_PAD.encode([&[0u8][..], &x[..]].concat())),
                    _ => hx("!!"),
                };
                lines.push(format!("sel {} {}", raw, b));
            }
        }
    }
    // around the limit and decompression bombs (few, they are large)
    lines.push("case Pbig".to_string());
    for i in 0..p.big {
        let kind = i % 7;
        for d in [-1i64, 0, 1] {
            lines.push(format!("big {} {}", kind, d));
        }
    }
    lines.push("big bomb-nada 0".into());
    lines.push("big bomb-zstd 0".into());
    lines
}

fn real_decode(s: &str) -> Result<Option<Vec<u8>>, ()> {
    catch_unwind(AssertUnwindSafe(|| decode_bytes_from_inscription_data(s).map(|b| b.to_vec()))).map_err(|_| ())
}

fn show(r: &Result<Option<Vec<u8>>, ()>) -> String {
    match r {
        Err(_) => "panic".into(),
        Ok(None) => "none".into(),
        Ok(Some(b)) => format!("some {} {}", b.len(), fnv(b)),
    }
}

/// zstd oracle for the model: the outcome of the zstd branch, if the text selects it.
fn z_oracle(s: &str, r: &Result<Option<Vec<u8>>, ()>) -> String {
    let stripped = s.split_once('=').map(|x| x.0).unwrap_or(s);
    match BASE64_STANDARD_NO_PAD.decode(stripped) {
        Ok(d) if d.first() == Some(&2) => match r {
            Ok(Some(b)) => format!("{}:{}", b.len(), fnv(b)),
            _ => "none".into(),
        },
        _ => "-".into(),
    }
}

fn do_dec(out: &mut Out, case: &str, s: &str) -> Result<Option<Vec<u8>>, ()> {
    let r = real_decode(s);
    let z = z_oracle(s, &r);
    match &r {
        Err(_) => out.oracle_fail(case, "panic", &format!("decode panicked on text {:?}", cut(s))),
        Ok(Some(b)) if b.len() > CALLDATA_LIMIT => {
            out.oracle_fail(case, "unbounded", &format!("decode yielded {} bytes > limit from {} chars", b.len(), s.len()))
        }
        _ => {}
    }
    out.line(&format!("dec {} {}", hx(s), z), &show(&r));
    r
}

fn zstd_len(x: &[u8]) -> Option<(usize, u64)> {
    let mut buf = vec![0u8; CALLDATA_LIMIT];
    match zstd_safe::compress(buf.as_mut_slice(), x, 22) {
        Ok(n) => Some((n, fnv(&buf[..n]))),
        Err(_) => None,
    }
}

fn check_pack(out: &mut Out, case: &str, x: &[u8], what: &str) -> Option<String> {
    let packed = catch_unwind(AssertUnwindSafe(|| Base64Bytes::from_bytes(Bytes::from(x.to_vec()))));
    let s = match packed {
        Err(_) => {
            out.oracle_fail(case, "panic", &format!("from_bytes panicked ({})", what));
            return None;
        }
        Ok(Err(_)) => return None, // the published encoder refuses: nothing is claimed
        Ok(Ok(s)) => s.to_string(),
    };
    if s.contains('=') {
        out.oracle_fail(case, "padding", &format!("encoder produced padding ({})", what));
    }
    for pad in ["", "=", "==", "==="] {
        let r = real_decode(&format!("{}{}", s, pad));
        if r != Ok(Some(x.to_vec())) {
            out.oracle_fail(
                case,
                "roundtrip",
                &format!("{}: packed (prefix char {:?}) + {:?} decodes to {} instead of the {} original bytes", what, s.chars().next(), pad, show(&r), x.len()),
            );
            break;
        }
    }
    // the two RPC fields must select the same bytes
    let via_hex = select_bytes(&Some(RawBytes::new(format!("0x{}", hex::encode(x)))), &None).ok().flatten().map(|b| b.to_vec());
    let via_b64 = select_bytes(&None, &Some(Base64Bytes::new(s.clone()))).ok().flatten().map(|b| b.to_vec());
    if via_hex != via_b64 {
        out.oracle_fail(case, "field-independence", &format!("{}: hex field selects {:?} bytes, base64 field {:?} bytes", what, via_hex.map(|b| b.len()), via_b64.map(|b| b.len())));
    }
    Some(s)
}

pub fn exec(lines: &[String], out: &mut Out) {
    let mut case = "P?".to_string();
    for line in lines {
        let ws: Vec<&str> = line.split(' ').filter(|w| !w.is_empty()).collect();
        match ws.as_slice() {
            ["case", id, ..] => {
                case = id.to_string();
                out.case(id);
            }
            ["dec", h, ..] => {
                let _ = do_dec(out, &case, &unhx(h));
            }
            ["enc", h, ..] => {
                let x = unhb(h);
                let z = zstd_len(&x);
                let zs = z.map(|(n, f)| format!("{}:{}", n, f)).unwrap_or("none".into());
                let ans = match catch_unwind(AssertUnwindSafe(|| Base64Bytes::from_bytes(Bytes::from(x.clone())))) {
                    Err(_) => "panic".to_string(),
                    Ok(Err(e)) => {
                        // C15: every byte string up to the limit can be packed with the published encoder
                        if x.len() <= 1024 * 1024 {
                            out.oracle_fail(&case, "encoder-failed", &format!("Base64Bytes::from_bytes refused {} bytes: {}", x.len(), e));
                        }
                        "err".to_string()
                    }
                    Ok(Ok(s)) => {
                        let s = s.to_string();
                        let d = BASE64_STANDARD_NO_PAD.decode(&s).unwrap_or_default();
                        match d.first() {
                            Some(2) => "p2".to_string(),
                            Some(p) => format!("p{} {}", p, fnv(s.as_bytes())),
                            None => "p?".to_string(),
                        }
                    }
                };
                out.line(&format!("enc {} {}", h, zs), &ans);
            }
            ["sel", r, b, ..] => {
                let raw = if *r == "-" { None } else { Some(RawBytes::new(unhx(r))) };
                let b64s = if *b == "-" { None } else { Some(unhx(b)) };
                let b64 = b64s.clone().map(Base64Bytes::new);
                let res = catch_unwind(AssertUnwindSafe(|| select_bytes(&raw, &b64).map(|o| o.map(|b| b.to_vec())).map_err(|_| ())));
                let z = match &b64s {
                    Some(s) => {
                        let rr = real_decode(s);
                        z_oracle(s, &rr)
                    }
                    None => "-".into(),
                };
                let ans = match res {
                    Err(_) => {
                        out.oracle_fail(&case, "panic", "select_bytes panicked");
                        "panic".to_string()
                    }
                    Ok(Err(_)) => "err".to_string(),
                    Ok(Ok(o)) => format!("ok {}", show(&Ok(o))),
                };
                out.line(&format!("sel {} {} {}", r, b, z), &ans);
            }
            ["pk", h] => {
                let x = unhb(h);
                check_pack(out, &case, &x, &format!("{} bytes", x.len()));
                out.count("pk");
            }
            ["big", kind, d] => {
                let d: i64 = d.parse().unwrap_or(0);
                let mut rr = Rng::new(7 + d as u64);
                match *kind {
                    "bomb-nada" => {
                        // 4113 pairs FF FF expand to 255 zeros each: 8 KiB of input, > 1 MiB of output
                        for pairs in [4112usize, 4113, 8000] {
                            let mut data = vec![1u8];
                            for _ in 0..pairs {
                                data.extend_from_slice(&[0xff, 0xff]);
                            }
                            let s = BASE64_STANDARD_NO_PAD.encode(&data);
                            let r = do_dec(out, &case, &s);
                            if pairs * 255 > CALLDATA_LIMIT && r != Ok(None) {
                                out.oracle_fail(&case, "unbounded", &format!("nada bomb of {} zeros accepted", pairs * 255));
                            }
                        }
                    }
                    "bomb-zstd" => {
                        for n in [CALLDATA_LIMIT, CALLDATA_LIMIT + 1, 8 * CALLDATA_LIMIT] {
                            let x = vec![0u8; n];
                            let mut buf = vec![0u8; 1 << 16];
                            if let Ok(k) = zstd_safe::compress(buf.as_mut_slice(), &x, 3) {
                                let mut data = vec![2u8];
                                data.extend_from_slice(&buf[..k]);
                                let s = BASE64_STANDARD_NO_PAD.encode(&data);
                                let r = do_dec(out, &case, &s);
                                if n > CALLDATA_LIMIT && r != Ok(None) {
                                    out.oracle_fail(&case, "unbounded", &format!("zstd bomb of {} bytes accepted", n));
                                }
                                if n == CALLDATA_LIMIT && r != Ok(Some(x.clone())) {
                                    out.oracle_fail(&case, "roundtrip", "zstd frame of exactly the limit rejected");
                                }
                            }
                        }
                    }
                    k => {
                        let kind: u64 = k.parse().unwrap_or(0);
                        let n = (CALLDATA_LIMIT as i64 + d) as usize;
                        let x = pattern(&mut rr, kind, n);
                        // through the published encoder (claims only when it accepts and n <= limit)
                        if n <= CALLDATA_LIMIT {
                            if let Some(s) = check_pack(out, &case, &x, &format!("pattern {} of limit{:+} bytes", kind, d)) {
                                let _ = do_dec(out, &case, &s);
                            }
                        }
                        // hand-packed raw and nada at the boundary: accepted iff n <= limit, whatever the prefix
                        for prefix in [0u8, 1u8] {
                            let mut data = vec![prefix];
                            if prefix == 0 {
                                data.extend_from_slice(&x);
                            } else {
                                data.extend(nada::encode(x.iter().cloned()));
                            }
                            let s = BASE64_STANDARD_NO_PAD.encode(&data);
                            let r = do_dec(out, &case, &s);
                            let want = if n <= CALLDATA_LIMIT { Ok(Some(x.clone())) } else { Ok(None) };
                            if r != want {
                                out.oracle_fail(
                                    &case,
                                    if n <= CALLDATA_LIMIT { "roundtrip" } else { "unbounded" },
                                    &format!("prefix {} payload of limit{:+} bytes (pattern {}): {}", prefix, d, kind, show(&r)),
                                );
                            }
                        }
                    }
                }
                out.count("big");
            }
            _ => out.line(line, "bad-op"),
        }
    }
}

fn cut(s: &str) -> String {
    s.chars().take(80).collect()
}
