//! Suite E: histories of indexer calls and queries through the real RPC module of a real engine.
//!
//! gen  writes a script (explicit parameters on every line); it keeps the *reference* bookkeeping (heights, block
//!      under construction, signer nonces, pending pool) so every line also carries what the property expects.
//! exec runs the script on a main instance and on a twin that differs only in commit/clear/reopen schedule and
//!      never sees the read requests; at an accepted reorg the twin is replaced by a fresh instance replayed up to
//!      the target.  It writes, for the Lean model, one line per indexer op: the op in flat `k=v` form plus the
//!      events recorded by the hooks (table writes, EVM runs), and answers with `<response class> | <state digest>`.
//! Oracles (implementation only): twin agreement (C01 C02 C03 C10), protocol enforcement and rejected-is-noop (C05),
//!      chain coherence (C06), pending pool (C08), logs (C18), context probe (C19), eth_call prediction (C17).
use std::collections::{BTreeMap, BTreeSet};
use std::path::{Path, PathBuf};
use std::sync::Arc;

use alloy::primitives::{keccak256, Address};
use base64::prelude::*;
use brc20_prog::verif as v;
use serde_json::{json, Value};

use crate::asm;
use crate::eng::{self, fnv, h256, pkscript_addr, Inst, Resp, Signer};
use crate::out::Out;
use crate::rng::Rng;

pub struct Params {
    pub cases: u64,
    pub max_ops: u64,
}

const PKS: [&str; 4] = ["5120aa", "5120bb01", "0014cc", "76a914dd88ac"];
const W: u64 = 10;

fn kv(line: &str) -> BTreeMap<String, String> {
    line.split(' ').skip(1).filter_map(|w| w.split_once('=')).map(|(a, b)| (a.to_string(), b.to_string())).collect()
}

fn code_for(kind: &str) -> Vec<u8> {
    let rt = match kind {
        "store" => asm::store_runtime(),
        "log0" => asm::logger_runtime(0),
        "log1" => asm::logger_runtime(1),
        "log2" => asm::logger_runtime(2),
        "log3" => asm::logger_runtime(3),
        "log4" => asm::logger_runtime(4),
        "revert" => asm::reverter_runtime(),
        "burn" => asm::burner_runtime(),
        "worker" => asm::worker_runtime(),
        "creator" => asm::creator_runtime(),
        "probe" => asm::probe_runtime(),
        "suicide" => asm::suicide_runtime(),
        "height" => asm::height_runtime(),
        "envread" => asm::envread_runtime(),
        // init code whose installed runtime is the 32-byte block number it ran in (C17: a simulated creation must
        // return exactly the code the deployment installs)
        "numinit" => return asm::cat(&[&[asm::NUMBER], &asm::push(0), &[asm::MSTORE], &asm::push(32), &asm::push(0), &[asm::RETURN]]),
        "badinit" => return vec![asm::INVALID],
        "revinit" => return asm::cat(&[&asm::push(0), &asm::push(0), &[asm::REVERT]]),
        _ => asm::store_runtime(),
    };
    asm::deployer(&rt)
}

// ------------------------------------------------------------------------------------------------ generation

#[derive(Clone, Default)]
struct GenState {
    height: Option<u64>,             // latest finalised height
    max_ever: u64,
    idx: u64,                        // txs in the block under construction
    ts: u64,
    hash: u64,                       // block hash counter (explicit hashes are h256(1_000_000 + n))
    contracts: Vec<(String, String)>, // (inscription id, kind) of successfully deployed contracts
    nonces: BTreeMap<u8, u64>,       // signer -> account nonce
    pool: BTreeMap<(u8, u64), u64>,  // (signer, nonce) -> block in which it was parked
    insc: u64,
    used_hashes: BTreeSet<u64>,
}

impl GenState {
    fn next(&self) -> u64 {
        self.height.map_or(0, |h| h + 1)
    }
}

pub fn gen(rng: &mut Rng, p: &Params) -> Vec<String> {
    let mut lines = Vec::new();
    for c in 0..p.cases {
        lines.push(format!("case E{}", c));
        gen_case(&mut rng.fork(), p, &mut lines);
    }
    lines
}

fn gen_case(r: &mut Rng, p: &Params, out: &mut Vec<String>) {
    let mut g = GenState::default();
    let mut snaps: BTreeMap<u64, GenState> = BTreeMap::new(); // state at the end of each block
    g.ts = 1_700_000_000;
    // genesis
    if r.chance(85) {
        out.push(format!("init ts={} hash={} height=0", g.ts, h256(0)));
        g.height = Some(0);
        g.contracts.push(("BRC20_CONTROLLER_INIT".into(), "controller".into()));
    } else {
        let n = 1 + r.below(3);
        out.push(format!("mine count={} ts={}", n, g.ts));
        for h in 0..n {
            g.height = Some(h);
            snaps.insert(h, g.clone());
        }
    }
    g.max_ever = g.height.unwrap();
    snaps.insert(g.height.unwrap(), g.clone());
    // nothing is committed yet: a clear / reopen goes back to the empty database
    let mut committed: Option<GenState> = None;
    let n_ops = 6 + r.below(p.max_ops);
    let mut in_block = false;
    let mut block_hash = 0u64;
    for _ in 0..n_ops {
        let roll = r.below(100);
        if !in_block && roll < 8 {
            let n = *r.pick(&[1u64, 1, 2, 3, 9, 10, 11]);
            g.ts += 600;
            out.push(format!("mine count={} ts={}", n, g.ts));
            for _ in 0..n {
                let h = g.next();
                expire_pool(&mut g, h);
                g.height = Some(h);
                snaps.insert(h, g.clone());
            }
            g.max_ever = g.max_ever.max(g.height.unwrap());
            continue;
        }
        if (!in_block && roll < 16) || (in_block && roll < 3) {
            // mid-block only clearCaches is possible: it also forgets the block under construction
            let what = if in_block { "clear" } else { *r.pick(&["commit", "commit", "clear", "reopen"]) };
            in_block = false;
            out.push(what.to_string());
            if what == "commit" {
                committed = Some(g.clone());
            } else {
                // uncommitted blocks and parked transactions are gone
                let (max_ever, insc, used, hash) = (g.max_ever, g.insc, g.used_hashes.clone(), g.hash);
                match &committed {
                    Some(c) => g = c.clone(),
                    None => {
                        g = GenState::default();
                        g.ts = 1_700_000_000;
                    }
                }
                g.max_ever = max_ever; // written through
                g.insc = insc;
                g.used_hashes = used;
                g.hash = hash;
                let top = g.height;
                snaps.retain(|k, _| Some(*k) <= top);
                if g.height.is_none() {
                    // an empty database again: start over with a mined genesis so that the script stays meaningful
                    g.ts += 600 * 1000;
                    out.push(format!("mine count=1 ts={}", g.ts));
                    g.height = Some(0);
                    g.max_ever = g.max_ever.max(0);
                    snaps.insert(0, g.clone());
                }
            }
            continue;
        }
        if !in_block && roll < 22 {
            let h = g.height.unwrap();
            let lo = g.max_ever.saturating_sub(W);
            let n = match r.below(10) {
                0 => h + 1,                         // above the tip: refused
                1 if lo > 0 => lo - 1,              // one below the window: refused
                2 => h,                             // the tip itself
                3 => lo.min(h),                     // the deepest allowed
                _ => lo.min(h) + r.below(h - lo.min(h) + 1),
            };
            out.push(format!("reorg n={}", n));
            if n <= h && g.max_ever - n.min(g.max_ever) <= W {
                if let Some(s) = snaps.get(&n) {
                    let (max_ever, insc, used) = (g.max_ever, g.insc, g.used_hashes.clone());
                    g = s.clone();
                    g.max_ever = max_ever;
                    g.insc = insc; // inscription ids stay unique across branches
                    g.used_hashes = used; // hashes too: a re-mined block gets a fresh hash
                    snaps.retain(|k, _| *k <= n);
                    committed = Some(g.clone()); // an accepted reorg ends with a commit
                }
            }
            continue;
        }
        if roll < 33 {
            out.push(gen_read(r, &g));
            continue;
        }
        if !in_block && roll < 35 && g.height.is_some() && g.contracts.iter().any(|c| c.1 == "log1" || c.1 == "log2") && r.chance(50) {
            // log burst (C18): three consecutive blocks with two or three logs each, then range queries over them
            let logc: Vec<(String, String)> = g.contracts.iter().filter(|c| c.1 == "log1" || c.1 == "log2").cloned().collect();
            let pk_off = r.below(4) as usize;
            let mut last_calls: Vec<(String, String, String)> = Vec::new(); // (pk, target, data) of the third block
            for blk in 0..3 {
                g.ts += 600;
                g.hash += 1;
                let bh = 1_000_000 + g.hash;
                let n_calls = 2 + r.below(2);
                last_calls.clear();
                for i in 0..n_calls {
                    let c = r.pick(&logc).clone();
                    let mut rr = r.fork();
                    // the third block uses a different sender for each call (see the rebuild below)
                    let pk = if blk == 2 { PKS[(pk_off + i as usize) % 4] } else { *r.pick(&PKS) };
                    let data = hex::encode(call_data(&mut rr, &c.1));
                    out.push(format!("call pk={} to={} data={} ts={} hash={} idx={} insc=i{} len=auto txid={} field=hex", pk, c.0, data, g.ts, h256(bh), i, g.insc, h256(0xabc000 + g.insc + 1)));
                    last_calls.push((pk.to_string(), c.0.clone(), data));
                    g.insc += 1;
                }
                out.push(format!("fin ts={} hash={} count={}", g.ts, h256(bh), n_calls));
                let hh = g.next();
                expire_pool(&mut g, hh);
                g.height = Some(hh);
                g.max_ever = g.max_ever.max(hh);
                snaps.insert(hh, g.clone());
            }
            let h = g.height.unwrap();
            out.push(format!("read kind=logs from={} to={} addr=- topics=none", h.saturating_sub(2), h));
            out.push(format!("read kind=logs from={} to={} addr={} topics=-", h.saturating_sub(3), h, logc[0].0));
            out.push(format!("read kind=logs from={} to=latest addr=- topics={}", h.saturating_sub(1), 100 + r.below(3)));
            // rebuild (C18 / C01): the third block is rolled back and replaced by a block that holds only its LAST call
            // again (same sender, nonce, target and data, hence the same transaction hash, now at index 0): every
            // per-block index row of the discarded block must be gone, or the logs of that call are served twice
            if r.chance(60) && h >= 1 && g.max_ever - (h - 1) <= W && snaps.contains_key(&(h - 1)) && !last_calls.is_empty() {
                let n = h - 1;
                out.push(format!("reorg n={}", n));
                let (max_ever, insc, used, hc, ts) = (g.max_ever, g.insc, g.used_hashes.clone(), g.hash, g.ts);
                g = snaps.get(&n).unwrap().clone();
                g.max_ever = max_ever;
                g.insc = insc;
                g.used_hashes = used;
                g.hash = hc; // the replacement block gets a fresh hash
                g.ts = ts;
                snaps.retain(|k, _| *k <= n);
                committed = Some(g.clone());
                g.ts += 600;
                g.hash += 1;
                let bh = 1_000_000 + g.hash;
                let (pk, to, data) = last_calls.last().unwrap().clone();
                out.push(format!("call pk={} to={} data={} ts={} hash={} idx=0 insc=i{} len=auto txid={} field=hex", pk, to, data, g.ts, h256(bh), g.insc, h256(0xabc000 + g.insc + 1)));
                g.insc += 1;
                out.push(format!("fin ts={} hash={} count=1", g.ts, h256(bh)));
                let hh = g.next();
                expire_pool(&mut g, hh);
                g.height = Some(hh);
                g.max_ever = g.max_ever.max(hh);
                snaps.insert(hh, g.clone());
                out.push(format!("read kind=logs from={} to={} addr=- topics=none", hh.saturating_sub(1), hh));
                out.push(format!("read kind=logs from={} to=latest addr=- topics=-", hh));
            }
            continue;
        }
        if !in_block && roll < 37 && g.height.is_some() {
            // window-edge scenario: park nonce+1, let exactly 9 / 10 / 11 blocks pass, then submit the missing nonce
            let s = 1 + r.below(3) as u8;
            let acct = *g.nonces.get(&s).unwrap_or(&0);
            if !g.pool.contains_key(&(s, acct + 1)) {
                let k = *r.pick(&[9u64, 10, 10, 11, 1, 2]);
                let p_block = g.next();
                g.hash += 1;
                // the parked transaction calls a context probe if one is deployed (C19: it must see its own txid later)
                let probes: Vec<String> = g.contracts.iter().filter(|c| c.1 == "probe").map(|c| c.0.clone()).collect();
                let (to, data) = if probes.is_empty() { ("create:store".to_string(), String::new()) } else { (r.pick(&probes).clone(), hex::encode(&keccak256(b"getTxId()")[..4])) };
                out.push(format!(
                    "transact signer={} nonce={} to={} data={} ts={} hash={} idx=0 insc=i{} len={} txid={} field=hex chain=ok junk=false exp=0",
                    s, acct + 1, to, data, g.ts + 600, h256(1_000_000 + g.hash), g.insc, 60_000 + r.below(50_000), h256(0xabc000 + g.insc + 1)
                ));
                g.insc += 1;
                g.pool.insert((s, acct + 1), p_block);
                g.ts += 600;
                // refresh variant (C08): after 8 blocks the very same signed transaction is inscribed again (new
                // inscription id, txid and length): the waiting entry is replaced, so the 10 blocks count from the second
                // inscription; the gap is filled 4 blocks later (12 after the first, 4 after the second): still executed
                let refresh = k >= 9 && r.chance(45);
                let segments: Vec<u64> = if refresh { vec![8, 4] } else { vec![k] };
                for (si, seg) in segments.iter().enumerate() {
                    if si == 1 {
                        g.hash += 1;
                        out.push(format!(
                            "transact signer={} nonce={} to={} data={} ts={} hash={} idx=0 insc=i{} len={} txid={} field=hex chain=ok junk=false exp=0",
                            s, acct + 1, to, data, g.ts + 600, h256(1_000_000 + g.hash), g.insc, 120_000 + r.below(20_000), h256(0xabc000 + g.insc + 1)
                        ));
                        g.insc += 1;
                        g.pool.insert((s, acct + 1), g.next());
                        g.ts += 600;
                    }
                    out.push(format!("mine count={} ts={}", seg, g.ts));
                    for _ in 0..*seg {
                        let h = g.next();
                        expire_pool(&mut g, h);
                        g.height = Some(h);
                        snaps.insert(h, g.clone());
                    }
                }
                g.max_ever = g.max_ever.max(g.height.unwrap());
                // the pool is persistent state: a commit (and a restart) in between must not change what happens
                if r.chance(50) {
                    out.push("commit".to_string());
                    committed = Some(g.clone());
                    if r.chance(30) {
                        out.push("reopen".to_string());
                    }
                }
                // the missing nonce arrives in block p_block + k
                g.ts += 600;
                g.hash += 1;
                let bh = 1_000_000 + g.hash;
                let h = g.next();
                let mut appended = 1;
                let mut nn = acct + 1;
                while let Some(pb) = g.pool.remove(&(s, nn)) {
                    if pb + W > h {
                        appended += 1;
                    }
                    nn += 1;
                }
                g.nonces.insert(s, acct + appended);
                out.push(format!(
                    "transact signer={} nonce={} to=create:store data= ts={} hash={} idx=0 insc=i{} len={} txid={} field=hex chain=ok junk=false exp={}",
                    s, acct, g.ts, h256(bh), g.insc, 60_000 + r.below(50_000), h256(0xabc000 + g.insc + 1), appended
                ));
                g.insc += 1;
                out.push(format!("fin ts={} hash={} count={}", g.ts, h256(bh), appended));
                let hh = g.next();
                expire_pool(&mut g, hh);
                g.height = Some(hh);
                g.max_ever = g.max_ever.max(hh);
                snaps.insert(hh, g.clone());
            }
            continue;
        }
        if roll < 39 {
            // a protocol violation; must be rejected without effect
            let which = if in_block {
                *r.pick(&["idx", "ts", "hash", "fincount", "commitmid", "reorgmid", "minemid", "bothfields", "bothempty", "nofield", "badpk"])
            } else {
                *r.pick(&["idx", "duphash", "duphash", "duphash", "dupfin", "fincount", "bothfields", "bothempty", "nofield", "badpk", "initagain"])
            };
            let hash = if in_block { block_hash } else { 1_000_000 + g.hash + 1 };
            let ts = if in_block { g.ts } else { g.ts + 600 };
            out.push(format!("bad which={} ts={} hash={} idx={} insc=bad{}", which, ts, h256(hash), g.idx, g.insc));
            g.insc += 1;
            continue;
        }
        // a transaction for the block under construction
        if !in_block {
            g.ts += 600;
            g.hash += 1;
            block_hash = if r.chance(25) { 0 } else { 1_000_000 + g.hash };
            g.idx = 0;
        }
        let base = format!("ts={} hash={} idx={} insc=i{}", g.ts, h256(block_hash), g.idx, g.insc);
        g.insc += 1;
        let txid = h256(0xabc000 + g.insc);
        let field = if r.chance(35) { "b64" } else { "hex" };
        let started = match r.below(12) {
            0 | 1 => {
                let kind = *r.pick(&["store", "log1", "log2", "log3", "log4", "log0", "revert", "burn", "worker", "creator", "probe", "suicide", "badinit", "revinit", "height", "height", "numinit", "envread", "envread"]);
                let pk = *r.pick(&PKS);
                out.push(format!("deploy pk={} code={} {} len=auto txid={} field={}", pk, kind, base, txid, field));
                if kind != "badinit" && kind != "revinit" {
                    g.contracts.push((format!("i{}", g.insc - 1), kind.to_string()));
                }
                1
            }
            2..=5 => {
                let pk = *r.pick(&PKS);
                let cands: Vec<&(String, String)> = g.contracts.iter().filter(|c| c.1 != "controller").collect();
                let (target, kind) = if r.chance(4) {
                    // an explicit address instead of an inscription id: the zero address, one without code, a precompile
                    (r.pick(&["0x0000000000000000000000000000000000000000", "0x00000000000000000000000000000000000000aa", "0x0000000000000000000000000000000000000004"]).to_string(), "none".to_string())
                } else if cands.is_empty() || r.chance(8) {
                    ("none".to_string(), "none".to_string())
                } else {
                    let c = *r.pick(&cands);
                    (c.0.clone(), c.1.clone())
                };
                let data = call_data(r, &kind);
                let len = if r.chance(15) { format!("{}", r.below(4)) } else { "auto".into() };
                out.push(format!("call pk={} to={} data={} {} len={} txid={} field={}", pk, target, hex::encode(&data), base, len, txid, field));
                1
            }
            6 => {
                let pk = *r.pick(&PKS);
                let tick = *r.pick(&["ordi", "ORDI", "sats", "Ab"]);
                let amt = *r.pick(&["0", "1", "1000", "340282366920938463463374607431768211456"]);
                out.push(format!("{} pk={} tick={} amt={} {}", r.pick(&["deposit", "deposit", "withdraw"]), pk, tick, amt, base));
                1
            }
            _ => {
                // a signed transaction
                let s = 1 + r.below(3) as u8;
                let acct = *g.nonces.get(&s).unwrap_or(&0);
                let nonce = match r.below(10) {
                    0 if acct > 0 => acct - 1,                  // stale
                    1 => acct + 10,                             // too far
                    2 => acct + 9,                              // the farthest that is parked
                    3..=5 => acct + 1 + r.below(3),             // parked
                    _ => acct,                                  // executes (and may drain)
                };
                let cands: Vec<&(String, String)> = g.contracts.iter().filter(|c| c.1 == "store" || c.1.starts_with("log") || c.1 == "probe").collect();
                let (to, data) = if cands.is_empty() || r.chance(20) {
                    ("create:store".to_string(), vec![])
                } else {
                    let c = *r.pick(&cands);
                    (c.0.clone(), call_data(r, &c.1))
                };
                let no_chain = r.chance(3);   // signed without a chain id (pre EIP-155): ignored like a foreign chain
                let wrong_chain = no_chain || r.chance(4);
                let junk = r.chance(3);
                let mut appended = 0;
                if !wrong_chain && !junk {
                    if nonce == acct {
                        appended = 1;
                        let mut n = acct + 1;
                        let h = g.next();
                        while let Some(pb) = g.pool.remove(&(s, n)) {
                            if pb + W > h {
                                appended += 1;
                            }
                            n += 1;
                        }
                        // the account nonce advances by the executed ones only
                        g.nonces.insert(s, acct + appended);
                    } else if nonce > acct && nonce < acct + 10 {
                        g.pool.insert((s, nonce), g.next());
                    }
                }
                out.push(format!(
                    "transact signer={} nonce={} to={} data={} {} len={} txid={} field={} chain={} junk={} exp={}",
                    s, nonce, to, hex::encode(&data), base, 60_000 + r.below(50_000), txid, field, if no_chain { "none" } else if wrong_chain { "wrong" } else { "ok" }, junk, appended
                ));
                // the waiting set right after a drain (always) or any other signed submission (sometimes)
                if appended >= 2 || r.chance(30) {
                    let exp: Vec<String> = g.pool.keys().map(|(s, n)| format!("{}.{}", s, n)).collect();
                    out.push(format!("read kind=txpool expect={}", if exp.is_empty() { "-".to_string() } else { exp.join(",") }));
                }
                appended
            }
        };
        if started > 0 {
            in_block = true;
            g.idx += started;
        } else if !in_block {
            // nothing was appended and no block was started: undo the header bookkeeping
            g.ts -= 600;
        }
        if in_block && r.chance(35) {
            out.push(format!("fin ts={} hash={} count={}", g.ts, h256(block_hash), g.idx));
            let h = g.next();
            expire_pool(&mut g, h);
            g.height = Some(h);
            g.max_ever = g.max_ever.max(h);
            g.idx = 0;
            in_block = false;
            snaps.insert(h, g.clone());
        }
    }
    if in_block {
        out.push(format!("fin ts={} hash={} count={}", g.ts, h256(block_hash), g.idx));
    }
    out.push("read kind=sweep".into());
}

fn expire_pool(g: &mut GenState, finalised: u64) {
    g.pool.retain(|_, pb| *pb + W > finalised);
}

fn call_data(r: &mut Rng, kind: &str) -> Vec<u8> {
    match kind {
        "store" => asm::cat(&[&asm::word(r.below(4)), &asm::word(r.below(3))]),
        "worker" => asm::word(*r.pick(&[0u64, 1, 3, 20])),
        "log0" => asm::word(r.below(5)),
        "log1" | "log2" | "log3" | "log4" => {
            let n: usize = kind[3..].parse().unwrap();
            let mut d = asm::word(7 + r.below(3));
            for _ in 0..n {
                d.extend(asm::word(100 + r.below(3)));
            }
            d
        }
        "creator" => code_for(*r.pick(&["store", "log1", "revinit"])),
        "probe" => keccak256(b"getTxId()")[..4].to_vec(),
        _ => { let n = r.below(5) as usize; r.bytes(n) }
    }
}

fn gen_read(r: &mut Rng, g: &GenState) -> String {
    let h = g.height.unwrap_or(0);
    match r.below(17) {
        0 => format!("read kind=block n={}", r.below(h + 2)),
        1 | 9 | 10 | 11 => {
            let from = r.below(h + 1);
            let to = match r.below(6) {
                0 => from + 6,                 // too wide
                1 => from.saturating_sub(1),   // reversed (or equal)
                _ => from + r.below(6),
            };
            let logc: Vec<&(String, String)> = g.contracts.iter().filter(|c| c.1.starts_with("log")).collect();
            let addr = if !logc.is_empty() && r.chance(50) { r.pick(&logc).0.clone() } else { "-".to_string() };
            let mut topics = Vec::new();
            for _ in 0..r.below(5) {
                topics.push(match r.below(4) {
                    0 => "-".to_string(),
                    1 => format!("{}", 100 + r.below(3)),
                    2 => format!("{}|{}", 100 + r.below(3), 100 + r.below(3)),
                    _ => "-".to_string(),
                });
            }
            // bounds: a number, `latest`, or omitted (`-`)
            let (from_s, to_s) = match r.below(8) {
                0 => (from.to_string(), "-".to_string()),
                1 => ("-".to_string(), to.to_string()),
                2 => ("-".to_string(), "-".to_string()),
                3 => (from.to_string(), "latest".to_string()),
                _ => (from.to_string(), to.to_string()),
            };
            format!("read kind=logs from={} to={} addr={} topics={}", from_s, to_s, addr, if topics.is_empty() { "none".to_string() } else { topics.join(",") })
        }
        2 => {
            // the waiting set the reference pool expects (signer.nonce, ...)
            let exp: Vec<String> = g.pool.keys().map(|(s, n)| format!("{}.{}", s, n)).collect();
            format!("read kind=txpool expect={}", if exp.is_empty() { "-".to_string() } else { exp.join(",") })
        }
        3 | 4 => {
            // eth_call running state-changing code
            let cands: Vec<&(String, String)> = g.contracts.iter().filter(|c| c.1 != "controller").collect();
            if cands.is_empty() {
                "read kind=height".into()
            } else {
                let c = *r.pick(&cands);
                let mut rr = r.fork();
                format!("read kind=ethcall to={} data={} pk={}", c.0, hex::encode(call_data(&mut rr, &c.1)), r.pick(&PKS))
            }
        }
        5 => {
            let cands: Vec<&(String, String)> = g.contracts.iter().filter(|c| c.1 == "worker" || c.1 == "store").collect();
            if cands.is_empty() {
                "read kind=height".into()
            } else {
                let c = *r.pick(&cands);
                let mut rr = r.fork();
                format!("read kind=estimate to={} data={} pk={}", c.0, hex::encode(call_data(&mut rr, &c.1)), r.pick(&PKS))
            }
        }
        6 => format!("read kind=balance pk={} tick={}", r.pick(&PKS), r.pick(&["ordi", "ORDI", "sats"])),
        7 => "read kind=sweep".into(),
        12 | 13 | 14 | 15 | 16 => {
            // eth_callMany / eth_estimateGasMany: 1-3 calls with state carry-over; senders include contract addresses
            // (refused by the EVM before execution), targets include none (creation) and a standard precompile with
            // malformed input
            let cands: Vec<&(String, String)> = g.contracts.iter().filter(|c| c.1 != "controller").collect();
            let mut calls = Vec::new();
            let n_calls = 1 + r.below(3);
            // most batches are well-formed (so that the carry-over between calls is exercised); about a third carry
            // one call the EVM refuses or fails
            let bad_at = if r.chance(35) { Some(r.below(n_calls)) } else { None };
            for i in 0..n_calls {
                let bad = bad_at == Some(i);
                let (to, data) = match r.below(6) {
                    _ if bad && r.chance(40) => ("0x0000000000000000000000000000000000000006".to_string(), "01".repeat(1 + r.below(130) as usize)),
                    _ if bad && r.chance(40) => ("0x0000000000000000000000000000000000000009".to_string(), "00".repeat(r.below(214) as usize)),
                    0 => ("none".to_string(), hex::encode(code_for(*r.pick(&["store", "log1", "revinit", "badinit"])))),
                    _ if !cands.is_empty() => {
                        let c = *r.pick(&cands);
                        let mut rr = r.fork();
                        (c.0.clone(), hex::encode(call_data(&mut rr, &c.1)))
                    }
                    _ => ("none".to_string(), hex::encode(code_for("store"))),
                };
                let from = match r.below(5) {
                    _ if bad && !g.contracts.is_empty() && r.chance(60) => format!("@{}", r.pick(&g.contracts).0),
                    1 => "-".to_string(),
                    _ => r.pick(&PKS).to_string(),
                };
                calls.push(format!("{}:{}:{}", to, data, from));
            }
            format!("read kind={} calls={}", r.pick(&["callmany", "callmany", "estimatemany"]), calls.join(";"))
        }
        _ => "read kind=height".into(),
    }
}

// ------------------------------------------------------------------------------------------------- execution

struct Ctx {
    main: Inst,
    twin: Inst,
    twin_mode: u64,               // 0: never commits, 1: commits after every block, 2: reopens after every commit
    rt: Arc<tokio::runtime::Runtime>,
    scratch: PathBuf,
    n_inst: u64,
    case: String,
    history: Vec<(u64, String, bool)>, // accepted indexer ops, the block they belong to, whether a commit has covered them
    labels: BTreeMap<String, String>, // inscription id -> contract address
    known_addrs: BTreeSet<String>,
    known_hashes: Vec<String>,    // tx hashes returned to the indexer
    receipts: BTreeMap<String, Value>, // tx hash -> receipt as returned
    insc_of: BTreeMap<String, String>, // inscription id -> tx hash
    height: Option<u64>,
    chain_id: u64,
    kinds: BTreeMap<String, String>, // inscription id of a deploy -> contract kind
    /// (signer address, nonce) -> every accepted submission of that nonce: (inscription length, Bitcoin txid). Which one
    /// is waiting depends on clears and rollbacks in between; a transaction that runs must be one of them.
    submissions: BTreeMap<(String, u64), Vec<(u64, String)>>,
    /// tx hashes handed out more than once (known finding F11), with the blocks they were reported in
    dup_blocks: BTreeSet<u64>,
    /// a handler panicked: the shipped binary would have aborted, nothing after that point is compared
    dead: bool,
}

fn params_for(ctx: &Ctx, op: &str, f: &BTreeMap<String, String>) -> Option<(String, Value)> {
    let g = |k: &str| f.get(k).cloned().unwrap_or_default();
    let num = |k: &str| f.get(k).and_then(|s| s.parse::<u64>().ok()).unwrap_or(0);
    let data_fields = |bytes: &[u8], field: &str| -> (Value, Value) {
        let hexv = json!(format!("0x{}", hex::encode(bytes)));
        let b64 = || {
            let mut d = vec![0u8];
            d.extend_from_slice(bytes);
            json!(BASE64_STANDARD_NO_PAD.encode(d))
        };
        match field {
            "b64" => (Value::Null, b64()),
            "both" => (hexv, b64()),
            "none" => (Value::Null, Value::Null),
            _ => (hexv, Value::Null),
        }
    };
    let auto_len = |bytes: &[u8]| -> u64 {
        match f.get("len").map(|s| s.as_str()) {
            Some("auto") | None => 100_000 + bytes.len() as u64,
            Some(s) => s.parse().unwrap_or(0),
        }
    };
    match op {
        "init" => Some(("brc20_initialise".into(), json!([g("hash"), num("ts"), num("height")]))),
        "mine" => Some(("brc20_mine".into(), json!([num("count"), num("ts")]))),
        "deploy" => {
            let code = code_for(&g("code"));
            let (d, b) = data_fields(&code, &g("field"));
            Some(("brc20_deploy".into(), json!([g("pk"), d, b, num("ts"), g("hash"), num("idx"), g("insc"), auto_len(&code), g("txid")])))
        }
        "call" => {
            let data = hex::decode(g("data")).unwrap_or_default();
            let (d, b) = data_fields(&data, &g("field"));
            let to = g("to");
            let (addr, insc) = if to == "none" { (Value::Null, Value::Null) } else if to.starts_with("0x") { (json!(to), Value::Null) } else { (Value::Null, json!(to)) };
            Some(("brc20_call".into(), json!([g("pk"), addr, insc, d, b, num("ts"), g("hash"), num("idx"), g("insc"), auto_len(&data), g("txid")])))
        }
        "deposit" | "withdraw" => Some((
            format!("brc20_{}", op),
            json!([g("pk"), g("tick"), format!("0x{:x}", g("amt").parse::<u128>().unwrap_or(0)), num("ts"), g("hash"), num("idx"), g("insc")]),
        )),
        "transact" => {
            let raw = raw_tx_for(ctx, f);
            let (d, b) = data_fields(&raw, &g("field"));
            Some(("brc20_transact".into(), json!([d, b, num("ts"), g("hash"), num("idx"), g("insc"), auto_len(&raw), g("txid")])))
        }
        "fin" => Some(("brc20_finaliseBlock".into(), json!([num("ts"), g("hash"), num("count")]))),
        "commit" => Some(("brc20_commitToDatabase".into(), json!([]))),
        "clear" => Some(("brc20_clearCaches".into(), json!([]))),
        "reorg" => Some(("brc20_reorg".into(), json!([num("n")]))),
        _ => None,
    }
}

fn raw_tx_for(ctx: &Ctx, f: &BTreeMap<String, String>) -> Vec<u8> {
    if f.get("junk").map(|s| s == "true").unwrap_or(false) {
        return vec![0xc1, 0x80, 0x01];
    }
    let s = Signer::new(f.get("signer").and_then(|s| s.parse().ok()).unwrap_or(1));
    let nonce = f.get("nonce").and_then(|s| s.parse().ok()).unwrap_or(0);
    let chain = match f.get("chain").map(|s| s.as_str()) {
        Some("wrong") => Some(1),
        Some("none") => None,
        _ => Some(ctx.chain_id),
    };
    let to = f.get("to").cloned().unwrap_or_default();
    if let Some(kind) = to.strip_prefix("create:") {
        s.raw_tx(chain, nonce, None, &code_for(kind))
    } else {
        let addr = ctx.labels.get(&to).and_then(|a| a.parse::<Address>().ok()).unwrap_or(Address::repeat_byte(0xde));
        s.raw_tx(chain, nonce, Some(addr), &hex::decode(f.get("data").cloned().unwrap_or_default()).unwrap_or_default())
    }
}

fn err_class(r: &Resp) -> String {
    if r.panicked {
        return "panic".into();
    }
    match &r.err {
        None => "ok".into(),
        Some((_, m, _)) => {
            let m = m.as_str();
            let c = if m.contains("tx_idx is different") {
                "idx"
            } else if m.contains("Timestamp is different") {
                "ts"
            } else if m.contains("Block hash is different") {
                "hash"
            } else if m.contains("already exists") {
                "exists"
            } else if m.contains("There are waiting txes") {
                "waiting"
            } else if m.contains("Both raw_bytes and base64_bytes") {
                "data"
            } else if m.contains("greater than current block height") {
                "above"
            } else if m.contains("too far behind") {
                "deep"
            } else if m.contains("Genesis block hash mismatch") {
                "genesis"
            } else if m.contains("Genesis height is not the next") {
                "height"
            } else if m.contains("Bitcoin RPC status check failed") {
                return "ok".into(); // the documented environment fault after the work was done
            } else if m.contains("Failed to decode legacy transaction") {
                "decode"
            } else if m.contains("Odd number of digits") || m.contains("Invalid character") || m.contains("invalid") {
                "param"
            } else {
                return format!("err:other:{}", m.replace(' ', "_").chars().take(60).collect::<String>());
            };
            format!("err:{}", c)
        }
    }
}

fn digest(state: &Value) -> String {
    let mut parts = Vec::new();
    let colfnv = |rows: &Value, hist: bool| -> (usize, u64) {
        let mut items: Vec<String> = rows
            .as_array()
            .map(|a| {
                a.iter()
                    .map(|kv| {
                        let k = kv[0].as_str().unwrap_or("");
                        if hist {
                            let vs: Vec<String> = kv[1]
                                .as_array()
                                .map(|l| l.iter().map(|e| format!("{}:{}", e[0], e[1].as_str().unwrap_or("-"))).collect())
                                .unwrap_or_default();
                            format!("{}={}", k, vs.join("|"))
                        } else {
                            format!("{}={}", k, kv[1].as_str().unwrap_or(""))
                        }
                    })
                    .collect()
            })
            .unwrap_or_default();
        items.sort();
        (items.len(), fnv(items.join(",").as_bytes()))
    };
    if let Some(ts) = state["tables"].as_array() {
        for t in ts {
            let (a, af) = colfnv(&t["db"], false);
            let (b, bf) = colfnv(&t["cdb"], true);
            let (c, cf) = colfnv(&t["cache"], true);
            parts.push(format!("{}:{}:{}:{}:{}:{}:{}", t["name"].as_str().unwrap_or(""), a, af, b, bf, c, cf));
        }
    }
    if let Some(ts) = state["blocks"].as_array() {
        for t in ts {
            let name = t["name"].as_str().unwrap_or("");
            // block rows carry the wall-clock processing time: only the key sets are compared for those two
            let keys_only = name != "block_number_to_hash";
            let f = |rows: &Value| -> (usize, u64) {
                let mut items: Vec<String> = rows
                    .as_array()
                    .map(|a| {
                        a.iter()
                            .map(|kv| {
                                let k = u64::from_str_radix(kv[0].as_str().unwrap_or("0"), 16).unwrap_or(0);
                                if keys_only {
                                    format!("{}", k)
                                } else {
                                    format!("{}={}", k, kv[1].as_str().unwrap_or(""))
                                }
                            })
                            .collect()
                    })
                    .unwrap_or_default();
                items.sort();
                (items.len(), fnv(items.join(",").as_bytes()))
            };
            let (a, af) = f(&t["db"]);
            let (b, bf) = f(&t["cache"]);
            parts.push(format!("{}:{}:{}:{}:{}", name, a, af, b, bf));
        }
    }
    let latest = match &state["latest"] {
        Value::Array(a) => format!("{}:{}", a[0], a[1].as_str().unwrap_or("")),
        _ => "-".into(),
    };
    parts.push(format!("latest={}", latest));
    parts.push(format!("max={}", state["max_block_number"].as_str().unwrap_or("-")));
    let l = &state["lbi"];
    parts.push(format!("lbi={}:{}:{}:{}:{}", l["waiting_tx_count"], l["timestamp"], l["hash"].as_str().unwrap_or(""), l["gas_used"], l["log_index"]));
    parts.join(" ")
}

fn new_inst(ctx_scratch: &Path, n: &mut u64, rt: &Arc<tokio::runtime::Runtime>) -> Inst {
    *n += 1;
    let dir = ctx_scratch.join(format!("inst{}", n));
    let _ = std::fs::remove_dir_all(&dir);
    Inst::open(&dir, rt.clone())
}

pub fn exec(lines: &[String], out: &mut Out, scratch: &Path) {
    eng::configure("regtest", true);
    let rt = eng::runtime();
    let mut ctx: Option<Ctx> = None;
    let mut n_inst = 0u64;
    let mut n_case = 0u64;
    for line in lines {
        let op = line.split(' ').next().unwrap_or("");
        if op == "case" {
            if let Some(mut c) = ctx.take() {
                c.main.close();
                c.twin.close();
                let _ = std::fs::remove_dir_all(&c.main.dir);
                let _ = std::fs::remove_dir_all(&c.twin.dir);
            }
            let id = line.split(' ').nth(1).unwrap_or("?").to_string();
            out.case(&id);
            n_case += 1;
            let main = new_inst(scratch, &mut n_inst, &rt);
            let twin = new_inst(scratch, &mut n_inst, &rt);
            ctx = Some(Ctx {
                main,
                twin,
                twin_mode: n_case % 3,
                rt: rt.clone(),
                scratch: scratch.to_path_buf(),
                n_inst,
                case: id,
                history: Vec::new(),
                labels: BTreeMap::new(),
                known_addrs: BTreeSet::new(),
                known_hashes: Vec::new(),
                receipts: BTreeMap::new(),
                insc_of: BTreeMap::new(),
                height: None,
                chain_id: v::CONFIG.read().chain_id,
                dup_blocks: BTreeSet::new(),
                kinds: BTreeMap::new(),
                submissions: BTreeMap::new(), dead: false,
            });
            continue;
        }
        let Some(c) = ctx.as_mut() else { continue };
        if c.dead {
            continue;
        }
        c.n_inst = n_inst;
        exec_line(c, line, out);
        n_inst = c.n_inst;
    }
    if let Some(mut c) = ctx.take() {
        c.main.close();
        c.twin.close();
    }
    let _ = std::fs::remove_dir_all(scratch);
}

fn run_on(inst: &Inst, method: &str, params: &Value) -> (Resp, Vec<String>) {
    let t0 = std::time::Instant::now();
    if std::env::var("VERIF_DEBUG").is_ok() {
        eprintln!("call {} {}", method, params.to_string().chars().take(100).collect::<String>());
    }
    let r = run_on_inner(inst, method, params);
    if std::env::var("VERIF_DEBUG").is_ok() && t0.elapsed().as_millis() > 500 {
        eprintln!("slow call {} {} ms", method, t0.elapsed().as_millis());
    }
    r
}

fn run_on_inner(inst: &Inst, method: &str, params: &Value) -> (Resp, Vec<String>) {
    v::take_events();
    v::set_enabled(true);
    let r = inst.call(method, params.clone());
    v::set_enabled(false);
    (r, v::take_events())
}

fn block_of(ctx: &Ctx) -> u64 {
    ctx.height.map_or(0, |h| h + 1)
}

fn exec_line(ctx: &mut Ctx, line: &str, out: &mut Out) {
    let op = line.split(' ').next().unwrap_or("").to_string();
    let f = kv(line);
    let case = ctx.case.clone();
    match op.as_str() {
        "reopen" => {
            ctx.main.reopen();
            let st = digest(&ctx.main.state());
            out.line("reopen", &format!("ok | {}", st));
            ctx.height = latest_height(&ctx.main);
            replace_twin_by_fresh_replay_of(ctx, None, out);
            compare_observations(ctx, out, "after reopen (clear)");
        }
        "read" => exec_read(ctx, &f, out),
        "pbound" => exec_pbound(ctx, &f, out),
        "golden" => {
            // C02: the observation of this fixed history is pinned for the protocol version (wall-clock fields removed)
            let obs = observation(&ctx.main, ctx);
            let text = serde_json::to_string(&canonical(&obs)).unwrap();
            let d = format!("{:016x}-{}", fnv(text.as_bytes()), text.len());
            let dir = std::env::var("VERIF_GOLDEN").unwrap_or_else(|_| "/verif/golden".into());
            let file = format!("{}/{}.digest", dir, ctx.case);
            if std::env::var("VERIF_WRITE_GOLDEN").is_ok() {
                let _ = std::fs::create_dir_all(&dir);
                std::fs::write(&file, format!("{}\n", d)).unwrap();
                std::fs::write(format!("{}/{}.json", dir, ctx.case), &text).unwrap();
            } else {
                match std::fs::read_to_string(&file) {
                    Ok(want) if want.trim() == d => {}
                    Ok(want) => {
                        // name the first difference against the pinned observation if it is available
                        let detail = std::fs::read_to_string(format!("{}/{}.json", dir, ctx.case))
                            .ok()
                            .and_then(|j| serde_json::from_str::<Value>(&j).ok())
                            .and_then(|old| first_difference(&old, &canonical(&obs), "obs"))
                            .unwrap_or_default();
                        out.oracle_fail(&case, "golden", &format!("observation digest {} differs from the pinned {} for this protocol version: {}", d, want.trim(), detail));
                    }
                    Err(_) => out.oracle_fail(&case, "golden", &format!("no pinned digest {}", file)),
                }
            }
            out.count("golden");
        }
        "bad" => exec_bad(ctx, &f, out),
        _ => {
            let Some((method, params)) = params_for(ctx, &op, &f) else {
                out.line(line, "bad-op");
                return;
            };
            let before = ctx.main.state();
            let mut sim_events = Vec::new();
            let prediction = predict_with_eth_call(ctx, &op, &f, &before, &mut sim_events);
            if !sim_events.is_empty() {
                // C17: the simulation's environment goes to the model (a read line: it must leave the node alone and
                // run at the height / nonce the model derives for the next transaction)
                let evs: Vec<String> = sim_events
                    .iter()
                    .filter(|e| e.starts_with("S ") || e.starts_with("W ") || e.starts_with("X "))
                    .map(|e| e.split(' ').filter(|w| !w.starts_with("data=") && !w.starts_with("out=")).collect::<Vec<_>>().join(" "))
                    .collect();
                out.count("prediction-env-to-model");
                out.line(&format!("read kind=predict ncalls=0 ## {}", evs.join(" ## ")), &format!("ok | {}", digest(&ctx.main.state())));
            }
            let (resp, events) = run_on(&ctx.main, &method, &params);
            // C17: the simulation made right before this transaction and the transaction itself ran in the same
            // environment, field by field, except timestamp, randomness, gas limit and txid (the reads the property
            // excludes) - on the real code alone
            if let (Some(se), Some(te)) = (sim_events.iter().find(|e| e.starts_with("X sim ")), events.iter().find(|e| e.starts_with("X tx "))) {
                for k in ["caller", "to", "nonce", "gasprice", "value", "txchain", "number", "basefee", "coinbase", "blockgaslimit", "chain", "spec", "custom"] {
                    let pre = format!("{}=", k);
                    let get = |e: &String| e.split(' ').find_map(|w| w.strip_prefix(pre.as_str()).map(|x| x.to_string()));
                    if get(se) != get(te) {
                        out.oracle_fail(&case, "prediction-env", &format!("eth_call ran with {}{:?} but the transaction that followed ran with {}{:?}: {}", pre, get(se), pre, get(te), line));
                    }
                }
                out.count("prediction-env-compared");
            }
            let class = err_class(&resp);
            let after = ctx.main.state();
            // C16: a transaction that fails (out of gas included) changes no storage slot and no code
            if matches!(op.as_str(), "deploy" | "call" | "deposit" | "withdraw") {
                if let Some(rc) = resp.ok.as_ref().filter(|v| v.is_object()) {
                    if rc["status"].as_str() == Some("0x0") {
                        let (db, da) = (digest(&before), digest(&after));
                        for t in ["account_memory:", "code:"] {
                            let sec = |d: &str| d.split(' ').find(|w| w.starts_with(t)).map(|x| x.to_string());
                            if sec(&db) != sec(&da) {
                                out.oracle_fail(&case, "failed-tx-state", &format!("a transaction with status 0 changed table {} {:?} -> {:?}: {}", t, sec(&db), sec(&da), line));
                            }
                        }
                        out.count("failed-tx-state-checked");
                    }
                }
            }
            if resp.panicked {
                // known finding F10: a signed transaction parked after the tip was finalised is a table write stamped
                // height + 1 with no block under construction; a reorg to exactly (height - 10) is then accepted and
                // panics inside the pending-pool table
                let h = ctx.height.unwrap_or(0);
                let parked_above_tip = ctx.history.iter().any(|(b, l, _)| *b == h + 1 && l.starts_with("transact ") && l.contains(" exp=0"));
                let family = if op == "reorg" && parked_above_tip && before["lbi"]["waiting_tx_count"].as_u64() == Some(0) {
                    "reorg-panicked-parked-stamp"
                } else if op == "reorg" {
                    "reorg-panicked"
                } else {
                    "panic"
                };
                out.oracle_fail(&case, family, &format!("{} panicked: {}", method, line));
            }
            // C05: an error response leaves the instance exactly as it was
            if class.starts_with("err") && digest(&before) != digest(&after) {
                out.oracle_fail(&case, "rejected-not-noop", &format!("{} answered {} but changed the state: {}", method, class, line));
            }
            if class.starts_with("err:other") {
                out.oracle_fail(&case, "unexpected-error", &format!("{} -> {}", line, class));
            }
            // model line: flat op + recorded events
            let mut extra = String::new();
            if op == "transact" {
                let raw = raw_tx_for(ctx, &f);
                match eng::decode_raw(&raw) {
                    Some((from, nonce, chain, hash)) => {
                        extra = format!(
                            " decode=ok from={:x} rnonce={} rchain={} rhash={:x}",
                            from,
                            nonce,
                            if chain == Some(ctx.chain_id) { "ok" } else { "wrong" },
                            hash
                        )
                    }
                    None => extra = " decode=fail".into(),
                }
            }
            let evs: Vec<String> = events.iter().filter(|e| e.starts_with("S ") || e.starts_with("X ")).cloned().collect();
            let model_line = format!("{}{} sel=ok pkok=true ## {}", line, extra, evs.join(" ## "));
            if resp.panicked {
                // the process is gone at this point: the answer is the panic itself, the case ends here
                out.line(&model_line, "panic");
                ctx.dead = true;
                return;
            }
            out.line(&model_line, &format!("{} | {}", class, digest(&after)));

            // bookkeeping + oracles on accepted indexer ops
            if class == "ok" {
                on_accepted(ctx, &op, &f, &resp, out);
                if op == "deploy" {
                    ctx.kinds.insert(f.get("insc").cloned().unwrap_or_default(), f.get("code").cloned().unwrap_or_default());
                }
                check_prediction(ctx, &op, &f, &resp, prediction, out);
                check_probe(ctx, &op, &f, &resp, out);
                let b = block_of(ctx);
                ctx.history.push((b, line.to_string(), false));
                // the twin sees the same indexer call, except commit/clear, which follow its own schedule
                match op.as_str() {
                    "commit" => {
                        for h in ctx.history.iter_mut() {
                            h.2 = true;
                        }
                    }
                    "clear" => {}
                    "reorg" => {
                        let n: u64 = f.get("n").and_then(|s| s.parse().ok()).unwrap_or(0);
                        replace_twin_by_fresh_replay(ctx, n, out);
                    }
                    _ => {
                        let (r2, _) = run_on(&ctx.twin, &method, &params);
                        if err_class(&r2) != "ok" {
                            out.oracle_fail(&case, "twin-diverged", &format!("twin answered {} to an op the main instance accepted: {}", err_class(&r2), line));
                        } else if op != "mine" && op != "fin" && op != "init" {
                            // C02: identical responses modulo nothing (receipts carry no wall-clock field)
                            if r2.ok != resp.ok {
                                out.oracle_fail(&case, "replica-response", &format!("twin response differs for {}", line));
                            }
                        }
                    }
                }
                if matches!(op.as_str(), "fin" | "mine" | "init") {
                    ctx.height = latest_height(&ctx.main);
                    if ctx.twin_mode >= 1 {
                        let _ = ctx.twin.call("brc20_commitToDatabase", json!([]));
                        if ctx.twin_mode == 2 {
                            ctx.twin.reopen();
                        }
                    }
                    compare_observations(ctx, out, "block boundary");
                    check_coherence(ctx, out);
                }
                if op == "reorg" {
                    ctx.height = latest_height(&ctx.main);
                    compare_observations(ctx, out, "after reorg");
                }
                if op == "clear" {
                    // everything uncommitted is gone on the main instance: the twin is brought to the same point
                    ctx.height = latest_height(&ctx.main);
                    replace_twin_by_fresh_replay_of(ctx, None, out);
                    compare_observations(ctx, out, "after clearCaches");
                }
            }
        }
    }
}

fn latest_height(inst: &Inst) -> Option<u64> {
    // the engine answers 0 both for "block 0" and "no block": ask for block 0 to tell them apart
    let r = inst.call("eth_blockNumber", json!([]));
    let h = r.ok.and_then(|v| v.as_str().map(|s| u64::from_str_radix(s.trim_start_matches("0x"), 16).unwrap_or(0)))?;
    if h == 0 && !inst.call("eth_getBlockByNumber", json!(["0x0", false])).is_ok() {
        None
    } else {
        Some(h)
    }
}

fn on_accepted(ctx: &mut Ctx, op: &str, f: &BTreeMap<String, String>, resp: &Resp, out: &mut Out) {
    let case = ctx.case.clone();
    let mut receipts: Vec<Value> = Vec::new();
    match (op, &resp.ok) {
        ("deploy" | "call" | "deposit" | "withdraw", Some(v)) if v.is_object() => receipts.push(v.clone()),
        ("transact", Some(Value::Array(a))) => receipts = a.clone(),
        _ => {}
    }
    if op == "transact" {
        // remember the allowance each signed transaction was inscribed with (a parked one keeps it until drained)
        let signer = Signer::new(f.get("signer").and_then(|s| s.parse().ok()).unwrap_or(1));
        let me = format!("{:?}", signer.address()).to_lowercase();
        if let (Some(n), Some(l)) = (f.get("nonce").and_then(|s| s.parse::<u64>().ok()), f.get("len").and_then(|s| s.parse::<u64>().ok())) {
            if f.get("chain").map(|s| s == "ok").unwrap_or(false) && f.get("junk").map(|s| s == "false").unwrap_or(false) {
                ctx.submissions.entry((me.clone(), n)).or_default().push((l, f.get("txid").cloned().unwrap_or_default()));
            }
        }
        for r in &receipts {
            if let Some(tx) = r["transactionHash"].as_str().and_then(|h| ctx.main.call("eth_getTransactionByHash", json!([h])).ok) {
                let hexn = |v: &Value| v.as_str().map(|s| u64::from_str_radix(s.trim_start_matches("0x"), 16).unwrap_or(u64::MAX));
                let from = tx["from"].as_str().unwrap_or("").to_lowercase();
                if let (Some(n), Some(gas)) = (hexn(&tx["nonce"]), hexn(&tx["gas"])) {
                    if let Some(subs) = ctx.submissions.get(&(from.clone(), n)) {
                        if !subs.iter().any(|(l, _)| gas == l.saturating_mul(12000)) {
                            out.oracle_fail(&case, "pool-gas", &format!("signed tx of {} nonce {} was inscribed with {:?} bytes but runs with a gas allowance of {}", from, n, subs.iter().map(|s| s.0).collect::<Vec<_>>(), gas));
                        }
                    }
                }
            }
        }
        let exp: usize = f.get("exp").and_then(|s| s.parse().ok()).unwrap_or(0);
        if receipts.len() != exp {
            out.oracle_fail(&case, "pool-receipts", &format!("brc20_transact returned {} receipts, the reference pool appends {}: signer {} nonce {}", receipts.len(), exp, f.get("signer").cloned().unwrap_or_default(), f.get("nonce").cloned().unwrap_or_default()));
        }
        // consecutive indexes starting at the submitted one
        let idx0: u64 = f.get("idx").and_then(|s| s.parse().ok()).unwrap_or(0);
        for (i, r) in receipts.iter().enumerate() {
            let ti = r["transactionIndex"].as_str().map(|s| u64::from_str_radix(s.trim_start_matches("0x"), 16).unwrap_or(u64::MAX));
            if ti != Some(idx0 + i as u64) {
                out.oracle_fail(&case, "pool-index", &format!("receipt {} of a transact has index {:?}, expected {}", i, ti, idx0 + i as u64));
            }
        }
    }
    // C16: the gas recorded in a receipt never exceeds 12000 per inscribed byte (the first receipt belongs to the
    // submitted inscription; drained parked transactions are judged by `pool-gas` against their own length)
    if matches!(op, "deploy" | "call" | "transact") {
        if let (Some(l), Some(r)) = (f.get("len").and_then(|s| s.parse::<u64>().ok()), receipts.first()) {
            let own = op != "transact" || f.get("exp").map(|e| e != "0").unwrap_or(false);
            let used = r["gasUsed"].as_str().and_then(|s| u64::from_str_radix(s.trim_start_matches("0x"), 16).ok());
            if let (true, Some(used)) = (own, used) {
                if used > l.saturating_mul(12000) {
                    out.oracle_fail(&case, "gas-allowance", &format!("receipt records {} gas used, the inscription of {} bytes allows {}", used, l, l.saturating_mul(12000)));
                }
                out.count("gas-allowance-checked");
            }
        }
    }
    for (i, r) in receipts.iter().enumerate() {
        if let Some(h) = r["transactionHash"].as_str() {
            if let Some(old) = ctx.receipts.get(h) {
                // the same hash again: two transactions share their index rows (known finding F11)
                let bn = |v: &Value| v["blockNumber"].as_str().map(|s| u64::from_str_radix(s.trim_start_matches("0x"), 16).unwrap_or(0)).unwrap_or(0);
                ctx.dup_blocks.insert(bn(old));
                ctx.dup_blocks.insert(bn(r));
            }
            ctx.known_hashes.push(h.to_string());
            ctx.receipts.insert(h.to_string(), r.clone());
            if i == 0 {
                if let Some(id) = f.get("insc") {
                    ctx.insc_of.insert(id.clone(), h.to_string());
                }
            }
        }
        if let Some(a) = r["contractAddress"].as_str() {
            if i == 0 {
                if let Some(id) = f.get("insc") {
                    ctx.labels.insert(id.clone(), a.to_string());
                }
            }
            ctx.known_addrs.insert(a.to_string());
        }
        for k in ["from", "to"] {
            if let Some(a) = r[k].as_str() {
                ctx.known_addrs.insert(a.to_string());
            }
        }
    }
    if op == "init" {
        ctx.labels.insert("BRC20_CONTROLLER_INIT".into(), "0xc54dd4581af2dbf18e4d90840226756e9d2b3cdb".into());
    }
}

/// C17: what eth_call says right before the transaction is executed (only at a block boundary, where it does not wait)
fn predict_with_eth_call(ctx: &Ctx, op: &str, f: &BTreeMap<String, String>, state: &Value, events: &mut Vec<String>) -> Option<(bool, String)> {
    if state["lbi"]["waiting_tx_count"].as_u64() != Some(0) {
        return None;
    }
    let from = format!("{:?}", pkscript_addr(&f.get("pk").cloned().unwrap_or_default()));
    let call = match op {
        "deploy" => {
            let code = code_for(&f.get("code").cloned().unwrap_or_default());
            json!({"from": from, "data": format!("0x{}", hex::encode(code))})
        }
        "call" => {
            let id = f.get("to").cloned().unwrap_or_default();
            if matches!(ctx.kinds.get(&id).map(|s| s.as_str()), Some("probe") | None) {
                return None; // reads timestamp / randomness / txid, or no contract: outside the property's scope
            }
            let to = ctx.labels.get(&id)?.clone();
            json!({"from": from, "to": to, "data": format!("0x{}", f.get("data").cloned().unwrap_or_default())})
        }
        _ => return None,
    };
    if f.get("len").map(|s| s != "auto").unwrap_or(false) {
        return None; // a tiny gas allowance is not what eth_call simulates
    }
    let (r, e) = run_on(&ctx.main, "eth_call", &json!([call]));
    events.extend(e);
    match (&r.ok, &r.err) {
        (Some(Value::String(s)), _) => Some((true, s.clone())),
        (_, Some((_, _, data))) => Some((false, data.as_ref().and_then(|d| d.as_str()).unwrap_or("0x").to_string())),
        _ => None,
    }
}

fn check_prediction(ctx: &Ctx, op: &str, f: &BTreeMap<String, String>, resp: &Resp, prediction: Option<(bool, String)>, out: &mut Out) {
    let Some((ok, output)) = prediction else { return };
    let Some(rc) = resp.ok.as_ref().filter(|v| v.is_object()) else { return };
    let status = rc["status"].as_str() == Some("0x1");
    if status != ok {
        out.oracle_fail(&ctx.case.clone(), "call-prediction", &format!("eth_call said success={}, the transaction has status {:?}: {:?}", ok, rc["status"], f));
        return;
    }
    let th = rc["transactionHash"].as_str().unwrap_or("");
    if op == "deploy" && ok {
        // the simulated creation returns exactly the runtime code the deployment installs
        if let Some(addr) = rc["contractAddress"].as_str() {
            let code = ctx.main.call("eth_getCode", json!([addr])).ok.and_then(|c| c.as_str().map(|s| s.to_string())).unwrap_or_default();
            if code != output {
                out.oracle_fail(&ctx.case.clone(), "call-prediction", &format!("simulated creation returned {} but {} was installed", output, code));
            }
        }
    } else if op == "call" {
        if let Some(tr) = ctx.main.call("debug_traceTransaction", json!([th])).ok.filter(|t| !t.is_null()) {
            let got = tr["output"].as_str().unwrap_or("0x").to_string();
            if got != output {
                out.oracle_fail(&ctx.case.clone(), "call-prediction", &format!("eth_call returned {} but the transaction returned {}", output, got));
            }
        }
    }
}

/// C19: the context a contract observed (probe contract) is the context the indexer supplied
fn check_probe(ctx: &Ctx, op: &str, f: &BTreeMap<String, String>, resp: &Resp, out: &mut Out) {
    let ts: u64 = f.get("ts").and_then(|s| s.parse().ok()).unwrap_or(0);
    let hash = f.get("hash").cloned().unwrap_or_default();
    if op == "transact" {
        // the last transaction a signed submission executed (itself, or the last parked one it drained): it ran in
        // the block and under the header of this call, as its own signer, with the txid supplied when it was submitted
        let Some(Value::Array(rcs)) = &resp.ok else { return };
        let Some(rc) = rcs.last() else { return };
        if rc["status"].as_str() != Some("0x1") {
            return;
        }
        let Some(to) = rc["to"].as_str().map(|s| s.to_lowercase()) else { return };
        // the code that lives at the target NOW (an address can be reused by another contract after a clear / rollback)
        let code_now = ctx.main.call("eth_getCode", json!([to])).ok.and_then(|c| c.as_str().map(|s| s.to_lowercase())).unwrap_or_default();
        if code_now != format!("0x{}", hex::encode(asm::probe_runtime())) {
            return;
        }
        let Some(tx) = rc["transactionHash"].as_str().and_then(|h| ctx.main.call("eth_getTransactionByHash", json!([h])).ok) else { return };
        let from = tx["from"].as_str().unwrap_or("").to_lowercase();
        let nonce = tx["nonce"].as_str().and_then(|s| u64::from_str_radix(s.trim_start_matches("0x"), 16).ok()).unwrap_or(u64::MAX);
        // the submission that is running: the one whose inscription length gives this transaction's gas allowance
        let gas = tx["gas"].as_str().and_then(|s| u64::from_str_radix(s.trim_start_matches("0x"), 16).ok()).unwrap_or(0);
        let cands: Vec<String> = ctx.submissions.get(&(from.clone(), nonce)).map(|v| v.iter().filter(|(l, _)| l.saturating_mul(12000) == gas).map(|(_, t)| t.clone()).collect()).unwrap_or_default();
        let mut cands = cands;
        cands.sort();
        cands.dedup();
        if cands.len() != 1 {
            return; // none: reported as pool-gas; several with the same length: cannot tell them apart
        }
        let txid = cands[0].clone();
        let sender = format!("{:0>64}", from.trim_start_matches("0x"));
        check_probe_slots(ctx, &to, ts, &hash, sender, &txid, if rcs.len() > 1 { "drained parked tx" } else { "signed tx" }, out);
        return;
    }
    if op != "call" || ctx.kinds.get(&f.get("to").cloned().unwrap_or_default()).map(|s| s.as_str()) != Some("probe") {
        return;
    }
    let Some(rc) = resp.ok.as_ref().filter(|v| v.is_object()) else { return };
    if rc["status"].as_str() != Some("0x1") {
        return;
    }
    let Some(addr) = ctx.labels.get(&f.get("to").cloned().unwrap_or_default()).cloned() else { return };
    let sender = format!("{:0>64}", hex::encode(pkscript_addr(&f.get("pk").cloned().unwrap_or_default()).as_slice()));
    check_probe_slots(ctx, &addr, ts, &hash, sender, &f.get("txid").cloned().unwrap_or_default(), "inscription call", out);
}

fn check_probe_slots(ctx: &Ctx, addr: &str, ts: u64, hash: &str, sender: String, txid: &str, what: &str, out: &mut Out) {
    let slot = |n: u64| ctx.main.call("eth_getStorageAt", json!([addr, format!("0x{:x}", n)])).ok.and_then(|v| v.as_str().map(|s| s.trim_start_matches("0x").to_string())).unwrap_or_default();
    let word = |n: u128| format!("{:064x}", n);
    let bn = block_of(ctx);
    let hash = hash.trim_start_matches("0x").to_string();
    let hash = if hash.chars().all(|c| c == '0') { word(bn as u128 + 1) } else { hash };
    let parent = if bn == 0 {
        word(0)
    } else {
        ctx.main.call("eth_getBlockByNumber", json!([format!("0x{:x}", bn - 1), false])).ok.and_then(|b| b["hash"].as_str().map(|s| s.trim_start_matches("0x").to_string())).unwrap_or_default()
    };
    let want: Vec<(u64, &str, String)> = vec![
        (1, "NUMBER", word(bn as u128)),
        (2, "TIMESTAMP", word(ts as u128)),
        (3, "PREVRANDAO", hash),
        (4, "CHAINID", word(ctx.chain_id as u128)),
        (5, "ORIGIN", sender.clone()),
        (6, "CALLER", sender),
        (7, "COINBASE", word(0)),
        (8, "BASEFEE", word(0)),
        (9, "GASPRICE", word(0)),
        (10, "BLOCKHASH(n-1)", parent),
        (11, "current txid", txid.trim_start_matches("0x").to_string()),
    ];
    for (n, name, w) in want {
        let got = slot(n);
        if got != w {
            out.oracle_fail(&ctx.case.clone(), "context", &format!("{}: {} observed by the contract is {}, the indexer supplied {}", what, name, got, w));
        }
    }
    out.count(if what == "drained parked tx" { "probe-checked-drained" } else { "probe-checked" });
}

/// Everything an explorer could ask, over the universe seen so far; wall-clock fields removed.
fn observation(inst: &Inst, ctx: &Ctx) -> Value {
    let mut o = serde_json::Map::new();
    let h = latest_height(inst);
    o.insert("height".into(), json!(h));
    let top = h.unwrap_or(0);
    let mut blocks = Vec::new();
    for n in 0..=(top + 1) {
        let mut b = inst.call("eth_getBlockByNumber", json!([format!("0x{:x}", n), true])).ok.unwrap_or(Value::Null);
        if let Some(m) = b.as_object_mut() {
            m.remove("mineTimestamp");
        }
        let cnt = inst.call("eth_getBlockTransactionCountByNumber", json!([format!("0x{:x}", n)])).ok;
        let raw = inst.call("debug_getRawBlock", json!([format!("{}", n)])).ok;
        let rr = inst.call("debug_getRawReceipts", json!([format!("{}", n)])).ok;
        let tr = inst.call("debug_getBlockTraceString", json!([format!("{}", n)])).ok;
        let th = inst.call("debug_getBlockTraceHash", json!([format!("{}", n)])).ok;
        blocks.push(json!([b, cnt, raw, rr, tr, th]));
    }
    o.insert("blocks".into(), json!(blocks));
    let mut txs = Vec::new();
    let hashes: BTreeSet<&String> = ctx.known_hashes.iter().collect();
    for hsh in hashes {
        txs.push(json!([
            hsh,
            inst.call("eth_getTransactionByHash", json!([hsh])).ok,
            inst.call("eth_getTransactionReceipt", json!([hsh])).ok,
            inst.call("debug_traceTransaction", json!([hsh])).ok,
            inst.call("brc20_getInscriptionIdByTxHash", json!([hsh])).ok,
        ]));
    }
    o.insert("txs".into(), json!(txs));
    let mut insc = Vec::new();
    for id in ctx.insc_of.keys() {
        insc.push(json!([id, inst.call("brc20_getTxReceiptByInscriptionId", json!([id])).ok]));
    }
    o.insert("inscriptions".into(), json!(insc));
    let mut accts = Vec::new();
    for a in &ctx.known_addrs {
        let code = inst.call("eth_getCode", json!([a])).ok;
        let nonce = inst.call("eth_getTransactionCount", json!([a, "latest"])).ok;
        let slots: Vec<Value> = (0..4u64).map(|s| inst.call("eth_getStorageAt", json!([a, format!("0x{:x}", s)])).ok.unwrap_or(Value::Null)).collect();
        let by_addr = inst.call("brc20_getInscriptionIdByContractAddress", json!([a])).ok;
        accts.push(json!([a, code, nonce, slots, by_addr]));
    }
    for s in 1..=3u8 {
        let a = format!("{:?}", Signer::new(s).address());
        accts.push(json!([a, inst.call("eth_getTransactionCount", json!([a, "latest"])).ok]));
    }
    o.insert("accounts".into(), json!(accts));
    // the pending pool, canonicalised (it is a map of maps)
    let pool = inst.call("txpool_content", json!([])).ok.unwrap_or(Value::Null);
    o.insert("txpool".into(), canonical(&pool));
    // logs over every window of up to 6 blocks
    let mut logs = Vec::new();
    let mut from = 0;
    while from <= top {
        let to = (from + 5).min(top);
        logs.push(inst.call("eth_getLogs", json!([{"fromBlock": format!("0x{:x}", from), "toBlock": format!("0x{:x}", to)}])).ok);
        from += 6;
    }
    o.insert("logs".into(), json!(logs));
    Value::Object(o)
}

fn canonical(v: &Value) -> Value {
    match v {
        Value::Object(m) => {
            let mut keys: Vec<&String> = m.keys().collect();
            keys.sort();
            Value::Array(keys.into_iter().map(|k| json!([k, canonical(&m[k])])).collect())
        }
        Value::Array(a) => Value::Array(a.iter().map(canonical).collect()),
        x => x.clone(),
    }
}

fn first_difference(a: &Value, b: &Value, path: &str) -> Option<String> {
    match (a, b) {
        (Value::Object(x), Value::Object(y)) => {
            let keys: BTreeSet<&String> = x.keys().chain(y.keys()).collect();
            for k in keys {
                let (p, q) = (x.get(k).unwrap_or(&Value::Null), y.get(k).unwrap_or(&Value::Null));
                if let Some(d) = first_difference(p, q, &format!("{}.{}", path, k)) {
                    return Some(d);
                }
            }
            None
        }
        (Value::Array(x), Value::Array(y)) => {
            if x.len() != y.len() {
                return Some(format!("{}: {} vs {} entries", path, x.len(), y.len()));
            }
            for (i, (p, q)) in x.iter().zip(y.iter()).enumerate() {
                if let Some(d) = first_difference(p, q, &format!("{}[{}]", path, i)) {
                    return Some(d);
                }
            }
            None
        }
        (p, q) => {
            if p == q {
                None
            } else {
                let s = |v: &Value| v.to_string().chars().take(120).collect::<String>();
                Some(format!("{}: {} vs {}", path, s(p), s(q)))
            }
        }
    }
}

fn compare_observations(ctx: &mut Ctx, out: &mut Out, when: &str) {
    let a = observation(&ctx.main, ctx);
    let b = observation(&ctx.twin, ctx);
    if let Some(d) = first_difference(&a, &b, "obs") {
        let family = if when.contains("reorg") {
            "reorg-vs-fresh-replay"
        } else if when.contains("clear") {
            "clear-vs-last-commit"
        } else {
            "twin-observation"
        };
        out.oracle_fail(&ctx.case.clone(), family, &format!("{} (twin mode {}): {}", when, ctx.twin_mode, d));
    }
    out.count("observations");
}

fn replace_twin_by_fresh_replay(ctx: &mut Ctx, n: u64, out: &mut Out) {
    replace_twin_by_fresh_replay_of(ctx, Some(n), out)
}

/// C01 / C03: the twin becomes a fresh instance fed only
///   `Some(n)`: the accepted indexer calls of blocks <= n (an accepted reorg to n; it ends with a commit),
///   `None`:    the calls covered by a commit (clearCaches / restart: exactly the state of the last commit).
fn replace_twin_by_fresh_replay_of(ctx: &mut Ctx, n: Option<u64>, out: &mut Out) {
    ctx.twin.close();
    let _ = std::fs::remove_dir_all(&ctx.twin.dir);
    let mut k = ctx.n_inst;
    let fresh = new_inst(&ctx.scratch, &mut k, &ctx.rt);
    ctx.n_inst = k;
    let skip = |l: &str| l.starts_with("commit") || l.starts_with("clear") || l.starts_with("reorg");
    let keep: Vec<(u64, String, bool)> = match n {
        None => ctx.history.iter().filter(|h| h.2 && !skip(&h.1)).cloned().collect(),
        Some(n) => ctx.history.iter().filter(|h| h.0 <= n && !skip(&h.1)).cloned().collect(),
    };
    // a mine that crosses n is cut at n
    let mut kept: Vec<(u64, String, bool)> = Vec::new();
    for (b, l, _) in &keep {
        let op = l.split(' ').next().unwrap_or("");
        let f = kv(l);
        if op == "mine" {
            let cnt: u64 = f.get("count").and_then(|s| s.parse().ok()).unwrap_or(0);
            // `b` is the first block the mine produced
            let last = b + cnt.saturating_sub(1);
            let cnt = if let Some(n) = n { if last > n { n + 1 - b } else { cnt } } else { cnt };
            let ts = f.get("ts").and_then(|s| s.parse::<u64>().ok()).unwrap_or(0);
            let _ = fresh.call("brc20_mine", json!([cnt, ts]));
            kept.push((*b, format!("mine count={} ts={}", cnt, ts), true)); // what the shortened history contains
            continue;
        }
        kept.push((*b, l.clone(), true));
        if let Some((m, p)) = params_for(ctx, op, &f) {
            let r = fresh.call(&m, p);
            if err_class(&r) != "ok" {
                out.oracle_fail(&ctx.case.clone(), "replay-refused", &format!("fresh replay refused `{}`: {}", l, err_class(&r)));
            }
        }
    }
    ctx.twin = fresh;
    ctx.history = kept;
}

/// C06: the chain is internally consistent at a block boundary
fn check_coherence(ctx: &mut Ctx, out: &mut Out) {
    let case = ctx.case.clone();
    let inst = &ctx.main;
    let Some(top) = latest_height(inst) else { return };
    let mut fails: Vec<(u64, String)> = Vec::new();
    let mut prev_hash: Option<String> = None;
    for n in 0..=top {
        let Some(b) = inst.call("eth_getBlockByNumber", json!([format!("0x{:x}", n), true])).ok else {
            fails.push((n, format!("block {} missing below the tip {}", n, top)));
            continue;
        };
        let hash = b["hash"].as_str().unwrap_or("").to_string();
        if let Some(p) = &prev_hash {
            if b["parentHash"].as_str() != Some(p) {
                fails.push((n, format!("block {} parentHash {:?} != hash of block {} {}", n, b["parentHash"], n - 1, p)));
            }
        }
        prev_hash = Some(hash.clone());
        let by_hash = inst.call("eth_getBlockByHash", json!([hash, false])).ok;
        if by_hash.as_ref().map(|x| x["number"].clone()) != Some(b["number"].clone()) {
            fails.push((n, format!("hash -> number lookup of block {} does not invert", n)));
        }
        let txs = b["transactions"].as_array().cloned().unwrap_or_default();
        let cnt = inst.call("eth_getBlockTransactionCountByNumber", json!([format!("0x{:x}", n)])).ok;
        if cnt.as_ref().and_then(|c| c.as_str()).map(|s| u64::from_str_radix(s.trim_start_matches("0x"), 16).unwrap_or(u64::MAX)) != Some(txs.len() as u64) {
            fails.push((n, format!("block {} lists {} txs but the count is {:?}", n, txs.len(), cnt)));
        }
        let mut cum = 0u64;
        let mut next_log = 0u64;
        for (i, tx) in txs.iter().enumerate() {
            let th = tx["hash"].as_str().unwrap_or("");
            let hexn = |v: &Value| v.as_str().map(|s| u64::from_str_radix(s.trim_start_matches("0x"), 16).unwrap_or(u64::MAX));
            if hexn(&tx["transactionIndex"]) != Some(i as u64) || hexn(&tx["blockNumber"]) != Some(n) || tx["blockHash"].as_str() != Some(&hash) {
                fails.push((n, format!("tx {} of block {}: index/number/hash fields {:?}/{:?}/{:?}", i, n, tx["transactionIndex"], tx["blockNumber"], tx["blockHash"])));
            }
            let by_idx = inst.call("eth_getTransactionByBlockNumberAndIndex", json!([n, i])).ok;
            if by_idx.as_ref().map(|x| x["hash"].clone()) != Some(tx["hash"].clone()) {
                fails.push((n, format!("(block {}, index {}) lookup does not return the listed tx", n, i)));
            }
            let Some(rc) = inst.call("eth_getTransactionReceipt", json!([th])).ok.filter(|x| !x.is_null()) else {
                fails.push((n, format!("tx {} of block {} has no receipt", th, n)));
                continue;
            };
            if hexn(&rc["transactionIndex"]) != Some(i as u64) || hexn(&rc["blockNumber"]) != Some(n) || rc["blockHash"].as_str() != Some(&hash) {
                fails.push((n, format!("receipt of tx {} of block {} disagrees on index/number/hash", i, n)));
            }
            cum = cum.saturating_add(hexn(&rc["gasUsed"]).unwrap_or(0));
            if hexn(&rc["cumulativeGasUsed"]) != Some(cum) {
                fails.push((n, format!("cumulative gas of tx {} of block {} is {:?}, running sum {}", i, n, rc["cumulativeGasUsed"], cum)));
            }
            for lg in rc["logs"].as_array().cloned().unwrap_or_default() {
                if hexn(&lg["logIndex"]) != Some(next_log) {
                    fails.push((n, format!("log index {:?} in block {}, expected {}", lg["logIndex"], n, next_log)));
                }
                next_log += 1;
            }
            // the receipt handed to the indexer is the one served later
            if let Some(given) = ctx.receipts.get(th) {
                if *given != rc {
                    fails.push((n, format!("receipt served for {} differs from the one returned to the indexer", th)));
                }
            }
        }
        // the raw encodings decode to the same data
        {
            use alloy::consensus::{Block, Header, ReceiptWithBloom, TxEnvelope};
            use alloy::rlp::Decodable;
            let hx = |v: Option<Value>| v.and_then(|x| x.as_str().map(|s| hex::decode(s.trim_start_matches("0x")).unwrap_or_default()));
            let hexn = |v: &Value| v.as_str().map(|s| u64::from_str_radix(s.trim_start_matches("0x"), 16).unwrap_or(u64::MAX));
            let lower = |v: &Value| v.as_str().map(|s| s.to_lowercase());
            if let Some(raw) = hx(inst.call("debug_getRawBlock", json!([format!("{}", n)])).ok) {
                match Block::<TxEnvelope>::decode(&mut raw.as_slice()) {
                    Err(e) => fails.push((n, format!("raw block {} does not decode: {}", n, e))),
                    Ok(blk) => {
                        let h = &blk.header;
                        if Some(h.number) != hexn(&b["number"]) || Some(h.timestamp) != hexn(&b["timestamp"]) || Some(h.gas_used) != hexn(&b["gasUsed"])
                            || Some(format!("{:?}", h.parent_hash)) != lower(&b["parentHash"]) || Some(format!("{:?}", h.transactions_root)) != lower(&b["transactionsRoot"])
                        {
                            fails.push((n, format!("raw block {}: header fields differ from eth_getBlockByNumber", n)));
                        }
                        let rtxs: Vec<&TxEnvelope> = blk.body.transactions.iter().collect();
                        if rtxs.len() != txs.len() {
                            fails.push((n, format!("raw block {} holds {} transactions, the block lists {}", n, rtxs.len(), txs.len())));
                        }
                        for (i, (rt, jt)) in rtxs.iter().zip(txs.iter()).enumerate() {
                            if let TxEnvelope::Legacy(signed) = rt {
                                let t = signed.tx();
                                let to = t.to.to().map(|a| format!("{:?}", a));
                                let jto = lower(&jt["to"]);
                                let jin = jt["input"].as_str().map(|s| s.to_lowercase());
                                if Some(t.nonce) != hexn(&jt["nonce"]) || to != jto || Some(format!("0x{}", hex::encode(&t.input))) != jin || Some(t.gas_limit) != hexn(&jt["gas"]) {
                                    fails.push((n, format!("raw block {} tx {}: nonce/to/input/gas {:?}/{:?}/../{} vs the transaction served by hash {:?}/{:?}/../{:?}", n, i, t.nonce, to, t.gas_limit, jt["nonce"], jt["to"], jt["gas"])));
                                }
                            } else {
                                fails.push((n, format!("raw block {} tx {} is not a legacy transaction", n, i)));
                            }
                        }
                    }
                }
                if let Some(rh) = hx(inst.call("debug_getRawHeader", json!([format!("{}", n)])).ok) {
                    match Header::decode(&mut rh.as_slice()) {
                        Ok(hd) if Some(hd.number) == hexn(&b["number"]) && Some(format!("{:?}", hd.parent_hash)) == lower(&b["parentHash"]) => {}
                        _ => fails.push((n, format!("raw header {} does not decode to the block's header", n))),
                    }
                }
            }
            if let Some(Value::Array(rrs)) = inst.call("debug_getRawReceipts", json!([format!("{}", n)])).ok {
                if rrs.len() != txs.len() {
                    fails.push((n, format!("{} raw receipts for {} transactions in block {}", rrs.len(), txs.len(), n)));
                }
                for (i, (rr, jt)) in rrs.iter().zip(txs.iter()).enumerate() {
                    let bytes = rr.as_str().map(|s| hex::decode(s.trim_start_matches("0x")).unwrap_or_default()).unwrap_or_default();
                    let Some(rc) = jt["hash"].as_str().and_then(|h| inst.call("eth_getTransactionReceipt", json!([h])).ok).filter(|r| !r.is_null()) else { continue };
                    match ReceiptWithBloom::<alloy::consensus::Receipt>::decode(&mut bytes.as_slice()) {
                        Err(e) => fails.push((n, format!("raw receipt {} of block {} does not decode: {}", i, n, e))),
                        Ok(r) => {
                            let jl = rc["logs"].as_array().cloned().unwrap_or_default();
                            let same_logs = r.receipt.logs.len() == jl.len()
                                && r.receipt.logs.iter().zip(jl.iter()).all(|(a, b)| {
                                    Some(format!("{:?}", a.address)) == lower(&b["address"])
                                        && a.data.topics().iter().map(|t| format!("{:?}", t)).collect::<Vec<_>>() == b["topics"].as_array().map(|ts| ts.iter().filter_map(|t| t.as_str().map(|s| s.to_lowercase())).collect::<Vec<_>>()).unwrap_or_default()
                                        && Some(format!("0x{}", hex::encode(&a.data.data))) == b["data"].as_str().map(|s| s.to_lowercase())
                                });
                            let status = rc["status"].as_str() == Some("0x1");
                            if r.receipt.status.coerce_status() != status || Some(r.receipt.cumulative_gas_used) != hexn(&rc["cumulativeGasUsed"]) || !same_logs {
                                fails.push((n, format!("raw receipt {} of block {} differs from the receipt served by hash (status / cumulative gas / logs)", i, n)));
                            }
                        }
                    }
                }
            }
        }
        let hexn = |v: &Value| v.as_str().map(|s| u64::from_str_radix(s.trim_start_matches("0x"), 16).unwrap_or(u64::MAX));
        if hexn(&b["gasUsed"]) != Some(cum) {
            fails.push((n, format!("block {} gasUsed {:?} != sum of its receipts {}", n, b["gasUsed"], cum)));
        }
    }
    // inscription id -> receipt -> same hash
    let n = u64::MAX;
    for (id, th) in &ctx.insc_of {
        let by_id = inst.call("brc20_getTxReceiptByInscriptionId", json!([id])).ok.filter(|x| !x.is_null());
        if let Some(rc) = &by_id {
            if rc["transactionHash"].as_str() != Some(th) {
                fails.push((n, format!("inscription {} resolves to {:?}, the indexer was given {}", id, rc["transactionHash"], th)));
            }
        }
    }
    // every transaction that is served by hash names an inscription id, and that id leads back to the same receipt
    // (a re-submission after a rollback may give the same hash a newer inscription id: the row by hash decides)
    let hashes: BTreeSet<&String> = ctx.known_hashes.iter().collect();
    for th in hashes {
        let by_hash = inst.call("eth_getTransactionReceipt", json!([th])).ok.filter(|x| !x.is_null());
        if by_hash.is_none() {
            continue;
        }
        match inst.call("brc20_getInscriptionIdByTxHash", json!([th])).ok.and_then(|x| x.as_str().map(|s| s.to_string())) {
            None => fails.push((n, format!("tx {} is served by hash but names no inscription id", th))),
            Some(id) => {
                let rc = inst.call("brc20_getTxReceiptByInscriptionId", json!([id])).ok.filter(|x| !x.is_null());
                match rc {
                    None => fails.push((n, format!("tx {} names inscription {} but no receipt is served under that id", th, id))),
                    Some(rc) if rc["transactionHash"].as_str() != Some(th.as_str()) => fails.push((n, format!("tx {} names inscription {}, which resolves to {:?}", th, id, rc["transactionHash"]))),
                    _ => {}
                }
            }
        }
    }
    for (n, msg) in fails {
        let known = ctx.dup_blocks.contains(&n) || (n == u64::MAX && !ctx.dup_blocks.is_empty());
        out.oracle_fail(&case, if known { "coherence-dup-txhash" } else { "coherence" }, &msg);
    }
}

fn exec_bad(ctx: &mut Ctx, f: &BTreeMap<String, String>, out: &mut Out) {
    let case = ctx.case.clone();
    let which = f.get("which").cloned().unwrap_or_default();
    let ts: u64 = f.get("ts").and_then(|s| s.parse().ok()).unwrap_or(0);
    let hash = f.get("hash").cloned().unwrap_or_default();
    let idx: u64 = f.get("idx").and_then(|s| s.parse().ok()).unwrap_or(0);
    let insc = f.get("insc").cloned().unwrap_or_default();
    let code = format!("0x{}", hex::encode(code_for("store")));
    let dep = |ts: u64, hash: &str, idx: u64, d: Value, b: Value, pk: &str| ("brc20_deploy".to_string(), json!([pk, d, b, ts, hash, idx, insc, 100000, h256(1)]));
    let txid = h256(1);
    let flat = |ts: u64, hash: &str, idx: u64, sel: &str, pkok: bool| format!("deploy ts={} hash={} idx={} txid={} sel={} pkok={}", ts, hash, idx, txid, sel, pkok);
    let (method, params, must_fail, model) = match which.as_str() {
        "idx" => {
            let (m, p) = dep(ts, &hash, idx + 1, json!(code), Value::Null, PKS[0]);
            (m, p, true, flat(ts, &hash, idx + 1, "ok", true))
        }
        "ts" => {
            let (m, p) = dep(ts + 1, &hash, idx, json!(code), Value::Null, PKS[0]);
            (m, p, true, flat(ts + 1, &hash, idx, "ok", true))
        }
        "hash" => {
            let (m, p) = dep(ts, &h256(999_999_999), idx, json!(code), Value::Null, PKS[0]);
            (m, p, true, flat(ts, &h256(999_999_999), idx, "ok", true))
        }
        "fincount" => ("brc20_finaliseBlock".into(), json!([ts, hash, idx + 1]), true, format!("fin ts={} hash={} count={}", ts, hash, idx + 1)),
        "commitmid" => ("brc20_commitToDatabase".into(), json!([]), true, "commit".to_string()),
        "reorgmid" => ("brc20_reorg".into(), json!([ctx.height.unwrap_or(0)]), true, format!("reorg n={}", ctx.height.unwrap_or(0))),
        "minemid" => ("brc20_mine".into(), json!([1, ts]), true, format!("mine count=1 ts={}", ts)),
        "bothfields" => {
            let (m, p) = dep(ts, &hash, idx, json!(code), json!("AA"), PKS[0]);
            (m, p, true, flat(ts, &hash, idx, "both", true))
        }
        "bothempty" => {
            // both encodings present, the base64 one empty: still both
            let (m, p) = dep(ts, &hash, idx, json!(code), json!(""), PKS[0]);
            (m, p, true, flat(ts, &hash, idx, "both", true))
        }
        "nofield" => {
            let (m, p) = dep(ts, &hash, idx, Value::Null, Value::Null, PKS[0]);
            (m, p, true, flat(ts, &hash, idx, "none", true))
        }
        "badpk" => {
            let (m, p) = dep(ts, &hash, idx, json!(code), Value::Null, "zz");
            (m, p, true, flat(ts, &hash, idx, "ok", false))
        }
        "duphash" => {
            // the hash of an existing block
            let h0 = ctx.main.call("eth_getBlockByNumber", json!(["latest", false])).ok.and_then(|b| b["hash"].as_str().map(|s| s.to_string())).unwrap_or(h256(1));
            let (m, p) = dep(ts, &h0, 0, json!(code), Value::Null, PKS[0]);
            (m, p, true, flat(ts, &h0, 0, "ok", true))
        }
        "dupfin" => {
            // finalising an empty block under the hash of an existing block
            let h0 = ctx.main.call("eth_getBlockByNumber", json!(["latest", false])).ok.and_then(|b| b["hash"].as_str().map(|s| s.to_string())).unwrap_or(h256(1));
            ("brc20_finaliseBlock".into(), json!([ts, h0, 0]), true, format!("fin ts={} hash={} count=0", ts, h0))
        }
        "initagain" => (
            "brc20_initialise".into(),
            json!([h256(77), ts, 0]),
            ctx.height.is_some(),
            format!("init hash={} ts={} height=0", h256(77), ts),
        ),
        _ => return,
    };
    let before = digest(&ctx.main.state());
    let (resp, events) = run_on(&ctx.main, &method, &params);
    let class = err_class(&resp);
    let after = digest(&ctx.main.state());
    if must_fail && !class.starts_with("err") {
        out.oracle_fail(&case, "protocol-not-enforced", &format!("out-of-protocol call `{}` ({}) was accepted", which, method));
    }
    if class.starts_with("err") && before != after {
        out.oracle_fail(&case, "rejected-not-noop", &format!("rejected `{}` ({}) changed the state", which, method));
    }
    if resp.panicked {
        out.oracle_fail(&case, "panic", &format!("`{}` panicked", which));
    }
    let evs: Vec<String> = events.iter().filter(|e| e.starts_with("S ") || e.starts_with("X ")).cloned().collect();
    // flat form for the model: which rule is violated, with the parameters actually sent
    out.line(&format!("{} ## {}", model, evs.join(" ## ")), &format!("{} | {}", class, after));
    if !class.starts_with("err") && which == "initagain" {
        // accepted (e.g. first initialise after mined blocks is refused as `height`; an accepted one must be replayed)
    }
}

fn exec_read(ctx: &mut Ctx, f: &BTreeMap<String, String>, out: &mut Out) {
    let case = ctx.case.clone();
    let kind = f.get("kind").cloned().unwrap_or_default();
    let before = digest(&ctx.main.state());
    let lbi_waiting = ctx.main.state()["lbi"]["waiting_tx_count"].as_u64().unwrap_or(0);
    let mut events_all = Vec::new();
    let mut answer = String::new();
    let mut logsq: Option<(String, String)> = None;
    let mut ncalls = 0usize; // eth_callMany / eth_estimateGasMany: calls per round (groups of the recorded runs)
    let addr_of = |ctx: &Ctx, id: &str| ctx.labels.get(id).cloned();
    match kind.as_str() {
        "height" => {
            let (r, e) = run_on(&ctx.main, "eth_blockNumber", &json!([]));
            answer = format!("{:?}", r.ok);
            events_all.extend(e);
        }
        "block" => {
            let n = f.get("n").cloned().unwrap_or_default();
            for m in ["eth_getBlockByNumber"] {
                let (r, e) = run_on(&ctx.main, m, &json!([format!("0x{:x}", n.parse::<u64>().unwrap_or(0)), true]));
                answer = if r.is_ok() { "ok".into() } else { "err".into() };
                events_all.extend(e);
            }
            // the per-block debug queries (a cache behind any of them would show up against the twin, which never reads)
            for m in ["debug_getBlockTraceHash", "debug_getBlockTraceString", "debug_getRawBlock", "debug_getRawReceipts", "debug_getRawHeader"] {
                let (_, e) = run_on(&ctx.main, m, &json!([n]));
                events_all.extend(e);
            }
        }
        "logs" => {
            let latest = latest_height(&ctx.main).unwrap_or(0);
            let bound = |k: &str| -> Option<Option<u64>> {
                // Some(None) = `latest`, None = omitted
                match f.get(k).map(|s| s.as_str()) {
                    None | Some("-") => None,
                    Some("latest") => Some(None),
                    Some(s) => Some(Some(s.parse().unwrap_or(0))),
                }
            };
            let (fb, tb) = (bound("from"), bound("to"));
            let mut filter = serde_json::Map::new();
            let js = |b: Option<u64>| b.map(|n| json!(format!("0x{:x}", n))).unwrap_or(json!("latest"));
            if let Some(b) = fb {
                filter.insert("fromBlock".into(), js(b));
            }
            if let Some(b) = tb {
                filter.insert("toBlock".into(), js(b));
            }
            let addr = f.get("addr").filter(|s| *s != "-").and_then(|id| ctx.labels.get(id).cloned());
            if let Some(ad) = &addr {
                filter.insert("address".into(), json!(ad));
            }
            let topics: Option<Vec<Vec<String>>> = f.get("topics").filter(|s| *s != "none").map(|t| {
                t.split(',').map(|p| if p == "-" { vec![] } else { p.split('|').map(|x| format!("0x{:064x}", x.parse::<u64>().unwrap_or(0))).collect() }).collect()
            });
            if let Some(ts) = &topics {
                let js: Vec<Value> = ts.iter().zip(f.get("topics").unwrap().split(',')).map(|(alts, raw)| {
                    if alts.is_empty() { Value::Null } else if raw.contains('|') { json!(alts) } else { json!(alts[0]) }
                }).collect();
                filter.insert("topics".into(), json!(js));
            }
            let (r, e) = run_on(&ctx.main, "eth_getLogs", &json!([Value::Object(filter.clone())]));
            events_all.extend(e);
            // the property speaks about explicit ranges (a number or `latest`); what an omitted bound means is
            // left to the model correspondence (`logsq` line below)
            if let (Some(fb), Some(tb)) = (fb, tb) {
                let (a, b) = (fb.unwrap_or(latest), tb.unwrap_or(latest));
                // C18 range rule: refused iff to - from > 5 in u64 arithmetic (a reversed range wraps)
                let refused = b.wrapping_sub(a) > 5;
                if refused == r.is_ok() {
                    out.oracle_fail(&case, "logs-range", &format!("eth_getLogs from {} to {}: ok={} but the range rule says refused={}", a, b, r.is_ok(), refused));
                }
                if let Some(Value::Array(logs)) = &r.ok {
                    check_logs(ctx, a, b, logs, addr.as_deref(), topics.as_ref(), out);
                }
            }
            // C18 (and C01): the replica - after every accepted reorg a fresh instance that was fed only the surviving
            // history - answers the same filter; it shares no index rows with the instance under test, so rows that a
            // rollback left behind (and that the block's own lists inherit) show up as a difference
            if ctx.twin.is_open() {
                let r2 = ctx.twin.call("eth_getLogs", json!([Value::Object(filter.clone())]));
                if r.ok.is_some() != r2.ok.is_some() || (r.ok.is_some() && r.ok != r2.ok) {
                    let n = |v: &Option<Value>| v.as_ref().and_then(|x| x.as_array().map(|a| a.len() as i64)).unwrap_or(-1);
                    out.oracle_fail(&case, "logs", &format!("eth_getLogs {:?} returned {} logs, the replica built by replaying the same history returns {} (or their contents differ)", f, n(&r.ok), n(&r2.ok)));
                }
                out.count("logs-vs-replica");
            }
            answer = if r.is_ok() { "ok".into() } else { "err".into() };
            // model correspondence: every log the receipts hold (chain order), the filter, and what came back
            let ident = |lg: &Value| {
                let n = |k: &str| lg[k].as_str().and_then(|s| u64::from_str_radix(s.trim_start_matches("0x"), 16).ok()).unwrap_or(u64::MAX);
                format!("{}.{}.{}", n("blockNumber"), n("transactionIndex"), n("logIndex"))
            };
            let mut all = Vec::new();
            for n in 0..=(latest + 1) {
                for rc in receipts_of_block(ctx, n) {
                    for lg in rc["logs"].as_array().cloned().unwrap_or_default() {
                        let ts: Vec<String> = lg["topics"].as_array().map(|a| a.iter().filter_map(|t| t.as_str().map(|s| s.to_lowercase())).collect()).unwrap_or_default();
                        all.push(format!("{}@{}/{}", ident(&lg), lg["address"].as_str().unwrap_or("").to_lowercase(), ts.join("/")));
                    }
                }
            }
            let show_b = |b: Option<Option<u64>>| match b { None => "-".to_string(), Some(None) => latest.to_string(), Some(Some(n)) => n.to_string() };
            let tspec = match &topics {
                None => "none".to_string(),
                Some(ts) => ts.iter().zip(f.get("topics").unwrap().split(',')).map(|(alts, raw)| {
                    if alts.is_empty() { "-".to_string() } else if raw.contains('|') { format!("[{}]", alts.join("|")) } else { alts[0].clone() }
                }).collect::<Vec<_>>().join(","),
            };
            logsq = Some((
                format!("logsq latest={} from={} to={} addr={} topics={} all={}", latest, show_b(fb), show_b(tb), addr.clone().map(|a| a.to_lowercase()).unwrap_or("-".into()), tspec, if all.is_empty() { "-".to_string() } else { all.join(";") }),
                match &r.ok { Some(Value::Array(logs)) => format!("ok {}", logs.iter().map(|l| ident(l)).collect::<Vec<_>>().join(",")), _ => "err".to_string() },
            ));
        }
        "txpool" => {
            let (r, e) = run_on(&ctx.main, "txpool_content", &json!([]));
            events_all.extend(e);
            answer = if r.is_ok() { "ok".into() } else { "err".into() };
            // C08: txpool_content shows exactly the waiting set
            if let (Some(exp), Some(got)) = (f.get("expect"), r.ok.as_ref()) {
                let mut want: BTreeSet<(String, u64)> = BTreeSet::new();
                if exp != "-" {
                    for e in exp.split(',') {
                        let mut p = e.split('.');
                        let s: u8 = p.next().and_then(|x| x.parse().ok()).unwrap_or(0);
                        let n: u64 = p.next().and_then(|x| x.parse().ok()).unwrap_or(0);
                        want.insert((format!("{:?}", Signer::new(s).address()).to_lowercase(), n));
                    }
                }
                let mut have: BTreeSet<(String, u64)> = BTreeSet::new();
                if let Some(m) = got["pending"].as_object() {
                    for (a, txs) in m {
                        if let Some(t) = txs.as_object() {
                            for n in t.keys() {
                                have.insert((a.to_lowercase(), n.parse().unwrap_or(u64::MAX)));
                            }
                        }
                    }
                }
                if want != have {
                    out.oracle_fail(&case, "pool-content", &format!("txpool_content lists {:?}, the reference pool holds {:?}", have, want));
                }
                out.count("pool-content-checked");
                // and per sender
                for (a, _) in want.iter().chain(have.iter()) {
                    let (rf, _) = run_on(&ctx.main, "txpool_contentFrom", &json!([a]));
                    let hv: BTreeSet<u64> = rf.ok.as_ref().and_then(|v| v["pending"].as_object().cloned()).map(|m| m.values().flat_map(|t| t.as_object().map(|o| o.keys().map(|k| k.parse().unwrap_or(u64::MAX)).collect::<Vec<_>>()).unwrap_or_default()).collect()).unwrap_or_default();
                    let wv: BTreeSet<u64> = want.iter().filter(|w| &w.0 == a).map(|w| w.1).collect();
                    if hv != wv {
                        out.oracle_fail(&case, "pool-content", &format!("txpool_contentFrom({}) lists nonces {:?}, the reference pool holds {:?}", a, hv, wv));
                    }
                }
            }
        }
        "ethcall" | "estimate" => {
            if lbi_waiting != 0 {
                return; // executing reads wait for the block to be finalised: only used at boundaries
            }
            let to = addr_of(ctx, &f.get("to").cloned().unwrap_or_default());
            let Some(to) = to else { return };
            let from = format!("{:?}", pkscript_addr(&f.get("pk").cloned().unwrap_or_default()));
            let call = json!({"from": from, "to": to, "data": format!("0x{}", f.get("data").cloned().unwrap_or_default())});
            let m = if kind == "ethcall" { "eth_call" } else { "eth_estimateGas" };
            let (r, e) = run_on(&ctx.main, m, &json!([call]));
            events_all.extend(e.clone());
            answer = if r.is_ok() { "ok".into() } else { "err".into() };
            if kind == "estimate" {
                check_estimate(ctx, &e, &r, out);
            }
        }
        "callmany" | "estimatemany" => {
            if lbi_waiting != 0 {
                return;
            }
            let mut calls = Vec::new();
            for c in f.get("calls").cloned().unwrap_or_default().split(';') {
                let p: Vec<&str> = c.split(':').collect();
                if p.len() != 3 {
                    continue;
                }
                let mut call = serde_json::Map::new();
                if p[0] != "none" {
                    let Some(to) = (if p[0].starts_with("0x") { Some(p[0].to_string()) } else { addr_of(ctx, p[0]) }) else { continue };
                    call.insert("to".into(), json!(to));
                }
                call.insert("data".into(), json!(format!("0x{}", p[1])));
                if let Some(label) = p[2].strip_prefix('@') {
                    let Some(a) = addr_of(ctx, label) else { continue };
                    call.insert("from".into(), json!(a));
                } else if p[2] != "-" {
                    call.insert("from".into(), json!(format!("{:?}", pkscript_addr(p[2]))));
                }
                calls.push(Value::Object(call));
            }
            let m = if kind == "callmany" { "eth_callMany" } else { "eth_estimateGasMany" };
            ncalls = calls.len();
            let (r, e) = run_on(&ctx.main, m, &json!([calls]));
            events_all.extend(e);
            if r.panicked {
                out.oracle_fail(&case, "panic", &format!("{} panicked: {:?}", m, f));
            }
            answer = if r.is_ok() { "ok".into() } else { "err".into() };
            if std::env::var("VERIF_DEBUG").is_ok() {
                eprintln!("{} {:?} -> {:?}", m, calls, r);
            }
            out.count(if r.is_ok() { "many-ok" } else { "many-err" });
        }
        "balance" => {
            if lbi_waiting != 0 {
                return;
            }
            let (r, e) = run_on(&ctx.main, "brc20_balance", &json!([f.get("pk").cloned().unwrap_or_default(), f.get("tick").cloned().unwrap_or_default()]));
            events_all.extend(e);
            answer = if r.is_ok() { "ok".into() } else { "err".into() };
        }
        "sweep" => {
            v::take_events();
            v::set_enabled(true);
            let _ = observation(&ctx.main, ctx);
            v::set_enabled(false);
            events_all.extend(v::take_events());
            answer = "ok".into();
        }
        _ => return,
    }
    let after = digest(&ctx.main.state());
    // C10: reads never change state, never reach DatabaseCommit, never write a table
    if before != after {
        out.oracle_fail(&case, "read-changed-state", &format!("read {:?} changed the state digest", f));
    }
    if let Some(bad) = events_all.iter().find(|e| e.starts_with("S ") || e.starts_with("W ") || e.starts_with("X dbcommit") || e.starts_with("X tx ")) {
        out.oracle_fail(&case, "read-wrote", &format!("read {:?} produced the event `{}`", f, bad.chars().take(160).collect::<String>()));
    }
    let mut evs: Vec<String> = events_all.iter().filter(|e| e.starts_with("S ") || e.starts_with("W ") || e.starts_with("X dbcommit")).cloned().collect();
    // C17: the environment of every simulation of an executing read goes to the model as well (call data and output
    // dropped), which checks height, caller nonce (per round of a *Many call: account nonce + earlier calls of the
    // same caller) and fees against its own node
    if matches!(kind.as_str(), "ethcall" | "estimate" | "balance" | "callmany" | "estimatemany") {
        for e in events_all.iter().filter(|e| e.starts_with("X sim ") || e.starts_with("X simmulti ")) {
            let slim: Vec<&str> = e.split(' ').filter(|w| !w.starts_with("data=") && !w.starts_with("out=")).collect();
            evs.push(slim.join(" "));
            out.count(if e.starts_with("X sim ") { "sim-env-to-model" } else { "simmulti-env-to-model" });
        }
    }
    let _ = answer;
    out.line(&format!("read kind={} ncalls={} ## {}", kind, ncalls, evs.join(" ## ")), &format!("ok | {}", after));
    if let Some((op, ans)) = logsq {
        out.line(&op, &ans);
    }
}

/// C19: the Prague boundary on a network that has an activation height (the current-txid helper exists "where the
/// Prague rules are in force, and only there", also for a parked signed transaction that runs later inside another
/// call).  A scratch instance under `net` is mined up to a few blocks below the activation height `H` (the real
/// `brc20_mine`; the model is not involved in that part), a probe contract is deployed, and then, on both sides of `H`
/// and across it: inscription calls, signed transactions, and signed transactions parked in one block and drained in
/// a later one.  After each, slot 11 of the probe (what the helper answered) is read.  One model line per observation:
/// `pbound net= park= exec= txid=` answered `seen=<word>`; the model answers from `Forks.prague` alone.
fn exec_pbound(ctx: &mut Ctx, f: &BTreeMap<String, String>, out: &mut Out) {
    let case = ctx.case.clone();
    let net = f.get("net").cloned().unwrap_or("signet".into());
    let act: u64 = match net.as_str() {
        "signet" => 275_000,
        "mainnet" | "bitcoin" => 923_369,
        _ => return,
    };
    eng::configure(&net, true);
    let chain_id = v::CONFIG.read().chain_id;
    ctx.n_inst += 1;
    let dir = ctx.scratch.join(format!("pbound{}", ctx.n_inst));
    let _ = std::fs::remove_dir_all(&dir);
    let mut inst = Inst::open(&dir, ctx.rt.clone());
    let ts0 = 1_700_000_000u64;
    let fail = |out: &mut Out, what: &str| out.oracle_fail(&case, "pbound-setup", what);
    let start = act - 9; // blocks 0 .. act-10 are mined empty
    let r = inst.call("brc20_mine", json!([start, ts0]));
    if r.err.is_some() || r.panicked {
        fail(out, &format!("brc20_mine({}) under {} failed: {:?}", start, net, r.err));
        inst.close();
        let _ = std::fs::remove_dir_all(&dir);
        eng::configure("regtest", true);
        return;
    }
    let sel = keccak256(b"getTxId()")[..4].to_vec();
    let mut bn = start; // the block under construction
    let mut idx = 0u64;
    let mut insc = 0u64;
    let hash_of = |b: u64| h256(0x5000_0000 + b);
    let slot11 = |inst: &Inst, addr: &str| inst.call("eth_getStorageAt", json!([addr, "0xb"])).ok.and_then(|v| v.as_str().map(|s| s.trim_start_matches("0x").to_string())).unwrap_or_default();
    // deploy the probe in block act-9
    insc += 1;
    let code = code_for("probe");
    let r = inst.call("brc20_deploy", json!([PKS[0], format!("0x{}", hex::encode(&code)), Value::Null, ts0 + bn, hash_of(bn), idx, format!("pb{}", insc), code.len() as u64 + 200, h256(0xd00)]));
    let probe = r.ok.as_ref().and_then(|v| v["contractAddress"].as_str().map(|s| s.to_lowercase())).unwrap_or_default();
    if probe.is_empty() {
        fail(out, &format!("probe deployment under {} failed: {:?}", net, r.err));
        inst.close();
        let _ = std::fs::remove_dir_all(&dir);
        eng::configure("regtest", true);
        return;
    }
    idx += 1;
    let probe_addr: Address = probe.parse().unwrap_or(Address::ZERO);
    // helpers working on (inst, bn, idx)
    macro_rules! finalise {
        () => {{
            let r = inst.call("brc20_finaliseBlock", json!([ts0 + bn, hash_of(bn), idx]));
            if r.err.is_some() {
                fail(out, &format!("finalise of block {} failed: {:?}", bn, r.err));
            }
            bn += 1;
            idx = 0;
        }};
    }
    macro_rules! upto {
        ($h:expr) => {{
            while bn < $h {
                finalise!();
            }
        }};
    }
    macro_rules! transact {
        ($signer:expr, $nonce:expr, $txid:expr) => {{
            // the selector, then a byte per signer: before the RLP-hash rule a signed transaction's hash does not
            // cover its signer, so identical (nonce, target, data) of two signers collide (known finding F21, probed
            // separately below)
            let mut data = sel.clone();
            data.push($signer as u8);
            let raw = Signer::new($signer).raw_tx(Some(chain_id), $nonce, Some(probe_addr), &data);
            insc += 1;
            let r = inst.call("brc20_transact", json!([format!("0x{}", hex::encode(&raw)), Value::Null, ts0 + bn, hash_of(bn), idx, format!("pb{}", insc), raw.len() as u64 + 400, $txid]));
            let n = r.ok.as_ref().and_then(|v| v.as_array().map(|a| a.len() as u64)).unwrap_or(0);
            idx += n;
            (n, r)
        }};
    }
    let observe = |out: &mut Out, inst: &Inst, kind: &str, park: u64, exec: u64, txid: &str| {
        let seen = slot11(inst, &probe);
        // the property, judged on the real code alone
        let want = if exec >= act { txid.trim_start_matches("0x").to_string() } else { format!("{:064x}", 0) };
        if seen != want {
            out.oracle_fail(&case, "context", &format!("{} on {}: {} parked in block {} and executed in block {} (activation {}): the contract read txid {}, expected {}", kind, net, kind, park, exec, act, seen, want));
        }
        out.count("pbound-observed");
        out.line(&format!("pbound net={} kind={} park={} exec={} txid={}", net, kind, park, exec, txid.trim_start_matches("0x")), &format!("seen={}", seen));
    };
    // (1) inscription call before the activation height
    insc += 1;
    let t = h256(0xe01);
    let r = inst.call("brc20_call", json!([PKS[1], probe, Value::Null, format!("0x{}", hex::encode(&sel)), Value::Null, ts0 + bn, hash_of(bn), idx, format!("pb{}", insc), 5000u64, t]));
    if r.ok.as_ref().map(|v| v["status"].as_str() == Some("0x1")).unwrap_or(false) {
        idx += 1;
        observe(out, &inst, "call", bn, bn, &t);
    } else {
        fail(out, &format!("probe call before activation failed: {:?} {:?}", r.ok, r.err));
    }
    finalise!(); // act-9 done
    // (2) signer 21: parked at act-8, drained at act-6 (both before)
    let (tb1, tb0) = (h256(0xb1), h256(0xb0));
    let park_b = bn;
    let (n, _) = transact!(21, 1, tb1.clone());
    if n != 0 { fail(out, "a future-nonce transaction executed at once"); }
    upto!(act - 6);
    let (n, _) = transact!(21, 0, tb0.clone());
    if n == 2 { observe(out, &inst, "parked", park_b, bn, &tb1); } else { fail(out, &format!("drain before activation returned {} receipts", n)); }
    // (3) signer 22: parked at act-3, drained at act (across)
    upto!(act - 3);
    let (ta1, ta0) = (h256(0xa1), h256(0xa0));
    let park_a = bn;
    let (n, _) = transact!(22, 1, ta1.clone());
    if n != 0 { fail(out, "a future-nonce transaction executed at once"); }
    // a second one parked in the last block before activation
    upto!(act - 1);
    let (tc1, tc0) = (h256(0xc1), h256(0xc0));
    let park_c = bn;
    let (n, _) = transact!(23, 1, tc1.clone());
    if n != 0 { fail(out, "a future-nonce transaction executed at once"); }
    upto!(act);
    let (n, _) = transact!(22, 0, ta0.clone());
    if n == 2 { observe(out, &inst, "parked", park_a, bn, &ta1); } else { fail(out, &format!("drain at activation returned {} receipts", n)); }
    let (n, _) = transact!(23, 0, tc0.clone());
    if n == 2 { observe(out, &inst, "parked", park_c, bn, &tc1); } else { fail(out, &format!("second drain at activation returned {} receipts", n)); }
    // (4) direct signed transaction and inscription call at the activation height
    let td = h256(0xd1);
    let (n, _) = transact!(24, 0, td.clone());
    if n == 1 { observe(out, &inst, "signed", bn, bn, &td); }
    insc += 1;
    let t = h256(0xe02);
    let r = inst.call("brc20_call", json!([PKS[1], probe, Value::Null, format!("0x{}", hex::encode(&sel)), Value::Null, ts0 + bn, hash_of(bn), idx, format!("pb{}", insc), 5000u64, t]));
    if r.ok.as_ref().map(|v| v["status"].as_str() == Some("0x1")).unwrap_or(false) {
        idx += 1;
        observe(out, &inst, "call", bn, bn, &t);
    }
    // (5) signer 25: parked and drained after the activation height
    upto!(act + 1);
    let (tf1, tf0) = (h256(0xf1), h256(0xf0));
    let park_f = bn;
    let (n, _) = transact!(25, 1, tf1.clone());
    if n != 0 { fail(out, "a future-nonce transaction executed at once"); }
    upto!(act + 2);
    let (n, _) = transact!(25, 0, tf0.clone());
    if n == 2 { observe(out, &inst, "parked", park_f, bn, &tf1); } else { fail(out, &format!("drain after activation returned {} receipts", n)); }
    finalise!();
    // (6) two signers park identical (nonce, target, data) in the same block, each with its own txid; the first is
    // drained: it must see its own txid.  Under the legacy signing-hash rule (mainnet below 929 000) both have the
    // same transaction hash and the txid row of the first is overwritten by the second: known finding F21.
    {
        let same = cat_sel(&sel, 0x77);
        let (t26, t27) = (h256(0x2601), h256(0x2701));
        let park = bn;
        for (sg, t) in [(26u8, &t26), (27u8, &t27)] {
            let raw = Signer::new(sg).raw_tx(Some(chain_id), 1, Some(probe_addr), &same);
            insc += 1;
            let r = inst.call("brc20_transact", json!([format!("0x{}", hex::encode(&raw)), Value::Null, ts0 + bn, hash_of(bn), idx, format!("pb{}", insc), raw.len() as u64 + 400, t]));
            if r.ok.as_ref().and_then(|v| v.as_array().map(|a| a.len())).unwrap_or(9) != 0 {
                fail(out, "a future-nonce transaction executed at once");
            }
        }
        finalise!();
        let (n, _) = transact!(26, 0, h256(0x2600));
        if n == 2 {
            let seen = slot11(&inst, &probe);
            if seen != t26.trim_start_matches("0x") {
                let fam = if seen == t27.trim_start_matches("0x") && v::fork_rules(park).1 == false { "context-legacy-signing-hash" } else { "context" };
                out.oracle_fail(&case, fam, &format!("on {}: two signers parked identical (nonce, target, data) in block {} with txids {} and {}; the first one, executed in block {}, read txid {}", net, park, t26, t27, bn, seen));
            }
            out.count("pbound-observed");
            out.line(&format!("pbound net={} kind=collide park={} exec={} txid={} other={}", net, park, bn, t26.trim_start_matches("0x"), t27.trim_start_matches("0x")), &format!("seen={}", seen));
        } else {
            fail(out, &format!("drain of the colliding pair returned {} receipts", n));
        }
        finalise!();
    }
    let _ = (idx, bn);
    inst.close();
    let _ = std::fs::remove_dir_all(&dir);
    eng::configure("regtest", true);
}

fn cat_sel(sel: &[u8], b: u8) -> Vec<u8> {
    let mut d = sel.to_vec();
    d.push(b);
    d
}

/// The receipts of block `n` in block order, found WITHOUT the (block, index) -> hash table that `eth_getLogs` itself
/// walks: a finalised block lists its transactions in its own row; the block under construction has exactly
/// `waiting_tx_count` transactions (only there the index is consulted, bounded by that count).  A stale index row above
/// a block's real transaction count (left behind by a rollback that forgot the index table) is therefore not followed.
fn receipts_of_block(ctx: &Ctx, n: u64) -> Vec<Value> {
    let mut hashes: Vec<Value> = Vec::new();
    match ctx.main.call("eth_getBlockByNumber", json!([format!("0x{:x}", n), false])).ok.filter(|b| !b.is_null()) {
        Some(b) => hashes = b["transactions"].as_array().cloned().unwrap_or_default(),
        None => {
            let st = ctx.main.state();
            let waiting = st["lbi"]["waiting_tx_count"].as_u64().unwrap_or(0);
            let next = latest_height(&ctx.main).map_or(0, |h| h + 1);
            if n == next {
                for i in 0..waiting.min(10_000) {
                    if let Some(tx) = ctx.main.call("eth_getTransactionByBlockNumberAndIndex", json!([n, i])).ok.filter(|t| !t.is_null()) {
                        hashes.push(tx["hash"].clone());
                    }
                }
            }
        }
    }
    let mut out = Vec::new();
    for h in hashes {
        if let Some(rc) = ctx.main.call("eth_getTransactionReceipt", json!([h])).ok.filter(|r| !r.is_null()) {
            out.push(rc);
        }
    }
    out
}

/// C18: the logs returned are exactly the logs of the receipts in range, in chain order
fn check_logs(ctx: &Ctx, from: u64, to: u64, got: &[Value], addr: Option<&str>, topics: Option<&Vec<Vec<String>>>, out: &mut Out) {
    // receipts in range, finalised or in the block under construction (not through the index table get_logs walks)
    let mut want = Vec::new();
    for n in from..=to {
        for rc in receipts_of_block(ctx, n) {
            want.extend(rc["logs"].as_array().cloned().unwrap_or_default());
        }
    }
    // the reference filter: address equal; per position: wildcard, or the log has that topic and it is one of the alternatives
    let want: Vec<Value> = want
        .into_iter()
        .filter(|lg| {
            if let Some(a) = addr {
                if lg["address"].as_str().map(|s| s.to_lowercase()) != Some(a.to_lowercase()) {
                    return false;
                }
            }
            if let Some(ts) = topics {
                let lt: Vec<String> = lg["topics"].as_array().map(|a| a.iter().filter_map(|t| t.as_str().map(|s| s.to_string())).collect()).unwrap_or_default();
                for (i, alts) in ts.iter().enumerate() {
                    if alts.is_empty() {
                        continue;
                    }
                    if lt.len() <= i || !alts.contains(&lt[i]) {
                        return false;
                    }
                }
            }
            true
        })
        .collect();
    if want != got {
        out.oracle_fail(&ctx.case.clone(), "logs", &format!("eth_getLogs [{}..{}] returned {} logs, the receipts in range hold {} (or the order differs)", from, to, got.len(), want.len()));
    }
}

/// C16: the probes of the bisection (recorded EVM runs) and the final figure
fn check_estimate(ctx: &Ctx, events: &[String], r: &Resp, out: &mut Out) {
    let case = ctx.case.clone();
    let probes: Vec<(u64, bool)> = events
        .iter()
        .filter(|e| e.starts_with("X sim "))
        .map(|e| {
            let gl = e.split(' ').find_map(|w| w.strip_prefix("gaslimit=")).and_then(|s| s.parse::<u64>().ok()).unwrap_or(0);
            let ok = e.contains("| ok success=true");
            (gl, ok)
        })
        .collect();
    if let Some(Value::String(s)) = &r.ok {
        let g = u64::from_str_radix(s.trim_start_matches("0x"), 16).unwrap_or(0);
        if let Some((last_gl, last_ok)) = probes.last() {
            if *last_gl != g || !*last_ok {
                out.oracle_fail(&case, "estimate", &format!("estimate {} but the confirmation run was at {} (success={})", g, last_gl, last_ok));
            }
        }
        if g < 21000 || g > 1_000_000_000 {
            out.oracle_fail(&case, "estimate", &format!("estimate {} outside [21000, cap]", g));
        }
        if probes.len() > 66 {
            out.oracle_fail(&case, "estimate", &format!("{} simulations for one estimate", probes.len()));
        }
    }
}


// ------------------------------------------------------------------------------------------------- suite L

/// Suite L: every RPC method is run single-threaded with the lock tracer on; the sequence of lock operations of
/// each call is one *program* (the translator turns the set of distinct programs into `Gen/LockTraces.lean`).
pub fn exec_locks(lines: &[String], out: &mut Out, scratch: &Path, out_dir: &Path) {
    eng::configure("regtest", true);
    let rt = eng::runtime();
    let mut ctx: Option<Ctx> = None;
    let mut n_inst = 0u64;
    let mut programs: BTreeMap<String, BTreeSet<String>> = BTreeMap::new(); // program text -> methods that showed it
    let mut record = |method: &str, events: &[String]| {
        // lock name -> short type name; several locks of one type are numbered by address
        let mut ops = Vec::new();
        for e in events {
            let w: Vec<&str> = e.split(' ').collect();
            if w.len() >= 5 && w[0] == "L" && (w[3] == "acq" || w[3] == "rel") {
                ops.push(format!("{}:{}:{}", if w[3] == "rel" { "x" } else { w[2] }, w[1], w[w.len() - 1]));
            }
        }
        if !ops.is_empty() {
            programs.entry(ops.join(" ")).or_default().insert(method.to_string());
        }
    };
    let all_queries = |c: &mut Ctx, rec: &mut dyn FnMut(&str, &[String])| {
        let top = c.height.unwrap_or(0);
        let some_hash = c.known_hashes.last().cloned().unwrap_or(h256(1));
        let some_addr = c.known_addrs.iter().next().cloned().unwrap_or(format!("{:?}", Address::repeat_byte(1)));
        let bh = c.main.call("eth_getBlockByNumber", json!(["latest", false])).ok.and_then(|b| b["hash"].as_str().map(|s| s.to_string())).unwrap_or(h256(1));
        let call = json!({"from": some_addr, "to": some_addr, "data": "0x00"});
        let qs: Vec<(&str, Value)> = vec![
            ("brc20_version", json!([])),
            ("eth_blockNumber", json!([])),
            ("eth_getBlockByNumber", json!(["latest", true])),
            ("eth_getBlockByNumber", json!(["pending", false])),
            ("eth_getBlockByHash", json!([bh, true])),
            ("eth_getTransactionCount", json!([some_addr, "latest"])),
            ("eth_getBlockTransactionCountByNumber", json!([format!("0x{:x}", top)])),
            ("eth_getBlockTransactionCountByHash", json!([bh])),
            ("eth_getLogs", json!([{"fromBlock": format!("0x{:x}", top)}])),
            ("eth_call", json!([call])),
            ("eth_callMany", json!([[call.clone(), call.clone()]])),
            ("eth_estimateGas", json!([call])),
            ("eth_estimateGasMany", json!([[call.clone()]])),
            ("eth_getStorageAt", json!([some_addr, "0x0"])),
            ("eth_getCode", json!([some_addr])),
            ("eth_getTransactionReceipt", json!([some_hash])),
            ("debug_traceTransaction", json!([some_hash])),
            ("debug_getBlockTraceString", json!([format!("{}", top)])),
            ("debug_getBlockTraceHash", json!([format!("{}", top)])),
            ("eth_getTransactionByHash", json!([some_hash])),
            ("eth_getTransactionByBlockNumberAndIndex", json!([top, 0])),
            ("eth_getTransactionByBlockHashAndIndex", json!([bh, 0])),
            ("txpool_content", json!([])),
            ("txpool_contentFrom", json!([some_addr])),
            ("debug_getRawHeader", json!([format!("{}", top)])),
            ("debug_getRawHeader", json!([format!("\"{}\"", bh)])),
            ("debug_getRawBlock", json!([format!("{}", top)])),
            ("debug_getRawReceipts", json!([format!("{}", top)])),
            ("brc20_balance", json!(["5120aa", "ordi"])),
            ("brc20_getTxReceiptByInscriptionId", json!(["i0"])),
            ("brc20_getInscriptionIdByTxHash", json!([some_hash])),
            ("brc20_getInscriptionIdByContractAddress", json!([some_addr])),
            ("eth_chainId", json!([])),
            ("eth_getBalance", json!([some_addr, "latest"])),
            ("net_version", json!([])),
            ("web3_clientVersion", json!([])),
            ("eth_gasPrice", json!([])),
            ("eth_syncing", json!([])),
        ];
        // executing reads wait (up to 5 s) for the block under construction: mid-block they are traced once per case
        let mid_block = c.main.state()["lbi"]["waiting_tx_count"].as_u64().unwrap_or(0) != 0;
        for (m, p) in qs {
            let executing = matches!(m, "eth_call" | "eth_callMany" | "eth_estimateGas" | "eth_estimateGasMany" | "brc20_balance");
            if executing && mid_block {
                if c.twin_mode != 0 || m != "eth_call" {
                    continue;
                }
                c.twin_mode = 1; // remembered: traced once
            }
            let (_, ev) = run_on(&c.main, m, &p);
            rec(m, &ev);
        }
    };
    let mut covered: BTreeSet<String> = BTreeSet::new();
    for line in lines {
        let op = line.split(' ').next().unwrap_or("").to_string();
        if op == "case" {
            if let Some(mut c) = ctx.take() {
                c.main.close();
                c.twin.close();
            }
            let main = new_inst(scratch, &mut n_inst, &rt);
            let twin = new_inst(scratch, &mut n_inst, &rt);
            ctx = Some(Ctx {
                main, twin, twin_mode: 0, rt: rt.clone(), scratch: scratch.to_path_buf(), n_inst,
                case: line.split(' ').nth(1).unwrap_or("?").to_string(), history: Vec::new(), labels: BTreeMap::new(),
                known_addrs: BTreeSet::new(), known_hashes: Vec::new(), receipts: BTreeMap::new(), insc_of: BTreeMap::new(),
                height: None, chain_id: v::CONFIG.read().chain_id, dup_blocks: BTreeSet::new(), kinds: BTreeMap::new(),
                submissions: BTreeMap::new(), dead: false,
            });
            out.case(line.split(' ').nth(1).unwrap_or("?"));
            continue;
        }
        let Some(c) = ctx.as_mut() else { continue };
        let f = kv(line);
        if op == "reopen" {
            c.main.reopen();
            continue;
        }
        if let Some((method, params)) = params_for(c, &op, &f) {
            let (resp, ev) = run_on(&c.main, &method, &params);
            record(&method, &ev);
            covered.insert(method.clone());
            if err_class(&resp) == "ok" {
                let mut dummy = Out::new(out_dir, "L.tmp");
                on_accepted(c, &op, &f, &resp, &mut dummy);
                if matches!(op.as_str(), "fin" | "mine" | "init" | "reorg" | "clear") {
                    c.height = latest_height(&c.main);
                }
            }
            // every query, in whatever state the instance is now (mid-block included)
            if matches!(op.as_str(), "fin" | "deploy" | "transact" | "reorg" | "commit") {
                all_queries(c, &mut record);
            }
        }
        out.count(&op);
    }
    if let Some(mut c) = ctx.take() {
        c.main.close();
        c.twin.close();
    }
    let mut text = String::new();
    for (prog, methods) in &programs {
        text.push_str(&format!("{} | {}\n", methods.iter().cloned().collect::<Vec<_>>().join(","), prog));
    }
    std::fs::write(out_dir.join("L.traces"), text).unwrap();
    // the method table of the running module, for tools/gen_methods.py
    {
        let dir = scratch.join("names");
        let mut inst = new_inst(&dir, &mut n_inst, &rt);
        let mut names = inst.method_names();
        names.sort();
        std::fs::write(out_dir.join("methods.txt"), names.join("\n") + "\n").unwrap();
        inst.close();
    }
    out.line("traces", &format!("{} distinct programs", programs.len()));
    let _ = std::fs::remove_dir_all(scratch);
}


// ------------------------------------------------------------------------------------------------- suite X

fn fresh_ctx(main: Inst, twin: Inst, rt: &Arc<tokio::runtime::Runtime>, scratch: &Path, n_inst: u64, case: &str) -> Ctx {
    Ctx {
        main, twin, twin_mode: 0, rt: rt.clone(), scratch: scratch.to_path_buf(), n_inst, case: case.to_string(),
        history: Vec::new(), labels: BTreeMap::new(), known_addrs: BTreeSet::new(), known_hashes: Vec::new(),
        receipts: BTreeMap::new(), insc_of: BTreeMap::new(), height: None, chain_id: v::CONFIG.read().chain_id,
        dup_blocks: BTreeSet::new(), kinds: BTreeMap::new(), submissions: BTreeMap::new(), dead: false,
    }
}

/// indexer ops of one case (reads and deliberate protocol violations dropped)
fn indexer_lines(lines: &[String]) -> Vec<String> {
    lines.iter().filter(|l| !l.starts_with("read") && !l.starts_with("bad") && !l.starts_with("golden")).cloned().collect()
}

/// Child process of the crash suite: replay `lines[..upto]` on a fresh directory, arm the failpoint at persistent
/// write `crash_at` (counted from the start of `lines[upto]`), run that op. The process aborts inside the op.
pub fn crash_child(lines: &[String], upto: usize, crash_at: u64, dir: &Path) {
    eng::configure("regtest", true);
    let rt = eng::runtime();
    let _ = std::fs::remove_dir_all(dir);
    let main = Inst::open(dir, rt.clone());
    let twin = Inst::open(&dir.with_extension("twin"), rt.clone());
    let mut ctx = fresh_ctx(main, twin, &rt, dir, 0, "child");
    let mut sink = Out::new(&dir.with_extension("out"), "X.child");
    for (i, l) in lines.iter().enumerate() {
        let op = l.split(' ').next().unwrap_or("").to_string();
        let f = kv(l);
        if i == upto {
            v::reset_write_count();
            v::arm_crash_at(crash_at);
        }
        if op == "reopen" {
            ctx.main.reopen();
        } else if let Some((m, p)) = params_for(&ctx, &op, &f) {
            let r = ctx.main.call(&m, p);
            if err_class(&r) == "ok" {
                on_accepted(&mut ctx, &op, &f, &r, &mut sink);
            }
        }
        if i == upto {
            break;
        }
    }
    // not reached when the failpoint fired; a crash point beyond the last write is a clean exit
    v::arm_crash_at(u64::MAX);
}

/// Suite X: for the commit / reorg ops of each case, the process is killed before persistent write i (child
/// process, real abort), the directory is reopened, rolled back to a durable height inside the window, and compared
/// with a fresh replay up to that height.
pub fn exec_crash(lines: &[String], out: &mut Out, scratch: &Path, ops_file: &Path, exhaustive: bool) {
    eng::configure("regtest", true);
    let rt = eng::runtime();
    let exe = std::env::current_exe().unwrap();
    // split into cases
    let mut cases: Vec<(String, Vec<String>)> = Vec::new();
    for l in lines {
        if l.starts_with("case ") {
            cases.push((l.split(' ').nth(1).unwrap_or("?").to_string(), Vec::new()));
        } else if let Some(c) = cases.last_mut() {
            c.1.push(l.clone());
        }
    }
    let mut n_inst = 0u64;
    for (ci, (case, raw)) in cases.iter().enumerate() {
        out.case(case);
        let script = indexer_lines(raw);
        // reference run: heights, last commit point, write counts of every commit / reorg
        let main = new_inst(scratch, &mut n_inst, &rt);
        let twin = new_inst(scratch, &mut n_inst, &rt);
        let mut ctx = fresh_ctx(main, twin, &rt, scratch, n_inst, case);
        let mut sink = Out::new(&scratch.join("sink"), "X.ref");
        let mut committed: Option<u64> = None;         // height at the last completed commit (reorg commits too)
        let mut min_target_since: Option<u64> = None;   // lowest reorg target attempted since
        let mut max_ever: u64 = 0;
        let mut points: Vec<(usize, u64, Option<u64>, u64, Option<u64>, Vec<(u64, String)>)> = Vec::new(); // (line, writes, committed before, max_ever, reorg target, durable history)
        let mut point_tables: Vec<Vec<String>> = Vec::new(); // per point: the table of every write
        let mut blocks_of: Vec<u64> = Vec::new();       // block each line belongs to
        let mut hist: Vec<(u64, String, bool)> = Vec::new(); // accepted ops: block, line, covered by a commit
        for (i, l) in script.iter().enumerate() {
            let op = l.split(' ').next().unwrap_or("").to_string();
            let f = kv(l);
            blocks_of.push(block_of(&ctx));
            if op == "reopen" {
                ctx.main.reopen();
                ctx.height = latest_height(&ctx.main);
                hist.retain(|h| h.2);
                continue;
            }
            let Some((m, p)) = params_for(&ctx, &op, &f) else { continue };
            v::reset_write_count();
            let _ = v::take_events();
            v::set_enabled(true);
            let r = ctx.main.call(&m, p);
            v::set_enabled(false);
            let writes = v::write_count();
            // the table each persistent write went to (history column and value column of a table count as one)
            let wtables: Vec<String> = v::take_events().iter().filter(|e| e.starts_with("W ")).map(|e| e.split(' ').nth(1).unwrap_or("").trim_end_matches("_cache").to_string()).collect();
            if err_class(&r) != "ok" {
                continue;
            }
            on_accepted(&mut ctx, &op, &f, &r, &mut sink);
            let b_here = *blocks_of.last().unwrap();
            if matches!(op.as_str(), "fin" | "mine" | "init" | "reorg" | "clear") {
                ctx.height = latest_height(&ctx.main);
                max_ever = max_ever.max(ctx.height.unwrap_or(0));
            }
            if op == "commit" || op == "reorg" {
                let target = f.get("n").and_then(|s| s.parse::<u64>().ok());
                let durable: Vec<(u64, String)> = hist.iter().filter(|h| h.2).map(|h| (h.0, h.1.clone())).collect();
                points.push((i, writes, committed, max_ever, if op == "reorg" { target } else { None }, durable));
                point_tables.push(wtables.clone());
                committed = ctx.height;
                min_target_since = None;
            }
            match op.as_str() {
                "commit" => hist.iter_mut().for_each(|h| h.2 = true),
                "clear" => hist.retain(|h| h.2),
                "reorg" => {
                    let n = f.get("n").and_then(|s| s.parse::<u64>().ok()).unwrap_or(0);
                    // a mine crossing n is cut
                    let mut kept = Vec::new();
                    for (b, l, _) in hist.drain(..) {
                        if b > n {
                            continue;
                        }
                        if l.starts_with("mine ") {
                            let ff = kv(&l);
                            let cnt: u64 = ff.get("count").and_then(|s| s.parse().ok()).unwrap_or(0);
                            let cnt = if b + cnt.saturating_sub(1) > n { n + 1 - b } else { cnt };
                            kept.push((b, format!("mine count={} ts={}", cnt, ff.get("ts").cloned().unwrap_or_default()), true));
                        } else {
                            kept.push((b, l, true));
                        }
                    }
                    hist = kept;
                }
                _ => hist.push((b_here, l.clone(), false)),
            }
            let _ = min_target_since;
        }
        ctx.main.close();
        ctx.twin.close();
        // crash points: (point, write index) pairs, handled by a pool of workers (each crash is a child process)
        let mut work: Vec<(usize, u64)> = Vec::new();
        for (pi, p) in points.iter().enumerate() {
            let writes = p.1;
            if writes == 0 {
                continue;
            }
            let idxs: Vec<u64> = if exhaustive || writes <= 12 {
                (0..writes).collect()
            } else {
                let mut r = Rng::new(ci as u64 * 1000 + pi as u64);
                let mut v: Vec<u64> = vec![0, 1, 2, writes - 1, writes / 2];
                for _ in 0..6 {
                    v.push(r.below(writes));
                }
                // between tables: right before the first write of every table, and one write into it (the theorems
                // are per table; the order of the tables is exercised here)
                let tabs = &point_tables[pi];
                if tabs.len() as u64 == writes {
                    for j in 1..tabs.len() {
                        if tabs[j] != tabs[j - 1] {
                            v.push(j as u64);
                            if (j as u64) + 1 < writes {
                                v.push(j as u64 + 1);
                            }
                        }
                    }
                }
                v.sort();
                v.dedup();
                v
            };
            work.extend(idxs.into_iter().map(|i| (pi, i)));
        }
        let next = std::sync::atomic::AtomicUsize::new(0);
        let results: std::sync::Mutex<Vec<(usize, Vec<&'static str>, Vec<(&'static str, String)>)>> = std::sync::Mutex::new(Vec::new());
        // every worker holds two open engines (27 RocksDB instances each): bounded by the file-descriptor limit
        let workers = std::thread::available_parallelism().map(|n| n.get()).unwrap_or(4).min(if exhaustive { 3 } else { 10 });
        std::thread::scope(|sc| {
            for _ in 0..workers {
                sc.spawn(|| loop {
                    let wi = next.fetch_add(1, std::sync::atomic::Ordering::SeqCst);
                    if wi >= work.len() {
                        break;
                    }
                    let (pi, i) = work[wi];
                    let (line_no, writes, committed_before, max_ever_then, reorg_target, durable) = &points[pi];
                    // a crash point that cannot be examined for lack of file descriptors (two engines of 27 RocksDB
                    // instances with all their table files open) is counted and skipped, it does not end the suite
                    let outcome = std::panic::catch_unwind(std::panic::AssertUnwindSafe(|| {
                    let mut counts: Vec<&'static str> = Vec::new();
                    let mut fails: Vec<(&'static str, String)> = Vec::new();
                    let dir = scratch.join(format!("crash-{}-{}-{}", ci, pi, i));
                    let _ = std::fs::remove_dir_all(&dir);
                    let status = std::process::Command::new(&exe)
                        .args(["xchild", "X", "--ops", ops_file.to_str().unwrap(), "--case", case, "--upto", &line_no.to_string(), "--crash-at", &i.to_string(), "--dir", dir.to_str().unwrap()])
                        .stdout(std::process::Stdio::null())
                        .stderr(std::process::Stdio::null())
                        .status();
                    let aborted = status.map(|s| !s.success()).unwrap_or(true);
                    counts.push(if aborted { "crashed" } else { "no-crash" });
                    // reopen and roll back to a durable height inside the window
                    let durable_top = match (committed_before, reorg_target) {
                        (Some(c), Some(t)) => Some((*c).min(*t)),
                        (Some(c), None) => Some(*c),
                        (None, _) => None,
                    };
                    let inst = Inst::open(&dir, rt.clone());
                    if let Some(top) = durable_top {
                        let lo = max_ever_then.saturating_sub(W);
                        let mut targets: Vec<u64> = vec![top];
                        if top > lo {
                            targets.push(lo.max(top.saturating_sub(1)));
                        }
                        targets.dedup();
                        let n = targets[(i as usize) % targets.len()];
                        if n >= lo {
                            let r = inst.call("brc20_reorg", json!([n]));
                            if err_class(&r) != "ok" {
                                fails.push(("crash-reorg-refused", format!("after a crash before write {} of `{}`, reorg({}) answered {} (durable height {}, highest ever {})", i, script[*line_no], n, err_class(&r), top, max_ever_then)));
                            } else {
                                // fresh replay of the durable history up to n
                                let fdir = scratch.join(format!("fresh-{}-{}-{}", ci, pi, i));
                                let _ = std::fs::remove_dir_all(&fdir);
                                let fresh = Inst::open(&fdir, rt.clone());
                                let ua = scratch.join(format!("unused-a-{}-{}-{}", ci, pi, i));
                                let ub = scratch.join(format!("unused-b-{}-{}-{}", ci, pi, i));
                                let mut ref_ctx = fresh_ctx(Inst::closed(&ua, rt.clone()), Inst::closed(&ub, rt.clone()), &rt, scratch, 0, case);
                                ref_ctx.known_hashes = ctx.known_hashes.clone();
                                ref_ctx.known_addrs = ctx.known_addrs.clone();
                                ref_ctx.insc_of = ctx.insc_of.clone();
                                ref_ctx.labels = ctx.labels.clone();
                                for (b0, l) in durable.iter() {
                                    if *b0 > n {
                                        continue;
                                    }
                                    let op = l.split(' ').next().unwrap_or("");
                                    let f = kv(l);
                                    if op == "mine" {
                                        let cnt: u64 = f.get("count").and_then(|s| s.parse().ok()).unwrap_or(0);
                                        let last = b0 + cnt.saturating_sub(1);
                                        let cnt = if last > n { n + 1 - b0 } else { cnt };
                                        let _ = fresh.call("brc20_mine", json!([cnt, f.get("ts").and_then(|s| s.parse::<u64>().ok()).unwrap_or(0)]));
                                        continue;
                                    }
                                    if let Some((m, p)) = params_for(&ctx, op, &f) {
                                        let _ = fresh.call(&m, p);
                                    }
                                }
                                let a = observation(&inst, &ref_ctx);
                                let b = observation(&fresh, &ref_ctx);
                                if let Some(d) = first_difference(&a, &b, "obs") {
                                    fails.push(("crash-not-recovered", format!("crash before write {}/{} of `{}`, reopen, reorg({}): differs from a fresh replay up to {}: {}", i, writes, script[*line_no].chars().take(40).collect::<String>(), n, n, d)));
                                }
                                counts.push("recovered-compared");
                                let mut fr = fresh;
                                fr.close();
                                let _ = std::fs::remove_dir_all(&fdir);
                                ref_ctx.main.close();
                                ref_ctx.twin.close();
                                let _ = std::fs::remove_dir_all(&ua);
                                let _ = std::fs::remove_dir_all(&ub);
                            }
                        }
                    }
                    let mut inst = inst;
                    inst.close();
                    let _ = std::fs::remove_dir_all(&dir);
                    let _ = std::fs::remove_dir_all(dir.with_extension("twin"));
                    let _ = std::fs::remove_dir_all(dir.with_extension("out"));
                        (counts, fails)
                    }));
                    let (counts, fails) = match outcome {
                        Ok(r) => r,
                        Err(_) => (vec!["point-skipped-resource"], Vec::new()),
                    };
                    results.lock().unwrap().push((wi, counts, fails));
                });
            }
        });
        let mut results = results.into_inner().unwrap();
        results.sort_by_key(|r| r.0);
        for (_, counts, fails) in results {
            for c in counts {
                out.count(c);
            }
            for (fam, msg) in fails {
                out.oracle_fail(case, fam, &msg);
            }
        }
        out.line(&format!("xcase {} points={}", case, points.len()), "done");
    }
    let _ = std::fs::remove_dir_all(scratch);
}
