//! One real engine instance behind the real RPC module (no HTTP), plus helpers shared by the engine suites.
#![allow(dead_code)]
use std::path::{Path, PathBuf};
use std::sync::Arc;

use alloy::consensus::{SignableTransaction, TxLegacy};
use alloy::network::TxSignerSync;
use alloy::primitives::{keccak256, Address, Bytes, TxKind, B256, U256};
use alloy::signers::local::PrivateKeySigner;
use brc20_prog::verif as v;
use serde_json::{json, Value};

pub struct Inst {
    pub dir: PathBuf,
    methods: Option<jsonrpsee::Methods>,
    rt: Arc<tokio::runtime::Runtime>,
}

#[derive(Clone, Debug)]
pub struct Resp {
    pub ok: Option<Value>,
    pub err: Option<(i64, String, Option<Value>)>,
    pub panicked: bool,
}

impl Resp {
    pub fn is_ok(&self) -> bool {
        self.ok.is_some()
    }
    pub fn err_msg(&self) -> String {
        self.err.as_ref().map(|e| e.1.clone()).unwrap_or_default()
    }
}

pub fn runtime() -> Arc<tokio::runtime::Runtime> {
    Arc::new(tokio::runtime::Builder::new_multi_thread().worker_threads(4).enable_all().build().unwrap())
}

/// Process-global configuration used by every engine suite: regtest rules (Prague, RLP tx hash), testnets chain id.
pub fn configure(network: &str, traces: bool) {
    v::CONFIG.write_fn_unchecked(|c| {
        c.bitcoin_rpc_network = network.to_string();
        c.chain_id = if network == "mainnet" || network == "bitcoin" { 0x4252433230 } else { 0x425243323073 };
        c.evm_record_traces = traces;
        c.fail_on_bitcoin_rpc_error = false;
        c.bitcoin_rpc_url = "http://127.0.0.1:1".into(); // nothing listens: the documented environment fault
        c.evm_call_gas_limit = 1_000_000_000;
    });
}

impl Inst {
    pub fn open(dir: &Path, rt: Arc<tokio::runtime::Runtime>) -> Inst {
        std::fs::create_dir_all(dir).unwrap();
        let db = v::Brc20ProgDatabase::new(dir).expect("open database");
        let engine = v::BRC20ProgEngine::new(db);
        Inst { dir: dir.to_path_buf(), methods: Some(v::rpc_methods(engine)), rt }
    }

    /// an instance that is not open (a placeholder where only the bookkeeping of a context is needed)
    pub fn closed(dir: &Path, rt: Arc<tokio::runtime::Runtime>) -> Inst {
        Inst { dir: dir.to_path_buf(), methods: None, rt }
    }

    /// stop + reopen the same directory (a new engine, empty caches)
    pub fn reopen(&mut self) {
        self.methods = None; // drops the engine and closes RocksDB
        let db = v::Brc20ProgDatabase::new(&self.dir).expect("reopen database");
        self.methods = Some(v::rpc_methods(v::BRC20ProgEngine::new(db)));
    }

    pub fn close(&mut self) {
        self.methods = None;
    }

    pub fn is_open(&self) -> bool {
        self.methods.is_some()
    }

    pub fn method_names(&self) -> Vec<String> {
        self.methods.as_ref().unwrap().method_names().map(|s| s.to_string()).collect()
    }

    pub fn call(&self, method: &str, params: Value) -> Resp {
        let req = json!({"jsonrpc": "2.0", "id": 1, "method": method, "params": params}).to_string();
        self.raw(&req)
    }

    pub fn raw(&self, req: &str) -> Resp {
        let methods = self.methods.as_ref().unwrap().clone();
        let req = req.to_string();
        let handle = self.rt.spawn(async move { methods.raw_json_request(&req, 1).await });
        match self.rt.block_on(handle) {
            Ok(Ok((resp, _rx))) => {
                let val: Value = serde_json::from_str(resp.get()).unwrap_or(Value::Null);
                if let Some(e) = val.get("error") {
                    Resp {
                        ok: None,
                        err: Some((
                            e.get("code").and_then(|c| c.as_i64()).unwrap_or(0),
                            e.get("message").and_then(|m| m.as_str()).unwrap_or("").to_string(),
                            e.get("data").cloned(),
                        )),
                        panicked: false,
                    }
                } else {
                    Resp { ok: Some(val.get("result").cloned().unwrap_or(Value::Null)), err: None, panicked: false }
                }
            }
            Ok(Err(e)) => Resp { ok: None, err: Some((-1, format!("transport: {}", e), None)), panicked: false },
            Err(_join) => Resp { ok: None, err: Some((-2, "handler panicked".into(), None)), panicked: true },
        }
    }

    pub fn state(&self) -> Value {
        let was = v::enabled();
        v::set_enabled(false);
        let r = self.call("verif_state", json!([]));
        v::set_enabled(was);
        r.ok.unwrap_or(Value::Null)
    }
}

// ------------------------------------------------------------------------------------------------ helpers

pub fn h256(n: u64) -> String {
    format!("0x{:064x}", n)
}

pub fn pkscript_addr(pkscript_hex: &str) -> Address {
    let bytes = hex::decode(pkscript_hex).unwrap_or_default();
    Address::from_slice(&keccak256(bytes)[12..32])
}

pub fn create_address(from: Address, nonce: u64) -> Address {
    from.create(nonce)
}

pub struct Signer {
    pub key: PrivateKeySigner,
}

impl Signer {
    pub fn new(seed: u8) -> Signer {
        let mut k = [0u8; 32];
        k[31] = seed.max(1);
        k[0] = 0x11;
        Signer { key: PrivateKeySigner::from_bytes(&B256::from(k)).unwrap() }
    }
    pub fn address(&self) -> Address {
        self.key.address()
    }
    /// RLP of a signed legacy transaction (the form `brc20_transact` takes)
    pub fn raw_tx(&self, chain_id: Option<u64>, nonce: u64, to: Option<Address>, data: &[u8]) -> Vec<u8> {
        let mut tx = TxLegacy {
            chain_id,
            nonce,
            gas_price: 0,
            gas_limit: 0,
            to: match to {
                Some(a) => TxKind::Call(a),
                None => TxKind::Create,
            },
            value: U256::ZERO,
            input: Bytes::from(data.to_vec()),
        };
        let sig = self.key.sign_transaction_sync(&mut tx).unwrap();
        let signed = tx.into_signed(sig);
        let mut out = Vec::new();
        signed.rlp_encode(&mut out);
        out
    }
}

/// Independent decode of a raw transaction (the model's `decodeRaw` oracle): (from, nonce, chain id, rlp hash)
pub fn decode_raw(raw: &[u8]) -> Option<(Address, u64, Option<u64>, B256)> {
    use alloy::consensus::transaction::RlpEcdsaDecodableTx;
    let mut slice: &[u8] = raw;
    let (tx, sig) = TxLegacy::rlp_decode_with_signature(&mut slice).ok()?;
    let hash = tx.signature_hash();
    let from = sig.recover_address_from_prehash(&hash).ok()?;
    Some((from, tx.nonce, tx.chain_id, keccak256(raw)))
}

pub fn fnv(b: &[u8]) -> u64 {
    let mut h: u64 = 0xcbf29ce484222325;
    for x in b {
        h = (h ^ (*x as u64)).wrapping_mul(0x100000001b3);
    }
    h
}
