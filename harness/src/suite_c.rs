//! Suite C: the storage codec (`Encode` / `Decode` of every persisted type) and the JSON form of the API types.
//!
//! gen: random values of every type are built natively, encoded with the real encoder, and written as
//!   rt  <Type> <hex> <text>          text = canonical description of the value that was encoded
//!   rtj <Type> <hex> <junk> <text>   the same followed by junk bytes (self-delimitation)
//!   dec <Type> <hex>                 truncated encodings (must fail, not mis-decode)
//!   ord <hexA> <hexB> <lt|eq|gt>     two encoded keys and the order of the *values*
//!   json <Type> <json>               JSON produced by the real serializer
//! exec: decodes with the real decoder and answers `<text> <consumed>` / `fail`; the Lean model answers the same
//! lines from its own codec built from the regenerated field lists.  Oracle (property C14 on the real code):
//! the decoded value's description equals the encoded one's, exactly the produced bytes are consumed, re-encoding
//! gives the same bytes, encoded keys compare like values, JSON re-serialises unchanged.
use std::panic::{catch_unwind, AssertUnwindSafe};

use alloy::primitives::{Address, Bytes, FixedBytes, U128, U256, U512, U64};
use brc20_prog::verif::*;

use crate::out::Out;
use crate::rng::Rng;

pub trait Desc {
    fn desc(&self) -> String;
}

impl<const B: usize, const L: usize> Desc for UintED<B, L> {
    fn desc(&self) -> String {
        format!("{}", self.uint)
    }
}
impl Desc for AddressED {
    fn desc(&self) -> String {
        format!("x{}", hex::encode(self.address.as_slice()))
    }
}
impl<const N: usize> Desc for FixedBytesED<N> {
    fn desc(&self) -> String {
        format!("x{}", hex::encode(self.bytes.as_slice()))
    }
}
impl Desc for BytesED {
    fn desc(&self) -> String {
        format!("x{}", hex::encode(&self.bytes))
    }
}
impl Desc for String {
    fn desc(&self) -> String {
        format!("x{}", hex::encode(self.as_bytes()))
    }
}
impl Desc for u64 {
    fn desc(&self) -> String {
        format!("{}", self)
    }
}
impl<T: Desc> Desc for Option<T> {
    fn desc(&self) -> String {
        match self {
            Some(v) => format!("+{}", v.desc()),
            None => "-".into(),
        }
    }
}
impl<T: Desc> Desc for Vec<T> {
    fn desc(&self) -> String {
        format!("[{}]", self.iter().map(|x| x.desc()).collect::<Vec<_>>().join(" "))
    }
}
impl<A: Desc, B: Desc> Desc for (A, B) {
    fn desc(&self) -> String {
        format!("({} {})", self.0.desc(), self.1.desc())
    }
}
fn rec(fields: &[String]) -> String {
    format!("({})", fields.join(" "))
}
impl Desc for AccountInfoED {
    fn desc(&self) -> String {
        rec(&[self.balance.desc(), self.nonce.desc(), self.code_hash.desc()])
    }
}
impl Desc for LogED {
    fn desc(&self) -> String {
        rec(&[
            self.address.desc(),
            self.topics.desc(),
            self.data.desc(),
            self.transaction_index.desc(),
            self.transaction_hash.desc(),
            self.block_hash.desc(),
            self.block_number.desc(),
            self.log_index.desc(),
        ])
    }
}
impl Desc for TxED {
    fn desc(&self) -> String {
        rec(&[
            self.hash.desc(),
            self.nonce.desc(),
            self.block_hash.desc(),
            self.block_number.desc(),
            self.transaction_index.desc(),
            self.from.desc(),
            self.to.desc(),
            self.value.desc(),
            self.gas.desc(),
            self.gas_price.desc(),
            self.input.desc(),
            self.inscription_id.desc(),
            self.v.desc(),
            self.r.desc(),
            self.s.desc(),
        ])
    }
}
impl Desc for TxReceiptED {
    fn desc(&self) -> String {
        rec(&[
            self.status.desc(),
            "x".into(),
            "x".into(),
            self.logs.desc(),
            self.gas_used.desc(),
            self.from.desc(),
            self.to.desc(),
            self.contract_address.desc(),
            self.logs_bloom.desc(),
            self.block_hash.desc(),
            self.block_number.desc(),
            "0".into(),
            self.transaction_hash.desc(),
            self.transaction_index.desc(),
            self.cumulative_gas_used.desc(),
            "0".into(),
            "-".into(),
        ])
    }
}
impl Desc for BlockResponseED {
    fn desc(&self) -> String {
        let txs: Vec<B256ED> = self.transactions.clone().left().unwrap_or_default();
        rec(&[
            self.difficulty.desc(),
            self.gas_limit.desc(),
            self.gas_used.desc(),
            self.hash.desc(),
            self.logs_bloom.desc(),
            self.nonce.desc(),
            self.number.desc(),
            self.timestamp.desc(),
            self.mine_timestamp.desc(),
            txs.desc(),
            self.transactions_root.desc(),
            self.total_difficulty.desc(),
            self.parent_hash.desc(),
            self.receipts_root.desc(),
            self.size.desc(),
        ])
    }
}
impl Desc for TraceED {
    fn desc(&self) -> String {
        rec(&[
            self.tx_type.desc(),
            self.from.desc(),
            self.to.desc(),
            self.calls.desc(),
            self.gas.desc(),
            self.gas_used.desc(),
            self.input.desc(),
            self.output.desc(),
            self.value.desc(),
            self.error.desc(),
            self.revert_reason.desc(),
        ])
    }
}

// ---------------------------------------------------------------------------------------------- generators

fn a_u64(r: &mut Rng) -> u64 {
    match r.below(8) {
        0 => 0,
        1 => 1,
        2 => 255,
        3 => 256,
        4 => u32::MAX as u64,
        5 => u32::MAX as u64 + 1,
        6 => u64::MAX,
        _ => r.next(),
    }
}
fn a_u64ed(r: &mut Rng) -> U64ED {
    a_u64(r).into()
}
fn a_u8ed(r: &mut Rng) -> U8ED {
    ((r.next() & 0xff) as u8).into()
}
fn a_u128ed(r: &mut Rng) -> U128ED {
    let v: u128 = match r.below(4) {
        0 => 0,
        1 => u128::MAX,
        2 => (a_u64(r) as u128) << 64 | a_u64(r) as u128,
        _ => a_u64(r) as u128,
    };
    v.into()
}
fn a_u256(r: &mut Rng) -> U256 {
    match r.below(5) {
        0 => U256::ZERO,
        1 => U256::from(1u64),
        2 => U256::MAX,
        3 => U256::from(a_u64(r)),
        _ => U256::from_be_slice(&r.bytes(32)),
    }
}
fn a_u256ed(r: &mut Rng) -> U256ED {
    a_u256(r).into()
}
fn a_addr(r: &mut Rng) -> AddressED {
    let a = match r.below(4) {
        0 => Address::ZERO,
        1 => Address::from_slice(&[0xff; 20]),
        _ => Address::from_slice(&r.bytes(20)),
    };
    AddressED::new(a)
}
fn a_b256(r: &mut Rng) -> B256ED {
    let b: [u8; 32] = match r.below(4) {
        0 => [0; 32],
        1 => [0xff; 32],
        _ => r.bytes(32).try_into().unwrap(),
    };
    FixedBytes::<32>::from(b).into()
}
fn a_b2048(r: &mut Rng) -> B2048ED {
    let mut b = [0u8; 256];
    if r.chance(70) {
        for _ in 0..r.below(12) {
            b[r.below(256) as usize] |= 1 << r.below(8);
        }
    }
    FixedBytes::<256>::from(b).into()
}
fn a_len(r: &mut Rng) -> usize {
    *r.pick(&[0usize, 0, 1, 2, 31, 32, 33, 255, 256, 257, 1000])
}
fn a_bytes(r: &mut Rng) -> BytesED {
    let n = a_len(r);
    BytesED { bytes: Bytes::from(r.bytes(n)) }
}
fn a_string(r: &mut Rng) -> String {
    let n = *r.pick(&[0usize, 1, 5, 66, 300]);
    let alphabet: Vec<char> = "abcXYZ019:_-é✓ ".chars().collect();
    (0..n).map(|_| *r.pick(&alphabet)).collect()
}
fn a_opt<T>(r: &mut Rng, f: impl Fn(&mut Rng) -> T) -> Option<T> {
    if r.chance(40) {
        None
    } else {
        Some(f(r))
    }
}
fn a_vec<T>(r: &mut Rng, max: u64, f: impl Fn(&mut Rng) -> T) -> Vec<T> {
    (0..r.below(max + 1)).map(|_| f(r)).collect()
}
fn a_log(r: &mut Rng) -> LogED {
    LogED {
        address: a_addr(r),
        topics: a_vec(r, 4, a_b256),
        data: a_bytes(r),
        transaction_index: a_u64ed(r),
        transaction_hash: a_b256(r),
        block_hash: a_b256(r),
        block_number: a_u64ed(r),
        log_index: a_u64ed(r),
    }
}
fn a_tx(r: &mut Rng) -> TxED {
    let chain: u64 = CONFIG.read().chain_id;
    TxED {
        hash: a_b256(r),
        nonce: a_u64ed(r),
        block_hash: a_b256(r),
        block_number: a_opt(r, a_u64ed),
        transaction_index: a_opt(r, a_u64ed),
        from: a_addr(r),
        to: a_opt(r, a_addr),
        value: a_u64ed(r),
        gas: a_u64ed(r),
        gas_price: a_u64ed(r),
        input: a_bytes(r),
        v: a_u8ed(r),
        r: a_u256ed(r),
        s: a_u256ed(r),
        chain_id: chain.into(),
        tx_type: 0u8.into(),
        inscription_id: a_opt(r, a_string),
    }
}
fn a_receipt(r: &mut Rng) -> TxReceiptED {
    TxReceiptED {
        status: ((r.below(2)) as u8).into(),
        logs: a_vec(r, 3, a_log),
        gas_used: a_u64ed(r),
        from: a_addr(r),
        to: a_opt(r, a_addr),
        contract_address: a_opt(r, a_addr),
        logs_bloom: a_b2048(r),
        block_hash: a_b256(r),
        block_number: a_u64ed(r),
        transaction_hash: a_b256(r),
        transaction_index: a_u64ed(r),
        cumulative_gas_used: a_u64ed(r),
        effective_gas_price: 0u64.into(),
        transaction_type: 0u8.into(),
    }
}
fn a_trace(r: &mut Rng, depth: u64) -> TraceED {
    let n_calls = if depth == 0 { 0 } else { r.below(3) };
    TraceED {
        tx_type: r.pick(&["CALL", "CREATE", "STATICCALL", "DELEGATECALL", "CREATE2", ""]).to_string(),
        from: a_addr(r),
        to: a_opt(r, a_addr),
        calls: (0..n_calls).map(|_| a_trace(r, depth - 1)).collect(),
        gas: a_u256ed(r),
        gas_used: a_u256ed(r),
        input: a_bytes(r),
        output: a_bytes(r),
        value: a_u256ed(r),
        error: a_opt(r, a_string),
        revert_reason: a_opt(r, a_string),
    }
}
fn a_account(r: &mut Rng) -> AccountInfoED {
    AccountInfoED { balance: a_u256ed(r), nonce: a_u64ed(r), code_hash: a_b256(r) }
}

fn a_block(r: &mut Rng) -> BlockResponseED {
    // built the way the engine stores a block: decode of an encoding with chosen stored fields
    let mut buf = Vec::new();
    U64ED::from(0u64).encode(&mut buf); // difficulty
    U64ED::from(MAX_BLOCK_SIZE * GAS_PER_BYTE).encode(&mut buf); // gas limit
    a_u64ed(r).encode(&mut buf);
    a_b256(r).encode(&mut buf);
    a_b2048(r).encode(&mut buf);
    U64ED::from(0u64).encode(&mut buf); // nonce
    a_u64ed(r).encode(&mut buf);
    a_u64ed(r).encode(&mut buf);
    a_u128ed(r).encode(&mut buf);
    a_vec(r, 5, a_b256).encode(&mut buf);
    a_b256(r).encode(&mut buf);
    U64ED::from(0u64).encode(&mut buf); // total difficulty
    a_b256(r).encode(&mut buf);
    B256ED::from(FixedBytes::<32>::ZERO).encode(&mut buf);
    U64ED::from(0u64).encode(&mut buf);
    BlockResponseED::decode_vec(&buf).expect("block fixture")
}

fn hist_bytes<V: Encode>(r: &mut Rng, f: impl Fn(&mut Rng) -> V) -> (Vec<u8>, String)
where
    V: Desc,
{
    // a history as the table stores it: u32 count, then (u64 block, Option<V>) ascending
    let n = r.below(5);
    let mut b = 0u64;
    let mut buf = Vec::new();
    (n as u32).encode(&mut buf);
    let mut items = Vec::new();
    for _ in 0..n {
        b += r.below(12);
        let v = a_opt(r, &f);
        b.encode(&mut buf);
        v.encode(&mut buf);
        items.push(format!("({} {})", b, v.desc()));
        b += 1;
    }
    (buf, format!("[{}]", items.join(" ")))
}

// ------------------------------------------------------------------------------------------------ gen

pub struct Params {
    pub cases: u64,
}

fn emit<T: Encode + Desc>(lines: &mut Vec<String>, r: &mut Rng, name: &str, v: &T) {
    let enc = v.encode_vec();
    let hexs = hex::encode(&enc);
    let text = v.desc();
    lines.push(format!("rt {} {} {}", name, hexs, text));
    if r.chance(50) {
        let jl = 1 + r.below(9) as usize;
        let junk = r.bytes(jl);
        lines.push(format!("rtj {} {} {} {}", name, hexs, hex::encode(junk), text));
    }
    if r.chance(30) && enc.len() > 1 {
        // a strict prefix of a valid encoding: lengths stay valid, the data runs out
        let cut = 1 + r.below(enc.len() as u64 - 1) as usize;
        lines.push(format!("dec {} {}", name, hex::encode(&enc[..cut])));
    }
}

fn ord3<T: Ord>(a: &T, b: &T) -> &'static str {
    match a.cmp(b) {
        std::cmp::Ordering::Less => "lt",
        std::cmp::Ordering::Equal => "eq",
        std::cmp::Ordering::Greater => "gt",
    }
}

pub fn gen(rng: &mut Rng, p: &Params) -> Vec<String> {
    let mut lines = vec!["case C0".to_string()];
    let r = rng;
    for i in 0..p.cases {
        if i % 50 == 49 {
            lines.push(format!("case C{}", i / 50 + 1));
        }
        match r.below(16) {
            0 => { let v = a_account(r); emit(&mut lines, r, "AccountInfoED", &v) },
            1 | 2 => { let v = a_tx(r); emit(&mut lines, r, "TxED", &v) },
            3 | 4 => { let v = a_receipt(r); emit(&mut lines, r, "TxReceiptED", &v) },
            5 => { let v = a_log(r); emit(&mut lines, r, "LogED", &v) },
            6 => { let v = a_block(r); emit(&mut lines, r, "BlockResponseED", &v) },
            7 | 8 => {
                let d = r.below(4);
                { let v = a_trace(r, d); emit(&mut lines, r, "TraceED", &v) }
            }
            9 => {
                let (buf, text) = hist_bytes(r, a_u256ed);
                lines.push(format!("rt Hist<U256ED> {} {}", hex::encode(&buf), text));
                let (buf, text) = hist_bytes(r, a_tx);
                lines.push(format!("rt Hist<TxED> {} {}", hex::encode(&buf), text));
            }
            10 => {
                { let v = UintED::<512, 8>::new(U512::from_be_slice(&r.bytes(64))); emit(&mut lines, r, "U512ED", &v) };
                { let v = a_u128ed(r); emit(&mut lines, r, "U128ED", &v) };
                { let v = a_u64ed(r); emit(&mut lines, r, "U64ED", &v) };
                { let v = a_u8ed(r); emit(&mut lines, r, "U8ED", &v) };
                { let v = a_string(r); emit(&mut lines, r, "String", &v) };
                { let v = a_bytes(r); emit(&mut lines, r, "BytesED", &v) };
                { let v = (a_addr(r), a_u64ed(r)); emit(&mut lines, r, "(AddressED,U64ED)", &v) };
                { let v = a_opt(r, a_addr); emit(&mut lines, r, "Option<AddressED>", &v) };
                { let v = a_vec(r, 4, a_b256); emit(&mut lines, r, "Vec<B256ED>", &v) };
            }
            11 => {
                // ordering of numeric keys: u64 block keys, U128ED (block,index) keys, U512ED storage keys
                let (a, b) = (a_u64(r), if r.chance(20) { 0 } else { a_u64(r) });
                let (a, b) = if r.chance(30) { (a, a.wrapping_add(1)) } else { (a, b) };
                lines.push(format!("ord {} {} {}", hex::encode(a.encode_vec()), hex::encode(b.encode_vec()), ord3(&a, &b)));
                let (x, y) = (a_u128ed(r), a_u128ed(r));
                lines.push(format!("ord {} {} {}", hex::encode(x.encode_vec()), hex::encode(y.encode_vec()), ord3(&x.uint, &y.uint)));
                // the composite key the engine builds: (block << 64) | index
                let (b1, i1, b2, i2) = (r.below(4), a_u64(r), r.below(4), a_u64(r));
                let k1: U128ED = (((b1 as u128) << 64) | i1 as u128).into();
                let k2: U128ED = (((b2 as u128) << 64) | i2 as u128).into();
                lines.push(format!("ord {} {} {}", hex::encode(k1.encode_vec()), hex::encode(k2.encode_vec()), ord3(&(b1, i1), &(b2, i2))));
                let (s1, s2) = (U512::from_be_slice(&r.bytes(64)), U512::from_be_slice(&r.bytes(64)));
                lines.push(format!(
                    "ord {} {} {}",
                    hex::encode(UintED::<512, 8>::new(s1).encode_vec()),
                    hex::encode(UintED::<512, 8>::new(s2).encode_vec()),
                    ord3(&s1, &s2)
                ));
            }
            12 if r.chance(30) => {
                // fork rules (C19 / C02): every network name, heights around each activation height
                for net in ["bitcoin", "mainnet", "signet", "testnet", "testnet4", "regtest", "-", "foo"] {
                    for h in [0u64, 1, 274_999, 275_000, 275_001, 923_368, 923_369, 923_370, 928_999, 929_000, 929_001, u64::MAX, a_u64(r)] {
                        lines.push(format!("fork {} {}", net, h));
                    }
                }
            }
            12 if r.chance(50) => {
                // gas allowance arithmetic (C16): around the saturation point of n * 12000
                let sat = u64::MAX / 12000;
                for n in [0u64, 1, 2, a_u64(r), sat - 1, sat, sat + 1, u64::MAX, r.next()] {
                    lines.push(format!("gas {}", n));
                }
            }
            12 => {
                // pending-pool keys (address, nonce): same address, nonces compare numerically
                let a = a_addr(r);
                let (n1, n2) = (a_u64(r), a_u64(r));
                let k1 = (a, U64ED::from(n1)).encode_vec();
                let k2 = (a, U64ED::from(n2)).encode_vec();
                lines.push(format!("ord {} {} {}", hex::encode(k1), hex::encode(k2), ord3(&n1, &n2)));
            }
            13 => {
                lines.push(format!("json TxED {}", serde_json::to_string(&a_tx(r)).unwrap()));
                lines.push(format!("json TxReceiptED {}", serde_json::to_string(&a_receipt(r)).unwrap()));
                lines.push(format!("json LogED {}", serde_json::to_string(&a_log(r)).unwrap()));
            }
            14 => {
                let d = r.below(3);
                lines.push(format!("json TraceED {}", serde_json::to_string(&a_trace(r, d)).unwrap()));
                lines.push(format!("json BlockResponseED {}", serde_json::to_string(&a_block(r)).unwrap()));
                lines.push(format!("json AccountInfoED {}", serde_json::to_string(&a_account(r)).unwrap()));
            }
            _ => {
                let mut blk = a_block(r);
                blk.transactions = either::Either::Right(a_vec(r, 3, a_tx));
                lines.push(format!("json BlockResponseED {}", serde_json::to_string(&blk).unwrap()));
                lines.push(format!("json AddressED {}", serde_json::to_string(&a_addr(r)).unwrap()));
                lines.push(format!("json B256ED {}", serde_json::to_string(&a_b256(r)).unwrap()));
                lines.push(format!("json U256ED {}", serde_json::to_string(&a_u256ed(r)).unwrap()));
                lines.push(format!("json U64ED {}", serde_json::to_string(&a_u64ed(r)).unwrap()));
                lines.push(format!("json BytesED {}", serde_json::to_string(&a_bytes(r)).unwrap()));
            }
        }
    }
    lines
}

// ------------------------------------------------------------------------------------------------ exec

fn dec_desc<T: Decode + Encode + Desc>(bytes: &[u8]) -> Option<(String, usize, Vec<u8>)> {
    let r = catch_unwind(AssertUnwindSafe(|| T::decode(bytes, 0)));
    match r {
        Ok(Ok((v, used))) => Some((v.desc(), used, v.encode_vec())),
        _ => None,
    }
}

fn dec_hist<V: Decode + Encode + Desc + Clone + Eq>(bytes: &[u8]) -> Option<(String, usize, Vec<u8>)> {
    // decode with the real history decoder, describe through an independent walk of the re-encoded bytes
    let r = catch_unwind(AssertUnwindSafe(|| BlockHistoryCacheData::<V>::decode(bytes, 0)));
    match r {
        Ok(Ok((h, used))) => {
            let enc = h.encode_vec();
            let r2 = catch_unwind(AssertUnwindSafe(|| Vec::<(u64, Option<V>)>::decode(&enc, 0)));
            match r2 {
                Ok(Ok((items, _))) => Some((items.desc(), used, enc)),
                _ => None,
            }
        }
        _ => None,
    }
}

fn decode_by_name(name: &str, bytes: &[u8]) -> Option<(String, usize, Vec<u8>)> {
    match name {
        "AccountInfoED" => dec_desc::<AccountInfoED>(bytes),
        "TxED" => dec_desc::<TxED>(bytes),
        "TxReceiptED" => dec_desc::<TxReceiptED>(bytes),
        "LogED" => dec_desc::<LogED>(bytes),
        "BlockResponseED" => dec_desc::<BlockResponseED>(bytes),
        "TraceED" => dec_desc::<TraceED>(bytes),
        "U512ED" => dec_desc::<U512ED>(bytes),
        "U128ED" => dec_desc::<U128ED>(bytes),
        "U64ED" => dec_desc::<U64ED>(bytes),
        "U8ED" => dec_desc::<U8ED>(bytes),
        "String" => dec_desc::<String>(bytes),
        "BytesED" => dec_desc::<BytesED>(bytes),
        "(AddressED,U64ED)" => dec_desc::<(AddressED, U64ED)>(bytes),
        "Option<AddressED>" => dec_desc::<Option<AddressED>>(bytes),
        "Vec<B256ED>" => dec_desc::<Vec<B256ED>>(bytes),
        "Hist<U256ED>" => dec_hist::<U256ED>(bytes),
        "Hist<TxED>" => dec_hist::<TxED>(bytes),
        _ => None,
    }
}

fn json_rt<T: serde::Serialize + serde::de::DeserializeOwned>(s: &str) -> Result<String, String> {
    let v: T = serde_json::from_str(s).map_err(|e| format!("deserialise: {}", e))?;
    serde_json::to_string(&v).map_err(|e| format!("serialise: {}", e))
}

fn json_by_name(name: &str, s: &str) -> Result<String, String> {
    match name {
        "TxED" => json_rt::<TxED>(s),
        "TxReceiptED" => json_rt::<TxReceiptED>(s),
        "LogED" => json_rt::<LogED>(s),
        "TraceED" => json_rt::<TraceED>(s),
        "BlockResponseED" => json_rt::<BlockResponseED>(s),
        "AccountInfoED" => json_rt::<AccountInfoED>(s),
        "AddressED" => json_rt::<AddressED>(s),
        "B256ED" => json_rt::<B256ED>(s),
        "U256ED" => json_rt::<U256ED>(s),
        "U64ED" => json_rt::<U64ED>(s),
        "BytesED" => json_rt::<BytesED>(s),
        _ => Err("unknown type".into()),
    }
}

pub fn exec(lines: &[String], out: &mut Out) {
    let mut case = "C?".to_string();
    for line in lines {
        let ws: Vec<&str> = line.splitn(5, ' ').collect();
        match ws.as_slice() {
            ["case", id, ..] => {
                case = id.to_string();
                out.case(id);
            }
            ["rt", name, hexs, text] | ["rt", name, hexs, text, ..] => {
                let text = if ws.len() == 5 { format!("{} {}", text, ws[4]) } else { text.to_string() };
                let bytes = hex::decode(hexs).unwrap_or_default();
                match decode_by_name(name, &bytes) {
                    Some((d, used, reenc)) => {
                        if d != text {
                            out.oracle_fail(&case, "lossless", &format!("{}: encoded {} but decoded {}", name, cut(&text), cut(&d)));
                        }
                        if used != bytes.len() {
                            out.oracle_fail(&case, "self-delimiting", &format!("{}: produced {} bytes, decoder consumed {}", name, bytes.len(), used));
                        }
                        if reenc != bytes {
                            out.oracle_fail(&case, "reencode", &format!("{}: re-encoding the decoded value gives different bytes", name));
                        }
                        out.line(&format!("rt {} {}", name, hexs), &format!("{} {}", d, used));
                    }
                    None => {
                        out.oracle_fail(&case, "lossless", &format!("{}: a produced encoding does not decode ({})", name, cut(&text)));
                        out.line(&format!("rt {} {}", name, hexs), "fail");
                    }
                }
            }
            ["rtj", name, hexs, junk, text] => {
                let mut bytes = hex::decode(hexs).unwrap_or_default();
                let n = bytes.len();
                bytes.extend(hex::decode(junk).unwrap_or_default());
                match decode_by_name(name, &bytes) {
                    Some((d, used, _)) => {
                        if d != *text {
                            out.oracle_fail(&case, "lossless", &format!("{} (+junk): encoded {} but decoded {}", name, cut(text), cut(&d)));
                        }
                        if used != n {
                            out.oracle_fail(&case, "self-delimiting", &format!("{} (+junk): produced {} bytes, decoder consumed {}", name, n, used));
                        }
                        out.line(&format!("rtj {} {} {}", name, hexs, junk), &format!("{} {}", d, used));
                    }
                    None => {
                        out.oracle_fail(&case, "self-delimiting", &format!("{} followed by junk does not decode", name));
                        out.line(&format!("rtj {} {} {}", name, hexs, junk), "fail");
                    }
                }
            }
            ["dec", name, hexs] => {
                let bytes = hex::decode(hexs).unwrap_or_default();
                match decode_by_name(name, &bytes) {
                    Some((d, used, _)) => out.line(line, &format!("{} {}", d, used)),
                    None => out.line(line, "fail"),
                }
            }
            ["ord", a, b, want] => {
                let (x, y) = (hex::decode(a).unwrap_or_default(), hex::decode(b).unwrap_or_default());
                let got = ord3(&x, &y);
                if got != *want {
                    out.oracle_fail(&case, "order", &format!("encoded keys {} vs {} compare {}, the values compare {}", a, b, got, want));
                }
                out.line(&format!("ord {} {}", a, b), got);
            }
            ["fork", net, h] => {
                let h: u64 = h.parse().unwrap_or(0);
                let name = if *net == "-" { "" } else { *net };
                let old = CONFIG.read().bitcoin_rpc_network.clone();
                CONFIG.write_fn_unchecked(|c| c.bitcoin_rpc_network = name.to_string());
                let (spec, rlp) = fork_rules(h);
                CONFIG.write_fn_unchecked(|c| c.bitcoin_rpc_network = old.clone());
                // the pinned protocol (version 2): Prague from 923369 on mainnet, 275000 on signet, always elsewhere;
                // RLP transaction hashes from 929000 on mainnet, always elsewhere
                let (want_prague, want_rlp) = match name {
                    "bitcoin" | "mainnet" => (h >= 923_369, h >= 929_000),
                    "signet" => (h >= 275_000, true),
                    _ => (true, true),
                };
                if (spec == "PRAGUE") != want_prague || (spec != "PRAGUE" && spec != "CANCUN") || rlp != want_rlp {
                    out.oracle_fail(&case, "fork-rule", &format!("network `{}` height {}: rules {} / rlp hash {}, the pinned protocol says prague={} rlp={}", name, h, spec, rlp, want_prague, want_rlp));
                }
                out.line(line, &format!("{} {}", spec, rlp));
            }
            ["gas", n] => {
                let n: u64 = n.parse().unwrap_or(0);
                let gl = get_gas_limit(n);
                let bl = get_inscription_byte_len(n);
                // oracle: 12000 per byte, saturating; the inverse is a floor division
                if gl != n.saturating_mul(12000) || bl != n / 12000 || (gl as u128) > (n as u128) * 12000 {
                    out.oracle_fail(&case, "gas-arith", &format!("get_gas_limit({}) = {}, get_inscription_byte_len({}) = {}", n, gl, n, bl));
                }
                out.line(line, &format!("{} {}", gl, bl));
            }
            ["json", name, ..] => {
                let js = line.splitn(3, ' ').nth(2).unwrap_or("");
                match json_by_name(name, js) {
                    Ok(s2) => {
                        if s2 != js {
                            out.oracle_fail(&case, "json", &format!("{}: {} re-serialises as {}", name, cut(js), cut(&s2)));
                        }
                    }
                    Err(e) => out.oracle_fail(&case, "json", &format!("{}: {} ({})", name, e, cut(js))),
                }
                out.count("json");
            }
            _ => out.line(line, "bad-op"),
        }
    }
}

fn cut(s: &str) -> String {
    if s.len() > 300 {
        format!("{}…", &s[..s.char_indices().take_while(|(i, _)| *i < 300).last().map(|(i, c)| i + c.len_utf8()).unwrap_or(0)])
    } else {
        s.to_string()
    }
}

#[allow(dead_code)]
fn _unused(_: U64, _: U128) {}
