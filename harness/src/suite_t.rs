//! Suite T: the versioned table (`BlockCachedDatabase`), a single history (`BlockHistoryCacheData`) and the
//! block-keyed table (`BlockDatabase`) driven directly, in-process.
//!
//! `gen` writes op lines (one case after another, each introduced by `case <id>`); `exec` runs op lines against
//! the real code and writes the implementation's answer next to each; the Lean model driver is fed the same op
//! lines.  Independently of the model, a plain reference ("map with per-block versions") kept by `exec` judges the
//! *property* (C13) on the implementation: reads, scans, and rollbacks inside the window.
use std::collections::{BTreeMap, BTreeSet};
use std::panic::{catch_unwind, AssertUnwindSafe};
use std::path::{Path, PathBuf};

use brc20_prog::verif::{
    BlockCachedDatabase, BlockDatabase, BlockHistoryCache, BlockHistoryCacheData, Decode, Encode, U128ED, U256ED,
};

use brc20_prog::verif as v;
use crate::out::Out;
use crate::rng::Rng;

type Tab = BlockCachedDatabase<U128ED, U256ED, BlockHistoryCacheData<U256ED>>;
type H = BlockHistoryCacheData<U256ED>;

pub const W: u64 = 10;

fn key(n: u128) -> U128ED {
    n.into()
}
fn val(n: u64) -> U256ED {
    n.into()
}
fn hk(n: u128) -> String {
    hex::encode(key(n).encode_vec())
}
fn hv(n: u64) -> String {
    hex::encode(val(n).encode_vec())
}
fn pk(s: &str) -> Option<U128ED> {
    U128ED::decode_vec(&hex::decode(s).ok()?).ok()
}
fn pv(s: &str) -> Option<U256ED> {
    U256ED::decode_vec(&hex::decode(s).ok()?).ok()
}
fn sv(v: &U256ED) -> String {
    hex::encode(v.encode_vec())
}
fn sk(k: &U128ED) -> String {
    hex::encode(k.encode_vec())
}

/// Independent parse of an encoded history with 32-byte values: u32 count, then (u64 block, tag, [value]).
pub fn show_hist_bytes(bytes: &[u8]) -> String {
    let mut out = Vec::new();
    if bytes.len() < 4 {
        return "?".into();
    }
    let n = u32::from_be_bytes(bytes[0..4].try_into().unwrap());
    let mut off = 4usize;
    for _ in 0..n {
        if off + 9 > bytes.len() {
            return "?".into();
        }
        let b = u64::from_be_bytes(bytes[off..off + 8].try_into().unwrap());
        off += 8;
        let tag = bytes[off];
        off += 1;
        if tag == 1 {
            if off + 32 > bytes.len() {
                return "?".into();
            }
            out.push(format!("{}:{}", b, hex::encode(&bytes[off..off + 32])));
            off += 32;
        } else {
            out.push(format!("{}:-", b));
        }
    }
    if off != bytes.len() {
        return "?".into();
    }
    out.join("|")
}

fn show_kv(l: &[(Vec<u8>, Vec<u8>)]) -> String {
    l.iter().map(|(k, v)| format!("{}={}", hex::encode(k), hex::encode(v))).collect::<Vec<_>>().join(",")
}
fn show_kh(l: &[(Vec<u8>, Vec<u8>)]) -> String {
    l.iter().map(|(k, v)| format!("{}={}", hex::encode(k), show_hist_bytes(v))).collect::<Vec<_>>().join(",")
}

/// The persistent writes recorded since the last `take_events`, in issue order within a key, keys in byte order
/// (the cache is a hash map: the order across keys is arbitrary, the order within a key is what a crash can cut).
fn persistent_writes() -> String {
    v::set_enabled(false);
    let mut ws: Vec<(Vec<u8>, String)> = Vec::new();
    for e in v::take_events() {
        let p: Vec<&str> = e.split(' ').collect();
        if p.len() != 5 || p[0] != "W" {
            continue;
        }
        let key = hex::decode(p[3]).unwrap_or_default();
        let line = match (p[1], p[2]) {
            ("t_cache", "put") => format!("cdb put {} {}", p[3], show_hist_bytes(&hex::decode(p[4]).unwrap_or_default())),
            ("t_cache", "del") => format!("cdb del {}", p[3]),
            ("t", "put") => format!("db put {} {}", p[3], p[4]),
            ("t", "del") => format!("db del {}", p[3]),
            _ => format!("? {}", e),
        };
        ws.push((key, line));
    }
    ws.sort_by(|a, b| a.0.cmp(&b.0)); // stable
    ws.into_iter().map(|w| w.1).collect::<Vec<_>>().join(";")
}

fn dump(t: &Tab) -> String {
    let (db, cdb, cache) = t.verif_dump();
    format!("db:{};cdb:{};cache:{}", show_kv(&db), show_kh(&cdb), show_kh(&cache))
}

const KEYS: [u128; 8] = [
    0,
    1,
    (1u128 << 64),
    (1u128 << 64) | 1,
    (1u128 << 64) | 2,
    (2u128 << 64),
    (2u128 << 64) | 0xff,
    u128::MAX,
];
const BOUNDS: [u128; 9] = [
    0,
    1,
    (1u128 << 64) - 1,
    (1u128 << 64),
    (1u128 << 64) | 2,
    (2u128 << 64),
    (3u128 << 64),
    u128::MAX - 1,
    u128::MAX,
];

pub struct Params {
    pub cases: u64,
    pub max_ops: u64,
}

// ------------------------------------------------------------------------------------------------ generation

pub fn gen(rng: &mut Rng, p: &Params) -> Vec<String> {
    let mut lines = Vec::new();
    let mut r1 = rng.fork();
    for c in 0..p.cases {
        lines.push(format!("case T{}", c));
        gen_table_case(&mut r1, p, &mut lines);
    }
    let mut r2 = rng.fork();
    for c in 0..p.cases {
        lines.push(format!("case H{}", c));
        gen_hist_case(&mut r2, p, &mut lines);
    }
    let mut r3 = rng.fork();
    for c in 0..p.cases {
        lines.push(format!("case B{}", c));
        gen_block_case(&mut r3, p, &mut lines);
    }
    lines
}

fn gen_table_case(rng: &mut Rng, p: &Params, out: &mut Vec<String>) {
    let mut cur: u64 = 1 + rng.below(3);
    let mut max_ever: u64 = 0;
    for _ in 0..(5 + rng.below(p.max_ops)) {
        let roll = rng.below(100);
        if roll < 30 {
            let k = *rng.pick(&KEYS);
            let v = 1 + rng.below(3);
            // rarely a stamp below the current block: the history must refuse it (panic), ending the case
            let b = if rng.chance(1) && cur > 2 { cur - 1 - rng.below(2) } else { cur };
            max_ever = max_ever.max(b);
            out.push(format!("set {} {} {}", b, hk(k), hv(v)));
        } else if roll < 42 {
            max_ever = max_ever.max(cur);
            out.push(format!("unset {} {}", cur, hk(*rng.pick(&KEYS))));
        } else if roll < 60 {
            cur += *rng.pick(&[1u64, 1, 1, 1, 2, 3, 9, 10, 11, 12, 25]);
        } else if roll < 68 {
            out.push(format!("latest {}", hk(*rng.pick(&KEYS))));
        } else if roll < 78 {
            out.push(format!("range {} {}", hk(*rng.pick(&BOUNDS)), hk(*rng.pick(&BOUNDS))));
        } else if roll < 81 {
            out.push("all".into());
        } else if roll < 89 {
            max_ever = max_ever.max(cur.saturating_sub(1));
            out.push(format!("commit {}", cur));
            out.push("dump".into());
        } else if roll < 92 {
            out.push("clear".into());
        } else if roll < 95 {
            out.push("reopen".into());
            out.push("dump".into());
        } else {
            // rollback; mostly inside the window of the newest block ever given to the table
            let floor = max_ever.saturating_sub(W);
            let n = if rng.chance(85) { floor + rng.below(max_ever - floor + 1) } else { rng.below(max_ever + 1) };
            out.push(format!("reorg {}", n));
            out.push("dump".into());
            if n < floor {
                return; // after a rollback outside the window the case ends
            }
            cur = n + 1;
        }
    }
}

fn gen_hist_case(rng: &mut Rng, p: &Params, out: &mut Vec<String>) {
    let init = if rng.chance(50) { None } else { Some(1 + rng.below(2)) };
    out.push(format!("hnew {}", init.map(hv).unwrap_or("-".into())));
    let mut cur = rng.below(4);
    for _ in 0..(5 + rng.below(p.max_ops)) {
        let roll = rng.below(100);
        if roll < 35 {
            let b = if rng.chance(2) && cur > 1 { cur - 1 } else { cur };
            out.push(format!("hset {} {}", b, hv(1 + rng.below(2))));
        } else if roll < 50 {
            out.push(format!("hunset {}", cur));
        } else if roll < 75 {
            cur += *rng.pick(&[1u64, 1, 1, 2, 9, 10, 11]);
        } else if roll < 82 {
            let n = rng.below(cur + 2);
            out.push(format!("hreorg {}", n));
            cur = n + 1;
        } else if roll < 88 {
            out.push("hlatest".into());
        } else if roll < 94 {
            out.push(format!("hisold {}", cur + rng.below(13)));
        } else {
            out.push("hdump".into());
        }
    }
    out.push("hdump".into());
}

fn gen_block_case(rng: &mut Rng, p: &Params, out: &mut Vec<String>) {
    let mut next = rng.below(3);
    for _ in 0..(5 + rng.below(p.max_ops)) {
        let roll = rng.below(100);
        if roll < 40 {
            out.push(format!("bset {} {}", next, hv(1 + rng.below(250))));
            next += if rng.chance(90) { 1 } else { 2 };
        } else if roll < 55 {
            out.push(format!("bget {}", rng.below(next + 2)));
        } else if roll < 65 {
            out.push("bcommit".into());
        } else if roll < 72 {
            out.push("bclear".into());
        } else if roll < 80 {
            out.push("blast".into());
        } else if roll < 88 {
            let n = rng.below(next + 1);
            out.push(format!("breorg {}", n));
            next = next.min(n + 1);
        } else if roll < 92 {
            out.push("breopen".into());
        } else {
            out.push("bdump".into());
        }
    }
}

// ------------------------------------------------------------------------------------------------- reference

/// Reference: every key's full write log, plus the log as of the last commit.
#[derive(Clone, Default)]
struct Ref {
    log: BTreeMap<String, Vec<(u64, Option<String>)>>,
    durable: BTreeMap<String, Vec<(u64, Option<String>)>>,
    max_ever: u64,
}

impl Ref {
    fn latest(&self, k: &str) -> Option<String> {
        self.log.get(k).and_then(|l| l.last()).and_then(|e| e.1.clone())
    }
    fn at(&self, k: &str, n: u64) -> Option<String> {
        self.log.get(k).and_then(|l| l.iter().filter(|e| e.0 <= n).last()).and_then(|e| e.1.clone())
    }
    fn keys(&self) -> Vec<String> {
        self.log.keys().cloned().collect()
    }
    fn write(&mut self, b: u64, k: &str, v: Option<String>) {
        self.max_ever = self.max_ever.max(b);
        if self.latest(k) == v {
            self.log.entry(k.to_string()).or_default();
            return; // same value: not a new version
        }
        self.log.entry(k.to_string()).or_default().push((b, v));
    }
    fn commit(&mut self, b: u64) {
        // a commit at block b only drops histories whose newest version is more than W below b:
        // it narrows the window like a write at b - 1 (the engine commits at "next height")
        self.max_ever = self.max_ever.max(b.saturating_sub(1));
        self.durable = self.log.clone();
    }
    fn clear(&mut self) {
        self.log = self.durable.clone();
    }
    fn reorg(&mut self, n: u64) {
        for l in self.log.values_mut() {
            l.retain(|e| e.0 <= n);
        }
        self.durable = self.log.clone();
    }
    fn scan(&self, lo: Option<&str>, hi: Option<&str>) -> Vec<String> {
        // BTreeMap<String,..> over equal-length lower-case hex = encoded byte order
        self.log
            .keys()
            .filter(|k| lo.map_or(true, |lo| k.as_str() >= lo) && hi.map_or(true, |hi| k.as_str() < hi))
            .filter_map(|k| self.latest(k).map(|v| format!("{}={}", k, v)))
            .collect()
    }
}

// ------------------------------------------------------------------------------------------------- execution

struct State {
    case: String,
    dir: PathBuf,
    t: Option<Tab>,
    r: Ref,
    h: Option<H>,
    b: Option<BlockDatabase<U256ED>>,
    dead: bool,
    hist_max_len: usize,
}

fn check_reads(out: &mut Out, case: &str, t: &Tab, r: &Ref, what: &str) {
    for k in r.keys() {
        let got = t.latest(&pk(&k).unwrap()).ok().flatten().map(|v| sv(&v));
        let want = r.latest(&k);
        if got != want {
            out.oracle_fail(case, "read", &format!("{}: latest({}) = {:?}, reference {:?}", what, k, got, want));
        }
    }
}

pub fn exec(lines: &[String], out: &mut Out, scratch: &Path) {
    let mut st: Option<State> = None;
    let mut n_case = 0u64;
    for line in lines {
        let ws: Vec<&str> = line.split(' ').filter(|w| !w.is_empty()).collect();
        if ws.is_empty() {
            continue;
        }
        if ws[0] == "case" {
            if let Some(s) = st.take() {
                finish_case(s, out);
            }
            n_case += 1;
            let id = ws.get(1).unwrap_or(&"?").to_string();
            out.case(&id);
            let dir = scratch.join(format!("c{}", n_case));
            let _ = std::fs::remove_dir_all(&dir);
            std::fs::create_dir_all(&dir).unwrap();
            st = Some(State {
                case: id,
                t: Some(Tab::new(&dir, "t").unwrap()),
                b: Some(BlockDatabase::new(&dir, "b").unwrap()),
                dir,
                r: Ref::default(),
                h: None,
                dead: false,
                hist_max_len: 0,
            });
            continue;
        }
        let Some(s) = st.as_mut() else { continue };
        if s.dead {
            out.line(line, "dead");
            continue;
        }
        let ans = exec_op(s, &ws, out);
        out.line(line, &ans);
    }
    if let Some(s) = st.take() {
        finish_case(s, out);
    }
}

fn finish_case(s: State, out: &mut Out) {
    if s.h.is_some() {
        out.count(&format!("hist_max_len_{}", s.hist_max_len));
    }
    let dir = s.dir.clone();
    drop(s);
    let _ = std::fs::remove_dir_all(&dir);
}

fn num(s: &str) -> u64 {
    s.parse().unwrap_or(0)
}

fn exec_op(s: &mut State, ws: &[&str], out: &mut Out) -> String {
    let case = s.case.clone();
    match ws {
        ["set", b, k, v] => {
            let (b, kk, vv) = (num(b), pk(k).unwrap(), pv(v).unwrap());
            let tab = s.t.as_mut().unwrap();
            match catch_unwind(AssertUnwindSafe(|| tab.set(b, &kk, vv))) {
                Ok(_) => {
                    s.r.write(b, k, Some(v.to_string()));
                    "ok".into()
                }
                Err(_) => {
                    s.dead = true;
                    "panic".into()
                }
            }
        }
        ["unset", b, k] => {
            let (b, kk) = (num(b), pk(k).unwrap());
            let tab = s.t.as_mut().unwrap();
            match catch_unwind(AssertUnwindSafe(|| tab.unset(b, &kk))) {
                Ok(_) => {
                    s.r.write(b, k, None);
                    "ok".into()
                }
                Err(_) => {
                    s.dead = true;
                    "panic".into()
                }
            }
        }
        ["latest", k] => {
            let got = s.t.as_ref().unwrap().latest(&pk(k).unwrap()).ok().flatten().map(|v| sv(&v));
            if got != s.r.latest(k) {
                out.oracle_fail(&case, "read", &format!("latest({}) = {:?}, reference {:?}", k, got, s.r.latest(k)));
            }
            got.unwrap_or("-".into())
        }
        ["range", lo, hi] => {
            let got = s.t.as_ref().unwrap().get_range(&pk(lo).unwrap(), &pk(hi).unwrap()).unwrap();
            let got: Vec<String> = got.iter().map(|(k, v)| format!("{}={}", sk(k), sv(v))).collect();
            let want = s.r.scan(Some(lo), Some(hi));
            if got != want {
                out.oracle_fail(
                    &case,
                    "range",
                    &format!("get_range({},{}) = {:?}, reference (complete, key order) {:?}", lo, hi, got, want),
                );
            }
            format!("[{}]", got.join(","))
        }
        ["all"] => {
            let mut got: Vec<String> =
                s.t.as_ref().unwrap().all().unwrap().iter().map(|(k, v)| format!("{}={}", sk(k), sv(v))).collect();
            got.sort(); // `all()` promises no order: compared as a set
            let want = s.r.scan(None, None);
            if got != want {
                out.oracle_fail(&case, "all", &format!("all() = {:?}, reference {:?}", got, want));
            }
            format!("[{}]", got.join(","))
        }
        ["commit", b] => {
            let _ = v::take_events();
            v::set_enabled(true);
            s.t.as_mut().unwrap().commit(num(b)).unwrap();
            let ws = persistent_writes();
            s.r.commit(num(b));
            check_reads(out, &case, s.t.as_ref().unwrap(), &s.r, "after commit");
            format!("ok {}", ws)
        }
        ["clear"] => {
            s.t.as_mut().unwrap().clear_cache();
            s.r.clear();
            check_reads(out, &case, s.t.as_ref().unwrap(), &s.r, "after clear");
            "ok".into()
        }
        ["reopen"] => {
            s.t = None;
            s.t = Some(Tab::new(&s.dir, "t").unwrap());
            s.r.clear();
            check_reads(out, &case, s.t.as_ref().unwrap(), &s.r, "after reopen");
            "ok".into()
        }
        ["dump"] => dump(s.t.as_ref().unwrap()),
        ["reorg", n] => {
            let n = num(n);
            let tab = s.t.as_mut().unwrap();
            let floor = s.r.max_ever.saturating_sub(W);
            let inside = n >= floor && n <= s.r.max_ever;
            // keys whose history was deleted as old (garbage collected): only the value column is left, or nothing, or a
            // history re-seeded from the value column at block 0
            let reseeded: BTreeSet<String> = {
                let (db, cdb, cache) = tab.verif_dump();
                s.r.keys()
                    .into_iter()
                    .filter(|k| {
                        let kb = hex::decode(k).unwrap();
                        let h = cache.iter().chain(cdb.iter()).find(|e| e.0 == kb).map(|e| show_hist_bytes(&e.1));
                        match h {
                            Some(h) => h.starts_with("0:") && !h.starts_with("0:-"),
                            // no history row at all: it was deleted as old (with or without a surviving value row)
                            None => { let _ = &db; true }
                        }
                    })
                    .collect()
            };
            let _ = v::take_events();
            v::set_enabled(true);
            let reorg_result = catch_unwind(AssertUnwindSafe(|| tab.reorg(n)));
            let ws = persistent_writes();
            match reorg_result {
                Ok(_) => {
                    let before = s.r.clone();
                    s.r.reorg(n);
                    for k in before.keys() {
                        let got = tab.latest(&pk(&k).unwrap()).ok().flatten().map(|v| sv(&v));
                        let want = before.at(&k, n);
                        if got != want {
                            let family = if inside {
                                "rollback-in-window"
                            } else if reseeded.contains(&k) {
                                "deep-rollback-after-gc-reseed"
                            } else {
                                "deep-rollback-silent"
                            };
                            out.oracle_fail(
                                &case,
                                family,
                                &format!(
                                    "reorg({}) newest={} key {}: {:?}, reference {:?}",
                                    n, before.max_ever, k, got, want
                                ),
                            );
                        }
                    }
                    format!("ok {}", ws)
                }
                Err(_) => {
                    if inside {
                        out.oracle_fail(
                            &case,
                            "rollback-in-window",
                            &format!("reorg({}) newest={} panicked", n, s.r.max_ever),
                        );
                    }
                    s.dead = true;
                    "panic".into()
                }
            }
        }
        // ------------------------------------------------------------------ single history
        ["hnew", v] => {
            s.h = Some(H::new(if *v == "-" { None } else { pv(v) }));
            "ok".into()
        }
        ["hset", b, v] => {
            let h = s.h.as_mut().unwrap();
            let r = catch_unwind(AssertUnwindSafe(|| h.set(num(b), pv(v).unwrap())));
            hist_after(s, out, r.is_ok())
        }
        ["hunset", b] => {
            let h = s.h.as_mut().unwrap();
            let r = catch_unwind(AssertUnwindSafe(|| h.unset(num(b))));
            hist_after(s, out, r.is_ok())
        }
        ["hreorg", n] => {
            let h = s.h.as_mut().unwrap();
            let r = catch_unwind(AssertUnwindSafe(|| h.reorg(num(n))));
            hist_after(s, out, r.is_ok())
        }
        ["hlatest"] => s.h.as_ref().unwrap().latest().map(|v| sv(&v)).unwrap_or("-".into()),
        ["hisold", b] => format!("{}", s.h.as_ref().unwrap().is_old(num(b))),
        ["hdump"] => {
            let enc = s.h.as_ref().unwrap().encode_vec();
            // the stored form must decode to a history that encodes to the same bytes
            match H::decode_vec(&enc) {
                Ok(h2) if h2.encode_vec() == enc => {}
                _ => out.oracle_fail(&case, "hist-codec", "history does not survive decode/encode"),
            }
            show_hist_bytes(&enc)
        }
        // ------------------------------------------------------------------ block table
        ["bset", n, v] => {
            s.b.as_mut().unwrap().set(num(n), pv(v).unwrap());
            "ok".into()
        }
        ["bget", n] => s.b.as_ref().unwrap().get(num(n)).unwrap().map(|v| sv(&v)).unwrap_or("-".into()),
        ["bcommit"] => {
            s.b.as_mut().unwrap().commit().unwrap();
            "ok".into()
        }
        ["bclear"] => {
            s.b.as_mut().unwrap().clear_cache();
            "ok".into()
        }
        ["breopen"] => {
            s.b = None;
            s.b = Some(BlockDatabase::new(&s.dir, "b").unwrap());
            "ok".into()
        }
        ["blast"] => s.b.as_ref().unwrap().last_key().unwrap().map(|k| k.to_string()).unwrap_or("-".into()),
        ["breorg", n] => {
            s.b.as_mut().unwrap().reorg(num(n)).unwrap();
            "ok".into()
        }
        ["bdump"] => {
            let (db, cache) = s.b.as_ref().unwrap().verif_dump();
            let f = |l: &[(Vec<u8>, Vec<u8>)]| {
                l.iter()
                    .map(|(k, v)| format!("{}={}", u64::from_be_bytes(k[..8].try_into().unwrap()), hex::encode(v)))
                    .collect::<Vec<_>>()
                    .join(",")
            };
            format!("db:{};cache:{}", f(&db), f(&cache))
        }
        _ => "bad-op".into(),
    }
}

fn hist_after(s: &mut State, out: &mut Out, ok: bool) -> String {
    if !ok {
        s.dead = true;
        return "panic".into();
    }
    let enc = s.h.as_ref().unwrap().encode_vec();
    let len = u32::from_be_bytes(enc[0..4].try_into().unwrap()) as usize;
    s.hist_max_len = s.hist_max_len.max(len);
    if len > (W as usize) + 1 {
        out.oracle_fail(&s.case.clone(), "versions", &format!("history holds {} versions", len));
    }
    "ok".into()
}
