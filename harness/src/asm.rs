//! A very small EVM assembler and the contracts the engine suites deploy.
#![allow(dead_code)]

pub const STOP: u8 = 0x00;
pub const ADD: u8 = 0x01;
pub const SUB: u8 = 0x03;
pub const LT: u8 = 0x10;
pub const GT: u8 = 0x11;
pub const EQ: u8 = 0x14;
pub const ISZERO: u8 = 0x15;
pub const ADDRESS: u8 = 0x30;
pub const ORIGIN: u8 = 0x32;
pub const CALLER: u8 = 0x33;
pub const CALLDATALOAD: u8 = 0x35;
pub const CALLDATASIZE: u8 = 0x36;
pub const CALLDATACOPY: u8 = 0x37;
pub const CODECOPY: u8 = 0x39;
pub const GASPRICE: u8 = 0x3a;
pub const RETURNDATASIZE: u8 = 0x3d;
pub const RETURNDATACOPY: u8 = 0x3e;
pub const BLOCKHASH: u8 = 0x40;
pub const COINBASE: u8 = 0x41;
pub const TIMESTAMP: u8 = 0x42;
pub const NUMBER: u8 = 0x43;
pub const PREVRANDAO: u8 = 0x44;
pub const GASLIMIT: u8 = 0x45;
pub const CHAINID: u8 = 0x46;
pub const SELFBALANCE: u8 = 0x47;
pub const BASEFEE: u8 = 0x48;
pub const POP: u8 = 0x50;
pub const MLOAD: u8 = 0x51;
pub const MSTORE: u8 = 0x52;
pub const SLOAD: u8 = 0x54;
pub const SSTORE: u8 = 0x55;
pub const JUMP: u8 = 0x56;
pub const JUMPI: u8 = 0x57;
pub const GAS: u8 = 0x5a;
pub const JUMPDEST: u8 = 0x5b;
pub const PUSH0: u8 = 0x5f;
pub const DUP1: u8 = 0x80;
pub const DUP2: u8 = 0x81;
pub const SWAP1: u8 = 0x90;
pub const LOG0: u8 = 0xa0;
pub const CREATE: u8 = 0xf0;
pub const CALL: u8 = 0xf1;
pub const RETURN: u8 = 0xf3;
pub const STATICCALL: u8 = 0xfa;
pub const REVERT: u8 = 0xfd;
pub const INVALID: u8 = 0xfe;
pub const SELFDESTRUCT: u8 = 0xff;

pub fn push(n: u64) -> Vec<u8> {
    if n == 0 {
        return vec![0x60, 0];
    }
    let bytes: Vec<u8> = n.to_be_bytes().iter().skip_while(|b| **b == 0).cloned().collect();
    let mut v = vec![0x5f + bytes.len() as u8];
    v.extend(bytes);
    v
}

pub fn cat(parts: &[&[u8]]) -> Vec<u8> {
    parts.iter().flat_map(|p| p.iter().cloned()).collect()
}

/// init code that returns `runtime` as the contract code
pub fn deployer(runtime: &[u8]) -> Vec<u8> {
    // PUSH len; DUP1; PUSH off; PUSH0-ish 0; CODECOPY; PUSH 0; RETURN
    let len = runtime.len() as u64;
    let mut head = Vec::new();
    // we need the header length to compute the offset: assemble with a fixed-width PUSH2 for both
    head.extend([0x61, (len >> 8) as u8, len as u8]); // PUSH2 len
    head.push(DUP1);
    head.extend([0x61, 0, 0]); // PUSH2 off (patched)
    head.extend([0x60, 0]); // PUSH1 0
    head.push(CODECOPY);
    head.extend([0x60, 0]); // PUSH1 0
    head.push(RETURN);
    let off = head.len() as u16;
    head[5] = (off >> 8) as u8;
    head[6] = off as u8;
    head.extend_from_slice(runtime);
    head
}

/// sstore(calldata[0..32], calldata[32..64])
pub fn store_runtime() -> Vec<u8> {
    cat(&[&push(32), &[CALLDATALOAD], &push(0), &[CALLDATALOAD, SSTORE, STOP]])
}

/// emits LOGn: data = calldata[0..32], topics = calldata[32..], n = (calldatasize - 32) / 32 (0..4); also returns data
pub fn logger_runtime(n: u8) -> Vec<u8> {
    let mut code = cat(&[&push(0), &[CALLDATALOAD], &push(0), &[MSTORE]]);
    for i in (0..n).rev() {
        code.extend(push(32 * (i as u64 + 1)));
        code.push(CALLDATALOAD);
    }
    code.extend(cat(&[&push(32), &push(0), &[LOG0 + n], &push(32), &push(0), &[RETURN]]));
    code
}

pub fn reverter_runtime() -> Vec<u8> {
    cat(&[&push(0x2a), &push(0), &[MSTORE], &push(32), &push(0), &[REVERT]])
}

/// loops forever (runs out of whatever gas it gets)
pub fn burner_runtime() -> Vec<u8> {
    vec![JUMPDEST, 0x60, 0, JUMP]
}

pub fn invalid_runtime() -> Vec<u8> {
    vec![INVALID]
}

/// n = calldata[0..32]; for i in 0..n: sstore(i+1, i+1); returns n. Gas need grows with n.
pub fn worker_runtime() -> Vec<u8> {
    // stack: i
    // 0: PUSH 0                       [i]
    // loop: JUMPDEST DUP1 CALLDATALOAD(0) .. compare
    let mut c = Vec::new();
    c.extend(push(0)); // i
    let loop_pc = c.len() as u64;
    c.push(JUMPDEST);
    // if i >= n goto end
    c.push(DUP1); // i i
    c.extend(push(0));
    c.push(CALLDATALOAD); // i i n
    c.push(GT); // i (n > i)
    c.push(ISZERO); // i !(n>i)
    let jump_end_at = c.len();
    c.extend([0x61, 0, 0]); // PUSH2 end (patched)
    c.push(JUMPI); // i
    c.extend(push(1));
    c.push(ADD); // i+1
    c.push(DUP1);
    c.push(DUP1);
    c.push(SSTORE); // sstore(i+1, i+1)
    c.extend(push(loop_pc));
    c.push(JUMP);
    let end_pc = c.len() as u16;
    c.push(JUMPDEST);
    c.extend(push(0));
    c.push(MSTORE);
    c.extend(push(32));
    c.extend(push(0));
    c.push(RETURN);
    c[jump_end_at + 1] = (end_pc >> 8) as u8;
    c[jump_end_at + 2] = end_pc as u8;
    c
}

/// CREATE a child whose init code is the calldata; stores the child address in slot 0 and returns it
pub fn creator_runtime() -> Vec<u8> {
    cat(&[
        &[CALLDATASIZE],
        &push(0),
        &push(0),
        &[CALLDATACOPY],
        &[CALLDATASIZE],
        &push(0),
        &push(0),
        &[CREATE],
        &[DUP1],
        &push(0),
        &[SSTORE],
        &push(0),
        &[MSTORE],
        &push(32),
        &push(0),
        &[RETURN],
    ])
}

/// selfdestructs to the caller
pub fn suicide_runtime() -> Vec<u8> {
    vec![CALLER, SELFDESTRUCT]
}

/// stores the block / tx context into slots 1..=11 and returns the 11 words:
/// 1 NUMBER 2 TIMESTAMP 3 PREVRANDAO 4 CHAINID 5 ORIGIN 6 CALLER 7 COINBASE 8 BASEFEE 9 GASPRICE
/// 10 BLOCKHASH(NUMBER-1) 11 current Bitcoin txid via the 0xfa helper (0 if the helper is absent / fails)
pub fn probe_runtime() -> Vec<u8> {
    let mut c = Vec::new();
    let mut slot = |c: &mut Vec<u8>, n: u64, op: &[u8]| {
        c.extend_from_slice(op);
        c.push(DUP1);
        c.extend(push(n));
        c.push(SSTORE);
        c.extend(push(32 * (n - 1)));
        c.push(MSTORE);
    };
    slot(&mut c, 1, &[NUMBER]);
    slot(&mut c, 2, &[TIMESTAMP]);
    slot(&mut c, 3, &[PREVRANDAO]);
    slot(&mut c, 4, &[CHAINID]);
    slot(&mut c, 5, &[ORIGIN]);
    slot(&mut c, 6, &[CALLER]);
    slot(&mut c, 7, &[COINBASE]);
    slot(&mut c, 8, &[BASEFEE]);
    slot(&mut c, 9, &[GASPRICE]);
    let bh = cat(&[&push(1), &[NUMBER, SUB, BLOCKHASH]]);
    slot(&mut c, 10, &bh);
    // staticcall(gas, 0xfa, in=0x200 size 4 (selector), out=0x220 size 32)
    // selector of getTxId(): computed by the harness and passed in calldata[0..4]; copy calldata to 0x200
    c.extend(cat(&[&push(4), &push(0), &push(0x200), &[CALLDATACOPY]]));
    c.extend(cat(&[&push(32), &push(0x220), &push(4), &push(0x200), &push(0xfa), &[GAS, STATICCALL, POP]]));
    let txid = cat(&[&push(0x220), &[MLOAD]]);
    slot(&mut c, 11, &txid);
    c.extend(cat(&[&push(32 * 11), &push(0), &[RETURN]]));
    c
}

/// returns (and stores in slots 1, 2) NUMBER and BLOCKHASH(NUMBER - 1): context that a simulation at the next
/// height must predict (no timestamp, randomness, gas or txid)
pub fn height_runtime() -> Vec<u8> {
    cat(&[
        &[NUMBER, DUP1],
        &push(1),
        &[SSTORE],
        &push(0),
        &[MSTORE],
        &push(1),
        &[NUMBER, SUB, BLOCKHASH, DUP1],
        &push(2),
        &[SSTORE],
        &push(32),
        &[MSTORE],
        &push(64),
        &push(0),
        &[RETURN],
    ])
}

/// returns GASLIMIT, CHAINID, BASEFEE, COINBASE, GASPRICE, NUMBER, SELFBALANCE (and stores GASLIMIT in slot 1): block
/// context that is not among the reads C17 excludes, so a simulation must show the transaction's values
pub fn envread_runtime() -> Vec<u8> {
    let mut c = cat(&[&[GASLIMIT, DUP1], &push(1), &[SSTORE], &push(0), &[MSTORE]]);
    for (i, op) in [CHAINID, BASEFEE, COINBASE, GASPRICE, NUMBER, SELFBALANCE].iter().enumerate() {
        c.extend(cat(&[&[*op], &push(32 * (i as u64 + 1)), &[MSTORE]]));
    }
    c.extend(cat(&[&push(32 * 7), &push(0), &[RETURN]]));
    c
}

/// calls `target` (calldata[0..32]) with the rest of the calldata and bubbles the result
pub fn proxy_runtime() -> Vec<u8> {
    cat(&[
        // copy calldata[32..] to mem 0
        &push(32),
        &[CALLDATASIZE, SUB],
        &push(32),
        &push(0),
        &[CALLDATACOPY],
        // call(gas, target, 0, 0, size-32, 0, 0)
        &push(0),
        &push(0),
        &push(32),
        &[CALLDATASIZE, SUB],
        &push(0),
        &push(0),
        &push(0),
        &[CALLDATALOAD],
        &[GAS, CALL],
        // return returndata
        &[RETURNDATASIZE],
        &push(0),
        &push(0),
        &[RETURNDATACOPY],
        &[ISZERO],
        &push(0), // placeholder to keep the stack simple: revert if call failed
        &[POP],
        &[RETURNDATASIZE],
        &push(0),
        &[RETURN],
    ])
}

pub fn word(n: u64) -> Vec<u8> {
    let mut w = vec![0u8; 24];
    w.extend(n.to_be_bytes());
    w
}
