//! brc20-verif-harness: drives the real brc20-prog code in-process (feature `verif-hooks`).
//!
//!   gen  <suite> --seed N --cases N --max-ops N --out DIR     write DIR/<suite>.gen.ops
//!   exec <suite> --ops FILE --out DIR                         run FILE; write DIR/<suite>.{ops,impl,oracle,stats.json}
//!
//! `ops` holds the lines fed to the Lean model driver, `impl` the implementation's answer to each line, `oracle`
//! the implementation-vs-reference failures found by the harness itself (independent of the model).
mod asm;
mod eng;
mod out;
mod rng;
mod suite_a;
mod suite_c;
mod suite_d;
mod suite_e;
mod suite_f;
mod suite_k;
mod suite_p;
mod suite_t;
mod suite_z;

use std::path::PathBuf;

fn arg(args: &[String], name: &str) -> Option<String> {
    args.iter().position(|a| a == name).and_then(|i| args.get(i + 1).cloned())
}

fn main() {
    let args: Vec<String> = std::env::args().collect();
    if args.len() < 3 {
        eprintln!("usage: brc20-verif-harness gen|exec <suite> [--seed N --cases N --max-ops N] [--ops FILE] --out DIR");
        std::process::exit(2);
    }
    let mode = args[1].clone();
    let suite = args[2].clone();
    let seed: u64 = arg(&args, "--seed").and_then(|s| s.parse().ok()).unwrap_or(1);
    let cases: u64 = arg(&args, "--cases").and_then(|s| s.parse().ok()).unwrap_or(50);
    let max_ops: u64 = arg(&args, "--max-ops").and_then(|s| s.parse().ok()).unwrap_or(60);
    let out_dir = PathBuf::from(arg(&args, "--out").unwrap_or_else(|| "/verif/work".into()));
    std::fs::create_dir_all(&out_dir).unwrap();
    let mut rng = rng::Rng::new(seed ^ suite.bytes().fold(0u64, |a, b| a.wrapping_mul(131).wrapping_add(b as u64)));
    match mode.as_str() {
        "gen" => {
            let lines = match suite.as_str() {
                "T" => suite_t::gen(&mut rng, &suite_t::Params { cases, max_ops }),
                "C" => suite_c::gen(&mut rng, &suite_c::Params { cases }),
                "A" => suite_a::gen(&mut rng, &suite_a::Params { cases }),
                "E" | "L" => suite_e::gen(&mut rng, &suite_e::Params { cases, max_ops }),
                "X" => {
                    // the engine script, with a commit after every second finalised block (more crash points)
                    let mut k = 0;
                    let mut v = Vec::new();
                    for l in suite_e::gen(&mut rng, &suite_e::Params { cases, max_ops }) {
                        let is_fin = l.starts_with("fin ") || l.starts_with("mine ");
                        v.push(l);
                        if is_fin {
                            k += 1;
                            if k % 2 == 0 {
                                v.push("commit".to_string());
                            }
                        }
                    }
                    v
                }
                "K" => suite_k::gen(&mut rng, &suite_k::Params { cases, max_ops }),
                "D" => suite_d::gen(&mut rng, &suite_d::Params { cases }),
                "Z" if std::env::var("VERIF_Z_SAMPLE").is_ok() => suite_z::sample_lines(),
                "Z" => suite_z::gen(&mut rng, &suite_z::Params { cases, max_ops }),
                "F" => suite_f::gen(&mut rng, &suite_f::Params { cases }),
                "P" => suite_p::gen(&mut rng, &suite_p::Params { cases, big: max_ops }),
                _ => {
                    eprintln!("unknown suite {}", suite);
                    std::process::exit(2);
                }
            };
            std::fs::write(out_dir.join(format!("{}.gen.ops", suite)), lines.join("\n") + "\n").unwrap();
        }
        "exec" => {
            let ops_file = arg(&args, "--ops").expect("--ops FILE");
            let text = std::fs::read_to_string(&ops_file).expect("read ops");
            let lines: Vec<String> =
                text.lines().map(|l| l.to_string()).filter(|l| !l.trim().is_empty() && !l.starts_with('#')).collect();
            let scratch = out_dir.join(format!("scratch-{}-{}", suite, std::process::id()));
            std::fs::create_dir_all(&scratch).unwrap();
            // panics are expected outcomes in several suites: keep stderr quiet, the answer line records them
            if std::env::var("VERIF_PANIC").is_err() {
                std::panic::set_hook(Box::new(|_| {}));
            }
            let mut out = out::Out::new(&out_dir, &suite);
            match suite.as_str() {
                "T" => suite_t::exec(&lines, &mut out, &scratch),
                "C" => suite_c::exec(&lines, &mut out),
                "A" => suite_a::exec(&lines, &mut out, &scratch),
                "P" => suite_p::exec(&lines, &mut out),
                "F" => suite_f::exec(&lines, &mut out, &scratch),
                "K" => suite_k::exec(&lines, &mut out, &scratch),
                "D" => suite_d::exec(&lines, &mut out, &scratch),
                "Z" => suite_z::exec(&lines, &mut out, &scratch),
                "E" => suite_e::exec(&lines, &mut out, &scratch),
                "L" => suite_e::exec_locks(&lines, &mut out, &scratch, &out_dir),
                "X" => suite_e::exec_crash(&lines, &mut out, &scratch, std::path::Path::new(&ops_file), arg(&args, "--exhaustive").is_some()),
                _ => {
                    eprintln!("unknown suite {}", suite);
                    std::process::exit(2);
                }
            }
            out.finish(&out_dir, &suite);
            let _ = std::fs::remove_dir_all(&scratch);
        }
        "dchild" => {
            let dir = PathBuf::from(arg(&args, "--dir").expect("--dir"));
            let n = |k: &str, d: u64| arg(&args, k).and_then(|s| s.parse().ok()).unwrap_or(d);
            std::panic::set_hook(Box::new(|_| {}));
            suite_d::child(&dir, n("--seed", 1), n("--readers", 4), n("--writers", 1), n("--millis", 2500));
        }
        "xchild" => {
            let ops_file = arg(&args, "--ops").expect("--ops FILE");
            let case = arg(&args, "--case").unwrap_or_default();
            let upto: usize = arg(&args, "--upto").and_then(|s| s.parse().ok()).unwrap_or(0);
            let crash_at: u64 = arg(&args, "--crash-at").and_then(|s| s.parse().ok()).unwrap_or(0);
            let dir = PathBuf::from(arg(&args, "--dir").expect("--dir"));
            let text = std::fs::read_to_string(&ops_file).expect("read ops");
            let mut lines = Vec::new();
            let mut on = false;
            for l in text.lines() {
                if l.starts_with("case ") {
                    on = l.split(' ').nth(1) == Some(case.as_str());
                    continue;
                }
                if on && !l.starts_with("read") && !l.starts_with("bad") && !l.starts_with("golden") && !l.trim().is_empty() && !l.starts_with('#') {
                    lines.push(l.to_string());
                }
            }
            std::panic::set_hook(Box::new(|_| {}));
            suite_e::crash_child(&lines, upto, crash_at, &dir);
        }
        _ => {
            eprintln!("unknown mode {}", mode);
            std::process::exit(2);
        }
    }
}
