//! SplitMix64: every random choice of every suite derives from one state seeded by VERIF_SEED.
#[derive(Clone)]
pub struct Rng(pub u64);

impl Rng {
    pub fn new(seed: u64) -> Self {
        Rng(seed.wrapping_mul(0x9E3779B97F4A7C15) ^ 0xD1B54A32D192ED03)
    }
    pub fn next(&mut self) -> u64 {
        self.0 = self.0.wrapping_add(0x9E3779B97F4A7C15);
        let mut z = self.0;
        z = (z ^ (z >> 30)).wrapping_mul(0xBF58476D1CE4E5B9);
        z = (z ^ (z >> 27)).wrapping_mul(0x94D049BB133111EB);
        z ^ (z >> 31)
    }
    pub fn below(&mut self, n: u64) -> u64 {
        if n == 0 { 0 } else { self.next() % n }
    }
    pub fn chance(&mut self, percent: u64) -> bool {
        self.below(100) < percent
    }
    pub fn pick<'a, T>(&mut self, xs: &'a [T]) -> &'a T {
        &xs[self.below(xs.len() as u64) as usize]
    }
    pub fn fork(&mut self) -> Rng {
        Rng(self.next())
    }
    pub fn bytes(&mut self, n: usize) -> Vec<u8> {
        (0..n).map(|_| self.next() as u8).collect()
    }
}
