//! Suite F: the configuration database check at start-up (`validate_config_database`, and the public `start()`).
use std::path::{Path, PathBuf};

use brc20_prog::verif::{validate_config_database, Brc20ProgConfig, ConfigDatabase};

use crate::out::Out;
use crate::rng::Rng;

const NETS: [&str; 8] = ["mainnet", "bitcoin", "signet", "testnet", "testnet4", "regtest", "unknown", "~"];
const KEYS: [&str; 4] = ["DB_VERSION", "PROTOCOL_VERSION", "BITCOIN_RPC_NETWORK", "EVM_RECORD_TRACES"];

pub struct Params {
    pub cases: u64,
}

pub fn gen(r: &mut Rng, p: &Params) -> Vec<String> {
    let mut lines = Vec::new();
    // the full matrix creating configuration x reopening configuration
    let mut c = 0;
    for n1 in NETS.iter().take(7) {
        for t1 in ["true", "false"] {
            lines.push(format!("case F{}", c));
            c += 1;
            lines.push(format!("state {}", if c % 2 == 0 { "missing" } else { "empty" }));
            lines.push(format!("validate {} {}", n1, t1));
            lines.push("rows".into());
            for n2 in NETS {
                for t2 in ["true", "false"] {
                    lines.push(format!("validate {} {}", n2, t2));
                }
            }
            lines.push("rows".into());
        }
    }
    // a populated directory that lost exactly one of its four records: every reopening must be refused
    let mut pc = 0;
    for k in KEYS {
        for (n1, t1) in [("signet", "true"), ("regtest", "false"), ("mainnet", "true")] {
            lines.push(format!("case Fpartial{}", pc));
            pc += 1;
            lines.push(format!("partial {} {} {}", k, n1, t1));
            lines.push("rows".into());
            for (n2, t2) in [(n1, t1), (n1, if t1 == "true" { "false" } else { "true" }), ("testnet4", t1)] {
                lines.push(format!("validate {} {}", n2, t2));
                lines.push("rows".into());
            }
        }
    }
    for i in 0..p.cases {
        lines.push(format!("case F{}", c + i));
        lines.push(format!("state {}", r.pick(&["missing", "empty", "file", "foreign", "missing", "empty"])));
        for _ in 0..(2 + r.below(8)) {
            match r.below(10) {
                0..=5 => lines.push(format!("validate {} {}", r.pick(&NETS), r.pick(&["true", "false"]))),
                6 | 7 => {
                    let k = *r.pick(&KEYS);
                    let v = match k {
                        "DB_VERSION" => *r.pick(&["6", "7", "8", "~", "07"]),
                        "PROTOCOL_VERSION" => *r.pick(&["1", "2", "3", "2 "]),
                        "BITCOIN_RPC_NETWORK" => *r.pick(&NETS),
                        _ => *r.pick(&["true", "false", "True", "1"]),
                    };
                    lines.push(format!("tamper {} {}", k, v));
                }
                _ => lines.push("rows".into()),
            }
        }
    }
    // a few runs through the public start() (process-global CONFIG, real server on an ephemeral port)
    for (i, (n1, t1, n2, t2)) in [("signet", "false", "signet", "false"), ("signet", "false", "regtest", "false"), ("regtest", "true", "regtest", "false")].iter().enumerate() {
        lines.push(format!("case Fstart{}", i));
        lines.push("state missing".into());
        lines.push(format!("start {} {}", n1, t1));
        lines.push(format!("start {} {}", n2, t2));
        lines.push("rows".into());
    }
    lines
}

fn cfg(dir: &Path, net: &str, traces: &str) -> Brc20ProgConfig {
    let mut c = Brc20ProgConfig::from_env();
    c.db_path = dir.to_string_lossy().to_string();
    c.bitcoin_rpc_network = if net == "~" { String::new() } else { net.to_string() };
    c.evm_record_traces = traces == "true";
    c.brc20_prog_rpc_server_url = "127.0.0.1:0".into();
    c.brc20_prog_rpc_server_enable_auth = false;
    c.fail_on_bitcoin_rpc_error = false;
    c
}

fn classify(e: &str) -> String {
    for k in KEYS {
        if e.contains(&format!("Config for {} mismatch", k)) {
            return format!("err mismatch:{}", k);
        }
        if e.contains(&format!("Config for {} not found", k)) {
            return format!("err notfound:{}", k);
        }
    }
    if e.contains("is not a directory") {
        return "err notdir".into();
    }
    format!("err other:{}", e.replace(' ', "_"))
}

pub fn exec(lines: &[String], out: &mut Out, scratch: &Path) {
    let mut dir: PathBuf = scratch.join("none");
    let mut n = 0;
    let mut case = String::new();
    let mut created_with: Option<(String, String)> = None;
    let mut tampered = false;
    let mut partial = false;
    let rt = tokio::runtime::Builder::new_multi_thread().worker_threads(2).enable_all().build().unwrap();
    for line in lines {
        let ws: Vec<&str> = line.split(' ').filter(|w| !w.is_empty()).collect();
        match ws.as_slice() {
            ["case", id, ..] => {
                n += 1;
                case = id.to_string();
                out.case(id);
                let _ = std::fs::remove_dir_all(scratch.join(format!("f{}", n - 1)));
                dir = scratch.join(format!("f{}", n)).join("db");
                created_with = None;
                tampered = false;
                partial = false;
            }
            ["partial", k, net, traces] => {
                // the four records of (net, traces) under the current versions, except `k`; plus a data file
                let _ = std::fs::remove_dir_all(&dir);
                let _ = std::fs::remove_file(&dir);
                std::fs::create_dir_all(&dir).unwrap();
                // the version records as the real code writes them now (a fresh directory validated once)
                let tmpl = dir.with_extension("tmpl");
                let _ = std::fs::remove_dir_all(&tmpl);
                validate_config_database(&cfg(&tmpl, net, traces)).unwrap();
                let (dbv, pv) = {
                    let t = ConfigDatabase::new(&tmpl, "config").unwrap();
                    (t.get("DB_VERSION".to_string()).unwrap().unwrap(), t.get("PROTOCOL_VERSION".to_string()).unwrap().unwrap())
                };
                let _ = std::fs::remove_dir_all(&tmpl);
                {
                    let mut db = ConfigDatabase::new(&dir, "config").unwrap();
                    let rows = [
                        ("DB_VERSION", dbv),
                        ("PROTOCOL_VERSION", pv),
                        ("BITCOIN_RPC_NETWORK", if *net == "~" { String::new() } else { net.to_string() }),
                        ("EVM_RECORD_TRACES", (*traces == "true").to_string()),
                    ];
                    for (key, val) in rows {
                        if key != *k {
                            db.set(key.to_string(), val).unwrap();
                        }
                    }
                    db.flush().unwrap();
                }
                created_with = None;
                tampered = false;
                partial = true;
                out.line(line, "ok");
            }
            ["state", s] => {
                partial = false;
                let _ = std::fs::remove_dir_all(&dir);
                let _ = std::fs::remove_file(&dir);
                std::fs::create_dir_all(dir.parent().unwrap()).unwrap();
                match *s {
                    "missing" => {}
                    "empty" => std::fs::create_dir_all(&dir).unwrap(),
                    "file" => std::fs::write(&dir, b"not a directory").unwrap(),
                    "foreign" => {
                        std::fs::create_dir_all(&dir).unwrap();
                        std::fs::write(dir.join("somebody-elses-file"), b"x").unwrap();
                    }
                    _ => {}
                }
                out.line(line, "ok");
            }
            [op @ ("validate" | "start"), net, traces] => {
                let c = cfg(&dir, net, traces);
                let fresh = !dir.exists() || (dir.is_dir() && dir.read_dir().map(|mut d| d.next().is_none()).unwrap_or(false));
                let res: Result<(), String> = if *op == "validate" {
                    validate_config_database(&c).map_err(|e| e.to_string())
                } else {
                    rt.block_on(async {
                        match brc20_prog::start(c.clone()).await {
                            Ok(h) => {
                                let _ = h.stop();
                                h.stopped().await;
                                Ok(())
                            }
                            Err(e) => Err(e.to_string()),
                        }
                    })
                };
                let ans = match &res {
                    Ok(_) => "ok".to_string(),
                    Err(e) => classify(e),
                };
                // oracle: the property itself
                let this = (net.to_string(), traces.to_string());
                if partial && res.is_ok() {
                    out.oracle_fail(&case, "partial-accepted", &format!("a populated directory that lacks one of the four recorded settings was accepted ({:?})", this));
                    partial = false; // whatever was written now, later lines are judged by the model only
                    tampered = true;
                } else if partial {
                } else if fresh && res.is_ok() {
                    created_with = Some(this.clone());
                } else if let Some(cw) = &created_with {
                    if res.is_ok() && *cw != this {
                        out.oracle_fail(&case, "reopen-mismatch", &format!("created with {:?}, reopened successfully with {:?}", cw, this));
                    }
                    if res.is_err() && *cw == this {
                        out.oracle_fail(&case, "reopen-same", &format!("created with {:?}, identical configuration refused: {}", cw, ans));
                    }
                } else if res.is_ok() && !fresh && !tampered {
                    out.oracle_fail(&case, "foreign-accepted", &format!("a non-empty directory without recorded configuration was accepted ({:?})", this));
                }
                out.line(line, &ans);
            }
            ["tamper", k, v] => {
                if dir.is_dir() || !dir.exists() {
                    std::fs::create_dir_all(&dir).unwrap();
                    let mut db = ConfigDatabase::new(&dir, "config").unwrap();
                    db.set(k.to_string(), if *v == "~" { String::new() } else { v.to_string() }).unwrap();
                    db.flush().unwrap();
                    created_with = None; // after tampering only the model comparison judges
                    tampered = true;
                    out.line(line, "ok");
                } else {
                    out.line(line, "ok");
                }
            }
            ["rows"] => {
                if dir.is_dir() && !dir.join("config").exists() {
                    // do not create the column family as a side effect of looking
                    out.line(line, &KEYS.iter().map(|k| format!("{}=-", k)).collect::<Vec<_>>().join(","));
                } else if dir.is_dir() {
                    let db = ConfigDatabase::new(&dir, "config").unwrap();
                    let s = KEYS.iter().map(|k| format!("{}={}", k, db.get(k.to_string()).ok().flatten().unwrap_or("-".into()))).collect::<Vec<_>>().join(",");
                    out.line(line, &s);
                } else {
                    out.line(line, "-");
                }
            }
            _ => out.line(line, "bad-op"),
        }
    }
    let _ = std::fs::remove_dir_all(scratch);
}
