import Brc20.Model.AMap
import Brc20.Model.Hist
import Brc20.Model.Table
import Brc20.Model.BlockDb
import Brc20.Model.DriverT
import Brc20.Gen.Constants
import Brc20.Proofs.Hist
import Brc20.Props.C13
