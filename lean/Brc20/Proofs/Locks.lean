/-
Deadlock freedom of disciplined lock programs under writer-preferring read-write locks.
-/
import Brc20.Model.Locks
set_option linter.unusedSectionVars false

namespace Brc20.Locks

/-! ### The per-thread invariant -/

/-- the lock a thread is trying to acquire / operate on next (`0` for a thread with nothing to do) -/
def blk (t : Thread) : Nat :=
  match t.waitingW, t.todo with
  | some l, _ => l
  | none, .rd l :: _ => l
  | none, .wr l :: _ => l
  | none, .rel l :: _ => l
  | none, [] => 0

/-- the remaining program is disciplined relative to the guards currently held -/
def Inv (rank : Nat → Nat) (t : Thread) : Prop :=
  match t.waitingW with
  | none => checkProg rank t.todo t.held = true
  | some l =>
    t.held.all (fun h => rank h.1 < rank l) = true ∧ checkProg rank t.todo ((l, true) :: t.held) = true

theorem inv_step (rank : Nat → Nat) (t : Thread) (h : Inv rank t) : Inv rank (stepThread t) := by
  obtain ⟨todo, held, w⟩ := t
  cases w with
  | some l =>
    simp only [Inv, stepThread] at h ⊢
    exact h.2
  | none =>
    cases todo with
    | nil => simpa [stepThread] using h
    | cons op rest =>
      cases op with
      | rd l =>
        simp only [Inv, stepThread, checkProg, Bool.and_eq_true] at h ⊢
        exact h.2
      | wr l =>
        simp only [Inv, stepThread, checkProg, Bool.and_eq_true] at h ⊢
        exact ⟨h.1.2, h.2⟩
      | rel l =>
        simp only [Inv, stepThread, checkProg, Bool.and_eq_true] at h ⊢
        exact h.2

theorem inv_reach (rank : Nat → Nat) (ps : List Prog) (hd : ∀ p ∈ ps, Disciplined rank p) (s : Sys)
    (hr : Reach (initSys ps) s) : ∀ t ∈ s, Inv rank t := by
  induction hr with
  | refl =>
    intro t ht
    simp only [initSys, List.mem_map] at ht
    obtain ⟨p, hp, rfl⟩ := ht
    exact hd p hp
  | step _ hs ih =>
    obtain ⟨i, t, hi, _, rfl⟩ := hs
    intro t' ht'
    rcases List.mem_or_eq_of_mem_set ht' with h | h
    · exact ih t' h
    · subst h
      exact inv_step rank t (ih t (List.mem_of_getElem? hi))

/-! ### Blocking structure of a stuck state -/

/-- someone holds a guard of `l` -/
def Holder (s : Sys) (l : Nat) : Prop := ∃ u ∈ s, ∃ h ∈ u.held, h.1 = l

theorem holder_of_writerHeld (s : Sys) (l : Nat) (h : writerHeld s l = true) : Holder s l := by
  simp only [writerHeld, List.any_eq_true, Bool.and_eq_true, beq_iff_eq] at h
  obtain ⟨u, hu, g, hg, hgl, _⟩ := h
  exact ⟨u, hu, g, hg, hgl⟩

theorem sum_ne_zero {α} (f : α → Nat) (s : List α) (h : (s.map f).sum ≠ 0) : ∃ u ∈ s, f u ≠ 0 := by
  induction s with
  | nil => simp at h
  | cons a s ih =>
    by_cases ha : f a = 0
    · simp only [List.map_cons, List.sum_cons, ha, Nat.zero_add] at h
      obtain ⟨u, hu, hfu⟩ := ih h
      exact ⟨u, List.mem_cons_of_mem _ hu, hfu⟩
    · exact ⟨a, List.mem_cons_self, ha⟩

theorem holder_of_readers (s : Sys) (l : Nat) (h : readersOf s l ≠ 0) : Holder s l := by
  obtain ⟨u, hu, hne⟩ := sum_ne_zero _ s h
  have : (u.held.filter (fun h => h.1 == l && !h.2)) ≠ [] := by
    intro hnil
    exact hne (by simp [hnil])
  obtain ⟨g, hg⟩ := List.exists_mem_of_ne_nil _ this
  simp only [List.mem_filter, Bool.and_eq_true, beq_iff_eq] at hg
  exact ⟨u, hu, g, hg.1, hg.2.1⟩

/-- a thread that holds a guard and cannot move is unfinished and is after a lock of strictly higher rank -/
theorem holder_blocked (rank : Nat → Nat) (s : Sys) (u : Thread) (hinv : Inv rank u)
    (hen : enabled s u = false) (g : Nat × Bool) (hg : g ∈ u.held) :
    finished u = false ∧ rank g.1 < rank (blk u) := by
  obtain ⟨todo, held, w⟩ := u
  cases w with
  | some l' =>
    simp only [Inv, List.all_eq_true, decide_eq_true_eq] at hinv
    refine ⟨by simp [finished], ?_⟩
    simpa [blk] using hinv.1 g hg
  | none =>
    cases todo with
    | nil =>
      simp only [Inv, checkProg, List.isEmpty_iff] at hinv
      simp only at hg
      rw [hinv] at hg
      simp at hg
    | cons op rest =>
      cases op with
      | rd l' =>
        simp only [Inv, checkProg, Bool.and_eq_true, List.all_eq_true, decide_eq_true_eq] at hinv
        refine ⟨by simp [finished], ?_⟩
        simpa [blk] using hinv.1.2 g hg
      | wr l' => simp [enabled] at hen
      | rel l' => simp [enabled] at hen

/-- in a stuck state satisfying the invariant, a queued writer's lock has a holder -/
theorem queued_has_holder (s : Sys) (w : Thread) (l : Nat) (hw : w.waitingW = some l)
    (hen : enabled s w = false) : Holder s l := by
  obtain ⟨todo, held, ww⟩ := w
  simp only at hw
  subst hw
  simp only [enabled] at hen
  by_cases hwh : writerHeld s l = true
  · exact holder_of_writerHeld s l hwh
  · apply holder_of_readers
    intro h0
    simp [h0] at hen
    exact hwh hen

/-- every unfinished thread of a stuck state waits (transitively in one hop) on a thread that is after a lock of
strictly higher rank -/
theorem stuck_climb (rank : Nat → Nat) (s : Sys) (hinv : ∀ t ∈ s, Inv rank t)
    (hst : ∀ t ∈ s, enabled s t = false) (t : Thread) (ht : t ∈ s) (hunf : finished t = false) :
    ∃ t' ∈ s, finished t' = false ∧ rank (blk t) < rank (blk t') := by
  have key : Holder s (blk t) := by
    have hen := hst t ht
    obtain ⟨todo, held, w⟩ := t
    cases w with
    | some l => exact queued_has_holder s _ l rfl hen
    | none =>
      cases todo with
      | nil => simp [finished] at hunf
      | cons op rest =>
        cases op with
        | rd l =>
          simp only [enabled] at hen
          by_cases hwh : writerHeld s l = true
          · exact holder_of_writerHeld s l hwh
          · have hww : writerWaiting s l = true := by
              cases hq : writerWaiting s l with
              | true => rfl
              | false => simp [hq] at hen; exact absurd hen hwh
            simp only [writerWaiting, List.any_eq_true, beq_iff_eq] at hww
            obtain ⟨w, hws, hw⟩ := hww
            exact queued_has_holder s w l hw (hst w hws)
        | wr l => simp [enabled] at hen
        | rel l => simp [enabled] at hen
  obtain ⟨u, hu, g, hg, hgl⟩ := key
  have := holder_blocked rank s u (hinv u hu) (hst u hu) g hg
  rw [hgl] at this
  exact ⟨u, hu, this⟩

theorem ranks_bounded (rank : Nat → Nat) (s : Sys) : ∃ B, ∀ t ∈ s, rank (blk t) < B := by
  induction s with
  | nil => exact ⟨0, by simp⟩
  | cons a s ih =>
    obtain ⟨B, hB⟩ := ih
    refine ⟨max B (rank (blk a) + 1), ?_⟩
    intro t ht
    rcases List.mem_cons.mp ht with rfl | h
    · omega
    · have := hB t h
      omega

/-- **Progress**: if every program obeys the discipline (no re-acquisition of a held lock, acquisitions in strictly
increasing rank, balanced releases) then no reachable state of any number of
threads is stuck: as long as some thread is unfinished, some thread can take a step. -/
theorem disciplined_never_stuck (rank : Nat → Nat) (ps : List Prog)
    (hd : ∀ p ∈ ps, Disciplined rank p) (s : Sys) (hr : Reach (initSys ps) s) : ¬ Stuck s := by
  intro ⟨⟨t0, ht0, hunf0⟩, hst⟩
  have hinv := inv_reach rank ps hd s hr
  have climb : ∀ k : Nat, ∃ t ∈ s, finished t = false ∧ k ≤ rank (blk t) := by
    intro k
    induction k with
    | zero => exact ⟨t0, ht0, hunf0, Nat.zero_le _⟩
    | succ k ih =>
      obtain ⟨t, ht, hunf, hk⟩ := ih
      obtain ⟨t', ht', hunf', hlt⟩ := stuck_climb rank s hinv hst t ht hunf
      exact ⟨t', ht', hunf', by omega⟩
  obtain ⟨B, hB⟩ := ranks_bounded rank s
  obtain ⟨t, ht, _, hk⟩ := climb B
  have := hB t ht
  omega

/-- **Termination**: every step consumes program text or turns a queued request into a held guard, so every run
from `initSys ps` has at most `2 * total program length` steps; together with progress, every maximal run ends
with all threads finished. -/
def measure (s : Sys) : Nat := (s.map (fun t => 2 * t.todo.length + (if t.waitingW.isSome then 1 else 0))).sum

theorem sum_set_lt {α} (f : α → Nat) (s : List α) (i : Nat) (t x : α) (hi : s[i]? = some t) (hlt : f x < f t) :
    ((s.set i x).map f).sum < (s.map f).sum := by
  induction s generalizing i with
  | nil => simp at hi
  | cons a s ih =>
    cases i with
    | zero =>
      simp only [List.getElem?_cons_zero, Option.some.injEq] at hi
      subst hi
      simp only [List.set_cons_zero, List.map_cons, List.sum_cons]
      omega
    | succ i =>
      simp only [List.getElem?_cons_succ] at hi
      have := ih i hi
      simp only [List.set_cons_succ, List.map_cons, List.sum_cons]
      omega

theorem stepThread_measure (s : Sys) (t : Thread) (hen : enabled s t = true) :
    2 * (stepThread t).todo.length + (if (stepThread t).waitingW.isSome then 1 else 0)
      < 2 * t.todo.length + (if t.waitingW.isSome then 1 else 0) := by
  obtain ⟨todo, held, w⟩ := t
  cases w with
  | some l => simp [stepThread]
  | none =>
    cases todo with
    | nil => simp [enabled] at hen
    | cons op rest =>
      cases op <;> simp [stepThread] <;> omega

theorem step_decreases (s s' : Sys) (h : Step s s') : measure s' < measure s := by
  obtain ⟨i, t, hi, hen, rfl⟩ := h
  exact sum_set_lt _ s i t (stepThread t) hi (stepThread_measure s t hen)

/-- The converse that the replay uses: a thread that takes a second read guard of a lock it already read-holds,
with a writer queued in between, is stuck together with that writer. -/
theorem reentrant_read_deadlocks :
    Stuck [ { todo := [.rd 0, .rel 0, .rel 0], held := [(0, false)], waitingW := none },
            { todo := [.rel 0], held := [], waitingW := some 0 } ] := by
  refine ⟨⟨_, List.mem_cons_self, by decide⟩, ?_⟩
  intro t ht
  simp only [List.mem_cons, List.not_mem_nil, or_false] at ht
  rcases ht with rfl | rfl <;> decide

/-- ... and that state is reachable from the two fresh programs `[rd 0, rd 0, rel 0, rel 0]` and `[wr 0, rel 0]`. -/
theorem reentrant_read_reachable :
    Reach (initSys [[.rd 0, .rd 0, .rel 0, .rel 0], [.wr 0, .rel 0]])
      [ { todo := [.rd 0, .rel 0, .rel 0], held := [(0, false)], waitingW := none },
        { todo := [.rel 0], held := [], waitingW := some 0 } ] := by
  refine Reach.step (s :=
    [ { todo := [.rd 0, .rel 0, .rel 0], held := [(0, false)], waitingW := none },
      { todo := [.wr 0, .rel 0], held := [], waitingW := none } ]) ?_ ?_
  · refine Reach.step Reach.refl ?_
    exact ⟨0, _, rfl, by decide, by decide⟩
  · exact ⟨1, _, rfl, by decide, by decide⟩

/-- Opposite acquisition orders deadlock as well (lock-order inversion). -/
theorem order_inversion_deadlocks :
    ∃ s, Reach (initSys [[.wr 0, .wr 1, .rel 1, .rel 0], [.wr 1, .wr 0, .rel 0, .rel 1]]) s ∧ Stuck s := by
  refine ⟨[ { todo := [.rel 1, .rel 0], held := [(0, true)], waitingW := some 1 },
            { todo := [.rel 0, .rel 1], held := [(1, true)], waitingW := some 0 } ], ?_, ?_⟩
  · -- T0 queues+gets 0, T1 queues+gets 1, T0 queues for 1, T1 queues for 0
    have r0 : Reach (initSys [[.wr 0, .wr 1, .rel 1, .rel 0], [.wr 1, .wr 0, .rel 0, .rel 1]])
        (initSys [[.wr 0, .wr 1, .rel 1, .rel 0], [.wr 1, .wr 0, .rel 0, .rel 1]]) := Reach.refl
    have r1 := Reach.step r0 (s' :=
      [ { todo := [.wr 1, .rel 1, .rel 0], held := [], waitingW := some 0 },
        { todo := [.wr 1, .wr 0, .rel 0, .rel 1], held := [], waitingW := none } ])
      ⟨0, _, rfl, by decide, by decide⟩
    have r2 := Reach.step r1 (s' :=
      [ { todo := [.wr 1, .rel 1, .rel 0], held := [(0, true)], waitingW := none },
        { todo := [.wr 1, .wr 0, .rel 0, .rel 1], held := [], waitingW := none } ])
      ⟨0, _, rfl, by decide, by decide⟩
    have r3 := Reach.step r2 (s' :=
      [ { todo := [.wr 1, .rel 1, .rel 0], held := [(0, true)], waitingW := none },
        { todo := [.wr 0, .rel 0, .rel 1], held := [], waitingW := some 1 } ])
      ⟨1, _, rfl, by decide, by decide⟩
    have r4 := Reach.step r3 (s' :=
      [ { todo := [.wr 1, .rel 1, .rel 0], held := [(0, true)], waitingW := none },
        { todo := [.wr 0, .rel 0, .rel 1], held := [(1, true)], waitingW := none } ])
      ⟨1, _, rfl, by decide, by decide⟩
    have r5 := Reach.step r4 (s' :=
      [ { todo := [.rel 1, .rel 0], held := [(0, true)], waitingW := some 1 },
        { todo := [.wr 0, .rel 0, .rel 1], held := [(1, true)], waitingW := none } ])
      ⟨0, _, rfl, by decide, by decide⟩
    exact Reach.step r5 ⟨1, _, rfl, by decide, by decide⟩
  · refine ⟨⟨_, List.mem_cons_self, by decide⟩, ?_⟩
    intro t ht
    simp only [List.mem_cons, List.not_mem_nil, or_false] at ht
    rcases ht with rfl | rfl <;> decide

end Brc20.Locks
