/-
Characterisation of the persistent effect of `commit` and of the loading phase of `reorg`,
key by key, in terms of `AMap.get?`.  Nothing here mentions the simulation relation.
-/
import Brc20.Model.TableSpec
import Brc20.Proofs.AMap
import Brc20.Proofs.HistOps
set_option linter.unusedSectionVars false

namespace Brc20.Table
variable {K V : Type} [DecidableEq K] [DecidableEq V]
open Hist

/-! ## `retrieve` -/

theorem retrieve_cached {t : Table K V} {k : K} {h : Hist V} (hc : t.cache.get? k = some h) :
    t.retrieve k = h := by
  simp [retrieve, hc]

theorem retrieve_uncached {t : Table K V} {k : K} (hc : t.cache.get? k = none) :
    t.retrieve k = (match t.cdb.get? k with | some h => h | none => Hist.new (t.db.get? k)) := by
  simp only [retrieve, hc]
  cases t.cdb.get? k <;> rfl

/-! ## `commit` -/

/-- The persistent effect of the two writes `commit` issues for one cached key. -/
theorem applyWrites_keyWrites (W b : Nat) (t : Table K V) (k0 : K) (h0 : Hist V) :
    let t1 := t.applyWrites (keyWrites W b k0 h0)
    t1.cache = t.cache ∧
    (∀ k, t1.cdb.get? k = if k = k0 then (if h0.isOld W b then none else some h0) else t.cdb.get? k) ∧
    (∀ k, t1.db.get? k = if k = k0 then h0.latest else t.db.get? k) := by
  show (t.applyWrites (keyWrites W b k0 h0)).cache = t.cache ∧
    (∀ k, (t.applyWrites (keyWrites W b k0 h0)).cdb.get? k = _) ∧
    (∀ k, (t.applyWrites (keyWrites W b k0 h0)).db.get? k = _)
  cases ho : h0.isOld W b <;> cases hl : h0.latest <;>
    simp [keyWrites, applyWrites, ho, hl, applyWrite, AMap.get?_erase, AMap.get?_insert]

/-- Effect of the writes of a whole (duplicate-free) cache list. -/
theorem applyWrites_flatMap (W b : Nat) (c : AMap K (Hist V)) (nd : AMap.Nodup c) (t : Table K V) :
    let t' := t.applyWrites (c.flatMap (fun p => keyWrites W b p.1 p.2))
    t'.cache = t.cache ∧
    (∀ k, t'.cdb.get? k = match c.get? k with
        | some h => if h.isOld W b then none else some h
        | none => t.cdb.get? k) ∧
    (∀ k, t'.db.get? k = match c.get? k with
        | some h => h.latest
        | none => t.db.get? k) := by
  induction c generalizing t with
  | nil => simp [applyWrites]
  | cons p rest ih =>
    obtain ⟨k0, h0⟩ := p
    have nd' : AMap.Nodup rest := by
      simp only [AMap.Nodup, AMap.keys, List.map_cons, List.nodup_cons] at nd; exact nd.2
    have hk0 : AMap.get? rest k0 = none := by
      apply (AMap.get?_eq_none_iff rest k0).mpr
      simp only [AMap.Nodup, AMap.keys, List.map_cons, List.nodup_cons] at nd; exact nd.1
    obtain ⟨c1, d1, b1⟩ := applyWrites_keyWrites W b t k0 h0
    obtain ⟨c2, d2, b2⟩ := ih nd' (t.applyWrites (keyWrites W b k0 h0))
    have e : t.applyWrites (((k0, h0) :: rest).flatMap (fun p => keyWrites W b p.1 p.2)) =
        (t.applyWrites (keyWrites W b k0 h0)).applyWrites (rest.flatMap (fun p => keyWrites W b p.1 p.2)) := by
      simp only [applyWrites, List.flatMap_cons, List.foldl_append]
    simp only [e]
    refine ⟨c2.trans c1, ?_, ?_⟩
    · intro k
      rw [d2 k, AMap.get?_cons]
      by_cases hk : k0 = k
      · subst hk; simp [hk0, d1]
      · have hk' : ¬ k = k0 := fun e => hk e.symm
        simp only [hk, if_false]
        cases AMap.get? rest k <;> simp [d1, hk']
    · intro k
      rw [b2 k, AMap.get?_cons]
      by_cases hk : k0 = k
      · subst hk; simp [hk0, b1]
      · have hk' : ¬ k = k0 := fun e => hk e.symm
        simp only [hk, if_false]
        cases AMap.get? rest k <;> simp [b1, hk']

/-- `commit`, key by key. -/
theorem commit_spec (W b : Nat) (t : Table K V) (nd : AMap.Nodup t.cache) :
    (t.commit W b).cache = [] ∧
    (∀ k, (t.commit W b).cdb.get? k = match t.cache.get? k with
        | some h => if h.isOld W b then none else some h
        | none => t.cdb.get? k) ∧
    (∀ k, (t.commit W b).db.get? k = match t.cache.get? k with
        | some h => h.latest
        | none => t.db.get? k) := by
  obtain ⟨_, d, e⟩ := applyWrites_flatMap W b t.cache nd t
  exact ⟨rfl, d, e⟩

/-! ## `reorg`: the loading phase -/

theorem filter_idem (h : Hist V) (n : Nat) :
    (h.filter (fun e => decide (e.1 ≤ n))).filter (fun e => decide (e.1 ≤ n)) =
      h.filter (fun e => decide (e.1 ≤ n)) := by
  simp [List.filter_filter]

theorem reorg_eq_some {h : Hist V} {n : Nat} (hne : h.filter (fun e => decide (e.1 ≤ n)) ≠ []) :
    Hist.reorg h n = some (h.filter (fun e => decide (e.1 ≤ n))) := by
  unfold Hist.reorg
  simp only
  split
  · rename_i he; exact absurd (by simpa using he) hne
  · rfl

/-- Loading never panics when every retrievable history has an entry at or below `n`;
it leaves the two columns alone and caches the truncated history of every listed key. -/
theorem reorgLoad_spec (n : Nat) (ks : List K) (t : Table K V)
    (hne : ∀ k, (t.retrieve k).filter (fun e => decide (e.1 ≤ n)) ≠ []) :
    ∃ t', t.reorgLoad n ks = some t' ∧ t'.db = t.db ∧ t'.cdb = t.cdb ∧
      (AMap.Nodup t.cache → AMap.Nodup t'.cache) ∧
      (∀ k, t'.cache.get? k =
        if k ∈ ks then some ((t.retrieve k).filter (fun e => decide (e.1 ≤ n))) else t.cache.get? k) := by
  induction ks generalizing t with
  | nil => exact ⟨t, rfl, rfl, rfl, id, by simp⟩
  | cons k0 ks ih =>
    let h0 := (t.retrieve k0).filter (fun e => decide (e.1 ≤ n))
    let t1 : Table K V := { t with cache := t.cache.insert k0 h0 }
    have r1 : ∀ k, t1.retrieve k = if k = k0 then h0 else t.retrieve k := by
      intro k
      simp only [retrieve, t1, AMap.get?_insert]
      by_cases hk : k = k0 <;> simp [hk]
    have hne1 : ∀ k, (t1.retrieve k).filter (fun e => decide (e.1 ≤ n)) ≠ [] := by
      intro k
      rw [r1 k]
      by_cases hk : k = k0
      · simp only [hk, if_true, h0]; rw [filter_idem]; exact hne k0
      · simp only [hk, if_false]; exact hne k
    obtain ⟨t', e1, e2, e3, e4, e5⟩ := ih t1 hne1
    refine ⟨t', ?_, e2, e3, fun nd => e4 (AMap.nodup_insert nd k0 h0), ?_⟩
    · simp only [reorgLoad, reorg_eq_some (hne k0)]
      exact e1
    · intro k
      rw [e5 k, r1 k]
      by_cases hk : k = k0
      · subst hk
        simp only [if_true, List.mem_cons, true_or, h0, filter_idem]
        split
        · rfl
        · simp [t1, AMap.get?_insert, h0]
      · simp only [hk, if_false, List.mem_cons, false_or]
        split
        · rfl
        · simp [t1, AMap.get?_insert, hk]

theorem mem_reorgKeys (t : Table K V) (k : K) :
    k ∈ t.reorgKeys ↔ (t.cdb.get? k ≠ none ∨ t.cache.get? k ≠ none) := by
  simp only [reorgKeys, List.mem_eraseDups, List.mem_append, ne_eq, AMap.get?_eq_none_iff, Decidable.not_not]

end Brc20.Table
