/-
A process death in the middle of the engine commit (`Node.commitAll`) or of the engine rollback (`Node.reorg`),
composed from the per-table crash theorems (`Proofs/Crash.lean`) and the block-table lemmas (`Proofs/BlockDb.lean`).

* `take_flatMap_parts`, `crashCommitAtIn_eq_crashIdx`, `crashCommitAt_eq_crashIdx`: dying at global write `j` leaves
  every table cut at its own index (a prefix of a concatenation = all of some parts, a prefix of one part, nothing of
  the rest), for any order in which every table is committed once; `itOfIn_complete`, `ibOfIn_complete`,
  `ibOfIn_complete_of_table`: the indices are monotone along that order.
* `BlockDb.get_crashCommit_reorg`: a block table cut anywhere in its commit and rolled back to a target below every
  pending row holds exactly the previously persisted rows `≤ target` (`get_crashCommit_reorg_eq_commit`: the same
  rows as after the completed commit).
* `crashIdx_reorgTables`, `crashIdx_recoverable`, `crashIdx_reorgBody`: with every versioned table in simulation
  and a target that is durable and inside every window, the reopened node's rollback (table phase / table-level /
  body of the engine rollback) succeeds and restores every table (`RestoredAt`).
* `crashIdx_reorg_ok_core`, `crashIdx_reorg_ok`, `crashIdx_reorg_ok_of_max`: the engine's `reorg` passes its refusal
  tests on the heights it reads from the reopened block tables, and answers `ok`.
  `crashCommitAt_recoverable`, `crashCommitAt_reorgBody`, `crashCommitAt_reorg_ok`: for the engine's own write
  sequence, every `j`; `crashCommitAtIn_reorg_ok`: any order.
* Inside the rollback `reorg m`: `crashReorgAt_eq_crashReorgIdx` (prefix decomposition of the table phase),
  `crashReorgIdx_reorg_ok` / `crashReorgAt_reorg_ok` (table phase and block phase), `crash_in_reorg_commit_ok`
  (the commit that ends it); `reorg_restored` is the generic composition they share.
* `CrashExample`: a concrete node to which all of it applies; `CrashNecessity`: the side conditions `habove` and
  `hb` cannot be dropped.
-/
import Brc20.Model.NodeCrash
import Brc20.Proofs.Crash
import Brc20.Proofs.NodeSim
set_option linter.unusedSectionVars false

namespace Brc20

/-! ## a prefix of a concatenation -/

theorem flatMap_congr_mem {ι α : Type} (l : List ι) (f g : ι → List α) (h : ∀ k ∈ l, f k = g k) :
    l.flatMap f = l.flatMap g := by
  induction l with
  | nil => rfl
  | cons k rest ih =>
    simp only [List.flatMap_cons]
    rw [h k List.mem_cons_self, ih (fun x hx => h x (List.mem_cons_of_mem _ hx))]

theorem offsetIn_head {ι : Type} [DecidableEq ι] (len : ι → Nat) (k : ι) (rest : List ι) :
    offsetIn len (k :: rest) k = 0 := by simp [offsetIn]

theorem offsetIn_tail {ι : Type} [DecidableEq ι] (len : ι → Nat) (k : ι) (rest : List ι) (i : ι) (h : k ≠ i) :
    offsetIn len (k :: rest) i = len k + offsetIn len rest i := by simp [offsetIn, h]

/-- The first `j` elements of a concatenation of parts: of each part, the first `j - offset` elements. -/
theorem take_flatMap_parts {ι α : Type} [DecidableEq ι] (f : ι → List α) (l : List ι) (nd : l.Nodup) (j : Nat) :
    (l.flatMap f).take j = l.flatMap (fun k => (f k).take (j - offsetIn (fun k => (f k).length) l k)) := by
  induction l generalizing j with
  | nil => simp
  | cons k rest ih =>
    rw [List.nodup_cons] at nd
    simp only [List.flatMap_cons]
    rw [List.take_append, ih nd.2, offsetIn_head, Nat.sub_zero]
    congr 1
    apply flatMap_congr_mem
    intro x hx
    have hne : k ≠ x := fun e => nd.1 (e ▸ hx)
    rw [offsetIn_tail _ _ _ _ hne, Nat.sub_sub]

/-- The cut indices are monotone along the order: a part that received a write is preceded by completed parts. -/
theorem offsetIn_complete {ι : Type} [DecidableEq ι] (len : ι → Nat) (l1 l2 : List ι) (a b : ι) (j : Nat)
    (nd : (l1 ++ a :: l2).Nodup) (hb : b ∈ l2) (hpos : 0 < j - offsetIn len (l1 ++ a :: l2) b) :
    len a ≤ j - offsetIn len (l1 ++ a :: l2) a := by
  induction l1 generalizing j with
  | nil =>
    simp only [List.nil_append] at *
    rw [List.nodup_cons] at nd
    have hne : a ≠ b := fun e => nd.1 (e ▸ hb)
    rw [offsetIn_tail _ _ _ _ hne] at hpos
    rw [offsetIn_head]
    omega
  | cons c l1 ih =>
    simp only [List.cons_append] at *
    rw [List.nodup_cons] at nd
    have hca : c ≠ a := fun e => nd.1 (e ▸ by simp)
    have hcb : c ≠ b := fun e => nd.1 (e ▸ by simp [hb])
    rw [offsetIn_tail _ _ _ _ hcb] at hpos
    rw [offsetIn_tail _ _ _ _ hca]
    have := ih (j - len c) nd.2 (by omega)
    omega

namespace Node

/-! ## the tagged writes act table by table -/

theorem node_ext {a b : Node} (ht : ∀ i, a.t i = b.t i) (hb : ∀ i, a.b i = b.b i) (h1 : a.maxBlock = b.maxBlock)
    (h2 : a.latest = b.latest) (h3 : a.lbi = b.lbi) : a = b := by
  cases a; cases b
  simp only [Node.mk.injEq] at *
  exact ⟨funext ht, funext hb, h1, h2, h3⟩

theorem mem_commitOrderT (i : TId) : i ∈ commitOrderT := by cases i <;> decide
theorem mem_commitOrderB (i : BId) : i ∈ commitOrderB := by cases i <;> decide
theorem nodup_commitOrderT : commitOrderT.Nodup := by decide
theorem nodup_commitOrderB : commitOrderB.Nodup := by decide
theorem mem_allBIds (i : BId) : i ∈ allBIds := by cases i <;> decide
theorem nodup_allBIds : allBIds.Nodup := by decide

/-- what a run of tagged writes leaves: field by field -/
structure Applied (n m : Node) (ft : TId → Table String String) (fb : BId → BlockDb String) : Prop where
  t : ∀ i, m.t i = ft i
  b : ∀ i, m.b i = fb i
  maxBlock : m.maxBlock = n.maxBlock
  latest : m.latest = n.latest
  lbi : m.lbi = n.lbi

theorem foldl_applyG_tbl (i : TId) (ws : List (Write String String)) (n : Node) :
    Applied n ((ws.map (GWrite.tbl i)).foldl applyG n)
      (fun j => if j = i then (n.t i).applyWrites ws else n.t j) n.b := by
  induction ws generalizing n with
  | nil =>
    refine ⟨fun j => ?_, fun _ => rfl, rfl, rfl, rfl⟩
    by_cases h : j = i
    · subst h; simp [Table.applyWrites]
    · simp [h]
  | cons w ws ih =>
    have := ih (n.setT i ((n.t i).applyWrite w))
    simp only [List.map_cons, List.foldl_cons]
    refine ⟨fun j => ?_, this.b, this.maxBlock, this.latest, this.lbi⟩
    rw [show applyG n (GWrite.tbl i w) = n.setT i ((n.t i).applyWrite w) from rfl, this.t j]
    by_cases h : j = i
    · subst h; simp [setT, Table.applyWrites]
    · simp [h, setT]

theorem foldl_applyG_blk (i : BId) (ws : List (BWrite String)) (n : Node) :
    Applied n ((ws.map (GWrite.blk i)).foldl applyG n) n.t
      (fun j => if j = i then (n.b i).applyWrites ws else n.b j) := by
  induction ws generalizing n with
  | nil =>
    refine ⟨fun _ => rfl, fun j => ?_, rfl, rfl, rfl⟩
    by_cases h : j = i
    · subst h; simp [BlockDb.applyWrites]
    · simp [h]
  | cons w ws ih =>
    have := ih (n.setB i ((n.b i).applyWrite w))
    simp only [List.map_cons, List.foldl_cons]
    refine ⟨this.t, fun j => ?_, this.maxBlock, this.latest, this.lbi⟩
    rw [show applyG n (GWrite.blk i w) = n.setB i ((n.b i).applyWrite w) from rfl, this.b j]
    by_cases h : j = i
    · subst h; simp [setB, BlockDb.applyWrites]
    · simp [h, setB]

/-- The writes of a duplicate-free list of versioned tables, each table's own list `f k`: table `k` receives
exactly `f k`, nothing else moves. -/
theorem foldl_applyG_tblParts (f : TId → List (Write String String)) (l : List TId) (nd : l.Nodup) (n : Node) :
    Applied n ((l.flatMap (fun k => (f k).map (GWrite.tbl k))).foldl applyG n)
      (fun i => if i ∈ l then (n.t i).applyWrites (f i) else n.t i) n.b := by
  induction l generalizing n with
  | nil => exact ⟨fun _ => by simp, fun _ => rfl, rfl, rfl, rfl⟩
  | cons k rest ih =>
    rw [List.nodup_cons] at nd
    simp only [List.flatMap_cons, List.foldl_append]
    have h1 := foldl_applyG_tbl k (f k) n
    have h2 := ih nd.2 ((List.map (GWrite.tbl k) (f k)).foldl applyG n)
    refine ⟨fun i => ?_, fun i => (h2.b i).trans (h1.b i), h2.maxBlock.trans h1.maxBlock,
      h2.latest.trans h1.latest, h2.lbi.trans h1.lbi⟩
    rw [h2.t i, h1.t i]
    by_cases hi : i ∈ rest
    · have hne : i ≠ k := fun e => nd.1 (e ▸ hi)
      simp [hi, hne]
    · by_cases hik : i = k
      · subst hik; simp [hi]
      · simp [hi, hik]

theorem foldl_applyG_blkParts (f : BId → List (BWrite String)) (l : List BId) (nd : l.Nodup) (n : Node) :
    Applied n ((l.flatMap (fun k => (f k).map (GWrite.blk k))).foldl applyG n) n.t
      (fun i => if i ∈ l then (n.b i).applyWrites (f i) else n.b i) := by
  induction l generalizing n with
  | nil => exact ⟨fun _ => rfl, fun _ => by simp, rfl, rfl, rfl⟩
  | cons k rest ih =>
    rw [List.nodup_cons] at nd
    simp only [List.flatMap_cons, List.foldl_append]
    have h1 := foldl_applyG_blk k (f k) n
    have h2 := ih nd.2 ((List.map (GWrite.blk k) (f k)).foldl applyG n)
    refine ⟨fun i => (h2.t i).trans (h1.t i), fun i => ?_, h2.maxBlock.trans h1.maxBlock,
      h2.latest.trans h1.latest, h2.lbi.trans h1.lbi⟩
    rw [h2.b i, h1.b i]
    by_cases hi : i ∈ rest
    · have hne : i ≠ k := fun e => nd.1 (e ▸ hi)
      simp [hi, hne]
    · by_cases hik : i = k
      · subst hik; simp [hi]
      · simp [hi, hik]

/-! ## dying at global write `j` = every table cut at its own index -/

theorem take_blockPart (n : Node) (ob : List BId) (nd : ob.Nodup) (j : Nat) :
    (n.blockPart ob).take j =
      ob.flatMap (fun k => ((n.bWrites k).take (n.ibOfIn ob j k)).map (GWrite.blk k)) := by
  unfold blockPart ibOfIn
  rw [take_flatMap_parts _ _ nd]
  simp only [List.length_map, List.map_take]

theorem take_tablePart (n : Node) (ot : List TId) (nd : ot.Nodup) (j : Nat) :
    (n.tablePart ot).take j =
      ot.flatMap (fun k => ((n.tWrites k).take (j - offsetIn (fun k => (n.tWrites k).length) ot k)).map
        (GWrite.tbl k)) := by
  unfold tablePart
  rw [take_flatMap_parts _ _ nd]
  simp only [List.length_map, List.map_take]

/-- **Prefix decomposition.**  For any commit order that lists every table once: the node reopened after the
first `j` global writes is the node in which every table is cut at its own index. -/
theorem crashCommitAtIn_eq_crashIdx (n : Node) (ob : List BId) (ot : List TId) (ndb : ob.Nodup) (ndt : ot.Nodup)
    (hb : ∀ i, i ∈ ob) (ht : ∀ i, i ∈ ot) (j : Nat) :
    n.crashCommitAtIn ob ot j = n.crashIdx (n.ibOfIn ob j) (n.itOfIn ob ot j) := by
  unfold crashCommitAtIn globalWritesIn
  rw [List.take_append, take_blockPart n ob ndb, take_tablePart n ot ndt, List.foldl_append]
  have h1 := foldl_applyG_blkParts (fun k => (n.bWrites k).take (n.ibOfIn ob j k)) ob ndb n
  have h2 := foldl_applyG_tblParts
    (fun k => (n.tWrites k).take (j - (n.blockPart ob).length - offsetIn (fun k => (n.tWrites k).length) ot k)) ot ndt
    ((ob.flatMap (fun k => ((n.bWrites k).take (n.ibOfIn ob j k)).map (GWrite.blk k))).foldl applyG n)
  apply node_ext
  · intro i
    show ((_ : Node).t i).clear = _
    rw [h2.t i, h1.t i]
    simp only [ht i, if_true]
    rfl
  · intro i
    show ((_ : Node).b i).clear = _
    rw [h2.b i, h1.b i]
    simp only [hb i, if_true]
    rfl
  · exact (h2.maxBlock.trans h1.maxBlock : _)
  · rfl
  · rfl

/-- the engine's order -/
theorem crashCommitAt_eq_crashIdx (n : Node) (j : Nat) : n.crashCommitAt j = n.crashIdx (n.ibOf j) (n.itOf j) :=
  crashCommitAtIn_eq_crashIdx n commitOrderB commitOrderT nodup_commitOrderB nodup_commitOrderT
    mem_commitOrderB mem_commitOrderT j

/-- the declaration order (`allBIds`, `allTIds`) -/
theorem crashCommitAtIn_decl_eq_crashIdx (n : Node) (j : Nat) :
    n.crashCommitAtIn allBIds allTIds j = n.crashIdx (n.ibOfIn allBIds j) (n.itOfIn allBIds allTIds j) :=
  crashCommitAtIn_eq_crashIdx n allBIds allTIds nodup_allBIds nodup_allTIds mem_allBIds mem_allTIds j

/-! ### the cut indices are monotone along the commit order -/

theorem offsetIn_add_le {ι : Type} [DecidableEq ι] (len : ι → Nat) (l : List ι) (k : ι) (hk : k ∈ l) :
    offsetIn len l k + len k ≤ (l.map len).sum := by
  induction l with
  | nil => cases hk
  | cons c rest ih =>
    simp only [List.map_cons, List.sum_cons]
    by_cases hc : c = k
    · subst hc; rw [offsetIn_head]; omega
    · rw [offsetIn_tail _ _ _ _ hc]
      have := ih (by rcases List.mem_cons.mp hk with h | h; exact absurd h.symm hc; exact h)
      omega

theorem length_blockPart (n : Node) (ob : List BId) :
    (n.blockPart ob).length = (ob.map (fun k => (n.bWrites k).length)).sum := by
  induction ob with
  | nil => rfl
  | cons c rest ih =>
    have : n.blockPart (c :: rest) = (n.bWrites c).map (GWrite.blk c) ++ n.blockPart rest := by
      simp [blockPart]
    rw [this, List.length_append, List.length_map, ih]
    simp

/-- A versioned table later in the order has received a write only if every earlier one is complete. -/
theorem itOfIn_complete (n : Node) (ob : List BId) (l1 l2 : List TId) (a b : TId) (j : Nat)
    (nd : (l1 ++ a :: l2).Nodup) (hb : b ∈ l2) (hpos : 0 < n.itOfIn ob (l1 ++ a :: l2) j b) :
    (n.tWrites a).length ≤ n.itOfIn ob (l1 ++ a :: l2) j a :=
  offsetIn_complete _ l1 l2 a b _ nd hb hpos

/-- The same among the block tables. -/
theorem ibOfIn_complete (n : Node) (l1 l2 : List BId) (a b : BId) (j : Nat)
    (nd : (l1 ++ a :: l2).Nodup) (hb : b ∈ l2) (hpos : 0 < n.ibOfIn (l1 ++ a :: l2) j b) :
    (n.bWrites a).length ≤ n.ibOfIn (l1 ++ a :: l2) j a :=
  offsetIn_complete _ l1 l2 a b _ nd hb hpos

/-- A versioned table has received a write only if every block table is complete. -/
theorem ibOfIn_complete_of_table (n : Node) (ob : List BId) (ot : List TId) (j : Nat) (i : TId) (k : BId)
    (hk : k ∈ ob) (hpos : 0 < n.itOfIn ob ot j i) : (n.bWrites k).length ≤ n.ibOfIn ob j k := by
  unfold itOfIn at hpos
  unfold ibOfIn
  have h1 := offsetIn_add_le (fun k => (n.bWrites k).length) ob k hk
  have h2 := length_blockPart n ob
  omega

end Node

/-! ## a block table cut inside its commit -/

namespace BlockDb
variable {V : Type}

theorem mem_sortedCache' (db c : AMap Nat V) (p : Nat × V) : p ∈ sortedCache { db := db, cache := c } ↔ p ∈ c := by
  induction c with
  | nil => simp [sortedCache]
  | cons q c ih => rw [sortedCache_cons, mem_ins, ih, List.mem_cons]

/-- the rows a commit writes are the cached rows -/
theorem mem_sortedCache (t : BlockDb V) (p : Nat × V) : p ∈ t.sortedCache ↔ p ∈ t.cache :=
  mem_sortedCache' t.db t.cache p

theorem applyWrites_append (t : BlockDb V) (a b : List (BWrite V)) :
    t.applyWrites (a ++ b) = (t.applyWrites a).applyWrites b := by
  simp [applyWrites, List.foldl_append]

theorem applyWrites_puts (t : BlockDb V) (l : List (Nat × V)) :
    (t.applyWrites (l.map (fun p => BWrite.put p.1 p.2))).db = l.foldl (fun m p => AMap.insert m p.1 p.2) t.db ∧
    (t.applyWrites (l.map (fun p => BWrite.put p.1 p.2))).cache = t.cache := by
  induction l generalizing t with
  | nil => exact ⟨rfl, rfl⟩
  | cons p rest ih =>
    have := ih (t.applyWrite (BWrite.put p.1 p.2))
    simp only [applyWrites, List.map_cons, List.foldl_cons] at this ⊢
    exact this

theorem applyWrites_flushes (t : BlockDb V) (ws : List (BWrite V)) (h : ∀ w ∈ ws, w = BWrite.flush) :
    t.applyWrites ws = t := by
  induction ws generalizing t with
  | nil => rfl
  | cons w ws ih =>
    have hw := h w List.mem_cons_self
    subst hw
    simp only [applyWrites, List.foldl_cons]
    exact ih _ (fun x hx => h x (List.mem_cons_of_mem _ hx))

/-- The column after a cut at write `i`: the first `i` cached rows (ascending) have been put; no cache. -/
theorem crashCommit_cols (t : BlockDb V) (i : Nat) :
    (t.crashCommit i).db = (t.sortedCache.take i).foldl (fun m p => AMap.insert m p.1 p.2) t.db ∧
    (t.crashCommit i).cache = [] := by
  refine ⟨?_, rfl⟩
  show (t.applyWrites (t.commitWrites.take i)).db = _
  unfold commitWrites
  rw [List.take_append, ← List.map_take, applyWrites_append,
    applyWrites_flushes _ _ (fun w hw => by simpa using List.mem_of_mem_take hw)]
  exact (applyWrites_puts t _).1

theorem mem_of_getL? {l : List (Nat × V)} {k : Nat} {v : V} (h : getL? l k = some v) : (k, v) ∈ l := by
  induction l with
  | nil => simp [getL?] at h
  | cons p rest ih =>
    rw [getL?] at h
    cases hr : getL? rest k with
    | some v' =>
      rw [hr] at h
      simp only [Option.some.injEq] at h
      subst h
      exact List.mem_cons_of_mem _ (ih hr)
    | none =>
      rw [hr] at h
      by_cases hp : p.1 = k
      · simp only [hp, if_true, Option.some.injEq] at h
        subst h; subst hp
        exact List.mem_cons_self
      · simp [hp] at h

/-- A read of the cut table, key by key: the last of the written rows with that key, else the old row. -/
theorem get_crashCommit (t : BlockDb V) (i k : Nat) :
    (t.crashCommit i).get k =
      match getL? (t.sortedCache.take i) k with
      | some v => some v
      | none => t.db.get? k := by
  have h := crashCommit_cols t i
  simp only [get, h.1, h.2, AMap.get?_nil, foldl_put_get?]
  cases getL? (t.sortedCache.take i) k <;> rfl

/-- A row readable after the cut was readable (cached or persisted) before the commit began. -/
theorem get_crashCommit_ne_none {t : BlockDb V} {i k : Nat} (h : (t.crashCommit i).get k ≠ none) : t.get k ≠ none := by
  rw [get_crashCommit] at h
  cases hg : getL? (t.sortedCache.take i) k with
  | some v =>
    have hm : (k, v) ∈ t.cache := (mem_sortedCache t _).mp (List.mem_of_mem_take (mem_of_getL? hg))
    have hk : t.cache.get? k ≠ none := by
      rw [Ne, AMap.get?_eq_none_iff]
      exact fun hn => hn (List.mem_map_of_mem (f := (·.1)) hm)
    simp only [get]
    cases hc : t.cache.get? k with
    | none => exact absurd hc hk
    | some _ => simp
  | none =>
    rw [hg] at h
    simp only [get]
    cases hc : t.cache.get? k with
    | none => exact h
    | some _ => simp

/-- Below every pending row, a cut at any index leaves the persisted rows as they were. -/
theorem get_crashCommit_below (t : BlockDb V) (i k target : Nat) (habove : ∀ p ∈ t.cache, target < p.1)
    (hk : k ≤ target) : (t.crashCommit i).get k = t.db.get? k := by
  rw [get_crashCommit, getL?_none_of_lt]
  intro q hq
  have := habove q ((mem_sortedCache t q).mp (List.mem_of_mem_take hq))
  omega

/-- **Block table: crash-cut, then rollback.**  Every row of the pending commit lies above `target` (the durable
target is at most the height of the last completed commit, and a commit only adds rows above that height).  Then the
table cut at ANY write index and rolled back to `target` holds exactly the previously persisted rows `≤ target`. -/
theorem get_crashCommit_reorg (t : BlockDb V) (i target k : Nat) (habove : ∀ p ∈ t.cache, target < p.1) :
    ((t.crashCommit i).reorg target).get k = if k ≤ target then t.db.get? k else none := by
  rw [get_reorg]
  by_cases hk : k ≤ target
  · simp only [hk, if_true]; exact get_crashCommit_below t i k target habove hk
  · simp [hk]

/-- The same rows as after the completed commit, reopened and rolled back. -/
theorem get_commit_reorg (t : BlockDb V) (target k : Nat) (habove : ∀ p ∈ t.cache, target < p.1) :
    (t.commit.clear.reorg target).get k = if k ≤ target then t.db.get? k else none := by
  rw [get_reorg]
  by_cases hk : k ≤ target
  · simp only [hk, if_true]
    rw [get_commit_clear]
    have hc : t.cache.get? k = none := by
      rw [AMap.get?_eq_none_iff]
      intro hm
      obtain ⟨p, hp, rfl⟩ := List.mem_map.mp hm
      have := habove p hp
      omega
    simp [get, hc]
  · simp [hk]

theorem get_crashCommit_reorg_eq_commit (t : BlockDb V) (i target k : Nat) (habove : ∀ p ∈ t.cache, target < p.1) :
    ((t.crashCommit i).reorg target).get k = (t.commit.clear.reorg target).get k := by
  rw [get_crashCommit_reorg t i target k habove, get_commit_reorg t target k habove]

/-- a cut at index 0 is a discard, a cut at or after the last write is the completed commit, reopened -/
theorem crashCommit_zero (t : BlockDb V) : t.crashCommit 0 = t.clear := by
  simp [crashCommit, applyWrites]

theorem crashCommit_all (t : BlockDb V) (i : Nat) (hi : t.commitWrites.length ≤ i) :
    t.crashCommit i = t.commit.clear := by
  unfold crashCommit commit
  rw [List.take_of_length_le hi]

/-- If the row of the target was persisted, it is the newest row after the cut and the rollback. -/
theorem lastKey_crashCommit_reorg (t : BlockDb V) (i target : Nat) (habove : ∀ p ∈ t.cache, target < p.1)
    (hrow : t.db.get? target ≠ none) : ((t.crashCommit i).reorg target).lastKey = some target := by
  apply lastKey_of_get
  · rw [get_crashCommit_reorg t i target target habove]; simpa using hrow
  · intro k hk
    rw [get_crashCommit_reorg t i target k habove]
    have : ¬ k ≤ target := by omega
    simp [this]

end BlockDb

/-! ## the composition: every table cut at its own index, reopen, roll back to a durable height -/

namespace Table
variable {K V : Type} [DecidableEq K] [DecidableEq V]

theorem commit_of_cache_nil (W b : Nat) (t : Table K V) (h : t.cache = []) : t.commit W b = t := by
  cases t
  simp only at h
  subst h
  rfl

theorem reorg_cache_nil {W n : Nat} {t t' : Table K V} (h : t.reorg W n = some t') : t'.cache = [] := by
  unfold reorg at h
  split at h
  · simp only [Option.some.injEq] at h
    subst h
    rfl
  · cases h

/-- The simulation relation only gets weaker when the ghost counter `maxEver` is raised (it only shrinks the
window in which the table must agree with the log).  This lets a rollback target above a table's own `maxEver`
(a table nothing was written to lately) be treated like any other. -/
theorem sim_raise_maxEver {W : Nat} {t : Table K V} {s : TSpec K V} (h : Sim W t s) (M : Nat)
    (hM : s.maxEver ≤ M) : Sim W t { s with maxEver := M } :=
  ⟨h.inv, h.cur_ok, h.dur_ok, Nat.le_trans h.top_le hM,
    fun k m hm => h.cur_eq k m (Nat.le_trans hM hm), fun k m hm => h.dur_eq k m (Nat.le_trans hM hm)⟩

end Table

namespace Node

/-- `r` is the node restored at height `n0` from the crashed commit of `n`: every versioned table reads what its
plain specification says for the end of block `n0`, every block table holds exactly the rows `≤ n0` that were
persisted before the commit began, nothing is under construction. -/
structure RestoredAt (n : Node) (g : TId → TSpec String String) (n0 : Nat) (r : Node) : Prop where
  tables : ∀ i k, (r.t i).latest k = (g i).readAt k n0
  blocks : ∀ i k, (r.b i).get k = if k ≤ n0 then (n.b i).db.get? k else none
  latest : r.latest = none
  lbi : r.lbi = {}
  maxBlock : r.maxBlock = n.maxBlock

/-- With the hash row of `n0` persisted, the restored node stands at height `n0`. -/
theorem RestoredAt.heights {n : Node} {g : TId → TSpec String String} {n0 : Nat} {r : Node}
    (h : RestoredAt n g n0 r) (hrow : (n.b .numberToHash).db.get? n0 ≠ none) :
    r.latestHeight = n0 ∧ r.nextHeight = n0 + 1 := by
  have hl : (r.b .numberToHash).lastKey = some n0 := by
    apply BlockDb.lastKey_of_get
    · rw [h.blocks]; simpa using hrow
    · intro k hk
      rw [h.blocks]
      have : ¬ k ≤ n0 := by omega
      simp [this]
  simp [latestHeight, nextHeight, h.latest, hl]

/-- `nextHeight` is one above `latestHeight`, or both are 0 (empty directory). -/
theorem nextHeight_le (n : Node) : n.nextHeight ≤ n.latestHeight + 1 := by
  unfold nextHeight latestHeight
  cases n.latest with
  | some p => simp
  | none =>
    cases (n.b .numberToHash).lastKey with
    | none => simp
    | some k => simp

/-- **Table phase.**  Every versioned table is in simulation with its specification; the target `n0` is inside
every table's window, not more than `W` below the height being committed, and durable in every table.  Whatever
the cut index of each table (`it`; `ib` for the block tables), the table phase of the rollback on the reopened
node succeeds, and every versioned table reads its values at `n0`. -/
theorem crashIdx_reorgTables (n : Node) (g : TId → TSpec String String) (hs : NodeSim n g)
    (ib : BId → Nat) (it : TId → Nat) (n0 : Nat)
    (hw : ∀ i, (g i).maxEver ≤ n0 + W) (hb : n.nextHeight ≤ n0 + W + 1)
    (hdur : ∀ i k, ((g i).cur k).valAt n0 = ((g i).dur k).valAt n0) :
    ∃ n1, reorgTables (n.crashIdx ib it) n0 allTIds = some n1 ∧
      (∀ i, ((n.t i).crashCommit W n.nextHeight (it i)).reorg W n0 = some (n1.t i)) ∧
      (∀ i k, (n1.t i).latest k = (g i).readAt k n0) ∧
      (∀ i, n1.b i = (n.b i).crashCommit (ib i)) ∧
      n1.latest = none ∧ n1.lbi = {} ∧ n1.maxBlock = n.maxBlock := by
  have hstep : ∀ i, ∃ t', ((n.t i).crashCommit W n.nextHeight (it i)).reorg W n0 = some t' ∧
      ∀ k, t'.latest k = (g i).readAt k n0 :=
    fun i => Table.crash_recoverable_of_sim (hs.sim i) n.nextHeight (it i) n0 (hw i) hb (hdur i)
  let f : TId → Table String String :=
    fun i => (((n.t i).crashCommit W n.nextHeight (it i)).reorg W n0).getD (n.t i)
  have hf : ∀ i, ((n.crashIdx ib it).t i).reorg W n0 = some (f i) := by
    intro i
    obtain ⟨t', e, _⟩ := hstep i
    show ((n.t i).crashCommit W n.nextHeight (it i)).reorg W n0 = some (f i)
    simp [f, e]
  obtain ⟨n1, e1, e2, e3, e4, e5, e6⟩ := reorgTables_all n0 (n.crashIdx ib it) f hf
  refine ⟨n1, e1, ?_, ?_, ?_, e4, e5, e6⟩
  · intro i; rw [e2 i]; exact hf i
  · intro i k
    obtain ⟨t', e, hr⟩ := hstep i
    rw [e2 i]
    have : f i = t' := by simp [f, e]
    rw [this]; exact hr k
  · intro i; rw [e3]; rfl

/-- **Crash anywhere in the engine commit, general form.**  Hypotheses of `crashIdx_reorgTables`, and every block
row of the pending commit lies above `n0`.  Then the body of the engine rollback (`reorgBody`: table phase, block
tables, commit) on the reopened node answers `ok` and yields the node restored at `n0`. -/
theorem crashIdx_reorgBody (n : Node) (g : TId → TSpec String String) (hs : NodeSim n g)
    (ib : BId → Nat) (it : TId → Nat) (n0 : Nat)
    (hw : ∀ i, (g i).maxEver ≤ n0 + W) (hb : n.nextHeight ≤ n0 + W + 1)
    (hdur : ∀ i k, ((g i).cur k).valAt n0 = ((g i).dur k).valAt n0)
    (habove : ∀ i, ∀ p ∈ (n.b i).cache, n0 < p.1) :
    ∃ r, reorgBody (n.crashIdx ib it) n0 = (r, .ok) ∧ RestoredAt n g n0 r := by
  obtain ⟨n1, e1, e2, e3, e4, e5, e6, e7⟩ := crashIdx_reorgTables n g hs ib it n0 hw hb hdur
  refine ⟨({ n1 with b := fun i => (n1.b i).reorg n0 } : Node).commitAll, by unfold reorgBody; rw [e1],
    ?_, ?_, rfl, e6, e7⟩
  · intro i k
    show ((n1.t i).commit W _).latest k = _
    rw [Table.commit_of_cache_nil _ _ _ (Table.reorg_cache_nil (e2 i))]
    exact e3 i k
  · intro i k
    show (((n1.b i).reorg n0).commit.clear).get k = _
    rw [BlockDb.get_commit_clear, e4 i]
    exact BlockDb.get_crashCommit_reorg (n.b i) (ib i) n0 k (habove i)

/-- The same, for the table-level operations only (no engine commit at the end). -/
theorem crashIdx_recoverable (n : Node) (g : TId → TSpec String String) (hs : NodeSim n g)
    (ib : BId → Nat) (it : TId → Nat) (n0 : Nat)
    (hw : ∀ i, (g i).maxEver ≤ n0 + W) (hb : n.nextHeight ≤ n0 + W + 1)
    (hdur : ∀ i k, ((g i).cur k).valAt n0 = ((g i).dur k).valAt n0)
    (habove : ∀ i, ∀ p ∈ (n.b i).cache, n0 < p.1) :
    ∃ n1, reorgTables (n.crashIdx ib it) n0 allTIds = some n1 ∧
      (∀ i k, (n1.t i).latest k = (g i).readAt k n0) ∧
      (∀ i k, ((n1.b i).reorg n0).get k = if k ≤ n0 then (n.b i).db.get? k else none) ∧
      (∀ i k, ((n1.b i).reorg n0).get k = ((n.b i).commit.clear.reorg n0).get k) := by
  obtain ⟨n1, e1, _, e3, e4, _⟩ := crashIdx_reorgTables n g hs ib it n0 hw hb hdur
  refine ⟨n1, e1, e3, ?_, ?_⟩
  · intro i k; rw [e4 i]; exact BlockDb.get_crashCommit_reorg (n.b i) (ib i) n0 k (habove i)
  · intro i k; rw [e4 i]; exact BlockDb.get_crashCommit_reorg_eq_commit (n.b i) (ib i) n0 k (habove i)

/-- The height a reopened node `c` reports, when its hash table holds the row of `n0` and only rows that were
readable in `n`, all of which are `≤ bound`. -/
theorem latestHeight_crashed {n c : Node} (n0 bound : Nat) (hl : c.latest = none)
    (hsub : ∀ k, (c.b .numberToHash).get k ≠ none → (n.b .numberToHash).get k ≠ none)
    (hget : (c.b .numberToHash).get n0 ≠ none)
    (hkeys : ∀ k, (n.b .numberToHash).get k ≠ none → k ≤ bound) :
    n0 ≤ c.latestHeight ∧ c.latestHeight ≤ bound := by
  have hsp := BlockDb.lastKey_spec (c.b .numberToHash)
  have hc : c.latestHeight = ((c.b .numberToHash).lastKey).getD 0 := by simp [latestHeight, hl]
  rw [hc]
  cases hlk : (c.b .numberToHash).lastKey with
  | none => rw [hlk] at hsp; exact absurd hget (hsp n0)
  | some e =>
    rw [hlk] at hsp
    simp only [Option.getD_some]
    exact ⟨hsp.2 n0 hget, hkeys e (hsub e hsp.1)⟩

/-- every readable hash row is at or below `latestHeight`, when the in-memory height is the newest row -/
theorem get_le_latestHeight (n : Node)
    (hlat : ∀ h x, n.latest = some (h, x) → (n.b .numberToHash).lastKey = some h)
    (k : Nat) (hk : (n.b .numberToHash).get k ≠ none) : k ≤ n.latestHeight := by
  have hsp0 := BlockDb.lastKey_spec (n.b .numberToHash)
  cases hl0 : (n.b .numberToHash).lastKey with
  | none => rw [hl0] at hsp0; exact absurd hk (hsp0 k)
  | some e0 =>
    rw [hl0] at hsp0
    have hle := hsp0.2 k hk
    unfold latestHeight
    cases hla : n.latest with
    | none => simp [hl0]; exact hle
    | some p =>
      obtain ⟨h, x⟩ := p
      have := hlat h x hla
      rw [hl0] at this
      simp only [Option.some.injEq] at this
      subst this
      exact hle

/-- the refusal tests of `reorg` pass -/
theorem reorg_accepts {c : Node} {n0 : Nat} (h0 : c.lbi = {}) (h1 : n0 ≤ c.latestHeight)
    (h2 : c.latestHeight ≤ n0 + W) (h3 : c.maxBlock.getD 0 ≤ W + n0) : c.reorg n0 = reorgBody c n0 := by
  apply reorg_of_not_refused
  simp only [Refused, not_or]
  exact ⟨fun h => h (by rw [h0]), by omega, by omega, by omega⟩

/-- **Crash anywhere in the engine commit, engine level (core form).**  In addition to the hypotheses of
`crashIdx_reorgBody`: the hash row of `n0` was persisted; every readable hash row (cached ones included) is at most
`W` above `n0`; so is the greatest height ever recorded.  Then the engine's `reorg n0` on the reopened node passes its
refusal tests, does not panic, answers `ok`, and yields the node restored at `n0`, standing at height `n0`. -/
theorem crashIdx_reorg_ok_core (n : Node) (g : TId → TSpec String String) (hs : NodeSim n g)
    (ib : BId → Nat) (it : TId → Nat) (n0 : Nat)
    (hw : ∀ i, (g i).maxEver ≤ n0 + W) (hb : n.nextHeight ≤ n0 + W + 1)
    (hdur : ∀ i k, ((g i).cur k).valAt n0 = ((g i).dur k).valAt n0)
    (habove : ∀ i, ∀ p ∈ (n.b i).cache, n0 < p.1)
    (hrow : (n.b .numberToHash).db.get? n0 ≠ none)
    (hkeys : ∀ k, (n.b .numberToHash).get k ≠ none → k ≤ n0 + W) (hmax : n.maxBlock.getD 0 ≤ W + n0) :
    ∃ r, (n.crashIdx ib it).reorg n0 = (r, .ok) ∧ RestoredAt n g n0 r ∧
      r.latestHeight = n0 ∧ r.nextHeight = n0 + 1 := by
  obtain ⟨r, er, hr⟩ := crashIdx_reorgBody n g hs ib it n0 hw hb hdur habove
  obtain ⟨h1, h2⟩ := latestHeight_crashed (n := n) (c := n.crashIdx ib it) n0 (n0 + W) rfl
    (fun k hk => BlockDb.get_crashCommit_ne_none hk)
    (by
      show ((n.b .numberToHash).crashCommit (ib .numberToHash)).get n0 ≠ none
      rw [BlockDb.get_crashCommit_below _ _ n0 n0 (habove .numberToHash) (Nat.le_refl _)]; exact hrow)
    hkeys
  refine ⟨r, ?_, hr, hr.heights hrow⟩
  rw [reorg_accepts rfl h1 h2 hmax, er]

/-- **Crash anywhere in the engine commit, engine level.**  The in-memory height of `n`, when present, is the newest
hash row (`HeightInv.latest_is_last`); the hash row of `n0` was persisted; `n0` is not more than `W` below the height
before the crash, nor below the greatest height ever recorded. -/
theorem crashIdx_reorg_ok (n : Node) (g : TId → TSpec String String) (hs : NodeSim n g)
    (ib : BId → Nat) (it : TId → Nat) (n0 : Nat)
    (hw : ∀ i, (g i).maxEver ≤ n0 + W)
    (hdur : ∀ i k, ((g i).cur k).valAt n0 = ((g i).dur k).valAt n0)
    (habove : ∀ i, ∀ p ∈ (n.b i).cache, n0 < p.1)
    (hlat : ∀ h x, n.latest = some (h, x) → (n.b .numberToHash).lastKey = some h)
    (hrow : (n.b .numberToHash).db.get? n0 ≠ none)
    (hdeep : n.latestHeight ≤ n0 + W) (hmax : n.maxBlock.getD 0 ≤ W + n0) :
    ∃ r, (n.crashIdx ib it).reorg n0 = (r, .ok) ∧ RestoredAt n g n0 r ∧
      r.latestHeight = n0 ∧ r.nextHeight = n0 + 1 := by
  have hb : n.nextHeight ≤ n0 + W + 1 := by have := nextHeight_le n; omega
  exact crashIdx_reorg_ok_core n g hs ib it n0 hw hb hdur habove hrow
    (fun k hk => by have := get_le_latestHeight n hlat k hk; omega) hmax

/-- The same when the height before the crash never exceeds the greatest height ever recorded (an invariant of
`finaliseOne`, which raises both together): then the engine's own test on the written-through `max_block_number`
row is all that is needed. -/
theorem crashIdx_reorg_ok_of_max (n : Node) (g : TId → TSpec String String) (hs : NodeSim n g)
    (ib : BId → Nat) (it : TId → Nat) (n0 : Nat)
    (hw : ∀ i, (g i).maxEver ≤ n0 + W)
    (hdur : ∀ i k, ((g i).cur k).valAt n0 = ((g i).dur k).valAt n0)
    (habove : ∀ i, ∀ p ∈ (n.b i).cache, n0 < p.1)
    (hlat : ∀ h x, n.latest = some (h, x) → (n.b .numberToHash).lastKey = some h)
    (hrow : (n.b .numberToHash).db.get? n0 ≠ none)
    (hinv : n.latestHeight ≤ n.maxBlock.getD 0) (hmax : n.maxBlock.getD 0 ≤ W + n0) :
    ∃ r, (n.crashIdx ib it).reorg n0 = (r, .ok) ∧ RestoredAt n g n0 r ∧
      r.latestHeight = n0 ∧ r.nextHeight = n0 + 1 :=
  crashIdx_reorg_ok n g hs ib it n0 hw hdur habove hlat hrow (by omega) hmax

/-! ### the engine's own write sequence -/

/-- Dying after ANY number `j` of the persistent writes of the engine commit, reopening and rolling back to `n0`:
table-level form. -/
theorem crashCommitAt_recoverable (n : Node) (g : TId → TSpec String String) (hs : NodeSim n g) (j n0 : Nat)
    (hw : ∀ i, (g i).maxEver ≤ n0 + W) (hb : n.nextHeight ≤ n0 + W + 1)
    (hdur : ∀ i k, ((g i).cur k).valAt n0 = ((g i).dur k).valAt n0)
    (habove : ∀ i, ∀ p ∈ (n.b i).cache, n0 < p.1) :
    ∃ n1, reorgTables (n.crashCommitAt j) n0 allTIds = some n1 ∧
      (∀ i k, (n1.t i).latest k = (g i).readAt k n0) ∧
      (∀ i k, ((n1.b i).reorg n0).get k = if k ≤ n0 then (n.b i).db.get? k else none) ∧
      (∀ i k, ((n1.b i).reorg n0).get k = ((n.b i).commit.clear.reorg n0).get k) := by
  rw [crashCommitAt_eq_crashIdx]
  exact crashIdx_recoverable n g hs _ _ n0 hw hb hdur habove

theorem crashCommitAt_reorgBody (n : Node) (g : TId → TSpec String String) (hs : NodeSim n g) (j n0 : Nat)
    (hw : ∀ i, (g i).maxEver ≤ n0 + W) (hb : n.nextHeight ≤ n0 + W + 1)
    (hdur : ∀ i k, ((g i).cur k).valAt n0 = ((g i).dur k).valAt n0)
    (habove : ∀ i, ∀ p ∈ (n.b i).cache, n0 < p.1) :
    ∃ r, reorgBody (n.crashCommitAt j) n0 = (r, .ok) ∧ RestoredAt n g n0 r := by
  rw [crashCommitAt_eq_crashIdx]
  exact crashIdx_reorgBody n g hs _ _ n0 hw hb hdur habove

/-- Engine level, for every `j`. -/
theorem crashCommitAt_reorg_ok (n : Node) (g : TId → TSpec String String) (hs : NodeSim n g) (j n0 : Nat)
    (hw : ∀ i, (g i).maxEver ≤ n0 + W)
    (hdur : ∀ i k, ((g i).cur k).valAt n0 = ((g i).dur k).valAt n0)
    (habove : ∀ i, ∀ p ∈ (n.b i).cache, n0 < p.1)
    (hlat : ∀ h x, n.latest = some (h, x) → (n.b .numberToHash).lastKey = some h)
    (hrow : (n.b .numberToHash).db.get? n0 ≠ none)
    (hdeep : n.latestHeight ≤ n0 + W) (hmax : n.maxBlock.getD 0 ≤ W + n0) :
    ∃ r, (n.crashCommitAt j).reorg n0 = (r, .ok) ∧ RestoredAt n g n0 r ∧
      r.latestHeight = n0 ∧ r.nextHeight = n0 + 1 := by
  rw [crashCommitAt_eq_crashIdx]
  exact crashIdx_reorg_ok n g hs _ _ n0 hw hdur habove hlat hrow hdeep hmax

/-- The same for ANY order in which the engine might commit its tables (each table once). -/
theorem crashCommitAtIn_reorg_ok (n : Node) (g : TId → TSpec String String) (hs : NodeSim n g)
    (ob : List BId) (ot : List TId) (ndb : ob.Nodup) (ndt : ot.Nodup) (hob : ∀ i, i ∈ ob) (hot : ∀ i, i ∈ ot)
    (j n0 : Nat)
    (hw : ∀ i, (g i).maxEver ≤ n0 + W)
    (hdur : ∀ i k, ((g i).cur k).valAt n0 = ((g i).dur k).valAt n0)
    (habove : ∀ i, ∀ p ∈ (n.b i).cache, n0 < p.1)
    (hlat : ∀ h x, n.latest = some (h, x) → (n.b .numberToHash).lastKey = some h)
    (hrow : (n.b .numberToHash).db.get? n0 ≠ none)
    (hdeep : n.latestHeight ≤ n0 + W) (hmax : n.maxBlock.getD 0 ≤ W + n0) :
    ∃ r, (n.crashCommitAtIn ob ot j).reorg n0 = (r, .ok) ∧ RestoredAt n g n0 r ∧
      r.latestHeight = n0 ∧ r.nextHeight = n0 + 1 := by
  rw [crashCommitAtIn_eq_crashIdx n ob ot ndb ndt hob hot]
  exact crashIdx_reorg_ok n g hs _ _ n0 hw hdur habove hlat hrow hdeep hmax

end Node

/-! ## a process death inside the engine rollback (`reorg m`), then a rollback to `n0 ≤ m` -/

namespace BlockDb
variable {V : Type}

theorem mem_foldl_erase (ks : List Nat) (c : AMap Nat V) (p : Nat × V)
    (h : p ∈ ks.foldl (fun m k => AMap.erase m k) c) : p ∈ c := by
  induction ks generalizing c with
  | nil => exact h
  | cons a rest ih =>
    have := ih (AMap.erase c a) h
    unfold AMap.erase at this
    exact (List.mem_filter.mp this).1

/-- `reorg` only removes cached rows -/
theorem mem_cache_reorg (t : BlockDb V) (m : Nat) (p : Nat × V) (h : p ∈ (t.reorg m).cache) : p ∈ t.cache := by
  unfold reorg at h
  cases hl : t.lastKey with
  | none => rw [hl] at h; exact h
  | some e => rw [hl] at h; exact mem_foldl_erase _ _ _ h

/-- `reorg m` leaves the persisted rows `≤ m` alone -/
theorem reorg_db_get?_le (t : BlockDb V) (m k : Nat) (hk : k ≤ m) : (t.reorg m).db.get? k = t.db.get? k := by
  unfold reorg
  cases hl : t.lastKey with
  | none => rfl
  | some e =>
    simp only [foldl_erase_get?, mem_doomed]
    have : ¬ (m < k ∧ k ≤ e) := by omega
    simp [this]

end BlockDb

namespace Node

theorem mem_reorgOrderT (i : TId) : i ∈ reorgOrderT := by cases i <;> decide
theorem nodup_reorgOrderT : reorgOrderT.Nodup := by decide

/-- Some rows above `m` may be gone; nothing else has changed. -/
def PartlyDeleted (m : Nat) (old new : AMap Nat String) : Prop :=
  ∀ k, new.get? k = old.get? k ∨ (m < k ∧ new.get? k = none)

theorem partlyDeleted_refl (m : Nat) (c : AMap Nat String) : PartlyDeleted m c c := fun _ => Or.inl rfl

/-- the block phase of `reorg m`, completed, is a special case -/
theorem partlyDeleted_reorg (t : BlockDb String) (m : Nat) : PartlyDeleted m t.db (t.reorg m).db := by
  intro k
  by_cases hk : k ≤ m
  · exact Or.inl (BlockDb.reorg_db_get?_le t m k hk)
  · unfold BlockDb.reorg
    cases hl : t.lastKey with
    | none => exact Or.inl rfl
    | some e =>
      simp only [BlockDb.foldl_erase_get?, BlockDb.mem_doomed]
      by_cases hke : k ≤ e
      · right; exact ⟨by omega, by simp [show m < k ∧ k ≤ e from ⟨by omega, hke⟩]⟩
      · left; simp [show ¬ (m < k ∧ k ≤ e) from fun h => hke h.2]

/-- Prefix decomposition for the table phase of the rollback. -/
theorem crashReorgAtIn_eq_crashReorgIdx (n : Node) (m : Nat) (ot : List TId) (ndt : ot.Nodup) (hot : ∀ i, i ∈ ot)
    (j : Nat) :
    n.crashReorgAtIn m ot j = n.crashReorgIdx m (n.itReorgIn m ot j) (fun i => (n.b i).db) := by
  have ht : (n.reorgPart m ot).take j =
      ot.flatMap (fun k => ((n.reorgWrites m k).take (n.itReorgIn m ot j k)).map (GWrite.tbl k)) := by
    unfold reorgPart itReorgIn
    rw [take_flatMap_parts _ _ ndt]
    simp only [List.length_map, List.map_take]
  unfold crashReorgAtIn
  rw [ht]
  have h := foldl_applyG_tblParts (fun k => (n.reorgWrites m k).take (n.itReorgIn m ot j k)) ot ndt
    { n with t := n.reorgLoaded m }
  apply node_ext
  · intro i
    show ((_ : Node).t i).clear = _
    rw [h.t i]
    simp only [hot i, if_true]
    rfl
  · intro i
    show ((_ : Node).b i).clear = _
    rw [h.b i]
    rfl
  · exact (h.maxBlock : _)
  · rfl
  · rfl

theorem crashReorgAt_eq_crashReorgIdx (n : Node) (m j : Nat) :
    n.crashReorgAt m j = n.crashReorgIdx m (n.itReorgIn m reorgOrderT j) (fun i => (n.b i).db) :=
  crashReorgAtIn_eq_crashReorgIdx n m reorgOrderT nodup_reorgOrderT mem_reorgOrderT j

/-- **Generic composition.**  `c` is any reopened node (no cache survives: `latest = none`, nothing under
construction) each of whose versioned tables is repaired by its own `reorg n0`, and each of whose block tables,
rolled back to `n0`, holds the rows of `n` persisted at or below `n0`; its hash table holds no row more than `W`
above `n0`.  Then the engine's `reorg n0` on `c` answers `ok` and yields the node restored at `n0`. -/
theorem reorg_restored (n : Node) (g : TId → TSpec String String) (n0 : Nat) (c : Node)
    (hstep : ∀ i, ∃ t', (c.t i).reorg W n0 = some t' ∧ ∀ k, t'.latest k = (g i).readAt k n0)
    (hblk : ∀ i k, ((c.b i).reorg n0).get k = if k ≤ n0 then (n.b i).db.get? k else none)
    (hl : c.latest = none) (hlbi : c.lbi = {}) (hmb : c.maxBlock = n.maxBlock)
    (hrow : (n.b .numberToHash).db.get? n0 ≠ none)
    (hbound : ∀ k, (c.b .numberToHash).get k ≠ none → k ≤ n0 + W)
    (hmax : n.maxBlock.getD 0 ≤ W + n0) :
    ∃ r, c.reorg n0 = (r, .ok) ∧ RestoredAt n g n0 r ∧ r.latestHeight = n0 ∧ r.nextHeight = n0 + 1 := by
  let f : TId → Table String String := fun i => ((c.t i).reorg W n0).getD (c.t i)
  have hf : ∀ i, (c.t i).reorg W n0 = some (f i) := by
    intro i
    obtain ⟨t', e, _⟩ := hstep i
    simp [f, e]
  obtain ⟨n1, e1, e2, e3, e4, e5, e6⟩ := reorgTables_all n0 c f hf
  have hr : RestoredAt n g n0 (({ n1 with b := fun i => (n1.b i).reorg n0 } : Node).commitAll) := by
    refine ⟨?_, ?_, rfl, e5.trans hlbi, e6.trans hmb⟩
    · intro i k
      show ((n1.t i).commit W _).latest k = _
      rw [e2 i, Table.commit_of_cache_nil _ _ _ (Table.reorg_cache_nil (hf i))]
      obtain ⟨t', e, hr⟩ := hstep i
      have : f i = t' := by simp [f, e]
      rw [this]; exact hr k
    · intro i k
      show (((n1.b i).reorg n0).commit.clear).get k = _
      rw [BlockDb.get_commit_clear, e3]
      exact hblk i k
  have hget : (c.b .numberToHash).get n0 ≠ none := by
    have := hblk .numberToHash n0
    rw [BlockDb.get_reorg] at this
    simp only [Nat.le_refl, if_true] at this
    rw [this]; exact hrow
  obtain ⟨h1, h2⟩ := latestHeight_crashed (n := c) (c := c) n0 (n0 + W) hl (fun _ h => h) hget hbound
  refine ⟨_, ?_, hr, hr.heights hrow⟩
  rw [reorg_accepts hlbi h1 h2 (by rw [hmb]; exact hmax)]
  unfold reorgBody
  rw [e1]

/-- **Crash inside the table phase or the block phase of `reorg m`.**  Every versioned table is cut at its own
index inside the commit that ends its own `reorg m` (not started / cut / done), the block columns have lost some of
their rows above `m` (none: table phase; some or all: block phase).  A rollback of the reopened node to any `n0 ≤ m`
that is durable and inside every window (and `m ≤ n0 + W`: `m` was itself an admissible target) answers `ok` and
restores `n0`.  No relation between `m` and the tables' own `maxEver` is needed (`Table.sim_raise_maxEver`). -/
theorem crashReorgIdx_reorg_ok (n : Node) (g : TId → TSpec String String) (hs : NodeSim n g)
    (m : Nat) (it : TId → Nat) (u : BId → AMap Nat String) (n0 : Nat) (hnm : n0 ≤ m) (hmW : m ≤ n0 + W)
    (hw : ∀ i, (g i).maxEver ≤ n0 + W)
    (hdur : ∀ i k, ((g i).cur k).valAt n0 = ((g i).dur k).valAt n0)
    (hu : ∀ i, PartlyDeleted m (n.b i).db (u i))
    (hrow : (n.b .numberToHash).db.get? n0 ≠ none)
    (hkeys : ∀ k, (n.b .numberToHash).db.get? k ≠ none → k ≤ n0 + W) (hmax : n.maxBlock.getD 0 ≤ W + n0) :
    ∃ r, (n.crashReorgIdx m it u).reorg n0 = (r, .ok) ∧ RestoredAt n g n0 r ∧
      r.latestHeight = n0 ∧ r.nextHeight = n0 + 1 := by
  have hget : ∀ i k, ((n.crashReorgIdx m it u).b i).get k = (u i).get? k := fun i k => by
    show BlockDb.get { db := u i, cache := [] } k = _
    simp [BlockDb.get]
  apply reorg_restored n g n0 (n.crashReorgIdx m it u) ?_ ?_ rfl rfl rfl hrow ?_ hmax
  · intro i
    -- the table's ghost counter raised to `m` if it was below (a table not written to lately)
    have hs' := Table.sim_raise_maxEver (hs.sim i) (max (g i).maxEver m) (Nat.le_max_left _ _)
    have hm : max (g i).maxEver m ≤ m + W := by have := hw i; omega
    obtain ⟨tl, el, _⟩ := Table.reorg_load hs' m hm
    have e : n.reorgLoaded m i = tl := by simp [reorgLoaded, el]
    show ∃ t', ((n.reorgLoaded m i).crashCommit W m (it i)).reorg W n0 = some t' ∧ _
    rw [e]
    exact Table.crash_in_reorg_recoverable_core hs' m (it i) n0 hm (Nat.le_max_right _ _) hnm
      (by have := hw i; show max (g i).maxEver m ≤ n0 + W; omega) (hdur i) tl el
  · intro i k
    rw [BlockDb.get_reorg, hget]
    by_cases hk : k ≤ n0
    · simp only [hk, if_true]
      rcases hu i k with h | ⟨h, _⟩
      · exact h
      · omega
    · simp [hk]
  · intro k hk
    rw [hget] at hk
    rcases hu .numberToHash k with h | ⟨_, h⟩
    · rw [h] at hk; exact hkeys k hk
    · exact absurd h hk

/-- for every crash point `j` of the table phase, in the engine's order -/
theorem crashReorgAt_reorg_ok (n : Node) (g : TId → TSpec String String) (hs : NodeSim n g)
    (m j n0 : Nat) (hnm : n0 ≤ m) (hmW : m ≤ n0 + W)
    (hw : ∀ i, (g i).maxEver ≤ n0 + W)
    (hdur : ∀ i k, ((g i).cur k).valAt n0 = ((g i).dur k).valAt n0)
    (hrow : (n.b .numberToHash).db.get? n0 ≠ none)
    (hkeys : ∀ k, (n.b .numberToHash).db.get? k ≠ none → k ≤ n0 + W) (hmax : n.maxBlock.getD 0 ≤ W + n0) :
    ∃ r, (n.crashReorgAt m j).reorg n0 = (r, .ok) ∧ RestoredAt n g n0 r ∧
      r.latestHeight = n0 ∧ r.nextHeight = n0 + 1 := by
  rw [crashReorgAt_eq_crashReorgIdx]
  exact crashReorgIdx_reorg_ok n g hs m _ _ n0 hnm hmW hw hdur (fun i => partlyDeleted_refl m _) hrow hkeys hmax

/-- the specification's value at `n0 ≤ m` is not changed by a rollback to `m` -/
theorem readAt_step_reorg {t : Table String String} {s : TSpec String String} (h : Table.Sim W t s) (m n0 : Nat)
    (hnm : n0 ≤ m) (k : String) : (s.step (.reorg m)).readAt k n0 = s.readAt k n0 := by
  have e : (s.step (.reorg m)).cur k = (s.cur k).filter (fun e => decide (e.1 ≤ m)) := rfl
  unfold TSpec.readAt
  rw [e, Hist.valAt_filter (h.cur_ok k).1.sorted, Nat.min_eq_left hnm]

/-- **Crash inside the commit that ends `reorg m`.**  `n1` is the node after the table phase of an accepted
`reorg m`, `n2` the node after the block phase (`(n.reorg m).1 = n2.commitAll`, `reorg_ok`).  A process death at any
write of that last commit (`crashIdx n2`), a reopen and a rollback to a durable `n0 ≤ m` restores `n0`. -/
theorem crash_in_reorg_commit_ok (n : Node) (g : TId → TSpec String String) (hs : NodeSim n g)
    (m n0 : Nat) (hnm : n0 ≤ m) (hmW : m ≤ n0 + W)
    (hw : ∀ i, (g i).maxEver ≤ n0 + W) (hb : n.nextHeight ≤ n0 + W + 1)
    (habove : ∀ i, ∀ p ∈ (n.b i).cache, n0 < p.1)
    (hrow : (n.b .numberToHash).db.get? n0 ≠ none)
    (hkeys : ∀ k, (n.b .numberToHash).get k ≠ none → k ≤ n0 + W) (hmax : n.maxBlock.getD 0 ≤ W + n0)
    (n1 : Node) (e1 : reorgTables n m allTIds = some n1) (ib : BId → Nat) (it : TId → Nat) :
    ∃ r, ((({ n1 with b := fun i => (n1.b i).reorg m } : Node)).crashIdx ib it).reorg n0 = (r, .ok) ∧
      RestoredAt n g n0 r ∧ r.latestHeight = n0 ∧ r.nextHeight = n0 + 1 := by
  -- every table's ghost counter raised to `m` if it was below (a table not written to lately)
  let g' : TId → TSpec String String := fun i => { g i with maxEver := max (g i).maxEver m }
  have hs' : NodeSim n g' := ⟨fun i => Table.sim_raise_maxEver (hs.sim i) _ (Nat.le_max_left _ _)⟩
  have hwin : ∀ i, (g' i).maxEver ≤ m + W ∧ m ≤ (g' i).maxEver := fun i => by
    have := hw i
    show max (g i).maxEver m ≤ m + W ∧ m ≤ max (g i).maxEver m
    omega
  obtain ⟨n1', e1', _, hsim, eb, elat, _, emb⟩ := reorgTables_sim n g' hs' m hwin
  rw [e1] at e1'
  cases e1'
  let n2 : Node := { n1 with b := fun i => (n1.b i).reorg m }
  have hb2 : ∀ i, n2.b i = (n.b i).reorg m := fun i => by show (n1.b i).reorg m = _; rw [eb]
  have hs2 : NodeSim n2 (fun i => (g' i).step (.reorg m)) := ⟨hsim⟩
  have hw' : ∀ i, ((g' i).step (.reorg m)).maxEver ≤ n0 + W := fun i => by
    have := hw i
    show max (g i).maxEver m ≤ n0 + W
    omega
  have hget2 : ∀ k, (n2.b .numberToHash).get k ≠ none → (n.b .numberToHash).get k ≠ none := by
    intro k hk
    rw [hb2, BlockDb.get_reorg] at hk
    by_cases hkm : k ≤ m
    · simpa [hkm] using hk
    · simp [hkm] at hk
  have hnext : n2.nextHeight ≤ n0 + W + 1 := by
    show (match n2.latest with | some (h, _) => h + 1 | none => _) ≤ _
    have hl2 : n2.latest = n.latest := elat
    cases hla : n.latest with
    | some p =>
      rw [hl2, hla]
      have : n.nextHeight = p.1 + 1 := by simp [nextHeight, hla]
      simp only; omega
    | none =>
      rw [hl2, hla]
      simp only
      have hsp := BlockDb.lastKey_spec (n2.b .numberToHash)
      cases hlk : (n2.b .numberToHash).lastKey with
      | none => simp
      | some e =>
        rw [hlk] at hsp
        have := hkeys e (hget2 e hsp.1)
        simp only; omega
  obtain ⟨r, er, hr, hh⟩ := crashIdx_reorg_ok_core n2 (fun i => (g' i).step (.reorg m)) hs2 ib it n0
    hw' hnext (fun _ _ => rfl)
    (fun i p hp => habove i p (by rw [hb2] at hp; exact BlockDb.mem_cache_reorg _ _ _ hp))
    (by rw [hb2, BlockDb.reorg_db_get?_le _ _ _ hnm]; exact hrow)
    (fun k hk => hkeys k (hget2 k hk))
    (by show n1.maxBlock.getD 0 ≤ _; rw [emb]; exact hmax)
  refine ⟨r, er, ⟨?_, ?_, hr.latest, hr.lbi, hr.maxBlock.trans emb⟩, hh⟩
  · intro i k
    rw [hr.tables i k]
    exact readAt_step_reorg (hs'.sim i) m n0 hnm k
  · intro i k
    rw [hr.blocks i k]
    by_cases hk : k ≤ n0
    · simp only [hk, if_true]
      rw [hb2, BlockDb.reorg_db_get?_le _ _ _ (by omega)]
    · simp [hk]

end Node

/-! ## non-vacuity: a concrete node, cut in the middle of the second table's writes

Block 1 was finalised and committed (`commit 2`), block 2 was finalised and is pending.  Two versioned tables hold
cached writes of block 2: `code` (key `a`: `x` → `y`) and `account` (key `p`: `q` → `r`, new key `s` = `t`); the
three block tables hold a cached row for block 2.  The engine commit issues 6 block-table writes, then 2 writes for
`code`, then 4 for `account` (`s` first: history row, value row; then `p`).  Dying at global write 10 leaves the
block tables and `code` at block 2, `account` with key `s` written and key `p` not, `hashToNumber` untouched. -/

namespace CrashExample
open Node

def opsCode : List (TOp String String) := [.set 1 "a" "x", .commit 2, .set 2 "a" "y"]
def opsAccount : List (TOp String String) := [.set 1 "p" "q", .commit 2, .set 2 "p" "r", .set 2 "s" "t"]

/-- the other ten tables saw nothing but the engine commit after block 1 -/
def ops : TId → List (TOp String String)
  | .code => opsCode
  | .account => opsAccount
  | _ => [.commit 2]

/-- the plain specification of every table -/
def g (i : TId) : TSpec String String := TSpec.init.run (ops i)

def tblCode : Table String String :=
  { db := [("a", "x")], cdb := [("a", [(0, none), (1, some "x")])],
    cache := [("a", [(0, none), (1, some "x"), (2, some "y")])] }

def tblAccount : Table String String :=
  { db := [("p", "q")], cdb := [("p", [(0, none), (1, some "q")])],
    cache := [("s", [(0, none), (2, some "t")]), ("p", [(0, none), (1, some "q"), (2, some "r")])] }

def tbl : TId → Table String String
  | .code => tblCode
  | .account => tblAccount
  | _ => {}

def node : Node :=
  { t := tbl,
    b := fun i => match i with
      | .block => { db := [(0, "b0"), (1, "b1")], cache := [(2, "b2")] }
      | .rawBlock => { db := [(0, "r0"), (1, "r1")], cache := [(2, "r2")] }
      | .numberToHash => { db := [(0, "h0"), (1, "h1")], cache := [(2, "h2")] },
    maxBlock := some 2,
    latest := some (2, "h2") }

theorem run_tbl (i : TId) : (Table.empty : Table String String).run Node.W (ops i) = some (tbl i) := by
  cases i <;> rfl

theorem legal_ops (i : TId) : TSpec.legalRun Node.W (TSpec.init : TSpec String String) (ops i) := by
  cases i <;> simp [ops, opsCode, opsAccount, TSpec.legalRun, TSpec.legal, TSpec.step, TSpec.init]

theorem nodeSim : NodeSim node g := by
  refine ⟨fun i => ?_⟩
  obtain ⟨t, e, hs⟩ := Table.run_sim (Table.sim_init Node.W) (ops i) (legal_ops i)
  rw [run_tbl i] at e
  cases e
  exact hs

theorem inWindow (i : TId) : (g i).maxEver ≤ 1 + Node.W := by cases i <;> decide

theorem durable (i : TId) (k : String) : ((g i).cur k).valAt 1 = ((g i).dur k).valAt 1 := by
  cases i
  case code =>
    by_cases hk : k = "a"
    · subst hk; decide
    · simp [g, ops, opsCode, TSpec.run, TSpec.step, TSpec.upd, hk]
  case account =>
    by_cases hp : k = "p"
    · subst hp; decide
    · by_cases hq : k = "s"
      · subst hq; decide
      · simp [g, ops, opsAccount, TSpec.run, TSpec.step, TSpec.upd, hp, hq]
  all_goals rfl

theorem rowsAbove (i : BId) : ∀ p ∈ (node.b i).cache, 1 < p.1 := by
  cases i <;> simp [node]

/-- the engine commit of `node` issues 12 writes: 2 per block table, 2 for `code`, 4 for `account` -/
example : node.globalWrites.length = 12 := by decide

/-- where global write 10 falls: `code` complete (index ≥ 2), `account` cut at 2 of 4, `hashToNumber` untouched -/
example : node.itOf 10 .code = 4 ∧ (node.tWrites .code).length = 2 ∧
    node.itOf 10 .account = 2 ∧ (node.tWrites .account).length = 4 ∧
    node.itOf 10 .hashToNumber = 0 ∧ node.ibOf 10 .rawBlock = 6 := by decide

/-- the torn state on disk: `account` has the new key `s` of block 2, but still the block-1 value of `p` -/
example : (node.crashCommitAt 10).t .account =
    { db := [("s", "t"), ("p", "q")],
      cdb := [("s", [(0, none), (2, some "t")]), ("p", [(0, none), (1, some "q")])], cache := [] } := rfl

example : ((node.crashCommitAt 10).t .code).latest "a" = some "y" ∧
    ((node.crashCommitAt 10).t .account).latest "s" = some "t" ∧
    ((node.crashCommitAt 10).t .account).latest "p" = some "q" ∧
    (node.crashCommitAt 10).latestHeight = 2 := by decide

/-- **The theorem applies**, for every crash point `j` (in particular `j = 10`): the engine's `reorg 1` on the
reopened node answers `ok` and restores block 1. -/
theorem recovers (j : Nat) :
    ∃ r, (node.crashCommitAt j).reorg 1 = (r, .ok) ∧ RestoredAt node g 1 r ∧
      r.latestHeight = 1 ∧ r.nextHeight = 2 :=
  crashCommitAt_reorg_ok node g nodeSim j 1 inWindow durable rowsAbove
    (by intro h x e; cases e; decide) (by decide) (by decide) (by decide)

/-- what "restored" means here: `a = x`, `p = q`, no `s`; block rows 0 and 1 only -/
example : (g .code).readAt "a" 1 = some "x" ∧ (g .account).readAt "p" 1 = some "q" ∧
    (g .account).readAt "s" 1 = none := by decide

/-- and by direct evaluation of the model, independently of the theorem -/
example : ((node.crashCommitAt 10).reorg 1).2 = .ok ∧
    (((node.crashCommitAt 10).reorg 1).1.t .account).latest "s" = none ∧
    (((node.crashCommitAt 10).reorg 1).1.t .account).latest "p" = some "q" ∧
    (((node.crashCommitAt 10).reorg 1).1.t .code).latest "a" = some "x" ∧
    (((node.crashCommitAt 10).reorg 1).1.b .numberToHash).get 2 = none ∧
    (((node.crashCommitAt 10).reorg 1).1.b .numberToHash).get 1 = some "h1" := by decide

/-! The same node, dying inside the engine's `reorg 2` (a rollback to its own height: every table rewrites its
rows of block 2): 2 writes for `code`, 4 for `account`, in the rollback's own table order (`code`, then `account`).
The ten other tables have `maxEver = 1 < 2`: the rollback target lies above their own counter, which is why the
theorems ask for `m ≤ n0 + W` instead of `m ≤ maxEver` table by table. -/

example : (node.reorgPart 2 reorgOrderT).length = 6 ∧ (g .tx).maxEver = 1 ∧ (g .account).maxEver = 2 := by decide

/-- cut after 3 writes: `code` is at block 2 on disk, `account` has the history row of `s` but not its value row -/
example : (node.crashReorgAt 2 3).t .account =
    { db := [("p", "q")],
      cdb := [("s", [(0, none), (2, some "t")]), ("p", [(0, none), (1, some "q")])], cache := [] } := rfl

theorem persistedRows (k : Nat) (hk : (node.b .numberToHash).db.get? k ≠ none) : k ≤ 1 + Node.W := by
  by_cases h0 : k = 0
  · omega
  · by_cases h1 : k = 1
    · omega
    · exfalso
      apply hk
      have a0 : ¬ (0 = k) := fun e => h0 e.symm
      have a1 : ¬ (1 = k) := fun e => h1 e.symm
      simp [node, AMap.get?, a0, a1]

/-- for every crash point `j` of the table phase of `reorg 2`, `reorg 1` on the reopened node restores block 1 -/
theorem recovers_in_reorg (j : Nat) :
    ∃ r, (node.crashReorgAt 2 j).reorg 1 = (r, .ok) ∧ RestoredAt node g 1 r ∧
      r.latestHeight = 1 ∧ r.nextHeight = 2 :=
  crashReorgAt_reorg_ok node g nodeSim 2 j 1 (by decide) (by decide) inWindow durable (by decide) persistedRows
    (by decide)

example : ((node.crashReorgAt 2 3).reorg 1).2 = .ok ∧
    (((node.crashReorgAt 2 3).reorg 1).1.t .account).latest "s" = none ∧
    (((node.crashReorgAt 2 3).reorg 1).1.t .code).latest "a" = some "x" := by decide

end CrashExample

/-! ## the side conditions cannot be dropped -/

namespace CrashNecessity

/-- `habove` (every pending block row lies above the target): a pending row that REPLACES a persisted row at or
below the target is written or not depending on the cut index, so the rolled-back table is not determined by what
was persisted.  (The engine never produces such a row: `require_block_does_not_exist`.) -/
def bt : BlockDb String := { db := [(1, "a")], cache := [(1, "b")] }

example : ((bt.crashCommit 0).reorg 1).get 1 = some "a" ∧ ((bt.crashCommit 1).reorg 1).get 1 = some "b" := by
  decide

/-- `hb` / `hdeep` (the commit height is at most `W + 1` above the target): key 7 written in block 1, twelve blocks
finalised without a commit, commit at 13.  The history is old at 13 (`1 + 10 < 13`), so the commit writes the value
row and drops the history; whether the process dies between the two writes (index 1) or after both (index 2), a
rollback to 0 finds no history and key 7 keeps its block-1 value, although the target is inside the table's own
window and durable.  The engine refuses this rollback on its `max_block_number` test (12 > 10 + 0): `hmax`. -/
def tt : Table Nat Nat := { db := [], cdb := [], cache := [(7, [(0, none), (1, some 5)])] }
def ss : TSpec Nat Nat := TSpec.init.run [.set 1 7 5]

example : Table.empty.run 10 [.set 1 7 5] = some tt ∧ TSpec.legalRun 10 (TSpec.init : TSpec Nat Nat) [.set 1 7 5] :=
  ⟨rfl, by simp [TSpec.legalRun, TSpec.legal, TSpec.init]⟩

example : ss.maxEver ≤ 0 + 10 ∧ (ss.cur 7).valAt 0 = (ss.dur 7).valAt 0 ∧ ss.readAt 7 0 = none ∧
    ((tt.crashCommit 10 13 1).reorg 10 0).map (fun t => t.latest 7) = some (some 5) ∧
    ((tt.crashCommit 10 13 2).reorg 10 0).map (fun t => t.latest 7) = some (some 5) := by decide

end CrashNecessity
end Brc20
