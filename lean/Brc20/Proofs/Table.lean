/-
Refinement of the versioned table model to the plain per-key log specification (`TSpec`).
-/
import Brc20.Model.TableSpec
import Brc20.Proofs.AMap
import Brc20.Proofs.HistOps
import Brc20.Proofs.TableOps
set_option linter.unusedSectionVars false

namespace Brc20.Table
variable {K V : Type} [DecidableEq K] [DecidableEq V]
open Hist

/-- The history the next write to `k` will act on (`retrieve_cache`). -/
def eff (t : Table K V) (k : K) : Hist V := t.retrieve k

/-- What a reopened instance would retrieve for `k`. -/
def disk (t : Table K V) (k : K) : Hist V :=
  match t.cdb.get? k with
  | some h => h
  | none => Hist.new (t.db.get? k)

/-- Representation invariant of a table all of whose stamps are ≤ `top`. -/
structure Inv (t : Table K V) (top : Nat) : Prop where
  cache_nodup : AMap.Nodup t.cache
  cache_ok : ∀ k h, t.cache.get? k = some h → Ok h top
  cdb_ok : ∀ k h, t.cdb.get? k = some h → Ok h top ∧ h.latest = t.db.get? k

/-- A history that starts at block 0 (every log does): something is in force at every block. -/
def Rooted (h : Hist V) : Prop := ∃ v rest, h = (0, v) :: rest

/-- Simulation relation between a table and the plain specification, for window size `W`. -/
structure Sim (W : Nat) (t : Table K V) (s : TSpec K V) : Prop where
  inv : Inv t s.top
  cur_ok : ∀ k, Ok (s.cur k) s.top ∧ Rooted (s.cur k)
  dur_ok : ∀ k, Ok (s.dur k) s.top ∧ Rooted (s.dur k)
  top_le : s.top ≤ s.maxEver
  /-- inside the window, the table's effective history of every key says what the full log says -/
  cur_eq : ∀ k m, s.maxEver ≤ m + W → (eff t k).valAt m = (s.cur k).valAt m
  /-- and so does what is on disk, w.r.t. the log as of the last commit -/
  dur_eq : ∀ k m, s.maxEver ≤ m + W → (disk t k).valAt m = (s.dur k).valAt m

end Brc20.Table

namespace Brc20.Table
variable {K V : Type} [DecidableEq K] [DecidableEq V]
open Hist

/-! ## Helper lemmas -/

theorem eff_cached {t : Table K V} {k : K} {h : Hist V} (hc : t.cache.get? k = some h) : eff t k = h :=
  retrieve_cached hc

theorem eff_uncached {t : Table K V} {k : K} (hc : t.cache.get? k = none) : eff t k = disk t k := by
  simp only [eff, disk, retrieve, hc]
  cases t.cdb.get? k <;> rfl

theorem disk_ok {t : Table K V} {top : Nat} (i : Inv t top) (k : K) :
    Ok (disk t k) top ∧ (disk t k).latest = t.db.get? k := by
  unfold disk
  cases hd : t.cdb.get? k with
  | some h => simpa using i.cdb_ok k h hd
  | none => exact ⟨ok_new _ _, latest_new _⟩

theorem eff_ok {t : Table K V} {top : Nat} (i : Inv t top) (k : K) : Ok (eff t k) top := by
  cases hc : t.cache.get? k with
  | some h => rw [eff_cached hc]; exact i.cache_ok k h hc
  | none => rw [eff_uncached hc]; exact (disk_ok i k).1

theorem latest_eff {t : Table K V} {top : Nat} (i : Inv t top) (k : K) :
    t.latest k = (eff t k).latest := by
  cases hc : t.cache.get? k with
  | some h => rw [eff_cached hc]; simp [Table.latest, hc]
  | none => rw [eff_uncached hc, (disk_ok i k).2]; simp [Table.latest, hc]

theorem Rooted.valAt_ne {h : Hist V} (r : Rooted h) (n : Nat) : valAt h n ≠ none := by
  obtain ⟨v, rest, rfl⟩ := r
  rw [valAt_cons_le (by simp)]; simp

theorem Rooted.put {h : Hist V} (r : Rooted h) (b : Nat) (x : Option V) : Rooted (Hist.put h b x) := by
  obtain ⟨v, rest, rfl⟩ := r
  cases rest with
  | nil =>
    simp only [Hist.put]
    split
    · rename_i hb; subst hb; exact ⟨x, [], rfl⟩
    · exact ⟨v, _, rfl⟩
  | cons e r => exact ⟨v, Hist.put (e :: r) b x, by simp [Hist.put]⟩

theorem Rooted.filter {h : Hist V} (r : Rooted h) (n : Nat) :
    Rooted (h.filter (fun e => decide (e.1 ≤ n))) := by
  obtain ⟨v, rest, rfl⟩ := r
  exact ⟨v, rest.filter (fun e => decide (e.1 ≤ n)), by simp⟩

theorem Rooted.logWrite {h : Hist V} (r : Rooted h) (b : Nat) (x : Option V) :
    Rooted (TSpec.logWrite h b x) := by
  unfold TSpec.logWrite; split
  · exact r
  · exact r.put b x

theorem filter_ne_nil_of_valAt {h : Hist V} (s : Sorted h) {n : Nat} (hv : valAt h n ≠ none) :
    h.filter (fun e => decide (e.1 ≤ n)) ≠ [] := by
  intro e
  have := valAt_filter s n n
  rw [e, Nat.min_self] at this
  exact hv this.symm

theorem ok_filter {h : Hist V} {top : Nat} (o : Ok h top) (n : Nat)
    (hne : h.filter (fun e => decide (e.1 ≤ n)) ≠ []) :
    Ok (h.filter (fun e => decide (e.1 ≤ n))) (min top n) :=
  ((reorg_spec o n).2 _ (reorg_eq_some hne)).1

theorem ok_logWrite {h : Hist V} {top b : Nat} (o : Ok h top) (hb : top ≤ b) (x : Option V) :
    Ok (TSpec.logWrite h b x) b := by
  unfold TSpec.logWrite; split
  · exact o.mono hb
  · have ob := o.mono hb
    exact ⟨sorted_put ob.sorted ob.le, keysLe_put ob.le, put_ne_nil⟩

theorem valAt_logWrite {h : Hist V} {top b : Nat} (o : Ok h top) (hb : top ≤ b) (x : Option V) (m : Nat) :
    valAt (TSpec.logWrite h b x) m = if b ≤ m then some x else valAt h m := by
  unfold TSpec.logWrite; split
  · rename_i hl
    by_cases hm : b ≤ m
    · simp [hm, o.valAt_top (by omega : top ≤ m), hl]
    · simp [hm]
  · have ob := o.mono hb
    exact valAt_put ob.sorted ob.le m

/-- `set`/`unset`, common part. -/
theorem sim_write {W : Nat} {t : Table K V} {s : TSpec K V} (h : Sim W t s) (b : Nat) (k : K) (x : Option V)
    (hb : s.top ≤ b) (h' : Hist V) (ws : writeSpec W (eff t k) h' b x) :
    Sim W { t with cache := t.cache.insert k h' }
      { s with cur := TSpec.upd s.cur k (TSpec.logWrite (s.cur k) b x), top := b, maxEver := max s.maxEver b } := by
  obtain ⟨ok', hval, _, _⟩ := ws
  refine ⟨⟨?_, ?_, ?_⟩, ?_, ?_, ?_, ?_, ?_⟩
  · exact AMap.nodup_insert h.inv.cache_nodup k h'
  · intro k1 h1 hg
    simp only [AMap.get?_insert] at hg
    by_cases hk : k1 = k
    · simp [hk] at hg; subst hg; exact ok'
    · simp [hk] at hg; exact (h.inv.cache_ok k1 h1 hg).mono hb
  · intro k1 h1 hg
    have := h.inv.cdb_ok k1 h1 hg
    exact ⟨this.1.mono hb, this.2⟩
  · intro k1
    simp only [TSpec.upd]
    by_cases hk : k1 = k
    · subst hk
      simp only [if_true]
      exact ⟨ok_logWrite (h.cur_ok k1).1 hb x, (h.cur_ok k1).2.logWrite b x⟩
    · simp only [hk, if_false]
      exact ⟨(h.cur_ok k1).1.mono hb, (h.cur_ok k1).2⟩
  · intro k1
    exact ⟨(h.dur_ok k1).1.mono hb, (h.dur_ok k1).2⟩
  · show b ≤ max s.maxEver b
    omega
  · intro k1 m hm
    have hm' : max s.maxEver b ≤ m + W := hm
    have hm1 : s.maxEver ≤ m + W := by omega
    have hm2 : b ≤ m + W := by omega
    simp only [TSpec.upd]
    by_cases hk : k1 = k
    · subst hk
      have e : eff { t with cache := t.cache.insert k1 h' } k1 = h' :=
        eff_cached (by simp [AMap.get?_insert])
      rw [e]
      simp only [if_true]
      rw [hval m hm2, valAt_logWrite (h.cur_ok k1).1 hb, h.cur_eq k1 m hm1]
    · have e : eff { t with cache := t.cache.insert k h' } k1 = eff t k1 := by
        simp [eff, retrieve, AMap.get?_insert, hk]
      rw [e]
      simp only [hk, if_false]
      exact h.cur_eq k1 m hm1
  · intro k1 m hm
    have hm' : max s.maxEver b ≤ m + W := hm
    exact h.dur_eq k1 m (by omega)

/-! ### commit -/

theorem eff_commit (W b : Nat) (t : Table K V) (k : K) : eff (t.commit W b) k = disk (t.commit W b) k :=
  eff_uncached rfl

theorem disk_commit (W b : Nat) (t : Table K V) (nd : AMap.Nodup t.cache) (k : K) :
    disk (t.commit W b) k = match t.cache.get? k with
      | some h => if h.isOld W b then Hist.new h.latest else h
      | none => disk t k := by
  obtain ⟨_, hd, hb⟩ := commit_spec W b t nd
  unfold disk
  rw [hd k, hb k]
  cases hc : t.cache.get? k with
  | none => rfl
  | some h => cases ho : h.isOld W b <;> simp [ho]

/-- In the window of `b`, what `commit b` leaves on disk says what the effective histories said. -/
theorem valAt_disk_commit (W b : Nat) {t : Table K V} {top : Nat} (nd : AMap.Nodup t.cache)
    (hc : ∀ k h, t.cache.get? k = some h → Ok h top) (k : K) {m : Nat} (hm : b ≤ m + W + 1) :
    valAt (disk (t.commit W b) k) m = valAt (eff t k) m := by
  rw [disk_commit W b t nd k]
  cases hg : t.cache.get? k with
  | none => simp only []; rw [eff_uncached hg]
  | some h =>
    simp only []
    rw [eff_cached hg]
    cases ho : h.isOld W b with
    | false => simp
    | true => simp only [if_true]; rw [valAt_new, isOld_const' (hc k h hg) ho hm]

theorem inv_commit (W b : Nat) {t : Table K V} {top : Nat} (nd : AMap.Nodup t.cache)
    (hc : ∀ k h, t.cache.get? k = some h → Ok h top)
    (hd : ∀ k h, t.cache.get? k = none → t.cdb.get? k = some h → Ok h top ∧ h.latest = t.db.get? k) :
    Inv (t.commit W b) top := by
  obtain ⟨hcache, hcdb, hdb⟩ := commit_spec W b t nd
  refine ⟨?_, ?_, ?_⟩
  · rw [hcache]; simp [AMap.Nodup, AMap.keys]
  · intro k h hg; rw [hcache] at hg; simp at hg
  · intro k h hg
    rw [hcdb k] at hg
    rw [hdb k]
    cases hcg : t.cache.get? k with
    | none => rw [hcg] at hg; exact hd k h hcg hg
    | some h0 =>
      rw [hcg] at hg
      simp only [] at hg ⊢
      cases ho : h0.isOld W b with
      | true => simp [ho] at hg
      | false => simp [ho] at hg; subst hg; exact ⟨hc k h0 hcg, rfl⟩

theorem latest_commit (W b : Nat) (t : Table K V) (nd : AMap.Nodup t.cache) (k : K) :
    (t.commit W b).latest k = t.latest k := by
  obtain ⟨hcache, _, hdb⟩ := commit_spec W b t nd
  simp only [Table.latest, hcache, AMap.get?_nil, hdb k]
  cases t.cache.get? k <;> rfl

theorem sim_commit {W : Nat} {t : Table K V} {s : TSpec K V} (h : Sim W t s) (b : Nat) :
    Sim W (t.commit W b) { s with dur := s.cur, maxEver := max s.maxEver (b - 1) } := by
  have nd := h.inv.cache_nodup
  have key : ∀ k m, max s.maxEver (b - 1) ≤ m + W → valAt (disk (t.commit W b) k) m = valAt (s.cur k) m := by
    intro k m hm
    rw [valAt_disk_commit W b nd h.inv.cache_ok k (by omega), h.cur_eq k m (by omega)]
  refine ⟨?_, h.cur_ok, h.cur_ok, ?_, ?_, ?_⟩
  · exact inv_commit W b nd h.inv.cache_ok (fun k h0 _ hg => h.inv.cdb_ok k h0 hg)
  · show s.top ≤ max s.maxEver (b - 1)
    have := h.top_le; omega
  · intro k m hm
    rw [eff_commit]; exact key k m hm
  · intro k m hm
    exact key k m hm

/-! ### clear -/

theorem sim_clear {W : Nat} {t : Table K V} {s : TSpec K V} (h : Sim W t s) :
    Sim W t.clear { s with cur := s.dur } := by
  refine ⟨⟨?_, ?_, ?_⟩, h.dur_ok, h.dur_ok, h.top_le, ?_, ?_⟩
  · simp [Table.clear, AMap.Nodup, AMap.keys]
  · intro k h0 hg; simp [Table.clear] at hg
  · exact h.inv.cdb_ok
  · intro k m hm
    have e : eff t.clear k = disk t k := eff_uncached (t := t.clear) rfl
    rw [e]; exact h.dur_eq k m hm
  · exact h.dur_eq

/-! ### reorg -/

/-- The loading phase of `reorg n` on a table in simulation. -/
theorem reorg_load {W : Nat} {t : Table K V} {s : TSpec K V} (h : Sim W t s) (n : Nat)
    (hw : s.maxEver ≤ n + W) :
    ∃ t1, t.reorgLoad n t.reorgKeys = some t1 ∧ t1.db = t.db ∧ t1.cdb = t.cdb ∧ AMap.Nodup t1.cache ∧
      (∀ k, (t1.cache.get? k = some ((eff t k).filter (fun e => decide (e.1 ≤ n))) ∧
              (eff t k).filter (fun e => decide (e.1 ≤ n)) ≠ []) ∨
            (t1.cache.get? k = none ∧ t1.cdb.get? k = none ∧ t.cache.get? k = none ∧
              eff t1 k = Hist.new (t.db.get? k) ∧ eff t k = Hist.new (t.db.get? k))) := by
  have hne : ∀ k, (t.retrieve k).filter (fun e => decide (e.1 ≤ n)) ≠ [] := by
    intro k
    apply filter_ne_nil_of_valAt (eff_ok h.inv k).sorted
    rw [h.cur_eq k n hw]
    exact (h.cur_ok k).2.valAt_ne n
  obtain ⟨t1, e1, e2, e3, e4, e5⟩ := reorgLoad_spec n t.reorgKeys t hne
  refine ⟨t1, e1, e2, e3, e4 h.inv.cache_nodup, ?_⟩
  intro k
  by_cases hk : k ∈ t.reorgKeys
  · left
    have := e5 k
    simp only [hk, if_true] at this
    exact ⟨this, hne k⟩
  · right
    have h5 := e5 k
    simp only [hk, if_false] at h5
    have hk' := (not_congr (mem_reorgKeys t k)).mp hk
    have hcdb : t.cdb.get? k = none := by
      cases hx : t.cdb.get? k with
      | none => rfl
      | some _ => exact absurd (Or.inl (by simp [hx])) hk'
    have hca : t.cache.get? k = none := by
      cases hx : t.cache.get? k with
      | none => rfl
      | some _ => exact absurd (Or.inr (by simp [hx])) hk'
    rw [hca] at h5
    refine ⟨h5, by rw [e3]; exact hcdb, hca, ?_, ?_⟩
    · simp [eff, retrieve, h5, e3, e2, hcdb]
    · simp [eff, retrieve, hca, hcdb]

/-- `reorg n` inside the window; the target may be above everything ever written (then nothing is cut, but the
closing `commit n` of the rollback drops histories that are old w.r.t. `n`, so the window moves as for `commit n`). -/
theorem sim_reorg' {W : Nat} {t : Table K V} {s : TSpec K V} (h : Sim W t s) (n : Nat)
    (hw : s.maxEver ≤ n + W) :
    ∃ t', t.reorg W n = some t' ∧ Sim W t' { s.step (.reorg n) with maxEver := max s.maxEver (n - 1) } := by
  obtain ⟨t1, e1, e2, e3, nd1, hk⟩ := reorg_load h n hw
  refine ⟨t1.commit W n, by simp [Table.reorg, e1], ?_⟩
  have hc1 : ∀ k h0, t1.cache.get? k = some h0 → Ok h0 (min s.top n) := by
    intro k h0 hg
    rcases hk k with ⟨hg', hne⟩ | ⟨hg', _⟩
    · rw [hg'] at hg; cases hg
      exact ok_filter (eff_ok h.inv k) n hne
    · rw [hg'] at hg; cases hg
  have hv1 : ∀ k m, valAt (eff t1 k) m = valAt (eff t k) (min m n) := by
    intro k m
    rcases hk k with ⟨hg', _⟩ | ⟨_, _, _, ha, hb⟩
    · rw [eff_cached hg', valAt_filter (eff_ok h.inv k).sorted]
    · rw [ha, hb, valAt_new, valAt_new]
  have key : ∀ k m, max s.maxEver (n - 1) ≤ m + W →
      valAt (disk (t1.commit W n) k) m = valAt ((s.cur k).filter (fun e => decide (e.1 ≤ n))) m := by
    intro k m hm
    rw [valAt_disk_commit W n nd1 hc1 k (by omega), hv1 k m, h.cur_eq k (min m n) (by omega),
      valAt_filter (h.cur_ok k).1.sorted]
  have cok : ∀ k, Ok ((s.cur k).filter (fun e => decide (e.1 ≤ n))) (min s.top n) ∧
      Rooted ((s.cur k).filter (fun e => decide (e.1 ≤ n))) := by
    intro k
    have r := (h.cur_ok k).2.filter n
    refine ⟨ok_filter (h.cur_ok k).1 n ?_, r⟩
    obtain ⟨v, rest, hr⟩ := r
    rw [hr]; simp
  refine ⟨?_, cok, cok, ?_, ?_, ?_⟩
  · apply inv_commit W n nd1 hc1
    intro k h0 hg hd
    rcases hk k with ⟨hg', _⟩ | ⟨_, hd', _⟩
    · rw [hg'] at hg; cases hg
    · rw [hd'] at hd; cases hd
  · show min s.top n ≤ max s.maxEver (n - 1)
    have := h.top_le
    omega
  · intro k m hm
    rw [eff_commit]; exact key k m hm
  · intro k m hm
    exact key k m hm

theorem sim_reorg {W : Nat} {t : Table K V} {s : TSpec K V} (h : Sim W t s) (n : Nat)
    (hw : s.maxEver ≤ n + W) (hn : n ≤ s.maxEver) :
    ∃ t', t.reorg W n = some t' ∧ Sim W t' (s.step (.reorg n)) := by
  obtain ⟨t', e, h'⟩ := sim_reorg' h n hw
  have hm : max s.maxEver (n - 1) = s.maxEver := by omega
  rw [hm] at h'
  exact ⟨t', e, h'⟩

/-! ## Statements to prove (the refinement) -/

theorem sim_init (W : Nat) : Sim W (Table.empty : Table K V) TSpec.init := by
  refine ⟨⟨?_, ?_, ?_⟩, ?_, ?_, Nat.le_refl _, ?_, ?_⟩
  · simp [Table.empty, AMap.Nodup, AMap.keys]
  · intro k h hg; simp [Table.empty] at hg
  · intro k h hg; simp [Table.empty] at hg
  · intro k; exact ⟨ok_new _ _, none, [], rfl⟩
  · intro k; exact ⟨ok_new _ _, none, [], rfl⟩
  · intro k m _; rfl
  · intro k m _; rfl

/-- Point reads are those of the plain map. -/
theorem sim_latest {W : Nat} {t : Table K V} {s : TSpec K V} (h : Sim W t s) (k : K) :
    t.latest k = s.read k := by
  rw [latest_eff h.inv k]
  have h1 := (eff_ok h.inv k).valAt_top h.top_le
  have h2 := (h.cur_ok k).1.valAt_top h.top_le
  rw [h.cur_eq k s.maxEver (by omega), h2] at h1
  simp only [Option.some.injEq] at h1
  exact h1.symm

/-- One legal API call: the model table does not panic and stays in simulation with the plain map. -/
theorem step_sim {W : Nat} {t : Table K V} {s : TSpec K V} (h : Sim W t s) (op : TOp K V)
    (hl : TSpec.legal W s op) : ∃ t', t.step W op = some t' ∧ Sim W t' (s.step op) := by
  cases op with
  | set b k v =>
    obtain ⟨h', e, ws⟩ := set_spec W (eff_ok h.inv k) hl v
    refine ⟨{ t with cache := t.cache.insert k h' }, ?_, sim_write h b k (some v) hl h' ws⟩
    unfold eff at e
    simp [Table.step, Table.set, e]
  | unset b k =>
    obtain ⟨h', e, ws⟩ := unset_spec W (eff_ok h.inv k) hl
    refine ⟨{ t with cache := t.cache.insert k h' }, ?_, sim_write h b k none hl h' ws⟩
    unfold eff at e
    simp [Table.step, Table.unset, e]
  | commit b => exact ⟨t.commit W b, rfl, sim_commit h b⟩
  | clear => exact ⟨t.clear, rfl, sim_clear h⟩
  | reorg n => exact sim_reorg h n hl.1 hl.2

/-- Any legal history, of any length. -/
theorem run_sim {W : Nat} {t : Table K V} {s : TSpec K V} (h : Sim W t s) (ops : List (TOp K V))
    (hl : TSpec.legalRun W s ops) : ∃ t', t.run W ops = some t' ∧ Sim W t' (s.run ops) := by
  induction ops generalizing t s with
  | nil => exact ⟨t, rfl, h⟩
  | cons op ops ih =>
    obtain ⟨t1, e1, h1⟩ := step_sim h op hl.1
    obtain ⟨t2, e2, h2⟩ := ih h1 hl.2
    refine ⟨t2, ?_, ?_⟩
    · simp only [Table.run, e1]; exact e2
    · simpa [TSpec.run] using h2

/-- Rolling back inside the window restores, for every key, the value it had at the end of block `n`. -/
theorem rollback_in_window' {W : Nat} {t : Table K V} {s : TSpec K V} (h : Sim W t s) (n : Nat)
    (hw : s.maxEver ≤ n + W) :
    ∃ t', t.reorg W n = some t' ∧ ∀ k, t'.latest k = s.readAt k n := by
  obtain ⟨t', e, h'⟩ := sim_reorg' h n hw
  refine ⟨t', e, ?_⟩
  intro k
  rw [sim_latest h' k]
  have o := (h'.cur_ok k).1
  have h1 := o.valAt_top (m := n) (Nat.min_le_right _ _)
  have h2 : valAt ((s.cur k).filter (fun e => decide (e.1 ≤ n))) n = valAt (s.cur k) (min n n) :=
    valAt_filter (h.cur_ok k).1.sorted n n
  rw [Nat.min_self] at h2
  have h3 : valAt (s.cur k) n = some (((s.step (.reorg n)).cur k).latest) := h2.symm.trans h1
  simp only [TSpec.readAt, TSpec.read, h3]

theorem rollback_in_window {W : Nat} {t : Table K V} {s : TSpec K V} (h : Sim W t s) (n : Nat)
    (hw : s.maxEver ≤ n + W) (_hn : n ≤ s.maxEver) :
    ∃ t', t.reorg W n = some t' ∧ ∀ k, t'.latest k = s.readAt k n :=
  rollback_in_window' h n hw

/-- After a commit, what is on disk is what was readable: a reopened table reads the same. -/
theorem commit_then_reopen_reads {W : Nat} {t : Table K V} {s : TSpec K V} (h : Sim W t s) (b : Nat) (k : K) :
    ((t.commit W b).reopen).latest k = t.latest k := by
  have e : (t.commit W b).reopen = t.commit W b := rfl
  rw [e, latest_commit W b t h.inv.cache_nodup k]

/-- Discarding the cache (or reopening) returns exactly to the state of the last commit. -/
theorem clear_reads_durable {W : Nat} {t : Table K V} {s : TSpec K V} (h : Sim W t s) (k : K) :
    (t.clear).latest k = (s.dur k).latest := by
  have e : t.clear.latest k = t.db.get? k := by simp [Table.latest, Table.clear]
  rw [e, ← (disk_ok h.inv k).2]
  have h1 := (disk_ok h.inv k).1.valAt_top h.top_le
  have h2 := (h.dur_ok k).1.valAt_top h.top_le
  rw [h.dur_eq k s.maxEver (by omega), h2] at h1
  simp only [Option.some.injEq] at h1
  exact h1.symm

/-- No key keeps more than `W + 1` versions, in memory or on disk. -/
def VersionsLe (W : Nat) (t : Table K V) : Prop :=
  (∀ k h, t.cache.get? k = some h → h.length ≤ W + 1) ∧ (∀ k h, t.cdb.get? k = some h → h.length ≤ W + 1)

theorem length_new (i : Option V) (W : Nat) : (Hist.new i).length ≤ W + 1 := by
  simp [Hist.new]

theorem eff_length {W : Nat} {t : Table K V} (hv : VersionsLe W t) (k : K) : (eff t k).length ≤ W + 1 := by
  cases hc : t.cache.get? k with
  | some h => rw [eff_cached hc]; exact hv.1 k h hc
  | none =>
    rw [eff_uncached hc]
    unfold disk
    cases hd : t.cdb.get? k with
    | some h => exact hv.2 k h hd
    | none => exact length_new _ W

theorem versions_write {W : Nat} {t : Table K V} (hv : VersionsLe W t) (k : K) (h' : Hist V)
    (hl : h'.length ≤ W + 1) : VersionsLe W { t with cache := t.cache.insert k h' } := by
  refine ⟨?_, hv.2⟩
  intro k1 h1 hg
  simp only [AMap.get?_insert] at hg
  by_cases hk : k1 = k
  · simp [hk] at hg; subst hg; exact hl
  · simp [hk] at hg; exact hv.1 k1 h1 hg

theorem versions_commit {W : Nat} (b : Nat) {t : Table K V} (nd : AMap.Nodup t.cache)
    (hc : ∀ k h, t.cache.get? k = some h → h.length ≤ W + 1)
    (hd : ∀ k h, t.cache.get? k = none → t.cdb.get? k = some h → h.length ≤ W + 1) :
    VersionsLe W (t.commit W b) := by
  obtain ⟨hcache, hcdb, _⟩ := commit_spec W b t nd
  refine ⟨?_, ?_⟩
  · intro k h hg; rw [hcache] at hg; simp at hg
  · intro k h hg
    rw [hcdb k] at hg
    cases hcg : t.cache.get? k with
    | none => rw [hcg] at hg; exact hd k h hcg hg
    | some h0 =>
      rw [hcg] at hg
      simp only [] at hg
      cases ho : h0.isOld W b with
      | true => simp [ho] at hg
      | false => simp [ho] at hg; subst hg; exact hc k h0 hcg

theorem versions_le_step {W : Nat} {t : Table K V} {s : TSpec K V} (h : Sim W t s) (hv : VersionsLe W t)
    (op : TOp K V) (hl : TSpec.legal W s op) : ∀ t', t.step W op = some t' → VersionsLe W t' := by
  intro t' e
  cases op with
  | set b k v =>
    obtain ⟨h', e', ws⟩ := set_spec W (eff_ok h.inv k) hl v
    unfold eff at e'
    simp [Table.step, Table.set, e'] at e
    subst e
    exact versions_write hv k h' (ws.2.2.1 (eff_length hv k))
  | unset b k =>
    obtain ⟨h', e', ws⟩ := unset_spec W (eff_ok h.inv k) hl
    unfold eff at e'
    simp [Table.step, Table.unset, e'] at e
    subst e
    exact versions_write hv k h' (ws.2.2.1 (eff_length hv k))
  | commit b =>
    simp [Table.step] at e
    subst e
    exact versions_commit b h.inv.cache_nodup hv.1 (fun k h0 _ hg => hv.2 k h0 hg)
  | clear =>
    simp [Table.step] at e
    subst e
    exact ⟨fun k h0 hg => by simp [Table.clear] at hg, hv.2⟩
  | reorg n =>
    obtain ⟨t1, e1, e2, e3, nd1, hk⟩ := reorg_load h n hl.1
    simp [Table.step, Table.reorg, e1] at e
    subst e
    apply versions_commit n nd1
    · intro k h0 hg
      rcases hk k with ⟨hg', _⟩ | ⟨hg', _⟩
      · rw [hg'] at hg; cases hg
        exact Nat.le_trans (List.length_filter_le _ _) (eff_length hv k)
      · rw [hg'] at hg; cases hg
    · intro k h0 hg hd
      rcases hk k with ⟨hg', _⟩ | ⟨_, hd', _⟩
      · rw [hg'] at hg; cases hg
      · rw [hd'] at hd; cases hd

end Brc20.Table
