/-
Refinement of the versioned table model to the plain per-key log specification (`TSpec`).
-/
import Brc20.Model.TableSpec
import Brc20.Proofs.AMap
import Brc20.Proofs.HistOps
set_option linter.unusedSectionVars false

namespace Brc20.Table
variable {K V : Type} [DecidableEq K] [DecidableEq V]
open Hist

/-- The history the next write to `k` will act on (`retrieve_cache`). -/
def eff (t : Table K V) (k : K) : Hist V := t.retrieve k

/-- What a reopened instance would retrieve for `k`. -/
def disk (t : Table K V) (k : K) : Hist V :=
  match t.cdb.get? k with
  | some h => h
  | none => Hist.new (t.db.get? k)

/-- Representation invariant of a table all of whose stamps are ≤ `top`. -/
structure Inv (t : Table K V) (top : Nat) : Prop where
  cache_nodup : AMap.Nodup t.cache
  cache_ok : ∀ k h, t.cache.get? k = some h → Ok h top
  cdb_ok : ∀ k h, t.cdb.get? k = some h → Ok h top ∧ h.latest = t.db.get? k

/-- A history that starts at block 0 (every log does): something is in force at every block. -/
def Rooted (h : Hist V) : Prop := ∃ v rest, h = (0, v) :: rest

/-- Simulation relation between a table and the plain specification, for window size `W`. -/
structure Sim (W : Nat) (t : Table K V) (s : TSpec K V) : Prop where
  inv : Inv t s.top
  cur_ok : ∀ k, Ok (s.cur k) s.top ∧ Rooted (s.cur k)
  dur_ok : ∀ k, Ok (s.dur k) s.top ∧ Rooted (s.dur k)
  top_le : s.top ≤ s.maxEver
  /-- inside the window, the table's effective history of every key says what the full log says -/
  cur_eq : ∀ k m, s.maxEver ≤ m + W → (eff t k).valAt m = (s.cur k).valAt m
  /-- and so does what is on disk, w.r.t. the log as of the last commit -/
  dur_eq : ∀ k m, s.maxEver ≤ m + W → (disk t k).valAt m = (s.dur k).valAt m

end Brc20.Table

namespace Brc20.Table
variable {K V : Type} [DecidableEq K] [DecidableEq V]
open Hist

/-! ## Statements to prove (the refinement) -/

theorem sim_init (W : Nat) : Sim W (Table.empty : Table K V) TSpec.init := by
  sorry

/-- Point reads are those of the plain map. -/
theorem sim_latest {W : Nat} {t : Table K V} {s : TSpec K V} (h : Sim W t s) (k : K) :
    t.latest k = s.read k := by
  sorry

/-- One legal API call: the model table does not panic and stays in simulation with the plain map. -/
theorem step_sim {W : Nat} {t : Table K V} {s : TSpec K V} (h : Sim W t s) (op : TOp K V)
    (hl : TSpec.legal W s op) : ∃ t', t.step W op = some t' ∧ Sim W t' (s.step op) := by
  sorry

/-- Any legal history, of any length. -/
theorem run_sim {W : Nat} {t : Table K V} {s : TSpec K V} (h : Sim W t s) (ops : List (TOp K V))
    (hl : TSpec.legalRun W s ops) : ∃ t', t.run W ops = some t' ∧ Sim W t' (s.run ops) := by
  sorry

/-- Rolling back inside the window restores, for every key, the value it had at the end of block `n`. -/
theorem rollback_in_window {W : Nat} {t : Table K V} {s : TSpec K V} (h : Sim W t s) (n : Nat)
    (hw : s.maxEver ≤ n + W) (hn : n ≤ s.maxEver) :
    ∃ t', t.reorg W n = some t' ∧ ∀ k, t'.latest k = s.readAt k n := by
  sorry

/-- After a commit, what is on disk is what was readable: a reopened table reads the same. -/
theorem commit_then_reopen_reads {W : Nat} {t : Table K V} {s : TSpec K V} (h : Sim W t s) (b : Nat) (k : K) :
    ((t.commit W b).reopen).latest k = t.latest k := by
  sorry

/-- Discarding the cache (or reopening) returns exactly to the state of the last commit. -/
theorem clear_reads_durable {W : Nat} {t : Table K V} {s : TSpec K V} (h : Sim W t s) (k : K) :
    (t.clear).latest k = (s.dur k).latest := by
  sorry

/-- No key keeps more than `W + 1` versions, in memory or on disk. -/
def VersionsLe (W : Nat) (t : Table K V) : Prop :=
  (∀ k h, t.cache.get? k = some h → h.length ≤ W + 1) ∧ (∀ k h, t.cdb.get? k = some h → h.length ≤ W + 1)

theorem versions_le_step {W : Nat} {t : Table K V} {s : TSpec K V} (h : Sim W t s) (hv : VersionsLe W t)
    (op : TOp K V) (hl : TSpec.legal W s op) : ∀ t', t.step W op = some t' → VersionsLe W t' := by
  sorry

end Brc20.Table
