/-
Refinement of the versioned table model to the plain per-key log specification (`TSpec`).
-/
import Brc20.Model.TableSpec
import Brc20.Proofs.AMap
import Brc20.Proofs.HistOps
set_option linter.unusedSectionVars false

namespace Brc20.Table
variable {K V : Type} [DecidableEq K] [DecidableEq V]
open Hist

/-- The history the next write to `k` will act on (`retrieve_cache`). -/
def eff (t : Table K V) (k : K) : Hist V := t.retrieve k

/-- What a reopened instance would retrieve for `k`. -/
def disk (t : Table K V) (k : K) : Hist V :=
  match t.cdb.get? k with
  | some h => h
  | none => Hist.new (t.db.get? k)

/-- Representation invariant of a table all of whose stamps are ≤ `top`. -/
structure Inv (t : Table K V) (top : Nat) : Prop where
  cache_nodup : AMap.Nodup t.cache
  cache_ok : ∀ k h, t.cache.get? k = some h → Ok h top
  cdb_ok : ∀ k h, t.cdb.get? k = some h → Ok h top ∧ h.latest = t.db.get? k

/-- A history that starts at block 0 (every log does): something is in force at every block. -/
def Rooted (h : Hist V) : Prop := ∃ v rest, h = (0, v) :: rest

/-- Simulation relation between a table and the plain specification, for window size `W`. -/
structure Sim (W : Nat) (t : Table K V) (s : TSpec K V) : Prop where
  inv : Inv t s.top
  cur_ok : ∀ k, Ok (s.cur k) s.top ∧ Rooted (s.cur k)
  dur_ok : ∀ k, Ok (s.dur k) s.top ∧ Rooted (s.dur k)
  top_le : s.top ≤ s.maxEver
  /-- inside the window, the table's effective history of every key says what the full log says -/
  cur_eq : ∀ k m, s.maxEver ≤ m + W → (eff t k).valAt m = (s.cur k).valAt m
  /-- and so does what is on disk, w.r.t. the log as of the last commit -/
  dur_eq : ∀ k m, s.maxEver ≤ m + W → (disk t k).valAt m = (s.dur k).valAt m

end Brc20.Table
