/-
Block-keyed table (`BlockDb`): point reads and `lastKey` after `commit`, `clear`, `reorg`.
No duplicate-freeness of the two association lists is assumed: a `commit` writes the cached rows in ascending
key order, rows with equal keys in reverse list order, so the first binding of the cache list (the one `get?`
sees) is the last one written.
-/
import Brc20.Model.BlockDb
import Brc20.Proofs.AMap
set_option linter.unusedSectionVars false

namespace Brc20.BlockDb
variable {V : Type}

/-! ## greatest key -/

/-- `o` is the greatest number satisfying `P` (`none`: nothing satisfies `P`). -/
def IsMaxOf (P : Nat → Prop) : Option Nat → Prop
  | none => ∀ k, ¬ P k
  | some a => P a ∧ ∀ k, P k → k ≤ a

theorem IsMaxOf.unique {P : Nat → Prop} {o1 o2 : Option Nat} (h1 : IsMaxOf P o1) (h2 : IsMaxOf P o2) : o1 = o2 := by
  cases o1 with
  | none =>
    cases o2 with
    | none => rfl
    | some b => exact absurd h2.1 (h1 b)
  | some a =>
    cases o2 with
    | none => exact absurd h1.1 (h2 a)
    | some b =>
      have := h1.2 b h2.1
      have := h2.2 a h1.1
      congr 1; omega

theorem IsMaxOf.congr {P Q : Nat → Prop} {o : Option Nat} (h : IsMaxOf P o) (e : ∀ k, P k ↔ Q k) : IsMaxOf Q o := by
  cases o with
  | none => exact fun k hq => h k ((e k).mpr hq)
  | some a => exact ⟨(e a).mp h.1, fun k hq => h.2 k ((e k).mpr hq)⟩

theorem IsMaxOf.optMax {P Q : Nat → Prop} {a b : Option Nat} (ha : IsMaxOf P a) (hb : IsMaxOf Q b) :
    IsMaxOf (fun k => P k ∨ Q k) (optMax a b) := by
  cases a with
  | none =>
    cases b with
    | none => exact fun k hk => hk.elim (ha k) (hb k)
    | some y =>
      refine ⟨Or.inr hb.1, ?_⟩
      intro k hk
      rcases hk with hk | hk
      · exact absurd hk (ha k)
      · exact hb.2 k hk
  | some x =>
    cases b with
    | none =>
      refine ⟨Or.inl ha.1, ?_⟩
      intro k hk
      rcases hk with hk | hk
      · exact ha.2 k hk
      · exact absurd hk (hb k)
    | some y =>
      show IsMaxOf _ (some (max x y))
      refine ⟨?_, ?_⟩
      · by_cases h : x ≤ y
        · rw [Nat.max_eq_right h]; exact Or.inr hb.1
        · rw [Nat.max_eq_left (by omega)]; exact Or.inl ha.1
      · intro k hk
        rcases hk with hk | hk
        · have := ha.2 k hk; omega
        · have := hb.2 k hk; omega

/-- the fold inside `maxKey?` -/
def maxStep (acc : Option Nat) (p : Nat × V) : Option Nat :=
  match acc with | none => some p.1 | some a => some (max a p.1)

theorem maxKey?_eq (m : AMap Nat V) : maxKey? m = m.foldl maxStep none := rfl

theorem foldl_maxStep_spec (m : AMap Nat V) (acc : Option Nat) (P : Nat → Prop) (h : IsMaxOf P acc) :
    IsMaxOf (fun k => P k ∨ k ∈ AMap.keys m) (m.foldl maxStep acc) := by
  induction m generalizing acc P with
  | nil =>
    simp only [List.foldl_nil, AMap.keys, List.map_nil, List.not_mem_nil, or_false]
    exact h
  | cons p rest ih =>
    simp only [List.foldl_cons]
    have h1 : IsMaxOf (fun k => P k ∨ k = p.1) (maxStep acc p) := by
      have hp : IsMaxOf (fun k => k = p.1) (some p.1) := ⟨rfl, fun k hk => by omega⟩
      have := IsMaxOf.optMax h hp
      cases acc with
      | none => exact this
      | some a => exact this
    refine (ih _ _ h1).congr ?_
    intro k
    simp only [AMap.keys, List.map_cons, List.mem_cons]
    constructor
    · rintro ((h | h) | h)
      · exact Or.inl h
      · exact Or.inr (Or.inl h)
      · exact Or.inr (Or.inr h)
    · rintro (h | h | h)
      · exact Or.inl (Or.inl h)
      · exact Or.inl (Or.inr h)
      · exact Or.inr h

/-- `maxKey?` is the greatest bound key. -/
theorem maxKey?_spec (m : AMap Nat V) : IsMaxOf (fun k => AMap.get? m k ≠ none) (maxKey? m) := by
  have h0 : IsMaxOf (fun _ => False) (none : Option Nat) := fun _ h => h
  refine (foldl_maxStep_spec m none _ h0).congr ?_
  intro k
  simp only [false_or, ne_eq, AMap.get?_eq_none_iff, Decidable.not_not]

/-- `last_key` is the greatest key bound in the column or in the cache, i.e. the greatest readable key. -/
theorem lastKey_spec (t : BlockDb V) : IsMaxOf (fun k => t.get k ≠ none) t.lastKey := by
  refine (IsMaxOf.optMax (maxKey?_spec t.db) (maxKey?_spec t.cache)).congr ?_
  intro k
  simp only [get]
  cases hc : t.cache.get? k <;> simp

/-- Two block tables with the same readable keys have the same `last_key`. -/
theorem lastKey_congr (t u : BlockDb V) (h : ∀ k, t.get k = none ↔ u.get k = none) : t.lastKey = u.lastKey :=
  IsMaxOf.unique ((lastKey_spec t).congr (fun k => not_congr (h k))) (lastKey_spec u)

theorem get_eq_none_of_lastKey_none {t : BlockDb V} (h : t.lastKey = none) (k : Nat) : t.get k = none := by
  have := lastKey_spec t
  rw [h] at this
  exact Decidable.not_not.mp (this k)

theorem get_eq_none_of_lastKey_lt {t : BlockDb V} {e : Nat} (h : t.lastKey = some e) {k : Nat} (hk : e < k) :
    t.get k = none := by
  have := lastKey_spec t
  rw [h] at this
  cases hg : t.get k with
  | none => rfl
  | some v =>
    have := this.2 k (by simp [hg])
    omega

theorem get?_none_of_get_none {t : BlockDb V} {k : Nat} (h : t.get k = none) :
    t.cache.get? k = none ∧ t.db.get? k = none := by
  simp only [get] at h
  cases hc : t.cache.get? k with
  | none => rw [hc] at h; exact ⟨rfl, h⟩
  | some v => rw [hc] at h; cases h

/-! ## `clear` -/

@[simp] theorem get_clear (t : BlockDb V) (k : Nat) : t.clear.get k = t.db.get? k := by
  simp [get, clear]

/-! ## `commit` -/

/-- last binding of `k` in a list of rows -/
def getL? : List (Nat × V) → Nat → Option V
  | [], _ => none
  | p :: rest, k =>
    match getL? rest k with
    | some v => some v
    | none => if p.1 = k then some p.2 else none

theorem getL?_none_of_lt (l : List (Nat × V)) (k : Nat) (h : ∀ q ∈ l, k < q.1) : getL? l k = none := by
  induction l with
  | nil => rfl
  | cons q rest ih =>
    have h1 := h q (List.mem_cons_self)
    have h2 := ih (fun x hx => h x (List.mem_cons_of_mem _ hx))
    have : ¬ q.1 = k := by omega
    simp [getL?, h2, this]

theorem foldl_put_get? (l : List (Nat × V)) (m : AMap Nat V) (k : Nat) :
    AMap.get? (l.foldl (fun m p => AMap.insert m p.1 p.2) m) k =
      match getL? l k with
      | some v => some v
      | none => AMap.get? m k := by
  induction l generalizing m with
  | nil => rfl
  | cons p rest ih =>
    simp only [List.foldl_cons, ih, getL?]
    cases getL? rest k with
    | some v => rfl
    | none =>
      simp only [AMap.get?_insert]
      by_cases h : p.1 = k
      · simp [h]
      · have : ¬ k = p.1 := fun e => h e.symm
        simp [h, this]

theorem foldl_put_nodup (l : List (Nat × V)) (m : AMap Nat V) (nd : AMap.Nodup m) :
    AMap.Nodup (l.foldl (fun m p => AMap.insert m p.1 p.2) m) := by
  induction l generalizing m with
  | nil => exact nd
  | cons p rest ih => exact ih _ (AMap.nodup_insert nd p.1 p.2)

/-- ascending keys -/
def Asc (l : List (Nat × V)) : Prop := l.Pairwise (fun a b => a.1 ≤ b.1)

theorem ins_nil (p : Nat × V) : sortedCache.ins p [] = [p] := by simp [sortedCache.ins]

theorem ins_cons (p q : Nat × V) (r : List (Nat × V)) :
    sortedCache.ins p (q :: r) = if p.1 < q.1 then p :: q :: r else q :: sortedCache.ins p r := by
  simp [sortedCache.ins]

theorem mem_ins (p : Nat × V) (l : List (Nat × V)) (x : Nat × V) : x ∈ sortedCache.ins p l ↔ x = p ∨ x ∈ l := by
  induction l with
  | nil => simp [ins_nil]
  | cons q r ih =>
    rw [ins_cons]
    split
    · simp
    · simp only [List.mem_cons, ih]
      constructor
      · rintro (h | h | h)
        · exact Or.inr (Or.inl h)
        · exact Or.inl h
        · exact Or.inr (Or.inr h)
      · rintro (h | h | h)
        · exact Or.inr (Or.inl h)
        · exact Or.inl h
        · exact Or.inr (Or.inr h)

theorem asc_ins (p : Nat × V) (l : List (Nat × V)) (h : Asc l) : Asc (sortedCache.ins p l) := by
  induction l with
  | nil => simp [ins_nil, Asc]
  | cons q r ih =>
    rw [ins_cons]
    unfold Asc at *
    rw [List.pairwise_cons] at h
    split
    · rename_i hlt
      rw [List.pairwise_cons]
      refine ⟨?_, List.pairwise_cons.mpr h⟩
      intro x hx
      rcases List.mem_cons.mp hx with hx | hx
      · subst hx; omega
      · have := h.1 x hx; omega
    · rename_i hge
      rw [List.pairwise_cons]
      refine ⟨?_, ih h.2⟩
      intro x hx
      rcases (mem_ins p r x).mp hx with hx | hx
      · subst hx; omega
      · exact h.1 x hx

/-- In an ascending list the new row goes behind every row with the same key: it is the last binding. -/
theorem getL?_ins (p : Nat × V) (l : List (Nat × V)) (h : Asc l) (k : Nat) :
    getL? (sortedCache.ins p l) k = if p.1 = k then some p.2 else getL? l k := by
  induction l with
  | nil => simp [ins_nil, getL?]
  | cons q r ih =>
    unfold Asc at h
    rw [List.pairwise_cons] at h
    rw [ins_cons]
    split
    · rename_i hlt
      by_cases hk : p.1 = k
      · have hn : getL? (q :: r) k = none := by
          apply getL?_none_of_lt
          intro x hx
          rcases List.mem_cons.mp hx with hx | hx
          · subst hx; omega
          · have := h.1 x hx; omega
        rw [getL?, hn]
      · rw [getL?]
        simp only [hk, if_false]
        cases getL? (q :: r) k <;> rfl
    · rw [getL?, ih h.2, getL?]
      by_cases hk : p.1 = k
      · simp [hk]
      · simp [hk]

theorem sortedCache_cons (db : AMap Nat V) (p : Nat × V) (c : AMap Nat V) :
    sortedCache { db := db, cache := p :: c } = sortedCache.ins p (sortedCache { db := db, cache := c }) := rfl

theorem sortedCache_spec (db c : AMap Nat V) :
    Asc (sortedCache { db := db, cache := c }) ∧
      ∀ k, getL? (sortedCache { db := db, cache := c }) k = AMap.get? c k := by
  induction c with
  | nil => exact ⟨by simp [sortedCache, Asc], fun k => rfl⟩
  | cons p c ih =>
    rw [sortedCache_cons]
    refine ⟨asc_ins p _ ih.1, ?_⟩
    intro k
    rw [getL?_ins p _ ih.1, ih.2, AMap.get?_cons]

theorem applyWrites_db (t : BlockDb V) (l : List (Nat × V)) :
    (t.applyWrites (l.map (fun p => BWrite.put p.1 p.2) ++ [BWrite.flush])).db =
      l.foldl (fun m p => AMap.insert m p.1 p.2) t.db ∧
    (t.applyWrites (l.map (fun p => BWrite.put p.1 p.2) ++ [BWrite.flush])).cache = t.cache := by
  induction l generalizing t with
  | nil => exact ⟨rfl, rfl⟩
  | cons p rest ih =>
    have := ih (t.applyWrite (BWrite.put p.1 p.2))
    simp only [applyWrites, List.map_cons, List.cons_append, List.foldl_cons] at this ⊢
    exact this

theorem commit_db (t : BlockDb V) :
    t.commit.db = t.sortedCache.foldl (fun m p => AMap.insert m p.1 p.2) t.db ∧ t.commit.cache = t.cache :=
  applyWrites_db t t.sortedCache

/-- `commit`, key by key: the cached row, else the row already in the column. -/
theorem commit_get? (t : BlockDb V) (k : Nat) :
    t.commit.db.get? k = match t.cache.get? k with | some v => some v | none => t.db.get? k := by
  rw [(commit_db t).1, foldl_put_get?]
  have := (sortedCache_spec t.db t.cache).2 k
  have e : ({ db := t.db, cache := t.cache } : BlockDb V) = t := rfl
  rw [e] at this
  rw [this]

theorem commit_nodup (t : BlockDb V) (nd : AMap.Nodup t.db) : AMap.Nodup t.commit.db := by
  rw [(commit_db t).1]; exact foldl_put_nodup _ _ nd

/-- `commit` followed by `clear_cache` does not change any read. -/
theorem get_commit_clear (t : BlockDb V) (k : Nat) : t.commit.clear.get k = t.get k := by
  rw [get_clear, commit_get?]; rfl

theorem lastKey_commit_clear (t : BlockDb V) : t.commit.clear.lastKey = t.lastKey :=
  lastKey_congr _ _ (fun k => by rw [get_commit_clear])

/-! ## `reorg` -/

theorem foldl_erase_get? (ks : List Nat) (m : AMap Nat V) (k : Nat) :
    AMap.get? (ks.foldl (fun m k => AMap.erase m k) m) k = if k ∈ ks then none else AMap.get? m k := by
  induction ks generalizing m with
  | nil => simp
  | cons a rest ih =>
    simp only [List.foldl_cons, ih, AMap.get?_erase, List.mem_cons]
    by_cases h1 : k ∈ rest
    · simp [h1]
    · by_cases h2 : k = a <;> simp [h1, h2]

theorem foldl_erase_nodup (ks : List Nat) (m : AMap Nat V) (nd : AMap.Nodup m) :
    AMap.Nodup (ks.foldl (fun m k => AMap.erase m k) m) := by
  induction ks generalizing m with
  | nil => exact nd
  | cons a rest ih => exact ih _ (AMap.nodup_erase nd a)

theorem mem_doomed (n e k : Nat) : k ∈ (List.range (e - n)).map (fun i => n + 1 + i) ↔ n < k ∧ k ≤ e := by
  simp only [List.mem_map, List.mem_range]
  constructor
  · rintro ⟨i, hi, rfl⟩; omega
  · intro h; exact ⟨k - (n + 1), by omega, by omega⟩

/-- `reorg n`: rows above `n` are gone, the others are untouched. -/
theorem get_reorg (t : BlockDb V) (n k : Nat) : (t.reorg n).get k = if k ≤ n then t.get k else none := by
  unfold reorg
  cases hl : t.lastKey with
  | none => simp [get_eq_none_of_lastKey_none hl]
  | some e =>
    simp only [get, foldl_erase_get?, mem_doomed]
    by_cases hk : k ≤ n
    · have : ¬ (n < k ∧ k ≤ e) := by omega
      simp [hk, this]
    · simp only [hk, if_false]
      by_cases hke : k ≤ e
      · have : n < k ∧ k ≤ e := by omega
        simp [this]
      · have := get?_none_of_get_none (get_eq_none_of_lastKey_lt hl (by omega : e < k))
        simp [this.1, this.2]

theorem reorg_nodup (t : BlockDb V) (n : Nat) (nd : AMap.Nodup t.db ∧ AMap.Nodup t.cache) :
    AMap.Nodup (t.reorg n).db ∧ AMap.Nodup (t.reorg n).cache := by
  unfold reorg
  cases t.lastKey with
  | none => exact nd
  | some e => exact ⟨foldl_erase_nodup _ _ nd.1, foldl_erase_nodup _ _ nd.2⟩

/-- If the target row exists, it is the newest row after `reorg`. -/
theorem lastKey_of_get {t : BlockDb V} {n : Nat} (hex : t.get n ≠ none) (hab : ∀ k, n < k → t.get k = none) :
    t.lastKey = some n := by
  refine IsMaxOf.unique (lastKey_spec t) ⟨hex, ?_⟩
  intro k hk
  apply Decidable.byContradiction
  intro hlt
  exact hk (hab k (by omega))

end Brc20.BlockDb
