/-
Reachable states of the engine model (`Brc20.Model.Node`).

  * `Node.Reach n`          - `n` is the empty node or the result of any operation (any arguments, any recorded
                              events) on a reachable node, as long as the model answered `ok` or `err`.
  * `Node.ReachG n G`       - the same, carrying the ghost state `G` explicitly: `G.s i` is the plain per-key write
                              log (`TSpec`) of table `i`, advanced by exactly the writes / commits / clears /
                              rollbacks the model performs; `G.d i` is that log as of the last commit (what `clear`
                              and a reopen return to). One side condition, at `reorg` only: an accepted rollback
                              stays inside the window of the two pending-pool tables (`Op.inWindow`; for every
                              other table the engine's own acceptance test guarantees it, `RInv.window`).
  * `Node.RInv n G`         - the invariant: every table in simulation with its log (`Table.Sim`), now and after a
                              `clear`; every stamp at or below the height being built; block rows gap-free; the
                              windows (`maxEver`) bounded by the highest block ever finalised.
  * `ReachG.inv`, `Reach.inv`, `reach_sim`, `RInv.stamps`, `RInv.reorg_restores`, `reach_reorg_restores`.

Findings recorded here (details at the statements):
  * `(g i).maxEver ≤ n.nextHeight` and, at a block boundary, `(g i).maxEver ≤ n.latestHeight` are FALSE on
    reachable nodes (`maxEver` is never lowered by a rollback) - machine-checked counterexample in `Example`.
    True instead: `top ≤ nextHeight`, `maxEver ≤ max (maxBlock + 1) nextHeight`, and at a boundary, for the tables
    other than the pool tables, `top ≤ latestHeight` and `maxEver ≤ maxBlock`.
  * `Table.sim_reorg` without `n ≤ s.maxEver` is false as stated (the closing `commit n` of a rollback moves the
    window like any `commit n`); `Table.sim_reorg'` is the version without that hypothesis, `rollback_in_window'`
    (the reads) holds unchanged without it.
  * Two checks were missing in the model for these invariants to hold of every accepted event list; both are now in
    `Model/Node.lean`: a parked submission may only write the pool tables (`poolOnly`, reject `parked-wrote`), and
    a block-table row must be filed under its own stamp (`applyS`: `hexVal key = stamp`). (Two more were added
    for the block-table invariants of Proofs/ReachProps.lean: `noBlockWrites` in `addTxs`, `finOnly` in `finaliseOne`.)
  * After an accepted `reorg` that reaches below the window of a pool table (finding F10) and does not panic, the
    plain log of that table can no longer be shown to agree with the table from `Table.Sim` alone; `Reach.inv`
    continues such a table with the log of what it retained (`Table.selfSpec`), `ReachG` excludes such steps.
-/
import Brc20.Proofs.NodeSim
import Brc20.Proofs.Node
set_option linter.unusedSectionVars false

namespace Brc20
open Node

/-! ## Block tables: `set`, greatest key, contiguity -/

namespace BlockDb
variable {V : Type}

theorem get_set (t : BlockDb V) (n : Nat) (v : V) (k : Nat) :
    (t.set n v).get k = if k = n then some v else t.get k := by
  simp only [get, set, AMap.get?_insert]
  by_cases h : k = n <;> simp [h]

theorem clear_set (t : BlockDb V) (n : Nat) (v : V) : (t.set n v).clear = t.clear := rfl

theorem clear_clear (t : BlockDb V) : t.clear.clear = t.clear := rfl

/-- no gap below the newest row -/
def Contig (t : BlockDb V) : Prop := ∀ e, t.lastKey = some e → ∀ k, k ≤ e → t.get k ≠ none

/-- the number after the newest row (`0` for an empty table) -/
def nextOf : Option Nat → Nat
  | some k => k + 1
  | none => 0

theorem lastKey_set (t : BlockDb V) (n : Nat) (v : V) :
    (t.set n v).lastKey = some (match t.lastKey with | some e => max e n | none => n) := by
  have hs := lastKey_spec t
  cases hl : t.lastKey with
  | none =>
    rw [hl] at hs
    apply IsMaxOf.unique (lastKey_spec (t.set n v))
    show IsMaxOf _ (some n)
    refine ⟨by simp [get_set], ?_⟩
    intro k hk
    rw [get_set] at hk
    by_cases h : k = n
    · omega
    · simp only [h, if_false] at hk; exact absurd hk (hs k)
  | some e =>
    rw [hl] at hs
    apply IsMaxOf.unique (lastKey_spec (t.set n v))
    show IsMaxOf _ (some (max e n))
    refine ⟨?_, ?_⟩
    · show (t.set n v).get (max e n) ≠ none
      rw [get_set]
      by_cases h : max e n = n
      · simp [h]
      · simp only [h, if_false]
        have : max e n = e := by omega
        rw [this]; exact hs.1
    · intro k hk
      rw [get_set] at hk
      by_cases h : k = n
      · show k ≤ max e n
        omega
      · simp only [h, if_false] at hk
        have := hs.2 k hk
        show k ≤ max e n
        omega

theorem nextOf_lastKey_set (t : BlockDb V) (n : Nat) (v : V) : nextOf t.lastKey ≤ nextOf (t.set n v).lastKey := by
  rw [lastKey_set]
  cases t.lastKey with
  | none => simp [nextOf]
  | some e => simp only [nextOf]; omega

/-- writing the row right after the newest one (or any existing number) leaves no gap -/
theorem contig_set {t : BlockDb V} (c : Contig t) (n : Nat) (v : V) (hadj : n ≤ nextOf t.lastKey) :
    Contig (t.set n v) := by
  intro e he k hk
  rw [lastKey_set] at he
  rw [get_set]
  by_cases h : k = n
  · simp [h]
  · simp only [h, if_false]
    cases hl : t.lastKey with
    | none =>
      rw [hl] at he hadj
      simp only [nextOf] at hadj
      simp only [Option.some.injEq] at he
      omega
    | some e0 =>
      rw [hl] at he hadj
      simp only [nextOf] at hadj
      simp only [Option.some.injEq] at he
      exact c e0 hl k (by omega)

theorem contig_commit_clear {t : BlockDb V} (c : Contig t) : Contig t.commit.clear := by
  intro e he k hk
  rw [lastKey_commit_clear] at he
  rw [get_commit_clear]
  exact c e he k hk

theorem get_ne_none_le_lastKey {t : BlockDb V} {k : Nat} (h : t.get k ≠ none) : ∃ e, t.lastKey = some e ∧ k ≤ e := by
  have hs := lastKey_spec t
  cases hl : t.lastKey with
  | none => rw [hl] at hs; exact absurd h (hs k)
  | some e => rw [hl] at hs; exact ⟨e, rfl, hs.2 k h⟩

theorem lt_nextOf_of_get {t : BlockDb V} {k : Nat} (h : t.get k ≠ none) : k < nextOf t.lastKey := by
  obtain ⟨e, he, hk⟩ := get_ne_none_le_lastKey h
  rw [he]; simp only [nextOf]; omega

/-- after `reorg n` of a gap-free table whose newest row is at or above `n`, the newest row is `n` -/
theorem lastKey_reorg_of_contig {t : BlockDb V} (c : Contig t) {e n : Nat} (he : t.lastKey = some e) (hn : n ≤ e) :
    (t.reorg n).lastKey = some n := by
  apply lastKey_of_get
  · rw [get_reorg]; simp only [Nat.le_refl, if_true]; exact c e he n hn
  · intro k hk
    rw [get_reorg]
    have : ¬ k ≤ n := by omega
    simp [this]

theorem reorg_of_lastKey_none {t : BlockDb V} (h : t.lastKey = none) (n : Nat) : t.reorg n = t := by
  unfold reorg; rw [h]

theorem contig_reorg {t : BlockDb V} (c : Contig t) (n : Nat) : Contig (t.reorg n) := by
  intro e he k hk
  rw [get_reorg]
  have hs := lastKey_spec (t.reorg n)
  rw [he] at hs
  have h1 : (t.reorg n).get e ≠ none := hs.1
  rw [get_reorg] at h1
  by_cases hen : e ≤ n
  · simp only [hen, if_true] at h1
    have : k ≤ n := by omega
    simp only [this, if_true]
    obtain ⟨e0, he0, hle⟩ := get_ne_none_le_lastKey h1
    exact c e0 he0 k (by omega)
  · simp [hen] at h1

end BlockDb

namespace Table
variable {K V : Type} [DecidableEq K] [DecidableEq V]
open Hist

/-! ## A table as its own log

A table with an empty cache simulates the log made of its own persisted histories (each completed with an "absent"
entry at block 0 when pruning removed the oldest entries), as long as the window starts at or above every stamp.
This is what is left to say about a table after a rollback that reached below its window and did not panic. -/

/-- complete a history with an "absent at block 0" entry when it does not start at block 0 -/
def root (h : Hist V) : Hist V :=
  match h with
  | (0, _) :: _ => h
  | _ => (0, none) :: h

theorem rooted_root (h : Hist V) : Rooted (root h) := by
  unfold root
  split
  · rename_i v rest; exact ⟨v, rest, rfl⟩
  · exact ⟨none, h, rfl⟩

theorem ok_root {h : Hist V} {top : Nat} (o : Ok h top) : Ok (root h) top := by
  unfold root
  split
  · exact o
  · rename_i hno
    refine ⟨?_, ?_, by simp⟩
    · show List.Pairwise _ _
      rw [List.pairwise_cons]
      refine ⟨?_, o.sorted⟩
      intro e he
      show 0 < e.1
      cases h with
      | nil => cases he
      | cons e0 rest =>
        have h0 : 0 < e0.1 := by
          apply Nat.pos_of_ne_zero
          intro hz
          obtain ⟨a, b⟩ := e0
          simp only at hz
          subst hz
          exact hno b rest rfl
        rcases List.mem_cons.mp he with rfl | hr
        · exact h0
        · exact Nat.lt_trans h0 (o.sorted.head_lt e hr)
    · intro e he
      rcases List.mem_cons.mp he with rfl | hr
      · exact Nat.zero_le _
      · exact o.le e hr

theorem latest_root {h : Hist V} (hne : h ≠ []) : Hist.latest (root h) = Hist.latest h := by
  unfold root
  split
  · rfl
  · exact latest_cons_ne_nil hne

def selfSpec (t : Table K V) (top M : Nat) : TSpec K V :=
  { cur := fun k => root (disk t k), dur := fun k => root (disk t k), top := top, maxEver := M }

theorem sim_self {W : Nat} {t : Table K V} {top M : Nat} (i : Inv t top) (hc : t.cache = []) (hM : top + W ≤ M) :
    Sim W t (selfSpec t top M) := by
  have hok : ∀ k, Ok (root (disk t k)) top ∧ Rooted (root (disk t k)) :=
    fun k => ⟨ok_root (disk_ok i k).1, rooted_root _⟩
  have hd : ∀ k m, M ≤ m + W → valAt (disk t k) m = valAt (root (disk t k)) m := by
    intro k m hm
    have o := (disk_ok i k).1
    rw [o.valAt_top (by omega), (ok_root o).valAt_top (by omega), latest_root o.ne]
  refine ⟨i, hok, hok, by show top ≤ M; omega, ?_, hd⟩
  intro k m hm
  have : eff t k = disk t k := eff_uncached (by rw [hc]; rfl)
  rw [this]; exact hd k m hm

/-! ### `reorg` that did not panic, window or not -/

theorem reorgLoad_some_ne {t t1 : Table K V} {n : Nat} {ks : List K} (h : t.reorgLoad n ks = some t1) :
    ∀ k, k ∈ ks → (t.retrieve k).filter (fun e => decide (e.1 ≤ n)) ≠ [] := by
  induction ks generalizing t with
  | nil => intro k hk; cases hk
  | cons k0 ks ih =>
    simp only [reorgLoad] at h
    cases hr : (t.retrieve k0).reorg n with
    | none => rw [hr] at h; cases h
    | some h0 =>
      rw [hr] at h
      obtain ⟨rfl, hne⟩ := reorg_some hr
      intro k hk
      by_cases hkk : k = k0
      · subst hkk; exact hne
      · have hk' : k ∈ ks := by
          rcases List.mem_cons.mp hk with e | e
          · exact absurd e hkk
          · exact e
        have := ih h k hk'
        have r : ({ t with cache := t.cache.insert k0 ((t.retrieve k0).filter (fun e => decide (e.1 ≤ n))) } : Table K V).retrieve k
            = t.retrieve k := by
          simp [retrieve, AMap.get?_insert, hkk]
        rw [r] at this; exact this

theorem commit_cache (W b : Nat) (t : Table K V) : (t.commit W b).cache = [] := rfl

theorem inv_commit_of_inv (W b : Nat) {t : Table K V} {top : Nat} (i : Inv t top) : Inv (t.commit W b) top :=
  inv_commit W b i.cache_nodup i.cache_ok (fun k h _ hg => i.cdb_ok k h hg)

/-- a `reorg` that returns leaves a well-formed table whose stamps are all at or below the target -/
theorem reorg_inv_of_some {W : Nat} {t t' : Table K V} {top n : Nat} (i : Inv t top) (h : t.reorg W n = some t') :
    Inv t' (min top n) ∧ t'.cache = [] := by
  unfold Table.reorg at h
  cases hl : t.reorgLoad n t.reorgKeys with
  | none => rw [hl] at h; cases h
  | some t1 =>
    rw [hl] at h
    simp only [Option.some.injEq] at h
    subst h
    refine ⟨?_, rfl⟩
    have hne : ∀ k, (t.retrieve k).filter (fun e => decide (e.1 ≤ n)) ≠ [] := by
      intro k
      by_cases hk : k ∈ t.reorgKeys
      · exact reorgLoad_some_ne hl k hk
      · have hk' := (not_congr (mem_reorgKeys t k)).mp hk
        have hcdb : t.cdb.get? k = none := by
          cases hx : t.cdb.get? k with
          | none => rfl
          | some _ => exact absurd (Or.inl (by simp [hx])) hk'
        have hca : t.cache.get? k = none := by
          cases hx : t.cache.get? k with
          | none => rfl
          | some _ => exact absurd (Or.inr (by simp [hx])) hk'
        simp [retrieve, hca, hcdb, Hist.new]
    obtain ⟨t1', e1, e2, e3, e4, e5⟩ := reorgLoad_spec n t.reorgKeys t hne
    rw [hl, Option.some.injEq] at e1
    subst e1
    apply inv_commit W n (e4 i.cache_nodup)
    · intro k h0 hg
      rw [e5 k] at hg
      by_cases hk : k ∈ t.reorgKeys
      · simp only [hk, if_true, Option.some.injEq] at hg
        subst hg
        exact ok_filter (eff_ok i k) n (hne k)
      · simp only [hk, if_false] at hg
        have hk' := (not_congr (mem_reorgKeys t k)).mp hk
        exact absurd (Or.inr (by simp [hg])) hk'
    · intro k h0 hg hd
      rw [e5 k] at hg
      by_cases hk : k ∈ t.reorgKeys
      · simp [hk] at hg
      · have hk' := (not_congr (mem_reorgKeys t k)).mp hk
        rw [e3] at hd
        exact absurd (Or.inl (by simp [hd])) hk'

end Table

/-! ## Ghost state -/

abbrev GSpec := TId → TSpec String String

/-- `s i`: the plain log of table `i`; `d i`: that log as of the last commit (with the counters of that moment). -/
structure Ghost where
  s : GSpec
  d : GSpec

namespace Ghost

def init : Ghost := ⟨fun _ => TSpec.init, fun _ => TSpec.init⟩

/-- the table-API call a recorded write stands for -/
def wop (stamp : Nat) (key : String) : Option String → TOp String String
  | some v => .set stamp key v
  | none => .unset stamp key

/-- one table's log advanced by one API call -/
def upd (G : Ghost) (i : TId) (op : TOp String String) : Ghost :=
  { G with s := fun j => if j = i then (G.s i).step op else G.s j }

def applyS (G : Ghost) (table : String) (stamp : Nat) (key : String) (value : Option String) : Ghost :=
  match TId.ofName table with
  | some i => G.upd i (wop stamp key value)
  | none => G

/-- the recorded versioned-table writes of an operation, in order -/
def events (G : Ghost) : List Ev → Ghost
  | [] => G
  | .s tb st k v :: rest => events (G.applyS tb st k v) rest
  | _ :: rest => events G rest

def commit (G : Ghost) (nb : Nat) : Ghost :=
  let s' : GSpec := fun i => (G.s i).step (.commit nb)
  ⟨s', s'⟩

def clear (G : Ghost) : Ghost := ⟨G.d, G.d⟩

/-- `Brc20ProgDatabase::reorg`: every table rolled back to `target`, then `commit_changes` at `nb` -/
def reorg (G : Ghost) (target nb : Nat) : Ghost :=
  let s' : GSpec := fun i => ((G.s i).step (.reorg target)).step (.commit nb)
  ⟨s', s'⟩

end Ghost

namespace Node
open BlockDb (Contig nextOf)

/-- highest block ever finalised (`0` before the first) -/
def mb (n : Node) : Nat := n.maxBlock.getD 0

/-- the height the next block would get after a `clear` / reopen -/
def durNext (n : Node) : Nat := nextOf (n.b .numberToHash).clear.lastKey

/-- the height after a `clear` / reopen -/
def durLatest (n : Node) : Nat := ((n.b .numberToHash).clear.lastKey).getD 0

theorem nextHeight_eq (n : Node) :
    n.nextHeight = match n.latest with
      | some (h, _) => h + 1
      | none => nextOf (n.b .numberToHash).lastKey := by
  unfold nextHeight
  cases n.latest with
  | none => simp only []; cases (n.b .numberToHash).lastKey <;> rfl
  | some p => rfl

theorem latestHeight_eq (n : Node) :
    n.latestHeight = match n.latest with
      | some (h, _) => h
      | none => ((n.b .numberToHash).lastKey).getD 0 := rfl

/-- Invariant of every reachable node, relative to a stamp `e` (the height an operation in progress writes at;
between operations `e = n.nextHeight`). Nothing here depends on the block under construction (`lbi`). -/
structure CoreAt (n : Node) (G : Ghost) (e : Nat) : Prop where
  sim : ∀ i, Table.Sim W (n.t i) (G.s i)
  dsim : ∀ i, Table.Sim W (n.t i).clear (G.d i)
  top_le : ∀ i, (G.s i).top ≤ e
  e_le : e ≤ n.nextHeight
  dtop_le : ∀ i, (G.d i).top ≤ n.durNext
  latest_row : ∀ h x, n.latest = some (h, x) → (n.b .numberToHash).get h ≠ none
  contig : Contig (n.b .numberToHash)
  dcontig : Contig (n.b .numberToHash).clear
  rows_le : ∀ k, (n.b .numberToHash).get k ≠ none → k ≤ max n.mb e
  drows_le : ∀ k, (n.b .numberToHash).clear.get k ≠ none → k ≤ n.mb
  me_le : ∀ i, (G.s i).maxEver ≤ max (n.mb + 1) e
  me_np : ∀ i, i ∉ poolTables → (G.s i).maxEver ≤ max n.mb e
  dme_le : ∀ i, (G.d i).maxEver ≤ max (n.mb + 1) n.durNext
  dme_np : ∀ i, i ∉ poolTables → (G.d i).maxEver ≤ n.mb
  dur_coh : ∀ i, (G.d i).cur = (G.s i).dur ∧ (G.d i).dur = (G.s i).dur
  dtop_np : ∀ i, i ∉ poolTables → (G.d i).top ≤ n.durLatest

/-- At a block boundary: no row above the highest finalised block, no table other than the pending pool has
been written or committed above it, and no such table holds a stamp above the current height. -/
def Bdry (n : Node) (G : Ghost) : Prop :=
  n.lbi.waiting = 0 →
    (∀ k, (n.b .numberToHash).get k ≠ none → k ≤ n.mb) ∧ (∀ i, i ∉ poolTables → (G.s i).maxEver ≤ n.mb) ∧
    (∀ i, i ∉ poolTables → (G.s i).top ≤ n.latestHeight)

/-- The invariant of reachable nodes. -/
structure RInv (n : Node) (G : Ghost) : Prop where
  core : CoreAt n G n.nextHeight
  bdry : Bdry n G

theorem nextHeight_le_nextOf {n : Node}
    (hl : ∀ h x, n.latest = some (h, x) → (n.b .numberToHash).get h ≠ none) :
    n.nextHeight ≤ nextOf (n.b .numberToHash).lastKey := by
  rw [nextHeight_eq]
  cases hlat : n.latest with
  | none => exact Nat.le_refl _
  | some p =>
    obtain ⟨h, x⟩ := p
    have := BlockDb.lt_nextOf_of_get (hl h x hlat)
    simp only []; omega

theorem latestHeight_le_lastKey {n : Node}
    (hl : ∀ h x, n.latest = some (h, x) → (n.b .numberToHash).get h ≠ none) :
    n.latestHeight ≤ ((n.b .numberToHash).lastKey).getD 0 := by
  rw [latestHeight_eq]
  cases hlat : n.latest with
  | none => exact Nat.le_refl _
  | some p =>
    obtain ⟨h, x⟩ := p
    obtain ⟨e, he, hle⟩ := BlockDb.get_ne_none_le_lastKey (hl h x hlat)
    rw [he]; exact hle

theorem CoreAt.mono {n : Node} {G : Ghost} {e e' : Nat} (h : CoreAt n G e) (h1 : e ≤ e') (h2 : e' ≤ n.nextHeight) :
    CoreAt n G e' :=
  { h with
    top_le := fun i => Nat.le_trans (h.top_le i) h1
    e_le := h2
    rows_le := fun k hk => by have := h.rows_le k hk; omega
    me_le := fun i => by have := h.me_le i; omega
    me_np := fun i hi => by have := h.me_np i hi; omega }

/-- the block under construction plays no role in `CoreAt` -/
theorem CoreAt.lbi {n : Node} {G : Ghost} {e : Nat} (h : CoreAt n G e) (l : Lbi) : CoreAt { n with lbi := l } G e :=
  ⟨h.sim, h.dsim, h.top_le, h.e_le, h.dtop_le, h.latest_row, h.contig, h.dcontig, h.rows_le, h.drows_le, h.me_le,
    h.me_np, h.dme_le, h.dme_np, h.dur_coh, h.dtop_np⟩

/-! ### one recorded write -/

theorem _root_.Brc20.Table.step_wop_clear {t t' : Table String String} {b : Nat} {k : String} {x : Option String}
    (h : t.step W (Ghost.wop b k x) = some t') : t'.clear = t.clear := by
  cases x with
  | some v =>
    simp only [Ghost.wop, Table.step, Table.set] at h
    split at h
    · cases h; rfl
    · cases h
  | none =>
    simp only [Ghost.wop, Table.step, Table.unset] at h
    split at h
    · cases h; rfl
    · cases h

theorem wop_top (s : TSpec String String) (e : Nat) (k : String) (x : Option String) :
    (s.step (Ghost.wop e k x)).top = e := by cases x <;> rfl

theorem wop_maxEver (s : TSpec String String) (e : Nat) (k : String) (x : Option String) :
    (s.step (Ghost.wop e k x)).maxEver = max s.maxEver e := by cases x <;> rfl

theorem wop_dur (s : TSpec String String) (e : Nat) (k : String) (x : Option String) :
    (s.step (Ghost.wop e k x)).dur = s.dur := by cases x <;> rfl

theorem wop_legal {s : TSpec String String} {e : Nat} (h : s.top ≤ e) (k : String) (x : Option String) :
    TSpec.legal W s (Ghost.wop e k x) := by cases x <;> exact h

/-- a versioned-table write stamped `e` -/
theorem CoreAt.write {n : Node} {G : Ghost} {e : Nat} (h : CoreAt n G e) (i : TId) (key : String)
    (value : Option String) {t' : Table String String}
    (ht : (n.t i).step W (Ghost.wop e key value) = some t') :
    CoreAt (n.setT i t') (G.upd i (Ghost.wop e key value)) e := by
  have hT : ∀ j, (n.setT i t').t j = if j = i then t' else n.t j := fun _ => rfl
  have hS : ∀ j, (G.upd i (Ghost.wop e key value)).s j =
      if j = i then (G.s i).step (Ghost.wop e key value) else G.s j := fun _ => rfl
  refine ⟨?_, ?_, ?_, h.e_le, h.dtop_le, h.latest_row, h.contig, h.dcontig, h.rows_le, h.drows_le, ?_, ?_,
    h.dme_le, h.dme_np, ?_, h.dtop_np⟩
  · intro j
    rw [hT, hS]
    by_cases hj : j = i
    · subst hj
      simp only [if_true]
      obtain ⟨t'', e1, s1⟩ := Table.step_sim (h.sim j) _ (wop_legal (h.top_le j) key value)
      rw [ht] at e1; cases e1; exact s1
    · simp only [hj, if_false]; exact h.sim j
  · intro j
    rw [hT]
    show Table.Sim W _ (G.d j)
    by_cases hj : j = i
    · subst hj
      simp only [if_true]
      rw [Table.step_wop_clear ht]; exact h.dsim j
    · simp only [hj, if_false]; exact h.dsim j
  · intro j
    rw [hS]
    by_cases hj : j = i
    · simp only [hj, if_true, wop_top]; exact Nat.le_refl _
    · simp only [hj, if_false]; exact h.top_le j
  · intro j
    rw [hS]
    by_cases hj : j = i
    · subst hj
      simp only [if_true, wop_maxEver]
      have := h.me_le j
      show max _ e ≤ max (n.mb + 1) e
      omega
    · simp only [hj, if_false]; exact h.me_le j
  · intro j hp
    rw [hS]
    by_cases hj : j = i
    · subst hj
      simp only [if_true, wop_maxEver]
      have := h.me_np j hp
      show max _ e ≤ max n.mb e
      omega
    · simp only [hj, if_false]; exact h.me_np j hp
  · intro j
    rw [hS]
    show (G.d j).cur = _ ∧ (G.d j).dur = _
    by_cases hj : j = i
    · subst hj
      simp only [if_true, wop_dur]; exact h.dur_coh j
    · simp only [hj, if_false]; exact h.dur_coh j

/-- a block-table row filed under the stamp `e` -/
theorem CoreAt.row {n : Node} {G : Ghost} {e : Nat} (h : CoreAt n G e) (bi : BId) (v : String) :
    CoreAt (n.setB bi ((n.b bi).set e v)) G e := by
  by_cases hb : bi = .numberToHash
  · subst hb
    have hB : (n.setB .numberToHash ((n.b .numberToHash).set e v)).b .numberToHash = (n.b .numberToHash).set e v := by
      simp [setB]
    have hadj : e ≤ nextOf (n.b .numberToHash).lastKey := Nat.le_trans h.e_le (nextHeight_le_nextOf h.latest_row)
    refine ⟨h.sim, h.dsim, h.top_le, ?_, ?_, ?_, ?_, ?_, ?_, ?_, h.me_le, h.me_np, ?_, h.dme_np, h.dur_coh, ?_⟩
    · -- e ≤ nextHeight
      have h0 := h.e_le
      rw [nextHeight_eq] at h0 ⊢
      show e ≤ match n.latest with
        | some (h, _) => h + 1
        | none => nextOf ((n.setB .numberToHash ((n.b .numberToHash).set e v)).b .numberToHash).lastKey
      rw [hB]
      cases hl : n.latest with
      | some p => rw [hl] at h0; exact h0
      | none =>
        rw [hl] at h0
        simp only [] at h0 ⊢
        exact Nat.le_trans h0 (BlockDb.nextOf_lastKey_set _ e v)
    · show ∀ i, (G.d i).top ≤ nextOf ((n.setB .numberToHash ((n.b .numberToHash).set e v)).b .numberToHash).clear.lastKey
      rw [hB, BlockDb.clear_set]; exact h.dtop_le
    · intro h' x hl
      show ((n.setB .numberToHash ((n.b .numberToHash).set e v)).b .numberToHash).get h' ≠ none
      rw [hB, BlockDb.get_set]
      by_cases hh : h' = e
      · simp [hh]
      · simp only [hh, if_false]; exact h.latest_row h' x hl
    · show Contig ((n.setB .numberToHash ((n.b .numberToHash).set e v)).b .numberToHash)
      rw [hB]; exact BlockDb.contig_set h.contig e v hadj
    · show Contig ((n.setB .numberToHash ((n.b .numberToHash).set e v)).b .numberToHash).clear
      rw [hB, BlockDb.clear_set]; exact h.dcontig
    · intro k
      show ((n.setB .numberToHash ((n.b .numberToHash).set e v)).b .numberToHash).get k ≠ none → k ≤ max n.mb e
      rw [hB, BlockDb.get_set]
      by_cases hk : k = e
      · intro _; omega
      · simp only [hk, if_false]; exact h.rows_le k
    · intro k
      show ((n.setB .numberToHash ((n.b .numberToHash).set e v)).b .numberToHash).clear.get k ≠ none → k ≤ n.mb
      rw [hB, BlockDb.clear_set]; exact h.drows_le k
    · show ∀ i, (G.d i).maxEver ≤ max (n.mb + 1)
        (nextOf ((n.setB .numberToHash ((n.b .numberToHash).set e v)).b .numberToHash).clear.lastKey)
      rw [hB, BlockDb.clear_set]; exact h.dme_le
    · show ∀ i, i ∉ poolTables → (G.d i).top ≤
        (((n.setB .numberToHash ((n.b .numberToHash).set e v)).b .numberToHash).clear.lastKey).getD 0
      rw [hB, BlockDb.clear_set]; exact h.dtop_np
  · have hB : (n.setB bi ((n.b bi).set e v)).b .numberToHash = n.b .numberToHash := by
      have : BId.numberToHash ≠ bi := fun x => hb x.symm
      simp [setB, this]
    have hN : (n.setB bi ((n.b bi).set e v)).nextHeight = n.nextHeight := by
      rw [nextHeight_eq, nextHeight_eq]
      show (match n.latest with
        | some (h, _) => h + 1
        | none => nextOf ((n.setB bi ((n.b bi).set e v)).b .numberToHash).lastKey) = _
      rw [hB]
    have hD : (n.setB bi ((n.b bi).set e v)).durNext = n.durNext := by
      show nextOf ((n.setB bi ((n.b bi).set e v)).b .numberToHash).clear.lastKey = _
      rw [hB]; rfl
    refine ⟨h.sim, h.dsim, h.top_le, ?_, ?_, ?_, ?_, ?_, ?_, ?_, h.me_le, h.me_np, ?_, h.dme_np, h.dur_coh, ?_⟩
    · rw [hN]; exact h.e_le
    · rw [hD]; exact h.dtop_le
    · intro h' x hl
      show ((n.setB bi ((n.b bi).set e v)).b .numberToHash).get h' ≠ none
      rw [hB]; exact h.latest_row h' x hl
    · show Contig ((n.setB bi ((n.b bi).set e v)).b .numberToHash)
      rw [hB]; exact h.contig
    · show Contig ((n.setB bi ((n.b bi).set e v)).b .numberToHash).clear
      rw [hB]; exact h.dcontig
    · intro k
      show ((n.setB bi ((n.b bi).set e v)).b .numberToHash).get k ≠ none → _
      rw [hB]; exact h.rows_le k
    · intro k
      show ((n.setB bi ((n.b bi).set e v)).b .numberToHash).clear.get k ≠ none → _
      rw [hB]; exact h.drows_le k
    · rw [hD]; exact h.dme_le
    · show ∀ i, i ∉ poolTables → (G.d i).top ≤ (((n.setB bi ((n.b bi).set e v)).b .numberToHash).clear.lastKey).getD 0
      rw [hB]; exact h.dtop_np

/-! ### the recorded events of one operation -/

theorem CoreAt.applyS {n n' : Node} {G : Ghost} {e : Nat} (h : CoreAt n G e) {tb : String} {st : Nat} {k : String}
    {v : Option String} (ha : n.applyS e tb st k v = some n') : CoreAt n' (G.applyS tb st k v) e := by
  unfold Node.applyS at ha
  split at ha
  · cases ha
  · rename_i hst
    have hst : st = e := Decidable.not_not.mp hst
    subst hst
    cases hT : TId.ofName tb with
    | some i =>
      rw [hT] at ha
      have hG : G.applyS tb st k v = G.upd i (Ghost.wop st k v) := by simp [Ghost.applyS, hT]
      rw [hG]
      have : ∃ t', (n.t i).step W (Ghost.wop st k v) = some t' ∧ n' = n.setT i t' := by
        cases v with
        | some v =>
          simp only [Option.map_eq_some_iff] at ha
          obtain ⟨t', e1, e2⟩ := ha
          exact ⟨t', e1, e2.symm⟩
        | none =>
          simp only [Option.map_eq_some_iff] at ha
          obtain ⟨t', e1, e2⟩ := ha
          exact ⟨t', e1, e2.symm⟩
      obtain ⟨t', e1, rfl⟩ := this
      exact h.write i k v e1
    | none =>
      rw [hT] at ha
      have hG : G.applyS tb st k v = G := by simp [Ghost.applyS, hT]
      rw [hG]
      simp only [] at ha
      split at ha
      · split at ha
        · rename_i hk
          cases ha
          rw [hk]
          exact h.row _ _
        · cases ha
      · cases ha

theorem CoreAt.events {n n' : Node} {G : Ghost} {e : Nat} {evs : List Ev} (h : CoreAt n G e)
    (ha : applyEvents n e evs = some n') : CoreAt n' (G.events evs) e := by
  induction evs generalizing n G with
  | nil => simp only [applyEvents] at ha; cases ha; exact h
  | cons ev rest ih =>
    cases ev with
    | s tb st k v =>
      simp only [applyEvents] at ha
      split at ha
      · rename_i n1 h1
        exact ih (h.applyS h1) ha
      · cases ha
    | x kind fs okRun succ gas logs => simp only [applyEvents] at ha; exact ih h ha
    | other => simp only [applyEvents] at ha; exact ih h ha

/-! ### events that only touch the pending pool -/

theorem pool_name {tb : String} (h : poolTables.any (fun i => tb == i.name) = true) :
    ∃ i, i ∈ poolTables ∧ TId.ofName tb = some i := by
  simp only [poolTables, List.any_cons, List.any_nil, Bool.or_false, Bool.or_eq_true, beq_iff_eq] at h
  rcases h with h | h
  · subst h; exact ⟨.pending, by decide, by decide⟩
  · subst h; exact ⟨.pendingTxid, by decide, by decide⟩

theorem applyS_pool_frame {n n' : Node} {e : Nat} {tb : String} {st : Nat} {k : String} {v : Option String}
    (hp : poolTables.any (fun i => tb == i.name) = true) (ha : n.applyS e tb st k v = some n') :
    n'.b = n.b := by
  obtain ⟨i, _, hi⟩ := pool_name hp
  unfold Node.applyS at ha
  split at ha
  · cases ha
  · rw [hi] at ha
    cases v with
    | some v =>
      simp only [Option.map_eq_some_iff] at ha
      obtain ⟨t', _, rfl⟩ := ha; rfl
    | none =>
      simp only [Option.map_eq_some_iff] at ha
      obtain ⟨t', _, rfl⟩ := ha; rfl

theorem applyEvents_pool_frame {n n' : Node} {e : Nat} {evs : List Ev} (hp : poolOnly evs = true)
    (ha : applyEvents n e evs = some n') : n'.b = n.b := by
  induction evs generalizing n with
  | nil => simp only [applyEvents] at ha; cases ha; rfl
  | cons ev rest ih =>
    simp only [poolOnly, List.all_cons, Bool.and_eq_true] at hp
    have hrest : poolOnly rest = true := hp.2
    cases ev with
    | s tb st k v =>
      simp only [applyEvents] at ha
      split at ha
      · rename_i n1 h1
        rw [ih hrest ha, applyS_pool_frame hp.1 h1]
      · cases ha
    | x kind fs okRun succ gas logs => simp only [applyEvents] at ha; exact ih hrest ha
    | other => simp only [applyEvents] at ha; exact ih hrest ha

theorem _root_.Brc20.Ghost.applyS_pool_frame (G : Ghost) {tb : String} (st : Nat) (k : String) (v : Option String)
    (hp : poolTables.any (fun i => tb == i.name) = true) {j : TId} (hj : j ∉ poolTables) :
    (G.applyS tb st k v).s j = G.s j := by
  obtain ⟨i, hi, hT⟩ := pool_name hp
  have : j ≠ i := fun x => hj (x ▸ hi)
  simp [Ghost.applyS, hT, Ghost.upd, this]

theorem _root_.Brc20.Ghost.events_pool_frame (G : Ghost) {evs : List Ev} (hp : poolOnly evs = true) {j : TId}
    (hj : j ∉ poolTables) : (G.events evs).s j = G.s j := by
  induction evs generalizing G with
  | nil => rfl
  | cons ev rest ih =>
    simp only [poolOnly, List.all_cons, Bool.and_eq_true] at hp
    have hrest : poolOnly rest = true := hp.2
    cases ev with
    | s tb st k v =>
      simp only [Ghost.events]
      rw [ih _ hrest, Ghost.applyS_pool_frame G st k v hp.1 hj]
    | x kind fs okRun succ gas logs => simp only [Ghost.events]; exact ih G hrest
    | other => simp only [Ghost.events]; exact ih G hrest

/-! ### finalise, commit, clear -/

/-- at a block boundary the height being built is at most one above the highest finalised block -/
theorem RInv.next_le {n : Node} {G : Ghost} (h : RInv n G) (hw : n.lbi.waiting = 0) : n.nextHeight ≤ n.mb + 1 := by
  have h1 := nextHeight_le_nextOf h.core.latest_row
  have hs := BlockDb.lastKey_spec (n.b .numberToHash)
  cases hl : (n.b .numberToHash).lastKey with
  | none => rw [hl] at h1; simp only [nextOf] at h1; omega
  | some e =>
    rw [hl] at h1 hs
    have := (h.bdry hw).1 e hs.1
    simp only [nextOf] at h1; omega

/-- the bookkeeping of `finalise_block` after its writes: height, highest block, empty block under construction -/
theorem CoreAt.finalise {n : Node} {G : Ghost} {bn : Nat} (h : CoreAt n G bn) (hash : String) (mx : Option Nat)
    (hmx : mx.getD 0 = max n.mb bn) (hrow : (n.b .numberToHash).get bn ≠ none) :
    RInv { n with latest := some (bn, hash), maxBlock := mx, lbi := {} } G := by
  have hmb : ({ n with latest := some (bn, hash), maxBlock := mx, lbi := {} } : Node).mb = max n.mb bn := hmx
  have hnx : ({ n with latest := some (bn, hash), maxBlock := mx, lbi := {} } : Node).nextHeight = bn + 1 := rfl
  have hdn : ({ n with latest := some (bn, hash), maxBlock := mx, lbi := {} } : Node).durNext = n.durNext := rfl
  refine ⟨⟨h.sim, h.dsim, ?_, ?_, h.dtop_le, ?_, h.contig, h.dcontig, ?_, ?_, ?_, ?_, ?_, ?_, h.dur_coh, h.dtop_np⟩, ?_⟩
  · intro i; rw [hnx]; have := h.top_le i; omega
  · exact Nat.le_refl _
  · intro h' x hl
    simp only [Option.some.injEq, Prod.mk.injEq] at hl
    rw [← hl.1]; exact hrow
  · intro k hk; rw [hmb, hnx]; have := h.rows_le k hk; omega
  · intro k hk; rw [hmb]; have := h.drows_le k hk; omega
  · intro i; rw [hmb, hnx]; have := h.me_le i; omega
  · intro i hi; rw [hmb, hnx]; have := h.me_np i hi; omega
  · intro i; rw [hmb, hdn]; have := h.dme_le i; omega
  · intro i hi; rw [hmb]; have := h.dme_np i hi; omega
  · intro _
    refine ⟨?_, ?_, ?_⟩
    · intro k hk; rw [hmb]; exact h.rows_le k hk
    · intro i hi; rw [hmb]; exact h.me_np i hi
    · intro i _; exact h.top_le i

theorem _root_.Brc20.Table.clear_commit (t : Table String String) (b : Nat) : (t.commit W b).clear = t.commit W b := rfl

theorem _root_.Brc20.Table.clear_clear (t : Table String String) : t.clear.clear = t.clear := rfl

/-- `commit_changes` at a block boundary -/
theorem RInv.commitAll {n : Node} {G : Ghost} (h : RInv n G) (hw : n.lbi.waiting = 0) :
    RInv n.commitAll (G.commit n.nextHeight) := by
  have hc := h.core
  have hb := h.bdry hw
  have hB : (n.commitAll.b .numberToHash) = (n.b .numberToHash).commit.clear := rfl
  have hnx : n.commitAll.nextHeight = nextOf (n.b .numberToHash).lastKey := by
    rw [nextHeight_eq]
    show nextOf (n.commitAll.b .numberToHash).lastKey = _
    rw [hB, BlockDb.lastKey_commit_clear]
  have hdn : n.commitAll.durNext = nextOf (n.b .numberToHash).lastKey := by
    show nextOf (n.commitAll.b .numberToHash).clear.lastKey = _
    rw [hB, BlockDb.clear_clear, BlockDb.lastKey_commit_clear]
  have hmb : n.commitAll.mb = n.mb := rfl
  have hN : n.nextHeight ≤ nextOf (n.b .numberToHash).lastKey := nextHeight_le_nextOf hc.latest_row
  have hnb : n.nextHeight - 1 ≤ n.mb := by have := h.next_le hw; omega
  have hS : ∀ i, Table.Sim W (n.commitAll.t i) ((G.commit n.nextHeight).s i) :=
    fun i => Table.sim_commit (hc.sim i) n.nextHeight
  have hme : ∀ i, ((G.commit n.nextHeight).s i).maxEver = max (G.s i).maxEver (n.nextHeight - 1) := fun _ => rfl
  have hrows : ∀ k, (n.commitAll.b .numberToHash).get k ≠ none → k ≤ n.mb := by
    intro k; rw [hB, BlockDb.get_commit_clear]; exact hb.1 k
  have hlh : n.commitAll.latestHeight = ((n.b .numberToHash).lastKey).getD 0 := by
    rw [latestHeight_eq]
    show ((n.commitAll.b .numberToHash).lastKey).getD 0 = _
    rw [hB, BlockDb.lastKey_commit_clear]
  have hdl : n.commitAll.durLatest = ((n.b .numberToHash).lastKey).getD 0 := by
    show ((n.commitAll.b .numberToHash).clear.lastKey).getD 0 = _
    rw [hB, BlockDb.clear_clear, BlockDb.lastKey_commit_clear]
  have htop : ∀ i, i ∉ poolTables → (G.s i).top ≤ ((n.b .numberToHash).lastKey).getD 0 :=
    fun i hi => Nat.le_trans (hb.2.2 i hi) (latestHeight_le_lastKey hc.latest_row)
  refine ⟨⟨hS, ?_, ?_, Nat.le_refl _, ?_, ?_, ?_, ?_, ?_, ?_, ?_, ?_, ?_, ?_, ?_, ?_⟩, ?_⟩
  · intro i
    show Table.Sim W ((n.t i).commit W n.nextHeight).clear _
    rw [Table.clear_commit]; exact hS i
  · intro i; rw [hnx]; exact Nat.le_trans (hc.top_le i) hN
  · intro i; rw [hdn]; exact Nat.le_trans (hc.top_le i) hN
  · intro h' x hl; cases hl
  · rw [hB]; exact BlockDb.contig_commit_clear hc.contig
  · rw [hB, BlockDb.clear_clear]; exact BlockDb.contig_commit_clear hc.contig
  · intro k hk; rw [hmb]; have := hrows k hk; omega
  · intro k; rw [hB, BlockDb.clear_clear, ← hB, hmb]; exact hrows k
  · intro i; rw [hme, hmb, hnx]; have := hc.me_le i; omega
  · intro i hi; rw [hme, hmb, hnx]; have := hb.2.1 i hi; omega
  · intro i; rw [hmb, hdn]; show ((G.commit n.nextHeight).s i).maxEver ≤ _
    rw [hme]; have := hc.me_le i; omega
  · intro i hi; rw [hmb]; show ((G.commit n.nextHeight).s i).maxEver ≤ _
    rw [hme]; have := hb.2.1 i hi; omega
  · intro i; exact ⟨rfl, rfl⟩
  · intro i hi; rw [hdl]; exact htop i hi
  · intro _
    refine ⟨fun k hk => by rw [hmb]; exact hrows k hk, ?_, ?_⟩
    · intro i hi; rw [hme, hmb]; have := hb.2.1 i hi; omega
    · intro i hi; rw [hlh]; exact htop i hi

/-- `clear_caches` / stop + reopen -/
theorem RInv.clear {n : Node} {G : Ghost} (h : RInv n G) : RInv (n.clear).1 G.clear := by
  have hc := h.core
  have hnx : (n.clear).1.nextHeight = n.durNext := by rw [nextHeight_eq]; rfl
  have hdn : (n.clear).1.durNext = n.durNext := rfl
  have hmb : (n.clear).1.mb = n.mb := rfl
  have hlh : (n.clear).1.latestHeight = n.durLatest := rfl
  have hdl : (n.clear).1.durLatest = n.durLatest := rfl
  refine ⟨⟨hc.dsim, ?_, ?_, Nat.le_refl _, ?_, ?_, hc.dcontig, hc.dcontig, ?_, ?_, ?_, ?_, ?_, ?_, ?_, ?_⟩, ?_⟩
  · intro i
    show Table.Sim W (n.t i).clear.clear (G.d i)
    rw [Table.clear_clear]; exact hc.dsim i
  · intro i; rw [hnx]; exact hc.dtop_le i
  · intro i; rw [hdn]; exact hc.dtop_le i
  · intro h' x hl; cases hl
  · intro k hk; rw [hmb]; have := hc.drows_le k hk; omega
  · intro k hk; rw [hmb]; exact hc.drows_le k hk
  · intro i; rw [hmb, hnx]; exact hc.dme_le i
  · intro i hi; rw [hmb]; have := hc.dme_np i hi; show (G.d i).maxEver ≤ _; omega
  · intro i; rw [hmb, hdn]; exact hc.dme_le i
  · intro i hi; rw [hmb]; exact hc.dme_np i hi
  · intro i
    show (G.d i).cur = (G.d i).dur ∧ (G.d i).dur = (G.d i).dur
    have := hc.dur_coh i
    exact ⟨this.1.trans this.2.symm, rfl⟩
  · intro i hi; rw [hdl]; exact hc.dtop_np i hi
  · intro _
    refine ⟨fun k hk => by rw [hmb]; exact hc.drows_le k hk, ?_, ?_⟩
    · intro i hi; rw [hmb]; exact hc.dme_np i hi
    · intro i hi; rw [hlh]; exact hc.dtop_np i hi

/-! ### reorg -/

/-- the height `Brc20ProgDatabase::reorg` hands to its closing `commit_changes` -/
def reorgNb (n : Node) (target : Nat) : Nat :=
  match n.latest with
  | some (h, _) => h + 1
  | none => nextOf ((n.b .numberToHash).reorg target).lastKey

/-- the table phase of `reorg`, for any per-table postcondition -/
theorem reorgTables_post (n : Node) (target : Nat) (P : TId → Table String String → Prop)
    (hstep : ∀ i, ∃ t', (n.t i).reorg W target = some t' ∧ P i t') :
    ∃ n1, reorgTables n target allTIds = some n1 ∧ (∀ i, (n.t i).reorg W target = some (n1.t i)) ∧
      (∀ i, P i (n1.t i)) ∧ n1.b = n.b ∧ n1.latest = n.latest ∧ n1.lbi = n.lbi ∧ n1.maxBlock = n.maxBlock := by
  let f : TId → Table String String := fun i => ((n.t i).reorg W target).getD (n.t i)
  have hf : ∀ i, (n.t i).reorg W target = some (f i) := by
    intro i
    obtain ⟨t', e, _⟩ := hstep i
    simp [f, e]
  obtain ⟨n1, e1, e2, e3⟩ := reorgTables_all target n f hf
  refine ⟨n1, e1, ?_, ?_, e3⟩
  · intro i; rw [e2 i]; exact hf i
  · intro i
    obtain ⟨t', e, p⟩ := hstep i
    rw [e2 i]
    have : f i = t' := by simp [f, e]
    rw [this]; exact p

/-- what the block tables look like around an accepted `reorg` -/
theorem reorg_heights {n : Node} {G : Ghost} (h : RInv n G) {target : Nat} (_hw : n.lbi.waiting = 0)
    (ht : target ≤ n.latestHeight) :
    (∀ i, min (G.s i).top target ≤ nextOf ((n.b .numberToHash).reorg target).lastKey) ∧
    target ≤ reorgNb n target ∧ reorgNb n target ≤ n.nextHeight ∧
    (∀ i, min (G.s i).top target ≤ (((n.b .numberToHash).reorg target).lastKey).getD 0) := by
  have hc := h.core
  have hs := BlockDb.lastKey_spec (n.b .numberToHash)
  cases hl : (n.b .numberToHash).lastKey with
  | none =>
    have hlat : n.latest = none := by
      cases hx : n.latest with
      | none => rfl
      | some p =>
        obtain ⟨a, b⟩ := p
        exact absurd (BlockDb.get_eq_none_of_lastKey_none hl a) (hc.latest_row a b hx)
    have hnx : n.nextHeight = 0 := by rw [nextHeight_eq, hlat, hl]; rfl
    have hlh : n.latestHeight = 0 := by rw [latestHeight_eq, hlat, hl]; rfl
    have hre := BlockDb.reorg_of_lastKey_none hl target
    refine ⟨?_, ?_, ?_, ?_⟩
    · intro i; have := hc.top_le i; omega
    · omega
    · unfold reorgNb; rw [hlat, hre, hl, hnx]; exact Nat.le_refl _
    · intro i; have := hc.top_le i; omega
  | some e0 =>
    rw [hl] at hs
    have hle : n.latestHeight ≤ e0 ∧ n.nextHeight ≤ e0 + 1 := by
      have := nextHeight_le_nextOf hc.latest_row
      rw [hl] at this
      rw [nextHeight_eq] at this
      rw [latestHeight_eq]
      cases hx : n.latest with
      | none => rw [hx] at this; simp only [hl, Option.getD_some]; exact ⟨Nat.le_refl _, by rw [nextHeight_eq, hx, hl]; exact Nat.le_refl _⟩
      | some p =>
        obtain ⟨a, b⟩ := p
        rw [hx] at this
        simp only [nextOf] at this ⊢
        refine ⟨by omega, ?_⟩
        rw [nextHeight_eq, hx]; simp only []; omega
    have hlk := BlockDb.lastKey_reorg_of_contig hc.contig hl (Nat.le_trans ht hle.1)
    refine ⟨?_, ?_, ?_, ?_⟩
    · intro i; rw [hlk]; simp only [nextOf]; omega
    · unfold reorgNb
      rw [latestHeight_eq] at ht
      cases hx : n.latest with
      | none => simp only [hlk, nextOf]; omega
      | some p => obtain ⟨a, b⟩ := p; rw [hx] at ht; simp only [] at ht ⊢; omega
    · unfold reorgNb
      rw [nextHeight_eq]
      rw [latestHeight_eq] at ht
      cases hx : n.latest with
      | none => rw [hx] at ht; simp only [hlk, hl, nextOf, Option.getD_some] at ht ⊢; omega
      | some p => obtain ⟨a, b⟩ := p; exact Nat.le_refl _
    · intro i; rw [hlk]; simp only [Option.getD_some]; omega

/-- The invariant after an accepted `reorg`, for any ghost `S` that the rolled-back and re-committed tables
simulate and that carries the counters of `Ghost.reorg`. -/
theorem RInv.after_reorg {n : Node} {G : Ghost} (h : RInv n G) {target : Nat} (hnr : ¬ Refused n target)
    {n1 : Node} (eb : n1.b = n.b) (el : n1.latest = n.latest) (_elbi : n1.lbi = n.lbi)
    (emx : n1.maxBlock = n.maxBlock) (S : GSpec)
    (hS : ∀ i, Table.Sim W ((n1.t i).commit W (reorgNb n target)) (S i))
    (htop : ∀ i, (S i).top = min (G.s i).top target)
    (hme : ∀ i, (S i).maxEver = max (G.s i).maxEver (reorgNb n target - 1))
    (hcoh : ∀ i, (S i).cur = (S i).dur) :
    RInv ({ n1 with b := fun i => (n1.b i).reorg target } : Node).commitAll ⟨S, S⟩ := by
  have hc := h.core
  simp only [Refused, not_or] at hnr
  obtain ⟨hw, ht, _, hmbt⟩ := hnr
  have hw : n.lbi.waiting = 0 := Decidable.not_not.mp hw
  have ht : target ≤ n.latestHeight := by omega
  have hb := h.bdry hw
  obtain ⟨hF1, hF2, hF3, hF4⟩ := reorg_heights h hw ht
  have hnext := h.next_le hw
  have hnb : ({ n1 with b := fun i => (n1.b i).reorg target } : Node).nextHeight = reorgNb n target := by
    rw [nextHeight_eq]
    show (match n1.latest with
      | some (h, _) => h + 1
      | none => nextOf ((n1.b .numberToHash).reorg target).lastKey) = _
    rw [el, eb]; rfl
  let n' : Node := ({ n1 with b := fun i => (n1.b i).reorg target } : Node).commitAll
  show RInv n' _
  have hT : ∀ i, n'.t i = (n1.t i).commit W (reorgNb n target) := by
    intro i; show (n1.t i).commit W _ = _; rw [hnb]
  have hB : n'.b .numberToHash = ((n.b .numberToHash).reorg target).commit.clear := by
    show ((n1.b .numberToHash).reorg target).commit.clear = _
    rw [eb]
  have hnx : n'.nextHeight = nextOf ((n.b .numberToHash).reorg target).lastKey := by
    rw [nextHeight_eq]
    show nextOf (n'.b .numberToHash).lastKey = _
    rw [hB, BlockDb.lastKey_commit_clear]
  have hdn : n'.durNext = nextOf ((n.b .numberToHash).reorg target).lastKey := by
    show nextOf (n'.b .numberToHash).clear.lastKey = _
    rw [hB, BlockDb.clear_clear, BlockDb.lastKey_commit_clear]
  have hmb : n'.mb = n.mb := by show n1.maxBlock.getD 0 = _; rw [emx]; rfl
  have hS' : ∀ i, Table.Sim W (n'.t i) (S i) := by intro i; rw [hT]; exact hS i
  have hrows : ∀ k, (n'.b .numberToHash).get k ≠ none → k ≤ n.mb := by
    intro k; rw [hB, BlockDb.get_commit_clear, BlockDb.get_reorg]
    by_cases hk : k ≤ target
    · simp only [hk, if_true]; exact hb.1 k
    · simp [hk]
  have hcont : Contig (n'.b .numberToHash) := by
    rw [hB]; exact BlockDb.contig_commit_clear (BlockDb.contig_reorg hc.contig target)
  have hmeall : ∀ i, max (G.s i).maxEver (reorgNb n target - 1) ≤ n.mb + 1 := by
    intro i; have := hc.me_le i; omega
  have hmenp : ∀ i, i ∉ poolTables → max (G.s i).maxEver (reorgNb n target - 1) ≤ n.mb := by
    intro i hi; have := hb.2.1 i hi; omega
  have hlh : n'.latestHeight = (((n.b .numberToHash).reorg target).lastKey).getD 0 := by
    rw [latestHeight_eq]
    show ((n'.b .numberToHash).lastKey).getD 0 = _
    rw [hB, BlockDb.lastKey_commit_clear]
  have hdl : n'.durLatest = (((n.b .numberToHash).reorg target).lastKey).getD 0 := by
    show ((n'.b .numberToHash).clear.lastKey).getD 0 = _
    rw [hB, BlockDb.clear_clear, BlockDb.lastKey_commit_clear]
  refine ⟨⟨hS', ?_, ?_, Nat.le_refl _, ?_, ?_, hcont, ?_, ?_, ?_, ?_, ?_, ?_, ?_, ?_, ?_⟩, ?_⟩
  · intro i
    rw [hT, Table.clear_commit, ← hT]; exact hS' i
  · intro i; rw [hnx]; show (S i).top ≤ _; rw [htop]; exact hF1 i
  · intro i; rw [hdn]; show (S i).top ≤ _; rw [htop]; exact hF1 i
  · intro h' x hl; cases hl
  · rw [hB, BlockDb.clear_clear, ← hB]; exact hcont
  · intro k hk; rw [hmb]; have := hrows k hk; omega
  · intro k; rw [hB, BlockDb.clear_clear, ← hB, hmb]; exact hrows k
  · intro i; show (S i).maxEver ≤ _; rw [hme, hmb]; have := hmeall i; omega
  · intro i hi; show (S i).maxEver ≤ _; rw [hme, hmb]; have := hmenp i hi; omega
  · intro i; rw [hmb]; show (S i).maxEver ≤ _
    rw [hme]; have := hmeall i; omega
  · intro i hi; rw [hmb]; show (S i).maxEver ≤ _
    rw [hme]; exact hmenp i hi
  · intro i; exact ⟨hcoh i, rfl⟩
  · intro i _; rw [hdl]; show (S i).top ≤ _; rw [htop]; exact hF4 i
  · intro _
    refine ⟨fun k hk => by rw [hmb]; exact hrows k hk, ?_, ?_⟩
    · intro i hi; show (S i).maxEver ≤ _; rw [hme, hmb]; exact hmenp i hi
    · intro i _; rw [hlh]; show (S i).top ≤ _; rw [htop]; exact hF4 i

/-- An accepted `reorg` in which every table's window reaches down to the target: it answers `ok`, restores every
table to its state at the end of block `target`, and keeps the invariant. -/
theorem RInv.reorg {n : Node} {G : Ghost} (h : RInv n G) {target : Nat} (hnr : ¬ Refused n target)
    (hwin : ∀ i, (G.s i).maxEver ≤ target + W) :
    (n.reorg target).2 = .ok ∧
    (∀ i k, ((n.reorg target).1.t i).latest k = (G.s i).readAt k target) ∧
    RInv (n.reorg target).1 (G.reorg target (reorgNb n target)) := by
  have hc := h.core
  have hnr' := hnr
  simp only [Refused, not_or] at hnr'
  obtain ⟨hw, ht, _, hmbt⟩ := hnr'
  have hw : n.lbi.waiting = 0 := Decidable.not_not.mp hw
  have ht : target ≤ n.latestHeight := by omega
  obtain ⟨hF1, hF2, hF3, _⟩ := reorg_heights h hw ht
  -- the table phase
  obtain ⟨n1, e1, e2, e3, eb, el, elbi, emx⟩ := reorgTables_post n target
    (fun i t' => Table.Sim W t' { (G.s i).step (.reorg target) with maxEver := max (G.s i).maxEver (target - 1) })
    (fun i => Table.sim_reorg' (hc.sim i) target (hwin i))
  have hre : n.reorg target =
      (({ n1 with b := fun i => (n1.b i).reorg target } : Node).commitAll, .ok) := by
    rw [reorg_of_not_refused n target hnr]
    unfold reorgBody; rw [e1]
  rw [hre]
  refine ⟨rfl, ?_, ?_⟩
  · intro i k
    show ((n1.t i).commit W _).latest k = _
    rw [Table.latest_commit W _ (n1.t i) (e3 i).inv.cache_nodup k]
    obtain ⟨t', e', hr⟩ := Table.rollback_in_window' (hc.sim i) target (hwin i)
    rw [e2 i, Option.some.injEq] at e'
    rw [e']; exact hr k
  · apply h.after_reorg hnr eb el elbi emx (G.reorg target (reorgNb n target)).s
    · intro i
      have := Table.sim_commit (e3 i) (reorgNb n target)
      have hm : max (max (G.s i).maxEver (target - 1)) (reorgNb n target - 1) =
          max (G.s i).maxEver (reorgNb n target - 1) := by omega
      simp only [hm] at this
      exact this
    · intro i; rfl
    · intro i; rfl
    · intro i; rfl

/-! ## The operations -/

theorem addTxs_fst_of_ne_ok {n : Node} {ts : Nat} {h : String} {idx : Nat} {txid : Option String} {evs : List Ev}
    {k : Option Nat} (hne : (n.addTxs ts h idx txid evs k).2 ≠ .ok) : (n.addTxs ts h idx txid evs k).1 = n := by
  unfold addTxs at hne ⊢
  simp only [] at hne ⊢
  repeat' split
  all_goals first | rfl | (exfalso; simp_all)

theorem finaliseOne_fst_of_ne_ok {n : Node} {ts : Nat} {h : String} {count : Nat} {evs : List Ev}
    (hne : (n.finaliseOne ts h count evs).2 ≠ .ok) : (n.finaliseOne ts h count evs).1 = n := by
  unfold finaliseOne at hne ⊢
  simp only [] at hne ⊢
  repeat' split
  all_goals first | rfl | (exfalso; simp_all)

/-- the node an accepted `finaliseOne` returns -/
theorem finaliseOne_ok_node {n : Node} {ts : Nat} {h : String} {count : Nat} {evs : List Ev}
    (hok : (n.finaliseOne ts h count evs).2 = .ok) :
    ∃ n', applyEvents n n.nextHeight evs = some n' ∧
      (n'.b .numberToHash).get n.nextHeight = some (normHash h n.nextHeight) ∧
      (n.finaliseOne ts h count evs).1 =
        { n' with latest := some (n.nextHeight, normHash h n.nextHeight),
                  maxBlock := (match n'.maxBlock with
                    | none => some n.nextHeight
                    | some m => some (max m n.nextHeight)),
                  lbi := {} } := by
  cases hv : n.validateNextTx count (normHash h n.nextHeight) n.nextHeight ts with
  | some e' =>
    simp only [finaliseOne, hv] at hok
    cases hok
  | none =>
    simp only [finaliseOne, hv] at hok ⊢
    split at hok
    · cases hok
    rename_i hfin
    rw [if_neg hfin]
    split at hok
    · cases hok
    rename_i hnps
    rw [if_neg hnps]
    cases h5 : applyEvents n n.nextHeight evs with
    | none => rw [h5] at hok; cases hok
    | some n' =>
      rw [h5] at hok
      simp only [] at hok ⊢
      simp only [apply_ite Prod.snd, ite_reject_eq_ok] at hok
      obtain ⟨h1, h2, h3, h4, _⟩ := hok
      rw [if_neg h1, if_neg h2, if_neg h3, if_neg h4]
      refine ⟨n', rfl, Decidable.not_not.mp h1, ?_⟩
      have hl : n'.latest = n.latest := (applyEvents_fields h5).2.1
      have : (match n'.latest with
          | none => some (n.nextHeight, normHash h n.nextHeight)
          | some (h', x) => if n.nextHeight > h' then some (n.nextHeight, normHash h n.nextHeight) else some (h', x)) =
          some (n.nextHeight, normHash h n.nextHeight) := by
        rw [hl]
        cases hx : n.latest with
        | none => rfl
        | some p =>
          obtain ⟨a, b⟩ := p
          have : n.nextHeight = a + 1 := by rw [nextHeight_eq, hx]
          simp only [this]
          rw [if_pos (by omega)]
      exact congrArg (fun l => ({ n' with latest := l, maxBlock := (match n'.maxBlock with
                    | none => some n.nextHeight
                    | some m => some (max m n.nextHeight)), lbi := {} } : Node)) this


/-! ### ghost of each operation -/

def gAddTxs (n : Node) (G : Ghost) (ts : Nat) (hash0 : String) (idx : Nat) (txid : Option String) (evs : List Ev)
    (k : Option Nat) : Ghost :=
  if (n.addTxs ts hash0 idx txid evs k).2 = .ok then G.events evs else G

def gFinaliseOne (n : Node) (G : Ghost) (ts : Nat) (hash0 : String) (count : Nat) (evs : List Ev) : Ghost :=
  if (n.finaliseOne ts hash0 count evs).2 = .ok then G.events evs else G

theorem RInv.addTxs {n : Node} {G : Ghost} (h : RInv n G) (ts : Nat) (hash0 : String) (idx : Nat)
    (txid : Option String) (evs : List Ev) (k : Option Nat) :
    RInv (n.addTxs ts hash0 idx txid evs k).1 (gAddTxs n G ts hash0 idx txid evs k) := by
  unfold gAddTxs
  by_cases hok : (n.addTxs ts hash0 idx txid evs k).2 = .ok
  · rw [if_pos hok]
    obtain ⟨_, hr, _, _, _, n', ha, hn⟩ := addTxs_ok hok
    rw [hn]
    have hc := h.core.events ha
    refine ⟨(hc.mono hc.e_le (Nat.le_refl _)).lbi _, ?_⟩
    intro hw
    exfalso
    have : (bumpLbi (l0 n ts (normHash hash0 n.nextHeight)) (txRuns evs)).waiting = 0 := hw
    rw [bumpLbi_waiting] at this
    have : (txRuns evs).length = 0 := by omega
    exact hr (List.eq_nil_of_length_eq_zero this)
  · rw [if_neg hok, addTxs_fst_of_ne_ok hok]; exact h

theorem RInv.finaliseOne {n : Node} {G : Ghost} (h : RInv n G) (ts : Nat) (hash0 : String) (count : Nat)
    (evs : List Ev) :
    RInv (n.finaliseOne ts hash0 count evs).1 (gFinaliseOne n G ts hash0 count evs) := by
  unfold gFinaliseOne
  by_cases hok : (n.finaliseOne ts hash0 count evs).2 = .ok
  · rw [if_pos hok]
    obtain ⟨n', ha, hrow, hn⟩ := finaliseOne_ok_node hok
    rw [hn]
    have hc := h.core.events ha
    apply hc.finalise
    · show (match n'.maxBlock with
        | none => some n.nextHeight
        | some m => some (max m n.nextHeight)).getD 0 = max (n'.maxBlock.getD 0) n.nextHeight
      cases n'.maxBlock with
      | none => simp
      | some m => simp
    · rw [hrow]; simp
  · rw [if_neg hok, finaliseOne_fst_of_ne_ok hok]; exact h

/-! `mine` -/

def gMineLoop (n : Node) (G : Ghost) (ts : Nat) (evs : List Ev) : Nat → Ghost
  | 0 => G
  | k + 1 =>
    let mine := evs.filter (fun e => stampOf e == some n.nextHeight)
    match finaliseOne n ts zeroHash 0 mine with
    | (n', .ok) => gMineLoop n' (G.events mine) ts evs k
    | _ => G

def gMine (n : Node) (G : Ghost) (count ts : Nat) (evs : List Ev) : Ghost :=
  if n.lbi.waiting ≠ 0 then G else if n.mineClash count then G else gMineLoop n G ts evs count

theorem RInv.mineLoop {n : Node} {G : Ghost} (h : RInv n G) (ts : Nat) (evs : List Ev) (k : Nat) :
    RInv (mineLoop n ts evs k).1 (gMineLoop n G ts evs k) := by
  induction k generalizing n G with
  | zero => exact h
  | succ k ih =>
    have hf := h.finaliseOne ts zeroHash 0 (evs.filter (fun e => stampOf e == some n.nextHeight))
    unfold gFinaliseOne at hf
    simp only [Node.mineLoop, gMineLoop]
    cases hr : Node.finaliseOne n ts zeroHash 0 (evs.filter (fun e => stampOf e == some n.nextHeight)) with
    | mk n' c =>
      rw [hr] at hf
      cases c with
      | ok => simp only [if_true] at hf ⊢; exact ih hf
      | err e => simp at hf ⊢; exact hf
      | panic => simp at hf ⊢; exact hf
      | reject w => simp at hf ⊢; exact hf

theorem RInv.mine {n : Node} {G : Ghost} (h : RInv n G) (count ts : Nat) (evs : List Ev) :
    RInv (n.mine count ts evs).1 (gMine n G count ts evs) := by
  unfold Node.mine gMine
  split
  · exact h
  · split
    · exact h
    · exact h.mineLoop ts evs count


/-! `addRawTx` -/

def gAddRawTx (n : Node) (G : Ghost) (ts : Nat) (hash0 : String) (idx : Nat) (txid : String) (dec : RawDecode)
    (evs : List Ev) : Ghost :=
  match dec with
  | .fail => G
  | .wrongChain => G
  | .ok sender nonce =>
    let acct := n.accountNonce sender
    if nonce ≠ acct then
      if nonce > acct ∧ nonce < acct + FUTURE_NONCES then
        if !(txRuns evs).isEmpty then G
        else if !poolOnly evs then G
        else if !parkedShape sender nonce n.nextHeight evs then G
        else match applyEvents n n.nextHeight evs with
          | none => G
          | some _ => G.events evs
      else G
    else
      -- executed: the logs advance when `addTxs` and the drain check both accept
      if (drainCheck n sender (acct + 1) (drainPlan n sender n.nextHeight FUTURE_NONCES (acct + 1)).2
          (n.addTxs ts hash0 idx (some txid) evs
            (some (1 + (drainPlan n sender n.nextHeight FUTURE_NONCES (acct + 1)).1)))).2 = .ok
      then G.events evs else G

/-- a parked submission: only pending-pool writes, stamped with the height being built -/
theorem RInv.parked {n n' : Node} {G : Ghost} (h : RInv n G) {evs : List Ev} (hp : poolOnly evs = true)
    (ha : applyEvents n n.nextHeight evs = some n') : RInv n' (G.events evs) := by
  have hc := h.core.events ha
  obtain ⟨hlbi, hlat, hmx⟩ := applyEvents_fields ha
  have hb : n'.b = n.b := applyEvents_pool_frame hp ha
  have hmb : n'.mb = n.mb := by unfold mb; rw [hmx]
  refine ⟨hc.mono hc.e_le (Nat.le_refl _), ?_⟩
  intro hw
  rw [hlbi] at hw
  obtain ⟨h1, h2, h3⟩ := h.bdry hw
  have hlh : n'.latestHeight = n.latestHeight := by
    rw [latestHeight_eq, latestHeight_eq, hlat, hb]
  refine ⟨?_, ?_, ?_⟩
  · intro k; rw [hb, hmb]; exact h1 k
  · intro i hi; rw [Ghost.events_pool_frame G hp hi, hmb]; exact h2 i hi
  · intro i hi; rw [Ghost.events_pool_frame G hp hi, hlh]; exact h3 i hi

theorem RInv.addRawTx {n : Node} {G : Ghost} (h : RInv n G) (ts : Nat) (hash0 : String) (idx : Nat) (txid : String)
    (dec : RawDecode) (evs : List Ev) :
    RInv (n.addRawTx ts hash0 idx txid dec evs).1 (gAddRawTx n G ts hash0 idx txid dec evs) := by
  cases dec with
  | fail => exact h
  | wrongChain =>
    simp only [Node.addRawTx, gAddRawTx]
    split <;> exact h
  | ok sender nonce =>
    simp only [Node.addRawTx, gAddRawTx]
    by_cases h1 : nonce ≠ n.accountNonce sender
    · rw [if_pos h1, if_pos h1]
      by_cases h2 : nonce > n.accountNonce sender ∧ nonce < n.accountNonce sender + FUTURE_NONCES
      · rw [if_pos h2, if_pos h2]
        by_cases h3 : (!(txRuns evs).isEmpty) = true
        · rw [if_pos h3, if_pos h3]; exact h
        · rw [if_neg h3, if_neg h3]
          by_cases h4 : (!poolOnly evs) = true
          · rw [if_pos h4, if_pos h4]; exact h
          · rw [if_neg h4, if_neg h4]
            have hp : poolOnly evs = true := by simpa using h4
            by_cases h5 : (!parkedShape sender nonce n.nextHeight evs) = true
            · rw [if_pos h5, if_pos h5]; exact h
            · rw [if_neg h5, if_neg h5]
              cases ha : applyEvents n n.nextHeight evs with
              | none => exact h
              | some n' => exact h.parked hp ha
      · rw [if_neg h2, if_neg h2]
        split <;> exact h
    · rw [if_neg h1, if_neg h1]
      have ha := h.addTxs ts hash0 idx (some txid) evs
        (some (1 + (drainPlan n sender n.nextHeight FUTURE_NONCES (n.accountNonce sender + 1)).1))
      unfold gAddTxs at ha
      by_cases hok : (drainCheck n sender (n.accountNonce sender + 1)
          (drainPlan n sender n.nextHeight FUTURE_NONCES (n.accountNonce sender + 1)).2
          (n.addTxs ts hash0 idx (some txid) evs
            (some (1 + (drainPlan n sender n.nextHeight FUTURE_NONCES (n.accountNonce sender + 1)).1)))).2 = .ok
      · obtain ⟨h1', h2', _⟩ := drainCheck_ok hok
        rw [if_pos hok, h2']
        rw [if_pos h1'] at ha
        exact ha
      · rw [if_neg hok, drainCheck_fst_of_ne_ok addTxs_fst_of_ne_ok hok]
        exact h

/-! `commit`, `clear`, `reopen` -/

def gCommit (n : Node) (G : Ghost) : Ghost := if n.lbi.waiting ≠ 0 then G else G.commit n.nextHeight

theorem RInv.commit {n : Node} {G : Ghost} (h : RInv n G) : RInv n.commit.1 (gCommit n G) := by
  unfold Node.commit gCommit
  by_cases hw : n.lbi.waiting ≠ 0
  · rw [if_pos hw, if_pos hw]; exact h
  · rw [if_neg hw, if_neg hw]; exact h.commitAll (Decidable.not_not.mp hw)

theorem RInv.reopen {n : Node} {G : Ghost} (h : RInv n G) : RInv n.reopen G.clear := h.clear

/-! `reorg` -/

def gReorg (n : Node) (G : Ghost) (target : Nat) : Ghost :=
  if (n.reorg target).2 = .ok then G.reorg target (reorgNb n target) else G

theorem reorg_fst_of_refused {n : Node} {target : Nat} (h : Refused n target) : (n.reorg target).1 = n := by
  unfold Node.reorg
  by_cases h1 : n.lbi.waiting ≠ 0
  · rw [if_pos h1]
  · rw [if_neg h1]
    simp only []
    by_cases h2 : target > n.latestHeight
    · rw [if_pos h2]
    · rw [if_neg h2]
      by_cases h3 : n.latestHeight - target > W
      · rw [if_pos h3]
      · rw [if_neg h3]
        by_cases h4 : n.maxBlock.getD 0 > W + target
        · rw [if_pos h4]
        · exact absurd h (by simp only [Refused, not_or]; exact ⟨h1, h2, h3, h4⟩)

/-- every table's window reaches the target of a `reorg` the engine does not refuse, as soon as the two
pending-pool tables' windows do -/
theorem RInv.window {n : Node} {G : Ghost} (h : RInv n G) {target : Nat} (hnr : ¬ Refused n target)
    (hpool : ∀ i, i ∈ poolTables → (G.s i).maxEver ≤ target + W) : ∀ i, (G.s i).maxEver ≤ target + W := by
  intro i
  by_cases hi : i ∈ poolTables
  · exact hpool i hi
  · simp only [Refused, not_or] at hnr
    obtain ⟨hw, _, _, hm⟩ := hnr
    have := (h.bdry (Decidable.not_not.mp hw)).2.1 i hi
    unfold mb at this
    omega

theorem RInv.reorgOp {n : Node} {G : Ghost} (h : RInv n G) (target : Nat)
    (hpool : ¬ Refused n target → ∀ i, i ∈ poolTables → (G.s i).maxEver ≤ target + W) :
    RInv (n.reorg target).1 (gReorg n G target) := by
  unfold gReorg
  by_cases hr : Refused n target
  · obtain ⟨e, he⟩ := reorg_refused n target hr
    rw [he, reorg_fst_of_refused hr]
    simp only [reduceCtorEq, if_false]
    exact h
  · obtain ⟨hok, _, hinv⟩ := h.reorg hr (h.window hr (hpool hr))
    rw [if_pos hok]; exact hinv

/-! `initialise` -/

/-- the writes of `initialise` that belong to the finalise of the genesis block -/
def isFinEv (e : Ev) : Bool :=
  match e with
  | .s tb _ _ _ => (BId.ofName tb).isSome || tb == TId.hashToNumber.name
  | _ => false

theorem initialise_eq (n : Node) (hash0 : String) (ts height : Nat) (evs : List Ev) :
    n.initialise hash0 ts height evs =
      match (n.b .block).get height with
      | some _ => if n.blockHashAt height = some (normHash hash0 height) then (n, .ok) else (n, .err "genesis")
      | none =>
        if height ≠ n.nextHeight then (n, .err "height")
        else
          match addTxs n ts (normHash hash0 height) 0 (some zeroHash) (evs.filter (fun e => !isFinEv e)) (some 1) with
          | (n1, .ok) => Node.finaliseOne n1 ts (normHash hash0 height) 1 (evs.filter isFinEv)
          | (n1, c) => (n1, c) := by
  rfl

def gInitialise (n : Node) (G : Ghost) (hash0 : String) (ts height : Nat) (evs : List Ev) : Ghost :=
  match (n.b .block).get height with
  | some _ => G
  | none =>
    if height ≠ n.nextHeight then G
    else
      match Node.addTxs n ts (normHash hash0 height) 0 (some zeroHash) (evs.filter (fun e => !isFinEv e)) (some 1) with
      | (n1, .ok) =>
        gFinaliseOne n1 (G.events (evs.filter (fun e => !isFinEv e))) ts (normHash hash0 height) 1 (evs.filter isFinEv)
      | _ => G

theorem RInv.initialise {n : Node} {G : Ghost} (h : RInv n G) (hash0 : String) (ts height : Nat) (evs : List Ev) :
    RInv (n.initialise hash0 ts height evs).1 (gInitialise n G hash0 ts height evs) := by
  rw [initialise_eq]
  unfold gInitialise
  cases (n.b .block).get height with
  | some _ => simp only []; split <;> exact h
  | none =>
    simp only []
    by_cases hh : height ≠ n.nextHeight
    · rw [if_pos hh, if_pos hh]; exact h
    · rw [if_neg hh, if_neg hh]
      have ha := h.addTxs ts (normHash hash0 height) 0 (some zeroHash) (evs.filter (fun e => !isFinEv e)) (some 1)
      unfold gAddTxs at ha
      cases hr : Node.addTxs n ts (normHash hash0 height) 0 (some zeroHash) (evs.filter (fun e => !isFinEv e)) (some 1) with
      | mk n1 c =>
        rw [hr] at ha
        cases c with
        | ok => simp only [if_true] at ha ⊢; exact ha.finaliseOne _ _ _ _
        | err e => simp at ha ⊢; exact ha
        | panic => simp at ha ⊢; exact ha
        | reject w => simp at ha ⊢; exact ha


/-! ## Reachable nodes -/

theorem RInv.init : RInv ({} : Node) Ghost.init := by
  have hl : (({} : Node).b .numberToHash).lastKey = none := rfl
  have hg : ∀ k, (({} : Node).b .numberToHash).get k = none := fun _ => rfl
  have hs : ∀ i, Table.Sim W (({} : Node).t i) (Ghost.init.s i) := fun _ => Table.sim_init W
  refine ⟨⟨hs, hs, ?_, Nat.le_refl _, ?_, ?_, ?_, ?_, ?_, ?_, ?_, ?_, ?_, ?_, ?_, ?_⟩, ?_⟩
  · intro i; exact Nat.zero_le _
  · intro i; exact Nat.zero_le _
  · intro h x hx; cases hx
  · intro e he; rw [hl] at he; cases he
  · intro e he; cases he
  · intro k hk; exact absurd (hg k) hk
  · intro k hk; exact absurd rfl hk
  · intro i; exact Nat.zero_le _
  · intro i _; exact Nat.zero_le _
  · intro i; exact Nat.zero_le _
  · intro i _; exact Nat.zero_le _
  · intro i; exact ⟨rfl, rfl⟩
  · intro i _; exact Nat.zero_le _
  · intro _
    exact ⟨fun k hk => absurd (hg k) hk, fun i _ => Nat.zero_le _, fun i _ => Nat.zero_le _⟩

/-- One call of the engine: the operation, its arguments, and the events recorded while it ran. -/
inductive Op where
  | initialise (hash0 : String) (ts height : Nat) (evs : List Ev)
  | mine (count ts : Nat) (evs : List Ev)
  | addTxs (ts : Nat) (hash0 : String) (idx : Nat) (txid : Option String) (evs : List Ev) (expectRuns : Option Nat)
  | addRawTx (ts : Nat) (hash0 : String) (idx : Nat) (txid : String) (dec : RawDecode) (evs : List Ev)
  | finaliseOne (ts : Nat) (hash0 : String) (count : Nat) (evs : List Ev)
  | commit
  | clear
  | reopen
  | reorg (target : Nat)

/-- what the model answers -/
def Op.run : Op → Node → Node × Class
  | .initialise hash0 ts height evs, n => n.initialise hash0 ts height evs
  | .mine count ts evs, n => n.mine count ts evs
  | .addTxs ts hash0 idx txid evs k, n => n.addTxs ts hash0 idx txid evs k
  | .addRawTx ts hash0 idx txid dec evs, n => n.addRawTx ts hash0 idx txid dec evs
  | .finaliseOne ts hash0 count evs, n => n.finaliseOne ts hash0 count evs
  | .commit, n => n.commit
  | .clear, n => n.clear
  | .reopen, n => (n.reopen, .ok)
  | .reorg target, n => n.reorg target

/-- the plain logs after the call -/
def Op.ghost : Op → Node → Ghost → Ghost
  | .initialise hash0 ts height evs, n, G => gInitialise n G hash0 ts height evs
  | .mine count ts evs, n, G => gMine n G count ts evs
  | .addTxs ts hash0 idx txid evs k, n, G => gAddTxs n G ts hash0 idx txid evs k
  | .addRawTx ts hash0 idx txid dec evs, n, G => gAddRawTx n G ts hash0 idx txid dec evs
  | .finaliseOne ts hash0 count evs, n, G => gFinaliseOne n G ts hash0 count evs
  | .commit, n, G => gCommit n G
  | .clear, _, G => G.clear
  | .reopen, _, G => G.clear
  | .reorg target, n, G => gReorg n G target

/-- the run goes on after `ok` and after an error answer; a panic or a model reject ends it -/
def _root_.Brc20.Node.Class.accepted : Class → Prop
  | .ok => True
  | .err _ => True
  | .panic => False
  | .reject _ => False

theorem _root_.Brc20.Node.Class.accepted_iff (c : Class) : c.accepted ↔ c = .ok ∨ ∃ e, c = .err e := by
  cases c <;> simp [Class.accepted]

/-- **Reachable nodes**: the empty node, and whatever any operation with any arguments and any recorded events
turns a reachable node into, as long as the model answers `ok` or `err`. -/
inductive Reach : Node → Prop
  | init : Reach {}
  | step {n : Node} (op : Op) : Reach n → (op.run n).2.accepted → Reach (op.run n).1

/-- The one thing a run must not do for its logs to stay the plain logs: roll back (successfully) below the
window of a pending-pool table. By `RInv.window` the engine's own acceptance test guarantees this for every other
table; for the pool tables it fails exactly in the situation of known finding F10 (a transaction parked at a block
boundary is stamped `height + 1`, so the pool tables' window starts one block later than the engine assumes). -/
def Op.inWindow : Op → Node → Ghost → Prop
  | .reorg target, n, G => ¬ Refused n target → ∀ i, i ∈ poolTables → (G.s i).maxEver ≤ target + W
  | _, _, _ => True

/-- Reachable nodes together with the plain logs of their tables. -/
inductive ReachG : Node → Ghost → Prop
  | init : ReachG {} Ghost.init
  | step {n : Node} {G : Ghost} (op : Op) :
      ReachG n G → (op.run n).2.accepted → op.inWindow n G → ReachG (op.run n).1 (op.ghost n G)

theorem RInv.step {n : Node} {G : Ghost} (h : RInv n G) (op : Op) (hw : op.inWindow n G) :
    RInv (op.run n).1 (op.ghost n G) := by
  cases op with
  | initialise hash0 ts height evs => exact h.initialise hash0 ts height evs
  | mine count ts evs => exact h.mine count ts evs
  | addTxs ts hash0 idx txid evs k => exact h.addTxs ts hash0 idx txid evs k
  | addRawTx ts hash0 idx txid dec evs => exact h.addRawTx ts hash0 idx txid dec evs
  | finaliseOne ts hash0 count evs => exact h.finaliseOne ts hash0 count evs
  | commit => exact h.commit
  | clear => exact h.clear
  | reopen => exact h.reopen
  | reorg target => exact h.reorgOp target hw

theorem ReachG.inv {n : Node} {G : Ghost} (h : ReachG n G) : RInv n G := by
  induction h with
  | init => exact RInv.init
  | step op _ _ hw ih => exact ih.step op hw

theorem ReachG.reach {n : Node} {G : Ghost} (h : ReachG n G) : Reach n := by
  induction h with
  | init => exact Reach.init
  | step op _ ha _ ih => exact Reach.step op ih ha


/-! ## What reachable nodes satisfy -/

/-- every table of a reachable node refines its plain log -/
theorem ReachG.sim {n : Node} {G : Ghost} (h : ReachG n G) : NodeSim n G.s := ⟨h.inv.core.sim⟩

/-- **Stamps.** For every table: the newest stamp present (`top`) is at most the height being built; the newest
block number ever passed to the table (`maxEver`, which a `reorg` does not lower) is at most that height or one above
the highest finalised block. At a block boundary, every table other than the two pending-pool tables has never been
passed a number above the highest finalised block and holds no stamp above the current height. -/
theorem RInv.stamps {n : Node} {G : Ghost} (h : RInv n G) :
    (∀ i, (G.s i).top ≤ n.nextHeight) ∧
    (∀ i, (G.s i).maxEver ≤ max (n.mb + 1) n.nextHeight) ∧
    (∀ i, i ∉ poolTables → (G.s i).maxEver ≤ max n.mb n.nextHeight) ∧
    (n.lbi.waiting = 0 → ∀ i, i ∉ poolTables → (G.s i).maxEver ≤ n.mb) ∧
    (n.lbi.waiting = 0 → ∀ i, i ∉ poolTables → (G.s i).top ≤ n.latestHeight) ∧
    (n.lbi.waiting = 0 → n.latestHeight ≤ n.mb) := by
  refine ⟨h.core.top_le, h.core.me_le, h.core.me_np, fun hw => (h.bdry hw).2.1, fun hw => (h.bdry hw).2.2, ?_⟩
  intro hw
  rw [latestHeight_eq]
  cases hx : n.latest with
  | some p =>
    obtain ⟨a, b⟩ := p
    exact (h.bdry hw).1 a (h.core.latest_row a b hx)
  | none =>
    simp only []
    have hs := BlockDb.lastKey_spec (n.b .numberToHash)
    cases hl : (n.b .numberToHash).lastKey with
    | none => exact Nat.zero_le _
    | some e => rw [hl] at hs; exact (h.bdry hw).1 e hs.1

/-- **Payoff** (C01): on a node satisfying the invariant, a `reorg` the engine does not refuse answers `ok` and
restores every table, for every key, to the value it had at the end of block `target` - provided the two
pending-pool tables have not been passed a block number above the tip (the current height or the highest block ever
finalised, whichever is larger). -/
theorem RInv.reorg_restores {n : Node} {G : Ghost} (h : RInv n G) {target : Nat} (hnr : ¬ Refused n target)
    (hpool : ∀ i, i ∈ poolTables → (G.s i).maxEver ≤ max n.latestHeight n.mb) :
    (n.reorg target).2 = .ok ∧ ∀ i k, ((n.reorg target).1.t i).latest k = (G.s i).readAt k target := by
  have hwin : ∀ i, i ∈ poolTables → (G.s i).maxEver ≤ target + W := by
    intro i hi
    have := hpool i hi
    simp only [Refused, not_or] at hnr
    obtain ⟨_, h2, h3, h4⟩ := hnr
    unfold mb at this
    omega
  obtain ⟨h1, h2, _⟩ := h.reorg hnr (h.window hnr hwin)
  exact ⟨h1, h2⟩

theorem ReachG.reorg_restores {n : Node} {G : Ghost} (h : ReachG n G) {target : Nat} (hnr : ¬ Refused n target)
    (hpool : ∀ i, i ∈ poolTables → (G.s i).maxEver ≤ max n.latestHeight n.mb) :
    (n.reorg target).2 = .ok ∧ ∀ i k, ((n.reorg target).1.t i).latest k = (G.s i).readAt k target :=
  h.inv.reorg_restores hnr hpool

/-- the same with the hypothesis in its simplest form (it can only hold while no earlier `reorg` has lowered the
height below a block the pool tables were committed at) -/
theorem ReachG.reorg_restores' {n : Node} {G : Ghost} (h : ReachG n G) {target : Nat} (hnr : ¬ Refused n target)
    (hpool : ∀ i, i ∈ poolTables → (G.s i).maxEver ≤ n.latestHeight) :
    (n.reorg target).2 = .ok ∧ ∀ i k, ((n.reorg target).1.t i).latest k = (G.s i).readAt k target :=
  h.reorg_restores hnr (fun i hi => Nat.le_trans (hpool i hi) (Nat.le_max_left _ _))

/-! ## Every accepted step, the `reorg` of finding F10 included -/

/-- when the table phase of `reorg` returns, every listed table's own `reorg` returned that table -/
theorem reorgTables_tables (target : Nat) (l : List TId) (nd : l.Nodup) (n n1 : Node)
    (h : reorgTables n target l = some n1) :
    (∀ i, i ∈ l → (n.t i).reorg W target = some (n1.t i)) ∧ (∀ i, i ∉ l → n1.t i = n.t i) := by
  induction l generalizing n with
  | nil => simp only [reorgTables, Option.some.injEq] at h; subst h; exact ⟨fun i hi => absurd hi List.not_mem_nil, fun _ _ => rfl⟩
  | cons i rest ih =>
    rw [List.nodup_cons] at nd
    simp only [reorgTables] at h
    cases hr : (n.t i).reorg W target with
    | none => rw [hr] at h; cases h
    | some t' =>
      rw [hr] at h
      obtain ⟨h1, h2⟩ := ih nd.2 (n.setT i t') h
      have hi : n1.t i = t' := by rw [h2 i nd.1]; simp [setT]
      refine ⟨?_, ?_⟩
      · intro j hj
        rcases List.mem_cons.mp hj with rfl | hj'
        · rw [hr, hi]
        · have hne : j ≠ i := fun e => nd.1 (e ▸ hj')
          have := h1 j hj'
          simpa [setT, hne] using this
      · intro j hj
        have hne : j ≠ i := fun e => hj (e ▸ List.mem_cons_self)
        have hjr : j ∉ rest := fun e => hj (List.mem_cons_of_mem _ e)
        rw [h2 j hjr]; simp [setT, hne]

/-- An accepted `reorg` keeps the invariant for *some* ghost, whatever the pool tables' windows. The ghost is
`Ghost.reorg` (the plain logs cut at the target) for every table whose window reaches the target; a table whose
window does not (only a pending-pool table can be in that position, finding F10) and whose rollback nevertheless
did not panic continues with the log made of what it retained (`Table.selfSpec`). -/
theorem RInv.reorg_accepted {n : Node} {G : Ghost} (h : RInv n G) (target : Nat)
    (ha : (n.reorg target).2.accepted) : ∃ G', RInv (n.reorg target).1 G' := by
  by_cases hr : Refused n target
  · rw [reorg_fst_of_refused hr]; exact ⟨G, h⟩
  · have hok : (n.reorg target).2 = .ok := by
      rw [reorg_of_not_refused n target hr] at ha ⊢
      unfold reorgBody at ha ⊢
      cases hx : reorgTables n target allTIds with
      | none => rw [hx] at ha; exact absurd ha (by simp [Class.accepted])
      | some n1 => rfl
    obtain ⟨_, n1, e1, e2⟩ := reorg_ok n target hok
    obtain ⟨eb, el, elbi, emx⟩ := reorgTables_frame target allTIds n n1 e1
    have htab := (reorgTables_tables target allTIds nodup_allTIds n n1 e1).1
    have hc := h.core
    let nb := reorgNb n target
    let S : GSpec := fun i =>
      if (G.s i).maxEver ≤ target + W then ((G.s i).step (.reorg target)).step (.commit nb)
      else Table.selfSpec ((n1.t i).commit W nb) (min (G.s i).top target) (max (G.s i).maxEver (nb - 1))
    have hnr' := hr
    simp only [Refused, not_or] at hnr'
    obtain ⟨hw, ht, _, _⟩ := hnr'
    have hw : n.lbi.waiting = 0 := Decidable.not_not.mp hw
    obtain ⟨_, hF2, _, _⟩ := reorg_heights h hw (by omega : target ≤ n.latestHeight)
    rw [e2]
    refine ⟨⟨S, S⟩, h.after_reorg hr eb el elbi emx S ?_ ?_ ?_ ?_⟩
    · intro i
      by_cases hwin : (G.s i).maxEver ≤ target + W
      · have hS : S i = ((G.s i).step (.reorg target)).step (.commit nb) := by simp only [S, hwin, if_true]
        rw [hS]
        obtain ⟨t', e', s'⟩ := Table.sim_reorg' (hc.sim i) target hwin
        rw [htab i (mem_allTIds i), Option.some.injEq] at e'
        subst e'
        have := Table.sim_commit s' nb
        have hm : max (max (G.s i).maxEver (target - 1)) (nb - 1) = max (G.s i).maxEver (nb - 1) := by
          have : target ≤ nb := hF2
          omega
        simp only [hm] at this
        exact this
      · have hS : S i = Table.selfSpec ((n1.t i).commit W nb) (min (G.s i).top target)
            (max (G.s i).maxEver (nb - 1)) := by simp only [S, hwin, if_false]
        rw [hS]
        obtain ⟨i1, c1⟩ := Table.reorg_inv_of_some (hc.sim i).inv (htab i (mem_allTIds i))
        apply Table.sim_self (Table.inv_commit_of_inv W nb i1) (Table.commit_cache W nb _)
        omega
    · intro i
      by_cases hwin : (G.s i).maxEver ≤ target + W
      · simp only [S, hwin, if_true]; rfl
      · simp only [S, hwin, if_false]; rfl
    · intro i
      by_cases hwin : (G.s i).maxEver ≤ target + W
      · simp only [S, hwin, if_true]; rfl
      · simp only [S, hwin, if_false]; rfl
    · intro i
      by_cases hwin : (G.s i).maxEver ≤ target + W
      · simp only [S, hwin, if_true]; rfl
      · simp only [S, hwin, if_false]; rfl

theorem RInv.step_accepted {n : Node} {G : Ghost} (h : RInv n G) (op : Op) (ha : (op.run n).2.accepted) :
    ∃ G', RInv (op.run n).1 G' := by
  cases op with
  | reorg target => exact h.reorg_accepted target ha
  | initialise hash0 ts height evs => exact ⟨_, h.step (.initialise hash0 ts height evs) trivial⟩
  | mine count ts evs => exact ⟨_, h.step (.mine count ts evs) trivial⟩
  | addTxs ts hash0 idx txid evs k => exact ⟨_, h.step (.addTxs ts hash0 idx txid evs k) trivial⟩
  | addRawTx ts hash0 idx txid dec evs => exact ⟨_, h.step (.addRawTx ts hash0 idx txid dec evs) trivial⟩
  | finaliseOne ts hash0 count evs => exact ⟨_, h.step (.finaliseOne ts hash0 count evs) trivial⟩
  | commit => exact ⟨_, h.step .commit trivial⟩
  | clear => exact ⟨_, h.step .clear trivial⟩
  | reopen => exact ⟨_, h.step .reopen trivial⟩

/-- every reachable node satisfies the invariant for some ghost -/
theorem Reach.inv {n : Node} (h : Reach n) : ∃ G, RInv n G := by
  induction h with
  | init => exact ⟨_, RInv.init⟩
  | step op _ ha ih => obtain ⟨G, hG⟩ := ih; exact hG.step_accepted op ha

/-- **Every reachable node's tables refine plain per-key logs.** -/
theorem reach_sim {n : Node} (h : Reach n) : ∃ g, NodeSim n g := by
  obtain ⟨G, hG⟩ := h.inv
  exact ⟨G.s, ⟨hG.core.sim⟩⟩

/-- **C01 on reachable nodes.** Every reachable node has plain logs `g` that its tables refine, whose stamps obey
the discipline, and w.r.t. which every `reorg` the engine does not refuse answers `ok` and restores every table to
the end of block `target` - provided the pending-pool tables were not passed a block number above the tip. -/
theorem reach_reorg_restores {n : Node} (h : Reach n) :
    ∃ g : TId → TSpec String String, NodeSim n g ∧
      (∀ i, (g i).top ≤ n.nextHeight) ∧
      (∀ i, (g i).maxEver ≤ max (n.mb + 1) n.nextHeight) ∧
      (n.lbi.waiting = 0 → ∀ i, i ∉ poolTables → (g i).maxEver ≤ n.mb) ∧
      (n.lbi.waiting = 0 → ∀ i, i ∉ poolTables → (g i).top ≤ n.latestHeight) ∧
      ∀ target, ¬ Refused n target →
        (∀ i, i ∈ poolTables → (g i).maxEver ≤ max n.latestHeight n.mb) →
        (n.reorg target).2 = .ok ∧ ∀ i k, ((n.reorg target).1.t i).latest k = (g i).readAt k target := by
  obtain ⟨G, hG⟩ := h.inv
  obtain ⟨s1, s2, _, s4, s5, _⟩ := hG.stamps
  exact ⟨G.s, ⟨hG.core.sim⟩, s1, s2, s4, s5, fun target hnr hp => hG.reorg_restores hnr hp⟩

/-! ## Non-vacuity -/

namespace Example

-- the parked row is a 162-character string that `decide` has to walk through
set_option maxRecDepth 8192

def h0 : String := generatedHash 0
def h1 : String := generatedHash 1
def h2 : String := generatedHash 2
def addr0 : String := "0000000000000000000000000000000000000000"

/-- `account` rows (too short to hold a nonce field: the model reads nonce 0 from them) -/
def acct0 : String := "a0"
def acct1 : String := "a1"

/-- a parked transaction row as far as the model reads it: hash (32 bytes), nonce (8), block hash (32), then
`Some(1)`: parked in block 1 (so the finalises of blocks 1 and 2 keep it) -/
def parkedRow : String :=
  "0000000000000000000000000000000000000000000000000000000000000077" ++ "0000000000000001" ++
  "0000000000000000000000000000000000000000000000000000000000000002" ++ "01" ++ "0000000000000001"

/-- a signed transaction of sender `aa` with nonce 1 while the account nonce is 0: parked, two pool rows stamped
with the height being built -/
def evPark : List Ev :=
  [ .s "pending_tx_hash_to_tx_id" 1 "77" (some "cd"),
    .s "account_and_nonce_to_tx_hash" 1 "aa0000000000000001" (some parkedRow) ]

/-- genesis: the controller deployment (one run, one `code` row) and the finalise rows of block 0 -/
def evGenesis : List Ev :=
  [ .x "tx" [("number", "0"), ("ts", "100"), ("prevrandao", h0), ("basefee", "0"), ("gasprice", "0"), ("value", "0"),
             ("coinbase", addr0), ("txid", zeroHash), ("blockgaslimit", "18446744073709551615")] true true 21000 0,
    .s "code" 0 "c0de" (some "6001"),
    .s "account" 0 "aa" (some acct0),
    .s "block_number_to_block" 0 "0000000000000000" (some "b0"),
    .s "block_number_to_raw_block" 0 "0000000000000000" (some "r0"),
    .s "block_number_to_hash" 0 "0000000000000000" (some h0),
    .s "block_hash_to_number" 0 h0 (some (hexN 16 0)) ]

/-- block 1: an inscription call (one run, the account row rewritten) -/
def evCall : List Ev :=
  [ .x "tx" [("number", "1"), ("ts", "200"), ("prevrandao", h1), ("basefee", "0"), ("gasprice", "0"), ("value", "0"),
             ("coinbase", addr0), ("txid", "ab"), ("blockgaslimit", "18446744073709551615")] true true 30000 1,
    .s "account" 1 "aa" (some acct1),
    .s "tx" 1 "t1" (some "x") ]

def evFin1 : List Ev :=
  [ .s "block_number_to_block" 1 "0000000000000001" (some "b1"),
    .s "block_number_to_raw_block" 1 "0000000000000001" (some "r1"),
    .s "block_number_to_hash" 1 "0000000000000001" (some h1),
    .s "block_hash_to_number" 1 h1 (some (hexN 16 1)) ]

/-- block 2: mined empty -/
def evMine2 : List Ev :=
  [ .s "block_number_to_block" 2 "0000000000000002" (some "b2"),
    .s "block_number_to_raw_block" 2 "0000000000000002" (some "r2"),
    .s "block_number_to_hash" 2 "0000000000000002" (some h2),
    .s "block_hash_to_number" 2 h2 (some (hexN 16 2)) ]

def ops : List Op :=
  [ .initialise zeroHash 100 0 evGenesis,
    .addRawTx 150 zeroHash 0 "cd" (.ok "aa" 1) evPark,
    .addTxs 200 zeroHash 0 (some "ab") evCall (some 1),
    .finaliseOne 200 zeroHash 1 evFin1,
    .mine 1 300 evMine2,
    .commit ]

def runOps : List Op → Node × Ghost → Node × Ghost
  | [], p => p
  | op :: rest, p => runOps rest ((op.run p.1).1, op.ghost p.1 p.2)

def final : Node × Ghost := runOps ops ({}, Ghost.init)

/-- every call of the list is answered `ok` -/
def okRun : List Op → Node → Bool
  | [], _ => true
  | op :: rest, n => decide ((op.run n).2 = .ok) && okRun rest (op.run n).1

def noReorg : List Op → Bool
  | [] => true
  | .reorg _ :: _ => false
  | _ :: rest => noReorg rest

theorem reachG_runOps (l : List Op) {n : Node} {G : Ghost} (h : ReachG n G) (hok : okRun l n = true)
    (hnr : noReorg l = true) : ReachG (runOps l (n, G)).1 (runOps l (n, G)).2 := by
  induction l generalizing n G with
  | nil => exact h
  | cons op rest ih =>
    simp only [okRun, Bool.and_eq_true, decide_eq_true_eq] at hok
    have hacc : (op.run n).2.accepted := by rw [hok.1]; trivial
    have hw : op.inWindow n G := by cases op <;> first | trivial | (simp [noReorg] at hnr)
    have hr : noReorg rest = true := by cases op <;> first | exact hnr | (simp [noReorg] at hnr)
    exact ih (ReachG.step op h hacc hw) hok.2 hr

theorem ops_ok : okRun ops {} = true := by decide

theorem final_reach : ReachG final.1 final.2 := reachG_runOps ops ReachG.init ops_ok (by decide)

theorem final_height : final.1.latestHeight = 2 ∧ final.1.mb = 2 ∧ final.1.lbi.waiting = 0 := by decide

theorem final_not_refused : ¬ Refused final.1 0 := by unfold Refused; decide

theorem final_pool : ∀ i, i ∈ poolTables → (final.2.s i).maxEver ≤ max final.1.latestHeight final.1.mb := by
  intro i hi
  simp only [poolTables, List.mem_cons, List.not_mem_nil, or_false] at hi
  rcases hi with rfl | rfl <;> decide

/-- the payoff theorem applies to a concrete reachable node (genesis with a deployment, a parked transaction, one
block with a call, one mined block, commit), and the rollback to block 0 is not a no-op: the account row goes back
to its genesis value, the transaction row of block 1 and the parked transaction disappear -/
example : (final.1.reorg 0).2 = .ok ∧
    ∀ i k, ((final.1.reorg 0).1.t i).latest k = (final.2.s i).readAt k 0 :=
  final_reach.reorg_restores final_not_refused final_pool

example : (final.1.t .account).latest "aa" = some acct1 ∧ ((final.1.reorg 0).1.t .account).latest "aa" = some acct0 ∧
    (final.1.t .tx).latest "t1" = some "x" ∧ ((final.1.reorg 0).1.t .tx).latest "t1" = none ∧
    (final.1.t .pendingTxid).latest "77" = some "cd" ∧ ((final.1.reorg 0).1.t .pendingTxid).latest "77" = none ∧
    (final.2.s .pending).maxEver = 2 := by decide

/-- the shape of finding F10 is reachable: right after the parked submission (height 0, nothing under
construction) the pool tables have been passed block number 1, above the tip - the hypothesis of the payoff theorem
is not redundant -/
example : (runOps (ops.take 2) ({}, Ghost.init)).1.lbi.waiting = 0 ∧
    (runOps (ops.take 2) ({}, Ghost.init)).1.latestHeight = 0 ∧ (runOps (ops.take 2) ({}, Ghost.init)).1.mb = 0 ∧
    ((runOps (ops.take 2) ({}, Ghost.init)).2.s .pending).maxEver = 1 := by decide

/-- the node after that rollback is reachable too, with the logs cut at block 0 -/
theorem rolled_reach : ReachG (final.1.reorg 0).1 (gReorg final.1 final.2 0) :=
  ReachG.step (.reorg 0) final_reach
    (by show (final.1.reorg 0).2.accepted
        rw [(final_reach.reorg_restores final_not_refused final_pool).1]; trivial)
    (fun hnr i hi => by
      have := final_pool i hi
      simp only [Refused, not_or] at hnr
      obtain ⟨_, h2, h3, h4⟩ := hnr
      unfold mb at this
      omega)

/-- **`maxEver ≤ nextHeight` and `maxEver ≤ latestHeight` are false on reachable nodes**: `maxEver` is the newest
block number *ever* passed to the table and a rollback does not lower it. After the rollback to block 0 above, at
a block boundary, the `account` table (not a pool table) has `maxEver = 2` while the height is 0 and the next block
is 1. (What does hold is `RInv.stamps`: `top ≤ latestHeight` and `maxEver ≤` highest block ever finalised.) -/
example : (final.1.reorg 0).1.lbi.waiting = 0 ∧ (final.1.reorg 0).1.latestHeight = 0 ∧
    (final.1.reorg 0).1.nextHeight = 1 ∧ (final.1.reorg 0).1.mb = 2 ∧
    ((gReorg final.1 final.2 0).s .account).maxEver = 2 ∧ ((gReorg final.1 final.2 0).s .account).top = 0 := by
  decide

end Example

end Node

end Brc20
