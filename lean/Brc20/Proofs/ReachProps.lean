/-
What every reachable node satisfies beyond `RInv` (Proofs/NodeRun.lean), as needed to state the property theorems
C03 / C05 / C06 for every reachable state.

  * `Node.HInv n`            - block tables: no number bound twice in a column or a cache; every hash row is at or
                               below the height being built, and strictly below it at a block boundary; the tip block
                               (`latest = some (h, x)`) has its hash row `x` and both block rows.
  * `Reach.hinv`             - every reachable node satisfies `HInv` (indeed every node obtained by any sequence of
                               calls, whatever the answers: `HInv.step`).
  * `HInv.heightInv`         - at a block boundary `HInv` gives `HeightInv` (Proofs/NodeSim.lean).
  * `mineLoop_not_err`       - after the pre-checks of `mine`, the loop cannot answer an error, provided no recorded
                               hash-index write of a block of the call is keyed by the hash generated for a *later*
                               block of the same call (`MineHashDiscipline`).
  * `generatedHash_inj`      - generated hashes of different numbers (below `16 ^ 64 - 1`) differ.
  * `Ghost` bookkeeping      - `Op.ghost_d`: the log as of the last commit changes only at a commit point.
  * `Op.run_clearEq`         - a call that is not a commit point (`commit`, `reorg`) writes caches only (every node).
  * `Node.SInv`, `Reach.sinv`- every row of the block / raw-block table has a hash row of the same number (mid-block:
                               except a row of the number being built).

  * `Node.BInv`, `Reach.binv`- block tables, mid-block included: every hash row strictly below the height being
                               built; the three block tables hold rows for the same numbers (caches and columns).
  * `Reach.heightInv_always` - `HeightInv` on every reachable node; `Reach.block_rows`: the rows of each block table are
                               exactly the numbers below the height being built.
  * `addTxs_block_frame`, `addRawTx_block_frame` - a call that adds transactions leaves the block tables alone.
  * `mineLoop_not_err_fit`, `mine_err_noop_fit` - the same as above without `MineHashDiscipline` (block numbers below
                               `16 ^ 64`).

Findings recorded here, and what became of them. Three places were found where the model accepted event lists the
engine never produces (machine-checked counterexamples were in `Brc20/Props/C03.lean`, `C05.lean`, `C06.lean`):
  * `HeightInv` was false mid-block on reachable nodes (an accepted `addTxs` could record a hash row for the block under
    construction).
  * The model accepted a finalise that writes additional `block_hash_to_number` rows, so that without
    `MineHashDiscipline` the model's `mine` could answer `err "exists"` after having finalised a block.
  * The model did not force the three block tables to hold rows for the same numbers.
`Model/Node.lean` now refuses those event lists (`noBlockWrites` / reject `tx-wrote-block-table` in `addTxs`;
`finOnly` / reject `fin-wrote` in `finaliseOne`); the former counterexamples are examples of rejected event lists in
the same Props files, and the unconditional statements are proved in the last two sections of this file.
-/
import Brc20.Proofs.NodeRun
set_option linter.unusedSectionVars false

namespace Brc20
open Node

namespace BlockDb
variable {V : Type}

theorem nextOf_lastKey_mono {t u : BlockDb V} (h : ∀ k, t.get k ≠ none → u.get k ≠ none) :
    nextOf t.lastKey ≤ nextOf u.lastKey := by
  have hs := lastKey_spec t
  cases hl : t.lastKey with
  | none => exact Nat.zero_le _
  | some a =>
    rw [hl] at hs
    have := lt_nextOf_of_get (h a hs.1)
    show a + 1 ≤ _
    omega

theorem set_nodup {t : BlockDb V} (nd : AMap.Nodup t.db ∧ AMap.Nodup t.cache) (n : Nat) (v : V) :
    AMap.Nodup (t.set n v).db ∧ AMap.Nodup (t.set n v).cache :=
  ⟨nd.1, AMap.nodup_insert nd.2 n v⟩

theorem clear_nodup {t : BlockDb V} (nd : AMap.Nodup t.db) : AMap.Nodup t.clear.db ∧ AMap.Nodup t.clear.cache :=
  ⟨nd, by simp [clear, AMap.Nodup, AMap.keys]⟩

theorem commit_clear_nodup {t : BlockDb V} (nd : AMap.Nodup t.db) :
    AMap.Nodup t.commit.clear.db ∧ AMap.Nodup t.commit.clear.cache :=
  clear_nodup (commit_nodup t nd)

end BlockDb

namespace Node
open BlockDb (Contig nextOf)

/-! ## What the recorded writes of one operation do to the block tables -/

theorem _root_.Brc20.Table.set_clear {t t' : Table String String} {b : Nat} {k v : String}
    (h : t.set W b k v = some t') : t'.clear = t.clear := by
  simp only [Table.set] at h
  split at h
  · cases h; rfl
  · cases h

theorem _root_.Brc20.Table.unset_clear {t t' : Table String String} {b : Nat} {k : String}
    (h : t.unset W b k = some t') : t'.clear = t.clear := by
  simp only [Table.unset] at h
  split at h
  · cases h; rfl
  · cases h

/-- `n'` is `n` after some block-table rows were filed under the number `e` (and any versioned-table writes). -/
structure BStep (e : Nat) (n n' : Node) : Prop where
  lbi : n'.lbi = n.lbi
  latest : n'.latest = n.latest
  maxBlock : n'.maxBlock = n.maxBlock
  other : ∀ i k, k ≠ e → (n'.b i).get k = (n.b i).get k
  kept : ∀ i, (n.b i).get e ≠ none → (n'.b i).get e ≠ none
  nodup : (∀ i, AMap.Nodup (n.b i).db ∧ AMap.Nodup (n.b i).cache) →
    ∀ i, AMap.Nodup (n'.b i).db ∧ AMap.Nodup (n'.b i).cache
  /-- only the caches are written -/
  tclear : ∀ i, (n'.t i).clear = (n.t i).clear
  bclear : ∀ i, (n'.b i).clear = (n.b i).clear

theorem BStep.refl (e : Nat) (n : Node) : BStep e n n :=
  ⟨rfl, rfl, rfl, fun _ _ _ => rfl, fun _ h => h, fun h => h, fun _ => rfl, fun _ => rfl⟩

theorem BStep.trans {e : Nat} {a b c : Node} (h1 : BStep e a b) (h2 : BStep e b c) : BStep e a c :=
  ⟨h2.lbi.trans h1.lbi, h2.latest.trans h1.latest, h2.maxBlock.trans h1.maxBlock,
    fun i k hk => (h2.other i k hk).trans (h1.other i k hk), fun i h => h2.kept i (h1.kept i h),
    fun h => h2.nodup (h1.nodup h), fun i => (h2.tclear i).trans (h1.tclear i),
    fun i => (h2.bclear i).trans (h1.bclear i)⟩

theorem BStep.rows {e : Nat} {n n' : Node} (h : BStep e n n') (i : BId) {k : Nat} (hk : (n.b i).get k ≠ none) :
    (n'.b i).get k ≠ none := by
  by_cases hke : k = e
  · subst hke; exact h.kept i hk
  · rw [h.other i k hke]; exact hk

theorem BStep.rows_inv {e : Nat} {n n' : Node} (h : BStep e n n') (i : BId) {k : Nat} (hk : (n'.b i).get k ≠ none) :
    (n.b i).get k ≠ none ∨ k = e := by
  by_cases hke : k = e
  · exact Or.inr hke
  · rw [h.other i k hke] at hk; exact Or.inl hk

theorem BStep.nextHeight_le {e : Nat} {n n' : Node} (h : BStep e n n') : n.nextHeight ≤ n'.nextHeight := by
  rw [nextHeight_eq, nextHeight_eq, h.latest]
  cases n.latest with
  | some p => exact Nat.le_refl _
  | none => exact BlockDb.nextOf_lastKey_mono (fun k hk => h.rows .numberToHash hk)

theorem applyS_bstep {n n' : Node} {e : Nat} {tb : String} {st : Nat} {k : String} {v : Option String}
    (ha : n.applyS e tb st k v = some n') : BStep e n n' := by
  obtain ⟨h1, h2, h3⟩ := applyS_fields ha
  unfold Node.applyS at ha
  split at ha
  · cases ha
  · rename_i hst
    have hst : st = e := Decidable.not_not.mp hst
    subst hst
    split at ha
    · -- a versioned table
      rename_i i _
      have hb : n'.b = n.b ∧ ∀ j, (n'.t j).clear = (n.t j).clear := by
        split at ha
        · simp only [Option.map_eq_some_iff] at ha
          obtain ⟨x, hx, rfl⟩ := ha
          refine ⟨rfl, fun j => ?_⟩
          by_cases hj : j = i
          · subst hj; simp only [setT, if_true]; exact Table.set_clear hx
          · simp only [setT, hj, if_false]
        · simp only [Option.map_eq_some_iff] at ha
          obtain ⟨x, hx, rfl⟩ := ha
          refine ⟨rfl, fun j => ?_⟩
          by_cases hj : j = i
          · subst hj; simp only [setT, if_true]; exact Table.unset_clear hx
          · simp only [setT, hj, if_false]
      obtain ⟨hb, htc⟩ := hb
      exact ⟨h1, h2, h3, fun i k _ => by rw [hb], fun i h => by rw [hb]; exact h, fun h => by rw [hb]; exact h, htc,
        fun i => by rw [hb]⟩
    · split at ha
      · rename_i i v' _
        split at ha
        · rename_i hk
          cases ha
          rw [hk]
          refine ⟨h1, h2, h3, ?_, ?_, ?_, fun _ => rfl, ?_⟩
          rotate_right
          · intro j
            by_cases hj : j = i
            · subst hj; simp only [setB, if_true]; rfl
            · simp only [setB, hj, if_false]
          · intro j k' hk'
            by_cases hj : j = i
            · subst hj
              simp only [setB, if_true, BlockDb.get_set, hk', if_false]
            · simp only [setB, hj, if_false]
          · intro j hj'
            by_cases hj : j = i
            · subst hj
              simp [setB, BlockDb.get_set]
            · simpa only [setB, hj, if_false] using hj'
          · intro hnd j
            by_cases hj : j = i
            · subst hj
              simp only [setB, if_true]
              exact BlockDb.set_nodup (hnd j) _ _
            · simp only [setB, hj, if_false]; exact hnd j
        · cases ha
      · cases ha

theorem applyEvents_bstep {n n' : Node} {e : Nat} {evs : List Ev} (ha : applyEvents n e evs = some n') :
    BStep e n n' := by
  induction evs generalizing n with
  | nil => simp only [applyEvents] at ha; cases ha; exact BStep.refl _ _
  | cons ev rest ih =>
    cases ev with
    | s tb st k v =>
      simp only [applyEvents] at ha
      split at ha
      · rename_i n1 h1
        exact (applyS_bstep h1).trans (ih ha)
      · cases ha
    | x kind fs okRun succ gas logs => simp only [applyEvents] at ha; exact ih ha
    | other => simp only [applyEvents] at ha; exact ih ha

/-! ## The height invariant -/

/-- Block tables of every reachable node. -/
structure HInv (n : Node) : Prop where
  nodup : ∀ i, AMap.Nodup (n.b i).db ∧ AMap.Nodup (n.b i).cache
  /-- no hash row above the height being built -/
  rows_next : ∀ k, (n.b .numberToHash).get k ≠ none → k ≤ n.nextHeight
  /-- at a block boundary: no hash row at or above the next height -/
  rows_bdry : n.lbi.waiting = 0 → ∀ k, (n.b .numberToHash).get k ≠ none → k < n.nextHeight
  /-- the tip block has its hash row and both block rows -/
  tip : ∀ h x, n.latest = some (h, x) →
    (n.b .numberToHash).get h = some x ∧ (n.b .block).get h ≠ none ∧ (n.b .rawBlock).get h ≠ none

/-- with no in-memory height, the heights are read off the hash table: nothing to show but `nodup` -/
theorem HInv.of_latest_none {n : Node} (hnd : ∀ i, AMap.Nodup (n.b i).db ∧ AMap.Nodup (n.b i).cache)
    (hl : n.latest = none) : HInv n := by
  have hnx : n.nextHeight = nextOf (n.b .numberToHash).lastKey := by rw [nextHeight_eq, hl]
  refine ⟨hnd, ?_, ?_, ?_⟩
  · intro k hk; rw [hnx]; exact Nat.le_of_lt (BlockDb.lt_nextOf_of_get hk)
  · intro _ k hk; rw [hnx]; exact BlockDb.lt_nextOf_of_get hk
  · intro h x hx; rw [hl] at hx; cases hx

theorem HInv.init : HInv ({} : Node) :=
  HInv.of_latest_none (fun _ => ⟨by simp [AMap.Nodup, AMap.keys], by simp [AMap.Nodup, AMap.keys]⟩) rfl

/-- `HInv` only looks at the block tables, the in-memory height and the transaction count -/
theorem HInv.congr {n n' : Node} (h : HInv n) (hb : n'.b = n.b) (hl : n'.latest = n.latest)
    (hw : n'.lbi.waiting = 0 → n.lbi.waiting = 0) : HInv n' := by
  have hnx : n'.nextHeight = n.nextHeight := by rw [nextHeight_eq, nextHeight_eq, hl, hb]
  refine ⟨by rw [hb]; exact h.nodup, ?_, ?_, ?_⟩
  · rw [hb, hnx]; exact h.rows_next
  · intro hw'; rw [hb, hnx]; exact h.rows_bdry (hw hw')
  · rw [hb, hl]; exact h.tip

/-- the recorded writes of a transaction (any number of runs, at least one) -/
theorem HInv.events_mid {n n' : Node} (h : HInv n) {evs : List Ev} (ha : applyEvents n n.nextHeight evs = some n')
    (l : Lbi) (hl : l.waiting ≠ 0) : HInv { n' with lbi := l } := by
  have hs := applyEvents_bstep ha
  have hle := hs.nextHeight_le
  have hnx : ({ n' with lbi := l } : Node).nextHeight = n'.nextHeight := rfl
  refine ⟨hs.nodup h.nodup, ?_, fun hw => absurd hw hl, ?_⟩
  · intro k hk
    rw [hnx]
    rcases hs.rows_inv .numberToHash hk with hk' | rfl
    · exact Nat.le_trans (h.rows_next k hk') hle
    · exact hle
  · intro a x hx
    have hx' : n.latest = some (a, x) := by rw [← hs.latest]; exact hx
    have hne : a ≠ n.nextHeight := by rw [nextHeight_eq, hx']; simp only []; omega
    obtain ⟨t1, t2, t3⟩ := h.tip a x hx'
    show (n'.b .numberToHash).get a = some x ∧ (n'.b .block).get a ≠ none ∧ (n'.b .rawBlock).get a ≠ none
    rw [hs.other _ a hne, hs.other _ a hne, hs.other _ a hne]
    exact ⟨t1, t2, t3⟩

theorem HInv.addTxs {n : Node} (h : HInv n) (ts : Nat) (hash0 : String) (idx : Nat) (txid : Option String)
    (evs : List Ev) (k : Option Nat) : HInv (n.addTxs ts hash0 idx txid evs k).1 := by
  by_cases hok : (n.addTxs ts hash0 idx txid evs k).2 = .ok
  · obtain ⟨_, hr, _, _, _, n', ha, hn⟩ := addTxs_ok hok
    rw [hn]
    apply h.events_mid ha
    rw [bumpLbi_waiting]
    intro h0
    have : (txRuns evs).length = 0 := by omega
    exact hr (List.eq_nil_of_length_eq_zero this)
  · rw [addTxs_fst_of_ne_ok hok]; exact h

theorem HInv.finaliseOne {n : Node} (h : HInv n) (ts : Nat) (hash0 : String) (count : Nat) (evs : List Ev) :
    HInv (n.finaliseOne ts hash0 count evs).1 := by
  by_cases hok : (n.finaliseOne ts hash0 count evs).2 = .ok
  · obtain ⟨n', ha, hrow, hn⟩ := finaliseOne_ok_node hok
    obtain ⟨_, n'', ha', _, hb1, hb2, _⟩ := finaliseOne_ok hok
    rw [ha, Option.some.injEq] at ha'
    subst ha'
    rw [hn]
    have hs := applyEvents_bstep ha
    have hrows : ∀ k, (n'.b .numberToHash).get k ≠ none → k ≤ n.nextHeight := by
      intro k hk
      rcases hs.rows_inv .numberToHash hk with hk' | rfl
      · exact h.rows_next k hk'
      · exact Nat.le_refl _
    refine ⟨hs.nodup h.nodup, ?_, ?_, ?_⟩
    · intro k hk
      show k ≤ n.nextHeight + 1
      exact Nat.le_succ_of_le (hrows k hk)
    · intro _ k hk
      show k < n.nextHeight + 1
      exact Nat.lt_succ_of_le (hrows k hk)
    · intro a x hx
      simp only [Option.some.injEq, Prod.mk.injEq] at hx
      obtain ⟨rfl, rfl⟩ := hx
      refine ⟨hrow, ?_, ?_⟩
      · intro hc; rw [hc] at hb1; cases hb1
      · intro hc; rw [hc] at hb2; cases hb2
  · rw [finaliseOne_fst_of_ne_ok hok]; exact h

theorem HInv.mineLoop {n : Node} (h : HInv n) (ts : Nat) (evs : List Ev) (k : Nat) :
    HInv (mineLoop n ts evs k).1 := by
  induction k generalizing n with
  | zero => exact h
  | succ k ih =>
    have hf := h.finaliseOne ts zeroHash 0 (evs.filter (fun e => stampOf e == some n.nextHeight))
    simp only [Node.mineLoop]
    cases hr : Node.finaliseOne n ts zeroHash 0 (evs.filter (fun e => stampOf e == some n.nextHeight)) with
    | mk n' c =>
      rw [hr] at hf
      cases c with
      | ok => exact ih hf
      | err e => exact hf
      | panic => exact hf
      | reject w => exact hf

theorem HInv.mine {n : Node} (h : HInv n) (count ts : Nat) (evs : List Ev) : HInv (n.mine count ts evs).1 := by
  unfold Node.mine
  split
  · exact h
  · split
    · exact h
    · exact h.mineLoop ts evs count

theorem HInv.addRawTx {n : Node} (h : HInv n) (ts : Nat) (hash0 : String) (idx : Nat) (txid : String)
    (dec : RawDecode) (evs : List Ev) : HInv (n.addRawTx ts hash0 idx txid dec evs).1 := by
  cases dec with
  | fail => exact h
  | wrongChain =>
    simp only [Node.addRawTx]
    split <;> exact h
  | ok sender nonce =>
    simp only [Node.addRawTx]
    by_cases h1 : nonce ≠ n.accountNonce sender
    · rw [if_pos h1]
      by_cases h2 : nonce > n.accountNonce sender ∧ nonce < n.accountNonce sender + FUTURE_NONCES
      · rw [if_pos h2]
        by_cases h3 : (!(txRuns evs).isEmpty) = true
        · rw [if_pos h3]; exact h
        · rw [if_neg h3]
          by_cases h4 : (!poolOnly evs) = true
          · rw [if_pos h4]; exact h
          · rw [if_neg h4]
            have hp : poolOnly evs = true := by simpa using h4
            by_cases h5 : (!parkedShape sender nonce n.nextHeight evs) = true
            · rw [if_pos h5]; exact h
            · rw [if_neg h5]
              cases ha : applyEvents n n.nextHeight evs with
              | none => exact h
              | some n' =>
                obtain ⟨hlbi, hlat, _⟩ := applyEvents_fields ha
                exact h.congr (applyEvents_pool_frame hp ha) hlat (fun hw => by rw [← hlbi]; exact hw)
      · rw [if_neg h2]
        split <;> exact h
    · rw [if_neg h1]
      exact drainCheck_fst_ind h (h.addTxs ts hash0 idx (some txid) evs _)

theorem HInv.commitAll {n : Node} (h : HInv n) : HInv n.commitAll :=
  HInv.of_latest_none (fun i => BlockDb.commit_clear_nodup (h.nodup i).1) rfl

theorem HInv.commit {n : Node} (h : HInv n) : HInv n.commit.1 := by
  unfold Node.commit
  split
  · exact h
  · exact h.commitAll

theorem HInv.clear {n : Node} (h : HInv n) : HInv (n.clear).1 :=
  HInv.of_latest_none (fun i => BlockDb.clear_nodup (h.nodup i).1) rfl

theorem HInv.reorg {n : Node} (h : HInv n) (target : Nat) : HInv (n.reorg target).1 := by
  by_cases hr : Refused n target
  · rw [reorg_fst_of_refused hr]; exact h
  · rw [reorg_of_not_refused n target hr]
    unfold reorgBody
    cases hx : reorgTables n target allTIds with
    | none => exact h
    | some n1 =>
      obtain ⟨eb, _, _, _⟩ := reorgTables_frame target allTIds n n1 hx
      apply HInv.of_latest_none _ rfl
      intro i
      show AMap.Nodup ((n1.b i).reorg target).commit.clear.db ∧ AMap.Nodup ((n1.b i).reorg target).commit.clear.cache
      rw [eb]
      exact BlockDb.commit_clear_nodup (BlockDb.reorg_nodup _ _ (h.nodup i)).1

theorem HInv.initialise {n : Node} (h : HInv n) (hash0 : String) (ts height : Nat) (evs : List Ev) :
    HInv (n.initialise hash0 ts height evs).1 := by
  rw [initialise_eq]
  cases (n.b .block).get height with
  | some _ => simp only []; split <;> exact h
  | none =>
    simp only []
    by_cases hh : height ≠ n.nextHeight
    · rw [if_pos hh]; exact h
    · rw [if_neg hh]
      have ha := h.addTxs ts (normHash hash0 height) 0 (some zeroHash) (evs.filter (fun e => !isFinEv e)) (some 1)
      cases hr : Node.addTxs n ts (normHash hash0 height) 0 (some zeroHash) (evs.filter (fun e => !isFinEv e)) (some 1) with
      | mk n1 c =>
        rw [hr] at ha
        cases c with
        | ok => exact ha.finaliseOne _ _ _ _
        | err e => exact ha
        | panic => exact ha
        | reject w => exact ha

/-- any call, whatever it answers -/
theorem HInv.step {n : Node} (h : HInv n) (op : Op) : HInv (op.run n).1 := by
  cases op with
  | initialise hash0 ts height evs => exact h.initialise hash0 ts height evs
  | mine count ts evs => exact h.mine count ts evs
  | addTxs ts hash0 idx txid evs k => exact h.addTxs ts hash0 idx txid evs k
  | addRawTx ts hash0 idx txid dec evs => exact h.addRawTx ts hash0 idx txid dec evs
  | finaliseOne ts hash0 count evs => exact h.finaliseOne ts hash0 count evs
  | commit => exact h.commit
  | clear => exact h.clear
  | reopen => exact h.clear
  | reorg target => exact h.reorg target

theorem Reach.hinv {n : Node} (h : Reach n) : HInv n := by
  induction h with
  | init => exact HInv.init
  | step op _ _ ih => exact ih.step op

theorem ReachG.hinv {n : Node} {G : Ghost} (h : ReachG n G) : HInv n := h.reach.hinv

/-- at a block boundary the in-memory height, when present, is the newest hash row -/
theorem HInv.latest_is_last {n : Node} (h : HInv n) (hw : n.lbi.waiting = 0) (a : Nat) (x : String)
    (hx : n.latest = some (a, x)) : (n.b .numberToHash).lastKey = some a := by
  apply BlockDb.lastKey_of_get
  · rw [(h.tip a x hx).1]; simp
  · intro k hk
    cases hg : (n.b .numberToHash).get k with
    | none => rfl
    | some v =>
      have := h.rows_bdry hw k (by rw [hg]; simp)
      rw [nextHeight_eq, hx] at this
      simp only [] at this
      omega

theorem HInv.heightInv {n : Node} (h : HInv n) (hw : n.lbi.waiting = 0) : HeightInv n :=
  ⟨h.latest_is_last hw, h.nodup⟩

/-- **`HeightInv` holds on every reachable node at a block boundary.** -/
theorem Reach.heightInv {n : Node} (h : Reach n) (hw : n.lbi.waiting = 0) : HeightInv n := h.hinv.heightInv hw

/-- at a block boundary the heights are those of the hash table -/
theorem HInv.heights_bdry {n : Node} (h : HInv n) (hw : n.lbi.waiting = 0) :
    n.latestHeight = ((n.b .numberToHash).lastKey).getD 0 ∧ n.nextHeight = nextOf (n.b .numberToHash).lastKey := by
  rw [latestHeight_eq, nextHeight_eq]
  cases hx : n.latest with
  | none => exact ⟨rfl, rfl⟩
  | some p =>
    obtain ⟨a, x⟩ := p
    rw [h.latest_is_last hw a x hx]
    exact ⟨rfl, rfl⟩

/-! ## Generated hashes of different numbers differ -/

def hexDigitVal (c : Char) : Nat :=
  if '0' ≤ c && c ≤ '9' then c.toNat - 48 else if 'a' ≤ c && c ≤ 'f' then c.toNat - 87 else 0

theorem hexVal_eq (s : String) : hexVal s = s.toList.foldl (fun acc c => acc * 16 + hexDigitVal c) 0 := rfl

theorem hexDigitVal_hexDigitChar : ∀ d, d < 16 → hexDigitVal (hexDigitChar d) = d := by decide

theorem hexN_go_append (w m : Nat) (acc : List Char) : hexN.go w m acc = hexN.go w m [] ++ acc := by
  induction w generalizing m acc with
  | zero => simp [hexN.go]
  | succ w ih =>
    simp only [hexN.go]
    rw [ih (m / 16) (hexDigitChar (m % 16) :: acc), ih (m / 16) [hexDigitChar (m % 16)]]
    simp

theorem foldl_hexN_go (w m : Nat) :
    (hexN.go w m []).foldl (fun acc c => acc * 16 + hexDigitVal c) 0 = m % 16 ^ w := by
  induction w generalizing m with
  | zero => simp [hexN.go, Nat.mod_one]
  | succ w ih =>
    simp only [hexN.go]
    rw [hexN_go_append, List.foldl_append, ih]
    simp only [List.foldl_cons, List.foldl_nil]
    rw [hexDigitVal_hexDigitChar _ (Nat.mod_lt _ (by decide))]
    rw [Nat.pow_succ, Nat.mul_comm (16 ^ w) 16, Nat.mod_mul]
    omega

/-- reading back fixed-width hex -/
theorem hexVal_hexN (w m : Nat) : hexVal (hexN w m) = m % 16 ^ w := by
  rw [hexVal_eq]
  unfold hexN
  simp only [String.toList_ofList]
  exact foldl_hexN_go w m

/-- `generate_block_hash` is injective on numbers that fit in 32 bytes (block numbers are `u64`) -/
theorem generatedHash_inj {a b : Nat} (ha : a + 1 < 16 ^ 64) (hb : b + 1 < 16 ^ 64)
    (h : generatedHash a = generatedHash b) : a = b := by
  have := congrArg hexVal h
  simp only [generatedHash, hexVal_hexN, Nat.mod_eq_of_lt ha, Nat.mod_eq_of_lt hb] at this
  omega

/-! ## `mine` cannot fail half-way -/

theorem ofName_name {tb : String} {i : TId} (h : TId.ofName tb = some i) : tb = i.name := by
  unfold TId.ofName at h
  have := List.find?_some h
  simp only [beq_iff_eq] at this
  exact this.symm

theorem _root_.Brc20.Table.latest_insert_other (t : Table String String) (k : String) (h : Hist String) {key : String}
    (hk : key ≠ k) : ({ t with cache := t.cache.insert k h } : Table String String).latest key = t.latest key := by
  simp only [Table.latest, AMap.get?_insert, hk, if_false]

theorem _root_.Brc20.Table.latest_set_other {t t' : Table String String} {b : Nat} {k v key : String}
    (h : t.set W b k v = some t') (hk : key ≠ k) : t'.latest key = t.latest key := by
  simp only [Table.set] at h
  split at h
  · cases h; exact Table.latest_insert_other t k _ hk
  · cases h

theorem _root_.Brc20.Table.latest_unset_other {t t' : Table String String} {b : Nat} {k key : String}
    (h : t.unset W b k = some t') (hk : key ≠ k) : t'.latest key = t.latest key := by
  simp only [Table.unset] at h
  split at h
  · cases h; exact Table.latest_insert_other t k _ hk
  · cases h

/-- a recorded write that is not a hash-index write for `key` leaves the hash index of `key` alone -/
theorem applyS_hashIndex {n n' : Node} {e : Nat} {tb : String} {st : Nat} {k : String} {v : Option String}
    (ha : n.applyS e tb st k v = some n') {key : String} (hk : tb = TId.hashToNumber.name → k ≠ key) :
    (n'.t .hashToNumber).latest key = (n.t .hashToNumber).latest key := by
  unfold Node.applyS at ha
  split at ha
  · cases ha
  · cases hT : TId.ofName tb with
    | some i =>
      rw [hT] at ha
      by_cases hi : i = .hashToNumber
      · subst hi
        have hne : key ≠ k := fun x => hk (ofName_name hT) x.symm
        cases v with
        | some v =>
          simp only [Option.map_eq_some_iff] at ha
          obtain ⟨t', e1, rfl⟩ := ha
          simp only [setT, if_true]
          exact Table.latest_set_other e1 hne
        | none =>
          simp only [Option.map_eq_some_iff] at ha
          obtain ⟨t', e1, rfl⟩ := ha
          simp only [setT, if_true]
          exact Table.latest_unset_other e1 hne
      · have hne : TId.hashToNumber ≠ i := fun x => hi x.symm
        cases v with
        | some v =>
          simp only [Option.map_eq_some_iff] at ha
          obtain ⟨t', _, rfl⟩ := ha
          simp only [setT, hne, if_false]
        | none =>
          simp only [Option.map_eq_some_iff] at ha
          obtain ⟨t', _, rfl⟩ := ha
          simp only [setT, hne, if_false]
    | none =>
      rw [hT] at ha
      simp only [] at ha
      split at ha
      · split at ha
        · cases ha; rfl
        · cases ha
      · cases ha

theorem applyEvents_hashIndex {n n' : Node} {e : Nat} {evs : List Ev} (ha : applyEvents n e evs = some n')
    {key : String} (hk : ∀ st k v, Ev.s TId.hashToNumber.name st k v ∈ evs → k ≠ key) :
    (n'.t .hashToNumber).latest key = (n.t .hashToNumber).latest key := by
  induction evs generalizing n with
  | nil => simp only [applyEvents] at ha; cases ha; rfl
  | cons ev rest ih =>
    have hrest : ∀ st k v, Ev.s TId.hashToNumber.name st k v ∈ rest → k ≠ key :=
      fun st k v hm => hk st k v (List.mem_cons_of_mem _ hm)
    cases ev with
    | s tb st k v =>
      simp only [applyEvents] at ha
      split at ha
      · rename_i n1 h1
        rw [ih ha hrest]
        apply applyS_hashIndex h1
        intro htb
        subst htb
        exact hk st k v List.mem_cons_self
      · cases ha
    | x kind fs okRun succ gas logs => simp only [applyEvents] at ha; exact ih ha hrest
    | other => simp only [applyEvents] at ha; exact ih ha hrest

/-- **Hash-index discipline of one `mine` call**: no recorded `block_hash_to_number` write of a block of the call is
keyed by the hash `mine` generates for a *later* block of the same call. (The engine's finalise of block `b` writes
exactly one such row, keyed by the hash of block `b`; the model's `finaliseOne` checks that this row is there but
does not refuse additional ones.) Vacuous for `count ≤ 1`. -/
def MineHashDiscipline (n : Node) (count : Nat) (evs : List Ev) : Prop :=
  ∀ st k v j, Ev.s TId.hashToNumber.name st k v ∈ evs → n.nextHeight ≤ st → st < j → j < n.nextHeight + count →
    k ≠ generatedHash j

/-- the discipline in its natural form: every recorded hash-index write is keyed by the hash generated for the block
it is stamped with (block numbers fit in 32 bytes) -/
theorem mineHashDiscipline_of_own_hash {n : Node} {count : Nat} {evs : List Ev}
    (hown : ∀ st k v, Ev.s TId.hashToNumber.name st k v ∈ evs → k = generatedHash st)
    (hfit : n.nextHeight + count < 16 ^ 64) : MineHashDiscipline n count evs := by
  intro st k v j hm h1 h2 h3 he
  rw [hown st k v hm] at he
  have := generatedHash_inj (by omega) (by omega) he
  omega

theorem mineClash_false {n : Node} {count : Nat} (h : n.mineClash count = false) :
    ∀ j, n.nextHeight ≤ j → j < n.nextHeight + count → n.blockExists (generatedHash j) j = false := by
  intro j h1 h2
  unfold mineClash at h
  rw [List.any_eq_false] at h
  have := h (j - n.nextHeight) (List.mem_range.mpr (by omega))
  have e : n.nextHeight + (j - n.nextHeight) = j := by omega
  rw [e] at this
  simpa using this

/-- with nothing under construction and none of the hashes / numbers of the remaining blocks in use, the loop of
`mine` never answers an error (it may still stop on a panic or a model reject, which are not answers) -/
theorem mineLoop_not_err {n : Node} (ts : Nat) (evs : List Ev) (c hi : Nat) (hhi : hi = n.nextHeight + c)
    (hw : n.lbi.waiting = 0)
    (hfree : ∀ j, n.nextHeight ≤ j → j < hi → n.blockExists (generatedHash j) j = false)
    (hd : ∀ st k v j, Ev.s TId.hashToNumber.name st k v ∈ evs → n.nextHeight ≤ st → st < j → j < hi →
      k ≠ generatedHash j)
    (e : String) : (mineLoop n ts evs c).2 ≠ .err e := by
  induction c generalizing n with
  | zero => simp [Node.mineLoop]
  | succ c ih =>
    simp only [Node.mineLoop]
    cases hr : Node.finaliseOne n ts zeroHash 0 (evs.filter (fun e => stampOf e == some n.nextHeight)) with
    | mk n1 cl =>
      cases cl with
      | ok =>
        simp only []
        have hok : (Node.finaliseOne n ts zeroHash 0 (evs.filter (fun e => stampOf e == some n.nextHeight))).2 = .ok := by
          rw [hr]
        obtain ⟨n', ha, _, hn⟩ := finaliseOne_ok_node hok
        rw [hr] at hn
        simp only [] at hn
        have hs := applyEvents_bstep ha
        have hnx : n1.nextHeight = n.nextHeight + 1 := by rw [hn]; rfl
        have hw1 : n1.lbi.waiting = 0 := by rw [hn]
        apply ih (by omega) hw1
        · intro j h1 h2
          rw [hnx] at h1
          have hf := hfree j (by omega) h2
          simp only [blockExists, Bool.or_eq_false_iff] at hf ⊢
          have hb : n1.blockHashAt j = n.blockHashAt j := by
            rw [hn]
            show (n'.b .numberToHash).get j = _
            exact hs.other _ j (by omega)
          have ht : n1.blockNumberOf (generatedHash j) = n.blockNumberOf (generatedHash j) := by
            rw [hn]
            show (n'.t .hashToNumber).latest _ = _
            apply applyEvents_hashIndex ha
            intro st k v hm
            rw [List.mem_filter] at hm
            have hst : st = n.nextHeight := by simpa [stampOf] using hm.2
            exact hd st k v j hm.1 (by omega) (by omega) h2
          rw [hb, ht]; exact hf
        · intro st k v j hm h1 h2 h3
          exact hd st k v j hm (by omega) h2 h3
      | err e' =>
        exfalso
        have he : (Node.finaliseOne n ts zeroHash 0 (evs.filter (fun e => stampOf e == some n.nextHeight))).2 = .err e' := by
          rw [hr]
        have hv := (finaliseOne_err he).1
        have hg : normHash zeroHash n.nextHeight = generatedHash n.nextHeight := by simp [normHash]
        rw [hg] at hv
        have hf := hfree n.nextHeight (Nat.le_refl _) (by omega)
        simp [validateNextTx, hw, hf] at hv
      | panic => simp
      | reject w => simp

/-- **An error answer of `mine` leaves the node unchanged** (under the hash-index discipline). -/
theorem mine_err_noop {n : Node} {count ts : Nat} {evs : List Ev} (hd : MineHashDiscipline n count evs) {e : String}
    (he : (n.mine count ts evs).2 = .err e) : (n.mine count ts evs).1 = n := by
  unfold Node.mine at he ⊢
  by_cases hw : n.lbi.waiting ≠ 0
  · rw [if_pos hw]
  · rw [if_neg hw] at he ⊢
    by_cases hc : n.mineClash count = true
    · rw [if_pos hc]
    · rw [if_neg hc] at he ⊢
      exfalso
      exact mineLoop_not_err ts evs count (n.nextHeight + count) rfl (Decidable.not_not.mp hw)
        (mineClash_false (by simpa using hc)) hd e he

/-! ## The log as of the last commit changes only at commit points -/

theorem _root_.Brc20.Ghost.events_d (G : Ghost) (evs : List Ev) : (G.events evs).d = G.d := by
  induction evs generalizing G with
  | nil => rfl
  | cons ev rest ih =>
    cases ev with
    | s tb st k v =>
      simp only [Ghost.events]
      rw [ih]
      unfold Ghost.applyS
      cases TId.ofName tb <;> rfl
    | x kind fs okRun succ gas logs => simp only [Ghost.events]; exact ih G
    | other => simp only [Ghost.events]; exact ih G

theorem gAddTxs_d (n : Node) (G : Ghost) (ts : Nat) (hash0 : String) (idx : Nat) (txid : Option String)
    (evs : List Ev) (k : Option Nat) : (gAddTxs n G ts hash0 idx txid evs k).d = G.d := by
  unfold gAddTxs; split
  · exact G.events_d evs
  · rfl

theorem gFinaliseOne_d (n : Node) (G : Ghost) (ts : Nat) (hash0 : String) (count : Nat) (evs : List Ev) :
    (gFinaliseOne n G ts hash0 count evs).d = G.d := by
  unfold gFinaliseOne; split
  · exact G.events_d evs
  · rfl

theorem gMineLoop_d (n : Node) (G : Ghost) (ts : Nat) (evs : List Ev) (k : Nat) : (gMineLoop n G ts evs k).d = G.d := by
  induction k generalizing n G with
  | zero => rfl
  | succ k ih =>
    simp only [gMineLoop]
    split
    · rw [ih]; exact G.events_d _
    · rfl

/-- the calls that are commit points: `commit` and `reorg` (which ends with a commit) -/
def Op.isCommitPoint : Op → Bool
  | .commit => true
  | .reorg _ => true
  | _ => false

/-- a call that is not a commit point leaves the log as of the last commit alone -/
theorem Op.ghost_d (op : Op) (n : Node) (G : Ghost) (h : op.isCommitPoint = false) : (op.ghost n G).d = G.d := by
  cases op with
  | commit => cases h
  | reorg target => cases h
  | clear => rfl
  | reopen => rfl
  | addTxs ts hash0 idx txid evs k => exact gAddTxs_d n G ts hash0 idx txid evs k
  | finaliseOne ts hash0 count evs => exact gFinaliseOne_d n G ts hash0 count evs
  | mine count ts evs =>
    show (gMine n G count ts evs).d = G.d
    unfold gMine
    split
    · rfl
    · split
      · rfl
      · exact gMineLoop_d n G ts evs count
  | addRawTx ts hash0 idx txid dec evs =>
    show (gAddRawTx n G ts hash0 idx txid dec evs).d = G.d
    cases dec with
    | fail => rfl
    | wrongChain => rfl
    | ok sender nonce =>
      simp only [gAddRawTx]
      repeat' split
      all_goals first | rfl | exact G.events_d evs | exact gAddTxs_d ..
  | initialise hash0 ts height evs =>
    show (gInitialise n G hash0 ts height evs).d = G.d
    unfold gInitialise
    repeat' split
    all_goals first | rfl | (rw [gFinaliseOne_d]; exact G.events_d _)

/-- a commit point either is refused (nothing changes) or makes the current logs the committed ones -/
theorem Op.ghost_d_commitPoint (op : Op) (n : Node) (G : Ghost) (h : op.isCommitPoint = true) :
    op.ghost n G = G ∨ (op.ghost n G).d = (op.ghost n G).s := by
  cases op with
  | commit =>
    show gCommit n G = G ∨ (gCommit n G).d = (gCommit n G).s
    unfold gCommit
    split
    · exact Or.inl rfl
    · exact Or.inr rfl
  | reorg target =>
    show gReorg n G target = G ∨ (gReorg n G target).d = (gReorg n G target).s
    unfold gReorg
    split
    · exact Or.inr rfl
    · exact Or.inl rfl
  | clear => cases h
  | reopen => cases h
  | addTxs ts hash0 idx txid evs k => cases h
  | finaliseOne ts hash0 count evs => cases h
  | mine count ts evs => cases h
  | addRawTx ts hash0 idx txid dec evs => cases h
  | initialise hash0 ts height evs => cases h

/-! ## Calls that are not commit points write caches only -/

/-- `n'` and `n` have the same persistent columns (they differ at most in caches, heights and block info) -/
structure ClearEq (n n' : Node) : Prop where
  t : ∀ i, (n'.t i).clear = (n.t i).clear
  b : ∀ i, (n'.b i).clear = (n.b i).clear

theorem ClearEq.refl (n : Node) : ClearEq n n := ⟨fun _ => rfl, fun _ => rfl⟩

theorem ClearEq.trans {a b c : Node} (h1 : ClearEq a b) (h2 : ClearEq b c) : ClearEq a c :=
  ⟨fun i => (h2.t i).trans (h1.t i), fun i => (h2.b i).trans (h1.b i)⟩

theorem BStep.clearEq {e : Nat} {n n' : Node} (h : BStep e n n') : ClearEq n n' := ⟨h.tclear, h.bclear⟩

theorem addTxs_clearEq (n : Node) (ts : Nat) (hash0 : String) (idx : Nat) (txid : Option String) (evs : List Ev)
    (k : Option Nat) : ClearEq n (n.addTxs ts hash0 idx txid evs k).1 := by
  by_cases hok : (n.addTxs ts hash0 idx txid evs k).2 = .ok
  · obtain ⟨_, _, _, _, _, n', ha, hn⟩ := addTxs_ok hok
    rw [hn]
    have hs := applyEvents_bstep ha
    exact ⟨hs.tclear, hs.bclear⟩
  · rw [addTxs_fst_of_ne_ok hok]; exact ClearEq.refl n

theorem finaliseOne_clearEq (n : Node) (ts : Nat) (hash0 : String) (count : Nat) (evs : List Ev) :
    ClearEq n (n.finaliseOne ts hash0 count evs).1 := by
  by_cases hok : (n.finaliseOne ts hash0 count evs).2 = .ok
  · obtain ⟨n', ha, _, hn⟩ := finaliseOne_ok_node hok
    rw [hn]
    have hs := applyEvents_bstep ha
    exact ⟨hs.tclear, hs.bclear⟩
  · rw [finaliseOne_fst_of_ne_ok hok]; exact ClearEq.refl n

theorem mineLoop_clearEq (n : Node) (ts : Nat) (evs : List Ev) (k : Nat) : ClearEq n (mineLoop n ts evs k).1 := by
  induction k generalizing n with
  | zero => exact ClearEq.refl n
  | succ k ih =>
    have hf := finaliseOne_clearEq n ts zeroHash 0 (evs.filter (fun e => stampOf e == some n.nextHeight))
    simp only [Node.mineLoop]
    cases hr : Node.finaliseOne n ts zeroHash 0 (evs.filter (fun e => stampOf e == some n.nextHeight)) with
    | mk n' c =>
      rw [hr] at hf
      cases c with
      | ok => exact hf.trans (ih n')
      | err e => exact hf
      | panic => exact hf
      | reject w => exact hf

/-- **A call that is not a commit point writes caches only**: the persistent columns of every table are unchanged,
whatever the arguments, the recorded events and the answer. For every node. -/
theorem Op.run_clearEq (op : Op) (n : Node) (hop : op.isCommitPoint = false) : ClearEq n (op.run n).1 := by
  cases op with
  | commit => cases hop
  | reorg target => cases hop
  | clear => exact ⟨fun _ => rfl, fun _ => rfl⟩
  | reopen => exact ⟨fun _ => rfl, fun _ => rfl⟩
  | addTxs ts hash0 idx txid evs k => exact addTxs_clearEq n ts hash0 idx txid evs k
  | finaliseOne ts hash0 count evs => exact finaliseOne_clearEq n ts hash0 count evs
  | mine count ts evs =>
    show ClearEq n (n.mine count ts evs).1
    unfold Node.mine
    split
    · exact ClearEq.refl n
    · split
      · exact ClearEq.refl n
      · exact mineLoop_clearEq n ts evs count
  | addRawTx ts hash0 idx txid dec evs =>
    show ClearEq n (n.addRawTx ts hash0 idx txid dec evs).1
    cases dec with
    | fail => exact ClearEq.refl n
    | wrongChain =>
      simp only [Node.addRawTx]
      split <;> exact ClearEq.refl n
    | ok sender nonce =>
      simp only [Node.addRawTx]
      by_cases h1 : nonce ≠ n.accountNonce sender
      · rw [if_pos h1]
        by_cases h2 : nonce > n.accountNonce sender ∧ nonce < n.accountNonce sender + FUTURE_NONCES
        · rw [if_pos h2]
          by_cases h3 : (!(txRuns evs).isEmpty) = true
          · rw [if_pos h3]; exact ClearEq.refl n
          · rw [if_neg h3]
            by_cases h4 : (!poolOnly evs) = true
            · rw [if_pos h4]; exact ClearEq.refl n
            · rw [if_neg h4]
              by_cases h5 : (!parkedShape sender nonce n.nextHeight evs) = true
              · rw [if_pos h5]; exact ClearEq.refl n
              · rw [if_neg h5]
                cases ha : applyEvents n n.nextHeight evs with
                | none => exact ClearEq.refl n
                | some n' => exact (applyEvents_bstep ha).clearEq
        · rw [if_neg h2]
          split <;> exact ClearEq.refl n
      · rw [if_neg h1]
        exact drainCheck_fst_ind (ClearEq.refl n) (addTxs_clearEq n ts hash0 idx (some txid) evs _)
  | initialise hash0 ts height evs =>
    show ClearEq n (n.initialise hash0 ts height evs).1
    rw [initialise_eq]
    cases (n.b .block).get height with
    | some _ => simp only []; split <;> exact ClearEq.refl n
    | none =>
      simp only []
      by_cases hh : height ≠ n.nextHeight
      · rw [if_pos hh]; exact ClearEq.refl n
      · rw [if_neg hh]
        have ha := addTxs_clearEq n ts (normHash hash0 height) 0 (some zeroHash) (evs.filter (fun e => !isFinEv e)) (some 1)
        cases hr : Node.addTxs n ts (normHash hash0 height) 0 (some zeroHash) (evs.filter (fun e => !isFinEv e)) (some 1) with
        | mk n1 c =>
          rw [hr] at ha
          cases c with
          | ok => exact ha.trans (finaliseOne_clearEq n1 _ _ _ _)
          | err e => exact ha
          | panic => exact ha
          | reject w => exact ha

/-- after a `clear` / restart the two nodes differ at most in the written-through `max_block_number` -/
theorem ClearEq.clear_eq {n n' : Node} (h : ClearEq n n') :
    (n'.clear).1 = { (n.clear).1 with maxBlock := n'.maxBlock } := by
  have ht : (fun i => (n'.t i).clear) = (fun i => (n.t i).clear) := funext h.t
  have hb : (fun i => (n'.b i).clear) = (fun i => (n.b i).clear) := funext h.b
  simp only [Node.clear, ht, hb]

/-! ## The block and raw-block tables hold no row the hash table lacks -/

/-- Every row of a block table has a hash row of the same number - except, while a block is under construction, a
row of the number being built. The same for the persistent columns alone. -/
structure SInv (n : Node) : Prop where
  sub : ∀ i k, (n.b i).get k ≠ none →
    (n.b .numberToHash).get k ≠ none ∨ (k = n.nextHeight ∧ n.lbi.waiting ≠ 0)
  dsub : ∀ i k, (n.b i).clear.get k ≠ none → (n.b .numberToHash).clear.get k ≠ none

theorem SInv.init : SInv ({} : Node) :=
  ⟨fun _ _ h => absurd rfl h, fun _ _ h => absurd rfl h⟩

theorem SInv.congr {n n' : Node} (h : SInv n) (hb : n'.b = n.b) (hl : n'.latest = n.latest)
    (hw : n'.lbi.waiting = n.lbi.waiting) : SInv n' := by
  have hnx : n'.nextHeight = n.nextHeight := by rw [nextHeight_eq, nextHeight_eq, hl, hb]
  refine ⟨?_, ?_⟩
  · rw [hb, hnx, hw]; exact h.sub
  · rw [hb]; exact h.dsub

/-- rows of the block tables after the recorded writes of one operation at the height being built -/
theorem SInv.events {n n' : Node} (h : SInv n) {evs : List Ev} (ha : applyEvents n n.nextHeight evs = some n') :
    (∀ i k, (n'.b i).get k ≠ none → (n'.b .numberToHash).get k ≠ none ∨
      (k = n.nextHeight ∧ (n'.b .numberToHash).get n.nextHeight = none ∧ n'.nextHeight = n.nextHeight)) ∧
    (∀ i k, (n'.b i).clear.get k ≠ none → (n'.b .numberToHash).clear.get k ≠ none) := by
  have hs := applyEvents_bstep ha
  refine ⟨?_, ?_⟩
  · intro i k hk
    by_cases hke : k = n.nextHeight
    · subst hke
      by_cases hrow : (n'.b .numberToHash).get n.nextHeight = none
      · refine Or.inr ⟨rfl, hrow, ?_⟩
        rw [nextHeight_eq, nextHeight_eq, hs.latest]
        cases n.latest with
        | some p => rfl
        | none =>
          simp only []
          congr 1
          apply BlockDb.lastKey_congr
          intro k
          by_cases hk' : k = n.nextHeight
          · subst hk'
            constructor
            · intro _
              cases hg : (n.b .numberToHash).get n.nextHeight with
              | none => rfl
              | some v => exact absurd hrow (hs.kept _ (by rw [hg]; simp))
            · intro _; exact hrow
          · rw [hs.other _ k hk']
      · exact Or.inl hrow
    · rw [hs.other i k hke] at hk
      rcases h.sub i k hk with h1 | h1
      · exact Or.inl (hs.rows _ h1)
      · exact absurd h1.1 hke
  · intro i k
    rw [hs.bclear i, hs.bclear .numberToHash]
    exact h.dsub i k

theorem SInv.addTxs {n : Node} (h : SInv n) (ts : Nat) (hash0 : String) (idx : Nat) (txid : Option String)
    (evs : List Ev) (k : Option Nat) : SInv (n.addTxs ts hash0 idx txid evs k).1 := by
  by_cases hok : (n.addTxs ts hash0 idx txid evs k).2 = .ok
  · obtain ⟨_, hr, _, _, _, n', ha, hn⟩ := addTxs_ok hok
    rw [hn]
    obtain ⟨h1, h2⟩ := h.events ha
    have hwait : (bumpLbi (l0 n ts (normHash hash0 n.nextHeight)) (txRuns evs)).waiting ≠ 0 := by
      rw [bumpLbi_waiting]
      intro h0
      have : (txRuns evs).length = 0 := by omega
      exact hr (List.eq_nil_of_length_eq_zero this)
    refine ⟨?_, h2⟩
    intro i k hk
    rcases h1 i k hk with h3 | ⟨h3, _, h5⟩
    · exact Or.inl h3
    · exact Or.inr ⟨h3.trans h5.symm, hwait⟩
  · rw [addTxs_fst_of_ne_ok hok]; exact h

theorem SInv.finaliseOne {n : Node} (h : SInv n) (ts : Nat) (hash0 : String) (count : Nat) (evs : List Ev) :
    SInv (n.finaliseOne ts hash0 count evs).1 := by
  by_cases hok : (n.finaliseOne ts hash0 count evs).2 = .ok
  · obtain ⟨n', ha, hrow, hn⟩ := finaliseOne_ok_node hok
    rw [hn]
    obtain ⟨h1, h2⟩ := h.events ha
    refine ⟨?_, h2⟩
    intro i k hk
    rcases h1 i k hk with h3 | ⟨_, h4, _⟩
    · exact Or.inl h3
    · rw [hrow] at h4; cases h4
  · rw [finaliseOne_fst_of_ne_ok hok]; exact h

theorem SInv.mineLoop {n : Node} (h : SInv n) (ts : Nat) (evs : List Ev) (k : Nat) :
    SInv (mineLoop n ts evs k).1 := by
  induction k generalizing n with
  | zero => exact h
  | succ k ih =>
    have hf := h.finaliseOne ts zeroHash 0 (evs.filter (fun e => stampOf e == some n.nextHeight))
    simp only [Node.mineLoop]
    cases hr : Node.finaliseOne n ts zeroHash 0 (evs.filter (fun e => stampOf e == some n.nextHeight)) with
    | mk n' c =>
      rw [hr] at hf
      cases c with
      | ok => exact ih hf
      | err e => exact hf
      | panic => exact hf
      | reject w => exact hf

theorem SInv.addRawTx {n : Node} (h : SInv n) (ts : Nat) (hash0 : String) (idx : Nat) (txid : String)
    (dec : RawDecode) (evs : List Ev) : SInv (n.addRawTx ts hash0 idx txid dec evs).1 := by
  cases dec with
  | fail => exact h
  | wrongChain =>
    simp only [Node.addRawTx]
    split <;> exact h
  | ok sender nonce =>
    simp only [Node.addRawTx]
    by_cases h1 : nonce ≠ n.accountNonce sender
    · rw [if_pos h1]
      by_cases h2 : nonce > n.accountNonce sender ∧ nonce < n.accountNonce sender + FUTURE_NONCES
      · rw [if_pos h2]
        by_cases h3 : (!(txRuns evs).isEmpty) = true
        · rw [if_pos h3]; exact h
        · rw [if_neg h3]
          by_cases h4 : (!poolOnly evs) = true
          · rw [if_pos h4]; exact h
          · rw [if_neg h4]
            have hp : poolOnly evs = true := by simpa using h4
            by_cases h5 : (!parkedShape sender nonce n.nextHeight evs) = true
            · rw [if_pos h5]; exact h
            · rw [if_neg h5]
              cases ha : applyEvents n n.nextHeight evs with
              | none => exact h
              | some n' =>
                obtain ⟨hlbi, hlat, _⟩ := applyEvents_fields ha
                exact h.congr (applyEvents_pool_frame hp ha) hlat (by rw [hlbi])
      · rw [if_neg h2]
        split <;> exact h
    · rw [if_neg h1]
      exact drainCheck_fst_ind h (h.addTxs ts hash0 idx (some txid) evs _)

/-- a node whose block tables are all `f (n.b i)` for a row-wise `f` that empties the cache side -/
theorem SInv.of_rows {n n' : Node} (h : SInv n) (hw : n.lbi.waiting = 0) (p : Nat → Prop)
    (hg : ∀ i k, (n'.b i).get k ≠ none → p k ∧ (n.b i).get k ≠ none)
    (hg' : ∀ k, p k → (n.b .numberToHash).get k ≠ none → (n'.b .numberToHash).get k ≠ none)
    (hc : ∀ i k, (n'.b i).clear.get k = (n'.b i).get k) : SInv n' := by
  have key : ∀ i k, (n'.b i).get k ≠ none → (n'.b .numberToHash).get k ≠ none := by
    intro i k hk
    obtain ⟨hp, hk'⟩ := hg i k hk
    rcases h.sub i k hk' with h1 | h1
    · exact hg' k hp h1
    · exact absurd hw h1.2
  refine ⟨fun i k hk => Or.inl (key i k hk), ?_⟩
  intro i k
  rw [hc i k, hc .numberToHash k]
  exact key i k

theorem SInv.commit {n : Node} (h : SInv n) : SInv n.commit.1 := by
  unfold Node.commit
  by_cases hw : n.lbi.waiting ≠ 0
  · rw [if_pos hw]; exact h
  · rw [if_neg hw]
    apply h.of_rows (Decidable.not_not.mp hw) (fun _ => True)
    · intro i k hk
      have e : (n.commitAll.b i).get k = (n.b i).get k := BlockDb.get_commit_clear _ _
      rw [e] at hk; exact ⟨trivial, hk⟩
    · intro k _ hk
      have e : (n.commitAll.b .numberToHash).get k = (n.b .numberToHash).get k := BlockDb.get_commit_clear _ _
      rw [e]; exact hk
    · intro i k; rfl

theorem SInv.clear {n : Node} (h : SInv n) : SInv (n.clear).1 :=
  ⟨fun i k hk => Or.inl (h.dsub i k hk), fun i k hk => h.dsub i k hk⟩

theorem SInv.reorg {n : Node} (h : SInv n) (target : Nat) : SInv (n.reorg target).1 := by
  by_cases hr : Refused n target
  · rw [reorg_fst_of_refused hr]; exact h
  · rw [reorg_of_not_refused n target hr]
    unfold reorgBody
    cases hx : reorgTables n target allTIds with
    | none => exact h
    | some n1 =>
      obtain ⟨eb, _, _, _⟩ := reorgTables_frame target allTIds n n1 hx
      simp only [Refused, not_or] at hr
      have hw : n.lbi.waiting = 0 := Decidable.not_not.mp hr.1
      have hget : ∀ i k, ((({ n1 with b := fun i => (n1.b i).reorg target } : Node).commitAll).b i).get k =
          if k ≤ target then (n.b i).get k else none := by
        intro i k
        show ((n1.b i).reorg target).commit.clear.get k = _
        rw [BlockDb.get_commit_clear, BlockDb.get_reorg, eb]
      apply h.of_rows hw (fun k => k ≤ target)
      · intro i k hk
        rw [hget] at hk
        by_cases hkt : k ≤ target
        · simp only [hkt, if_true] at hk; exact ⟨hkt, hk⟩
        · simp [hkt] at hk
      · intro k hkt hk
        rw [hget]; simp only [hkt, if_true]; exact hk
      · intro i k; rfl

theorem SInv.initialise {n : Node} (h : SInv n) (hash0 : String) (ts height : Nat) (evs : List Ev) :
    SInv (n.initialise hash0 ts height evs).1 := by
  rw [initialise_eq]
  cases (n.b .block).get height with
  | some _ => simp only []; split <;> exact h
  | none =>
    simp only []
    by_cases hh : height ≠ n.nextHeight
    · rw [if_pos hh]; exact h
    · rw [if_neg hh]
      have ha := h.addTxs ts (normHash hash0 height) 0 (some zeroHash) (evs.filter (fun e => !isFinEv e)) (some 1)
      cases hr : Node.addTxs n ts (normHash hash0 height) 0 (some zeroHash) (evs.filter (fun e => !isFinEv e)) (some 1) with
      | mk n1 c =>
        rw [hr] at ha
        cases c with
        | ok => exact ha.finaliseOne _ _ _ _
        | err e => exact ha
        | panic => exact ha
        | reject w => exact ha

theorem SInv.step {n : Node} (h : SInv n) (op : Op) : SInv (op.run n).1 := by
  cases op with
  | initialise hash0 ts height evs => exact h.initialise hash0 ts height evs
  | mine count ts evs =>
    show SInv (n.mine count ts evs).1
    unfold Node.mine
    split
    · exact h
    · split
      · exact h
      · exact h.mineLoop ts evs count
  | addTxs ts hash0 idx txid evs k => exact h.addTxs ts hash0 idx txid evs k
  | addRawTx ts hash0 idx txid dec evs => exact h.addRawTx ts hash0 idx txid dec evs
  | finaliseOne ts hash0 count evs => exact h.finaliseOne ts hash0 count evs
  | commit => exact h.commit
  | clear => exact h.clear
  | reopen => exact h.clear
  | reorg target => exact h.reorg target

/-- **On every reachable node, every row of the block and raw-block tables has a hash row of the same number**
(while a block is under construction: except possibly a row of the number being built). -/
theorem Reach.sinv {n : Node} (h : Reach n) : SInv n := by
  induction h with
  | init => exact SInv.init
  | step op _ _ ih => exact ih.step op

/-! ## The value column of a versioned table never binds a key twice -/

namespace TableNodup
variable {K V : Type} [DecidableEq K] [DecidableEq V]

theorem applyWrite_db {t : Table K V} (nd : AMap.Nodup t.db) (w : Write K V) : AMap.Nodup (t.applyWrite w).db := by
  cases w with
  | putCdb k h => exact nd
  | delCdb k => exact nd
  | putDb k v => exact AMap.nodup_insert nd k v
  | delDb k => exact AMap.nodup_erase nd k

theorem applyWrites_db {t : Table K V} (nd : AMap.Nodup t.db) (ws : List (Write K V)) :
    AMap.Nodup (t.applyWrites ws).db := by
  induction ws generalizing t with
  | nil => exact nd
  | cons w rest ih => exact ih (applyWrite_db nd w)

theorem commit_db (W b : Nat) {t : Table K V} (nd : AMap.Nodup t.db) : AMap.Nodup (t.commit W b).db :=
  applyWrites_db nd _

theorem reorgLoad_db {t t' : Table K V} {n : Nat} {ks : List K} (h : t.reorgLoad n ks = some t') : t'.db = t.db := by
  induction ks generalizing t with
  | nil => simp only [Table.reorgLoad, Option.some.injEq] at h; rw [← h]
  | cons k rest ih =>
    simp only [Table.reorgLoad] at h
    split at h
    · exact (ih h).trans rfl
    · cases h

theorem reorg_db {W : Nat} {t t' : Table K V} {n : Nat} (nd : AMap.Nodup t.db) (h : t.reorg W n = some t') :
    AMap.Nodup t'.db := by
  unfold Table.reorg at h
  split at h
  · rename_i t1 h1
    simp only [Option.some.injEq] at h
    rw [← h]
    apply commit_db
    rw [reorgLoad_db h1]; exact nd
  · cases h

end TableNodup

theorem ClearEq.db {n n' : Node} (h : ClearEq n n') (i : TId) : (n'.t i).db = (n.t i).db := by
  have := congrArg Table.db (h.t i)
  exact this

theorem commitAll_db_nodup {n : Node} (h : ∀ i, AMap.Nodup (n.t i).db) : ∀ i, AMap.Nodup (n.commitAll.t i).db :=
  fun i => TableNodup.commit_db W n.nextHeight (h i)

/-- any call, whatever it answers -/
theorem step_db_nodup {n : Node} (h : ∀ i, AMap.Nodup (n.t i).db) (op : Op) :
    ∀ i, AMap.Nodup ((op.run n).1.t i).db := by
  by_cases hop : op.isCommitPoint = false
  · intro i; rw [(Op.run_clearEq op n hop).db i]; exact h i
  · cases op with
    | commit =>
      show ∀ i, AMap.Nodup (n.commit.1.t i).db
      unfold Node.commit
      split
      · exact h
      · exact commitAll_db_nodup h
    | reorg target =>
      show ∀ i, AMap.Nodup ((n.reorg target).1.t i).db
      by_cases hr : Refused n target
      · rw [reorg_fst_of_refused hr]; exact h
      · rw [reorg_of_not_refused n target hr]
        unfold reorgBody
        cases hx : reorgTables n target allTIds with
        | none => exact h
        | some n1 =>
          have htab := (reorgTables_tables target allTIds nodup_allTIds n n1 hx).1
          apply commitAll_db_nodup
          intro i
          exact TableNodup.reorg_db (h i) (htab i (mem_allTIds i))
    | clear => exact absurd rfl hop
    | reopen => exact absurd rfl hop
    | addTxs ts hash0 idx txid evs k => exact absurd rfl hop
    | finaliseOne ts hash0 count evs => exact absurd rfl hop
    | mine count ts evs => exact absurd rfl hop
    | addRawTx ts hash0 idx txid dec evs => exact absurd rfl hop
    | initialise hash0 ts height evs => exact absurd rfl hop

/-- **on every reachable node no versioned table binds a key twice**, in its value column or in its cache -/
theorem Reach.table_nodup {n : Node} (h : Reach n) : ∀ i, AMap.Nodup (n.t i).db ∧ AMap.Nodup (n.t i).cache := by
  have hdb : ∀ i, AMap.Nodup (n.t i).db := by
    induction h with
    | init => intro i; simp [AMap.Nodup, AMap.keys]
    | step op _ _ ih => exact step_db_nodup ih op
  obtain ⟨g, hs⟩ := reach_sim h
  exact fun i => ⟨hdb i, (hs.sim i).inv.cache_nodup⟩

/-! ## Transactions never touch the block tables; a finalise writes the rows of one block

Since `Model/Node.lean` refuses recorded block-table writes in a call that adds transactions (`noBlockWrites`, reject
`tx-wrote-block-table`) and refuses, in a finalise, versioned-table writes other than the hash-index row of the block
being finalised and pending-pool entries (`finOnly`, reject `fin-wrote`), the three findings listed at the head of
this file no longer apply to the model: see `BInv`, `Reach.heightInv_always`, `mine_err_noop_fit`. -/

theorem BId_ofName_hashToNumber : BId.ofName TId.hashToNumber.name = none := by decide

theorem applyS_noBlock_frame {n n' : Node} {e : Nat} {tb : String} {st : Nat} {k : String} {v : Option String}
    (hb : BId.ofName tb = none) (ha : n.applyS e tb st k v = some n') : n'.b = n.b := by
  unfold Node.applyS at ha
  split at ha
  · cases ha
  · cases hT : TId.ofName tb with
    | some i =>
      rw [hT] at ha
      cases v with
      | some v =>
        simp only [Option.map_eq_some_iff] at ha
        obtain ⟨t', _, rfl⟩ := ha; rfl
      | none =>
        simp only [Option.map_eq_some_iff] at ha
        obtain ⟨t', _, rfl⟩ := ha; rfl
    | none =>
      rw [hT, hb] at ha
      cases ha

/-- recorded events without a block-table write leave the block tables alone -/
theorem applyEvents_noBlock_frame {n n' : Node} {e : Nat} {evs : List Ev} (hp : noBlockWrites evs = true)
    (ha : applyEvents n e evs = some n') : n'.b = n.b := by
  induction evs generalizing n with
  | nil => simp only [applyEvents] at ha; cases ha; rfl
  | cons ev rest ih =>
    simp only [noBlockWrites, List.all_cons, Bool.and_eq_true] at hp
    have hrest : noBlockWrites rest = true := hp.2
    cases ev with
    | s tb st k v =>
      simp only [applyEvents] at ha
      split at ha
      · rename_i n1 h1
        have hb : BId.ofName tb = none := by simpa using hp.1
        rw [ih hrest ha, applyS_noBlock_frame hb h1]
      · cases ha
    | x kind fs okRun succ gas logs => simp only [applyEvents] at ha; exact ih hrest ha
    | other => simp only [applyEvents] at ha; exact ih hrest ha

/-- **A call that adds transactions leaves the three block tables and the in-memory height alone**, whatever its
arguments, recorded events and answer (for every node). -/
theorem addTxs_block_frame (n : Node) (ts : Nat) (hash0 : String) (idx : Nat) (txid : Option String) (evs : List Ev)
    (k : Option Nat) :
    (n.addTxs ts hash0 idx txid evs k).1.b = n.b ∧ (n.addTxs ts hash0 idx txid evs k).1.latest = n.latest ∧
    (n.addTxs ts hash0 idx txid evs k).1.maxBlock = n.maxBlock := by
  by_cases hok : (n.addTxs ts hash0 idx txid evs k).2 = .ok
  · obtain ⟨_, _, _, _, _, n', ha, hn⟩ := addTxs_ok hok
    rw [hn]
    obtain ⟨_, hlat, hmx⟩ := applyEvents_fields ha
    have hb : n'.b = n.b := applyEvents_noBlock_frame (addTxs_ok_noBlock hok) ha
    exact ⟨hb, hlat, hmx⟩
  · rw [addTxs_fst_of_ne_ok hok]; exact ⟨rfl, rfl, rfl⟩

theorem addRawTx_block_frame (n : Node) (ts : Nat) (hash0 : String) (idx : Nat) (txid : String) (dec : RawDecode)
    (evs : List Ev) :
    (n.addRawTx ts hash0 idx txid dec evs).1.b = n.b ∧ (n.addRawTx ts hash0 idx txid dec evs).1.latest = n.latest ∧
    (n.addRawTx ts hash0 idx txid dec evs).1.maxBlock = n.maxBlock := by
  cases dec with
  | fail => exact ⟨rfl, rfl, rfl⟩
  | wrongChain =>
    simp only [Node.addRawTx]
    split <;> exact ⟨rfl, rfl, rfl⟩
  | ok sender nonce =>
    simp only [Node.addRawTx]
    by_cases h1 : nonce ≠ n.accountNonce sender
    · rw [if_pos h1]
      by_cases h2 : nonce > n.accountNonce sender ∧ nonce < n.accountNonce sender + FUTURE_NONCES
      · rw [if_pos h2]
        by_cases h3 : (!(txRuns evs).isEmpty) = true
        · rw [if_pos h3]; exact ⟨rfl, rfl, rfl⟩
        · rw [if_neg h3]
          by_cases h4 : (!poolOnly evs) = true
          · rw [if_pos h4]; exact ⟨rfl, rfl, rfl⟩
          · rw [if_neg h4]
            have hp : poolOnly evs = true := by simpa using h4
            by_cases h5 : (!parkedShape sender nonce n.nextHeight evs) = true
            · rw [if_pos h5]; exact ⟨rfl, rfl, rfl⟩
            · rw [if_neg h5]
              cases ha : applyEvents n n.nextHeight evs with
              | none => exact ⟨rfl, rfl, rfl⟩
              | some n' =>
                obtain ⟨_, hlat, hmx⟩ := applyEvents_fields ha
                exact ⟨applyEvents_pool_frame hp ha, hlat, hmx⟩
      · rw [if_neg h2]
        split <;> exact ⟨rfl, rfl, rfl⟩
    · rw [if_neg h1]
      exact drainCheck_fst_ind (P := fun m => m.b = n.b ∧ m.latest = n.latest ∧ m.maxBlock = n.maxBlock)
        ⟨rfl, rfl, rfl⟩ (addTxs_block_frame n ts hash0 idx (some txid) evs _)

/-- the hash-index writes an accepted finalise may contain are keyed by the hash of the block being finalised -/
theorem finOnly_hashIndex_key {hash : String} {evs : List Ev} (hf : finOnly hash evs = true) {st : Nat} {k : String}
    {v : Option String} (hm : Ev.s TId.hashToNumber.name st k v ∈ evs) : k = hash := by
  unfold finOnly at hf
  rw [List.all_eq_true] at hf
  have := hf _ hm
  simp only [BId_ofName_hashToNumber, Option.isSome_none, Bool.false_or, beq_self_eq_true, Bool.true_and,
    Bool.or_eq_true, beq_iff_eq] at this
  rcases this with h | h
  · exact h
  · exact absurd h (by decide)

/-- **Block tables of every reachable node, mid-block included**: every hash row lies strictly below the height
being built; the three block tables have rows for the same numbers, in the caches and in the persistent columns. -/
structure BInv (n : Node) : Prop where
  rows_lt : ∀ k, (n.b .numberToHash).get k ≠ none → k < n.nextHeight
  same : ∀ i k, (n.b i).get k ≠ none ↔ (n.b .numberToHash).get k ≠ none
  dsame : ∀ i k, (n.b i).clear.get k ≠ none ↔ (n.b .numberToHash).clear.get k ≠ none

theorem BInv.init : BInv ({} : Node) :=
  ⟨fun _ h => absurd rfl h, fun _ _ => ⟨fun h => absurd rfl h, fun h => absurd rfl h⟩,
    fun _ _ => ⟨fun h => absurd rfl h, fun h => absurd rfl h⟩⟩

theorem BInv.congr {n n' : Node} (h : BInv n) (hb : n'.b = n.b) (hl : n'.latest = n.latest) : BInv n' := by
  have hnx : n'.nextHeight = n.nextHeight := by rw [nextHeight_eq, nextHeight_eq, hl, hb]
  refine ⟨?_, ?_, ?_⟩
  · rw [hb, hnx]; exact h.rows_lt
  · rw [hb]; exact h.same
  · rw [hb]; exact h.dsame

theorem BInv.addTxs {n : Node} (h : BInv n) (ts : Nat) (hash0 : String) (idx : Nat) (txid : Option String)
    (evs : List Ev) (k : Option Nat) : BInv (n.addTxs ts hash0 idx txid evs k).1 := by
  obtain ⟨hb, hl, _⟩ := addTxs_block_frame n ts hash0 idx txid evs k
  exact h.congr hb hl

theorem BInv.addRawTx {n : Node} (h : BInv n) (ts : Nat) (hash0 : String) (idx : Nat) (txid : String)
    (dec : RawDecode) (evs : List Ev) : BInv (n.addRawTx ts hash0 idx txid dec evs).1 := by
  obtain ⟨hb, hl, _⟩ := addRawTx_block_frame n ts hash0 idx txid dec evs
  exact h.congr hb hl

theorem BInv.finaliseOne {n : Node} (h : BInv n) (ts : Nat) (hash0 : String) (count : Nat) (evs : List Ev) :
    BInv (n.finaliseOne ts hash0 count evs).1 := by
  by_cases hok : (n.finaliseOne ts hash0 count evs).2 = .ok
  · obtain ⟨n', ha, hrow, hn⟩ := finaliseOne_ok_node hok
    obtain ⟨_, n'', ha', _, hb1, hb2, _⟩ := finaliseOne_ok hok
    rw [ha, Option.some.injEq] at ha'
    subst ha'
    rw [hn]
    have hs := applyEvents_bstep ha
    have hall : ∀ i, (n'.b i).get n.nextHeight ≠ none := by
      intro i
      cases i with
      | block => intro hc; rw [hc] at hb1; cases hb1
      | rawBlock => intro hc; rw [hc] at hb2; cases hb2
      | numberToHash => rw [hrow]; simp
    refine ⟨?_, ?_, ?_⟩
    · intro k hk
      show k < n.nextHeight + 1
      rcases hs.rows_inv .numberToHash hk with hk' | rfl
      · exact Nat.lt_succ_of_lt (h.rows_lt k hk')
      · exact Nat.lt_succ_self _
    · intro i k
      show (n'.b i).get k ≠ none ↔ (n'.b .numberToHash).get k ≠ none
      by_cases hke : k = n.nextHeight
      · subst hke; exact ⟨fun _ => hall _, fun _ => hall _⟩
      · rw [hs.other i k hke, hs.other .numberToHash k hke]; exact h.same i k
    · intro i k
      show (n'.b i).clear.get k ≠ none ↔ (n'.b .numberToHash).clear.get k ≠ none
      rw [hs.bclear i, hs.bclear .numberToHash]; exact h.dsame i k
  · rw [finaliseOne_fst_of_ne_ok hok]; exact h

theorem BInv.mineLoop {n : Node} (h : BInv n) (ts : Nat) (evs : List Ev) (k : Nat) :
    BInv (mineLoop n ts evs k).1 := by
  induction k generalizing n with
  | zero => exact h
  | succ k ih =>
    have hf := h.finaliseOne ts zeroHash 0 (evs.filter (fun e => stampOf e == some n.nextHeight))
    simp only [Node.mineLoop]
    cases hr : Node.finaliseOne n ts zeroHash 0 (evs.filter (fun e => stampOf e == some n.nextHeight)) with
    | mk n' c =>
      rw [hr] at hf
      cases c with
      | ok => exact ih hf
      | err e => exact hf
      | panic => exact hf
      | reject w => exact hf

/-- a node without in-memory height whose block tables are those of `n` restricted row-wise by `p`, caches empty -/
theorem BInv.of_rows {n n' : Node} (h : BInv n) (p : Nat → Prop) (hl : n'.latest = none)
    (hg : ∀ i k, (n'.b i).get k ≠ none ↔ (p k ∧ (n.b i).get k ≠ none))
    (hc : ∀ i k, (n'.b i).clear.get k = (n'.b i).get k) : BInv n' := by
  have key : ∀ i k, (n'.b i).get k ≠ none ↔ (n'.b .numberToHash).get k ≠ none := by
    intro i k
    rw [hg i k, hg .numberToHash k, h.same i k]
  refine ⟨?_, key, ?_⟩
  · intro k hk
    rw [nextHeight_eq, hl]
    exact BlockDb.lt_nextOf_of_get hk
  · intro i k
    rw [hc i k, hc .numberToHash k]; exact key i k

theorem BInv.commit {n : Node} (h : BInv n) : BInv n.commit.1 := by
  unfold Node.commit
  split
  · exact h
  · apply h.of_rows (fun _ => True) rfl
    · intro i k
      have e : (n.commitAll.b i).get k = (n.b i).get k := BlockDb.get_commit_clear _ _
      rw [e]; simp
    · intro i k; rfl

theorem BInv.clear {n : Node} (h : BInv n) : BInv (n.clear).1 := by
  refine ⟨?_, h.dsame, h.dsame⟩
  intro k hk
  have : (n.clear).1.nextHeight = nextOf ((n.clear).1.b .numberToHash).lastKey := by rw [nextHeight_eq]; rfl
  rw [this]
  exact BlockDb.lt_nextOf_of_get hk

theorem BInv.reorg {n : Node} (h : BInv n) (target : Nat) : BInv (n.reorg target).1 := by
  by_cases hr : Refused n target
  · rw [reorg_fst_of_refused hr]; exact h
  · rw [reorg_of_not_refused n target hr]
    unfold reorgBody
    cases hx : reorgTables n target allTIds with
    | none => exact h
    | some n1 =>
      obtain ⟨eb, _, _, _⟩ := reorgTables_frame target allTIds n n1 hx
      have hget : ∀ i k, ((({ n1 with b := fun i => (n1.b i).reorg target } : Node).commitAll).b i).get k =
          if k ≤ target then (n.b i).get k else none := by
        intro i k
        show ((n1.b i).reorg target).commit.clear.get k = _
        rw [BlockDb.get_commit_clear, BlockDb.get_reorg, eb]
      apply h.of_rows (fun k => k ≤ target) rfl
      · intro i k
        rw [hget]
        by_cases hkt : k ≤ target
        · simp [hkt]
        · simp [hkt]
      · intro i k; rfl

theorem BInv.initialise {n : Node} (h : BInv n) (hash0 : String) (ts height : Nat) (evs : List Ev) :
    BInv (n.initialise hash0 ts height evs).1 := by
  rw [initialise_eq]
  cases (n.b .block).get height with
  | some _ => simp only []; split <;> exact h
  | none =>
    simp only []
    by_cases hh : height ≠ n.nextHeight
    · rw [if_pos hh]; exact h
    · rw [if_neg hh]
      have ha := h.addTxs ts (normHash hash0 height) 0 (some zeroHash) (evs.filter (fun e => !isFinEv e)) (some 1)
      cases hr : Node.addTxs n ts (normHash hash0 height) 0 (some zeroHash) (evs.filter (fun e => !isFinEv e)) (some 1) with
      | mk n1 c =>
        rw [hr] at ha
        cases c with
        | ok => exact ha.finaliseOne _ _ _ _
        | err e => exact ha
        | panic => exact ha
        | reject w => exact ha

/-- any call, whatever it answers -/
theorem BInv.step {n : Node} (h : BInv n) (op : Op) : BInv (op.run n).1 := by
  cases op with
  | initialise hash0 ts height evs => exact h.initialise hash0 ts height evs
  | mine count ts evs =>
    show BInv (n.mine count ts evs).1
    unfold Node.mine
    split
    · exact h
    · split
      · exact h
      · exact h.mineLoop ts evs count
  | addTxs ts hash0 idx txid evs k => exact h.addTxs ts hash0 idx txid evs k
  | addRawTx ts hash0 idx txid dec evs => exact h.addRawTx ts hash0 idx txid dec evs
  | finaliseOne ts hash0 count evs => exact h.finaliseOne ts hash0 count evs
  | commit => exact h.commit
  | clear => exact h.clear
  | reopen => exact h.clear
  | reorg target => exact h.reorg target

/-- **Every reachable node satisfies `BInv`** (indeed every node obtained by any sequence of calls). -/
theorem Reach.binv {n : Node} (h : Reach n) : BInv n := by
  induction h with
  | init => exact BInv.init
  | step op _ _ ih => exact ih.step op

/-- the in-memory height, when present, is the newest hash row - at a block boundary or not -/
theorem HInv.latest_is_last_always {n : Node} (h : HInv n) (hb : BInv n) (a : Nat) (x : String)
    (hx : n.latest = some (a, x)) : (n.b .numberToHash).lastKey = some a := by
  apply BlockDb.lastKey_of_get
  · rw [(h.tip a x hx).1]; simp
  · intro k hk
    cases hg : (n.b .numberToHash).get k with
    | none => rfl
    | some v =>
      have := hb.rows_lt k (by rw [hg]; simp)
      rw [nextHeight_eq, hx] at this
      simp only [] at this
      omega

/-- **`HeightInv` holds on every reachable node**, mid-block included. -/
theorem Reach.heightInv_always {n : Node} (h : Reach n) : HeightInv n :=
  ⟨h.hinv.latest_is_last_always h.binv, h.hinv.nodup⟩

/-- on every reachable node the heights are those of the hash table -/
theorem Reach.heights {n : Node} (h : Reach n) :
    n.latestHeight = ((n.b .numberToHash).lastKey).getD 0 ∧ n.nextHeight = nextOf (n.b .numberToHash).lastKey := by
  rw [latestHeight_eq, nextHeight_eq]
  cases hx : n.latest with
  | none => exact ⟨rfl, rfl⟩
  | some p =>
    obtain ⟨a, x⟩ := p
    rw [h.heightInv_always.latest_is_last a x hx]
    exact ⟨rfl, rfl⟩

/-- **The three block tables of a reachable node hold rows for exactly the numbers below the height being built**
(gap-free, the same numbers in the three tables; mid-block as well: the block under construction has no row in any
of them until its finalise), and their persistent columns hold rows for exactly the numbers below the height a
restart would continue at. -/
theorem Reach.block_rows {n : Node} (h : Reach n) :
    (∀ i k, (n.b i).get k ≠ none ↔ k < n.nextHeight) ∧
    (∀ i k, (n.b i).clear.get k ≠ none ↔ k < n.durNext) := by
  obtain ⟨G, hG⟩ := h.inv
  have hb := h.binv
  have hbelow : ∀ k, k < n.nextHeight → (n.b .numberToHash).get k ≠ none := by
    intro k hk
    have h1 := nextHeight_le_nextOf hG.core.latest_row
    cases hl : (n.b .numberToHash).lastKey with
    | none => rw [hl] at h1; simp only [BlockDb.nextOf] at h1; omega
    | some e =>
      rw [hl] at h1
      simp only [BlockDb.nextOf] at h1
      exact hG.core.contig e hl k (by omega)
  have hdbelow : ∀ k, k < n.durNext → (n.b .numberToHash).clear.get k ≠ none := by
    intro k hk
    unfold durNext at hk
    cases hl : (n.b .numberToHash).clear.lastKey with
    | none => rw [hl] at hk; simp only [BlockDb.nextOf] at hk; omega
    | some e =>
      rw [hl] at hk
      simp only [BlockDb.nextOf] at hk
      exact hG.core.dcontig e hl k (by omega)
  refine ⟨?_, ?_⟩
  · intro i k
    rw [hb.same i k]
    exact ⟨hb.rows_lt k, hbelow k⟩
  · intro i k
    rw [hb.dsame i k]
    exact ⟨fun hk => BlockDb.lt_nextOf_of_get hk, hdbelow k⟩

/-! ## `mine` cannot fail half-way (no side condition on the recorded events) -/

/-- with nothing under construction and none of the hashes / numbers of the remaining blocks in use, the loop of
`mine` never answers an error, as long as the block numbers of the call fit in 32 bytes (generated hashes of
different numbers then differ; block numbers are `u64`) -/
theorem mineLoop_not_err_fit {n : Node} (ts : Nat) (evs : List Ev) (c hi : Nat) (hhi : hi = n.nextHeight + c)
    (hw : n.lbi.waiting = 0)
    (hfree : ∀ j, n.nextHeight ≤ j → j < hi → n.blockExists (generatedHash j) j = false)
    (hfit : hi < 16 ^ 64) (e : String) : (mineLoop n ts evs c).2 ≠ .err e := by
  induction c generalizing n with
  | zero => simp [Node.mineLoop]
  | succ c ih =>
    simp only [Node.mineLoop]
    cases hr : Node.finaliseOne n ts zeroHash 0 (evs.filter (fun e => stampOf e == some n.nextHeight)) with
    | mk n1 cl =>
      cases cl with
      | ok =>
        simp only []
        have hok : (Node.finaliseOne n ts zeroHash 0 (evs.filter (fun e => stampOf e == some n.nextHeight))).2 = .ok := by
          rw [hr]
        obtain ⟨n', ha, _, hn⟩ := finaliseOne_ok_node hok
        have hfin := finaliseOne_ok_finOnly hok
        have hg : normHash zeroHash n.nextHeight = generatedHash n.nextHeight := by simp [normHash]
        rw [hg] at hfin
        rw [hr] at hn
        simp only [] at hn
        have hs := applyEvents_bstep ha
        have hnx : n1.nextHeight = n.nextHeight + 1 := by rw [hn]; rfl
        have hw1 : n1.lbi.waiting = 0 := by rw [hn]
        apply ih (by omega) hw1
        intro j h1 h2
        rw [hnx] at h1
        have hf := hfree j (by omega) h2
        simp only [blockExists, Bool.or_eq_false_iff] at hf ⊢
        have hb : n1.blockHashAt j = n.blockHashAt j := by
          rw [hn]
          show (n'.b .numberToHash).get j = _
          exact hs.other _ j (by omega)
        have ht : n1.blockNumberOf (generatedHash j) = n.blockNumberOf (generatedHash j) := by
          rw [hn]
          show (n'.t .hashToNumber).latest _ = _
          apply applyEvents_hashIndex ha
          intro st k v hm hk
          rw [finOnly_hashIndex_key hfin hm] at hk
          have := generatedHash_inj (by omega) (by omega) hk
          omega
        rw [hb, ht]; exact hf
      | err e' =>
        exfalso
        have he : (Node.finaliseOne n ts zeroHash 0 (evs.filter (fun e => stampOf e == some n.nextHeight))).2 = .err e' := by
          rw [hr]
        have hv := (finaliseOne_err he).1
        have hg : normHash zeroHash n.nextHeight = generatedHash n.nextHeight := by simp [normHash]
        rw [hg] at hv
        have hf := hfree n.nextHeight (Nat.le_refl _) (by omega)
        simp [validateNextTx, hw, hf] at hv
      | panic => simp
      | reject w => simp

/-- **An error answer of `mine` leaves the node unchanged**, for every node and every list of recorded events. -/
theorem mine_err_noop_fit {n : Node} {count ts : Nat} {evs : List Ev} (hfit : n.nextHeight + count < 16 ^ 64)
    {e : String} (he : (n.mine count ts evs).2 = .err e) : (n.mine count ts evs).1 = n := by
  unfold Node.mine at he ⊢
  by_cases hw : n.lbi.waiting ≠ 0
  · rw [if_pos hw]
  · rw [if_neg hw] at he ⊢
    by_cases hc : n.mineClash count = true
    · rw [if_pos hc]
    · rw [if_neg hc] at he ⊢
      exfalso
      exact mineLoop_not_err_fit ts evs count (n.nextHeight + count) rfl (Decidable.not_not.mp hw)
        (mineClash_false (by simpa using hc)) hfit e he

end Node
end Brc20
