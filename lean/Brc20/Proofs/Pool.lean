/-
The pending pool of every reachable node (`account_and_nonce_to_tx_hash`).

Since `Model/Node.lean` accepts a `set` of a pending-table row only from a parked submission, and only with the
height being built as the block number inside the row (`parkedShape`), every version of every key that the table
holds anywhere - cache, history column, value column - carries its own stamp as block number, and was replaced (or is
still in force) at most `MAX_FUTURE_TRANSACTION_BLOCKS` blocks after it was parked (`Pool.Chain`). This is what
survives `clear`, a restart and `reorg`: a rollback to `target` truncates every history at `target`, and the version
that comes back into force was replaced by a write of a block above `target`, hence is younger than 10 blocks at
`target`.

  * `Pool.Chain`, `Pool.TOk`   - the per-history / per-table invariant
  * `Node.PInv`                - the node invariant, `Reach.pinv` : it holds on every reachable node
  * `Reach.pool_rows`          - every readable row of a reachable node was parked at most at the height being built
                                 and fewer than 10 blocks before the latest block (mid-block included)
  * `Reach.pool_versions`      - every stored version carries its own stamp
-/
import Brc20.Proofs.ReachProps
set_option linter.unusedSectionVars false

namespace Brc20
open Node Hist

namespace Pool

/-! ## One history -/

/-- a version stamped `b` that was in force up to (excluding) height `u`: it carries `b` as its block number and `u`
is at most 10 blocks later -/
def Val (x : Option String) (b u : Nat) : Prop :=
  ∀ v, x = some v → parkedBlock v = some b ∧ u ≤ b + FUTURE_BLOCKS

/-- the stamp of the next version, `N` (the height being built) for the newest one -/
def nextStamp (rest : Hist String) (N : Nat) : Nat :=
  match rest with
  | [] => N
  | e :: _ => e.1

/-- every version carries its own stamp and was replaced - or, the newest one, is in force at height `N` - at most
10 blocks after its stamp -/
def Chain : Hist String → Nat → Prop
  | [], _ => True
  | (b, x) :: rest, N => Val x b (nextStamp rest N) ∧ Chain rest N

theorem Val.anti {x : Option String} {b u u' : Nat} (h : Val x b u) (hu : u' ≤ u) : Val x b u' :=
  fun v hv => ⟨(h v hv).1, Nat.le_trans hu (h v hv).2⟩

theorem val_none (b u : Nat) : Val none b u := fun _ h => by cases h

theorem nextStamp_cons (e : Nat × Option String) (rest : Hist String) (N : Nat) : nextStamp (e :: rest) N = e.1 := rfl

theorem nextStamp_anti (rest : Hist String) {N N' : Nat} (h : N' ≤ N) : nextStamp rest N' ≤ nextStamp rest N := by
  cases rest with
  | nil => exact h
  | cons e r => exact Nat.le_refl _

theorem Chain.anti {h : Hist String} {N N' : Nat} (c : Chain h N) (hn : N' ≤ N) : Chain h N' := by
  induction h with
  | nil => trivial
  | cons e rest ih =>
    obtain ⟨b, x⟩ := e
    exact ⟨c.1.anti (nextStamp_anti rest hn), ih c.2⟩

theorem chain_new_none (N : Nat) : Chain (Hist.new none) N := ⟨val_none _ _, trivial⟩

/-- the newest version is in force at `N` -/
theorem Chain.last {h : Hist String} {N : Nat} (c : Chain h N) {l : Nat} (hl : lastKey? h = some l) :
    Val (latest h) l N := by
  induction h with
  | nil => simp [lastKey?] at hl
  | cons e rest ih =>
    cases rest with
    | nil =>
      obtain ⟨b, x⟩ := e
      simp only [lastKey?, List.getLast?_singleton, Option.map_some, Option.some.injEq] at hl
      subst hl
      exact c.1
    | cons r rs =>
      rw [latest_cons_ne_nil (by simp)]
      rw [lastKey?_cons_ne_nil (by simp)] at hl
      obtain ⟨b, x⟩ := e
      exact ih c.2 hl

/-- moving the height: the newest version has to be young enough at the new height -/
theorem Chain.bump {h : Hist String} {N N' : Nat} (c : Chain h N)
    (hf : ∀ v, latest h = some v → ∃ pb, parkedBlock v = some pb ∧ N' ≤ pb + FUTURE_BLOCKS) : Chain h N' := by
  induction h with
  | nil => trivial
  | cons e rest ih =>
    cases rest with
    | nil =>
      obtain ⟨b, x⟩ := e
      refine ⟨?_, trivial⟩
      intro v hv
      obtain ⟨pb, h1, h2⟩ := hf v (by subst hv; rfl)
      have := (c.1 v hv).1
      rw [this, Option.some.injEq] at h1
      subst h1
      exact ⟨this, h2⟩
    | cons r rs =>
      obtain ⟨b, x⟩ := e
      refine ⟨c.1, ih c.2 ?_⟩
      intro v hv
      exact hf v (by rw [latest_cons_ne_nil (by simp)]; exact hv)

/-- the stamp of the first version of `put rest b x` is that of `rest` -/
theorem nextStamp_put {rest : Hist String} (hne : rest ≠ []) (b : Nat) (x : Option String) (N : Nat) :
    nextStamp (put rest b x) N = nextStamp rest N := by
  cases rest with
  | nil => exact absurd rfl hne
  | cons r rs =>
    cases rs with
    | nil =>
      obtain ⟨b', v'⟩ := r
      simp only [put]
      split
      · rename_i hb; subst hb; rfl
      · rfl
    | cons r2 rs2 => simp [put, nextStamp]

/-- a write at the height being built -/
theorem Chain.put {h : Hist String} {N : Nat} (c : Chain h N) (x : Option String) (hx : Val x N N) :
    Chain (put h N x) N := by
  induction h with
  | nil => exact ⟨hx, trivial⟩
  | cons e rest ih =>
    cases rest with
    | nil =>
      obtain ⟨b', v'⟩ := e
      simp only [Hist.put]
      split
      · exact ⟨hx, trivial⟩
      · exact ⟨c.1, hx, trivial⟩
    | cons r rs =>
      obtain ⟨b', v'⟩ := e
      have hp : Hist.put ((b', v') :: r :: rs) N x = (b', v') :: Hist.put (r :: rs) N x := by simp [Hist.put]
      rw [hp]
      refine ⟨?_, ih c.2⟩
      rw [nextStamp_put (by simp)]
      exact c.1

theorem Chain.prune {h : Hist String} {N : Nat} (c : Chain h N) (W b : Nat) : Chain (prune W h b) N := by
  fun_induction Hist.prune W h b
  · rename_i e₁ e₂ rest hle ih
    obtain ⟨b1, x1⟩ := e₁
    exact ih c.2
  · exact c
  · exact c

theorem Chain.set {h h' : Hist String} {N : Nat} (c : Chain h N) {W : Nat} {v : String}
    (hv : parkedBlock v = some N) (hs : Hist.set W h N v = some h') : Chain h' N := by
  have hx : Val (some v) N N := by
    intro v' e
    cases e
    exact ⟨hv, Nat.le_add_right _ _⟩
  unfold Hist.set at hs
  split at hs
  · split at hs
    · cases hs
    · split at hs
      · cases hs; exact c
      · cases hs; exact (c.put _ hx).prune _ _
  · cases hs; exact (c.put _ hx).prune _ _

theorem Chain.unset {h h' : Hist String} {N : Nat} (c : Chain h N) {W : Nat}
    (hs : Hist.unset W h N = some h') : Chain h' N := by
  unfold Hist.unset at hs
  split at hs
  · split at hs
    · cases hs
    · split at hs
      · cases hs; exact c
      · cases hs; exact (c.put _ (val_none _ _)).prune _ _
  · cases hs; exact c

/-- a rollback to `n`: the version that comes back into force was replaced by a write above `n` -/
theorem Chain.filter {h : Hist String} {N : Nat} (c : Chain h N) (s : Sorted h) (n : Nat) :
    Chain (h.filter (fun e => decide (e.1 ≤ n))) (min N (n + 1)) := by
  induction h with
  | nil => trivial
  | cons e rest ih =>
    obtain ⟨b, x⟩ := e
    by_cases he : b ≤ n
    · have hf : ((b, x) :: rest).filter (fun e => decide (e.1 ≤ n)) = (b, x) :: rest.filter (fun e => decide (e.1 ≤ n)) := by
        simp [he]
      rw [hf]
      refine ⟨?_, ih c.2 s.tail⟩
      cases rest with
      | nil => exact c.1.anti (Nat.min_le_left _ _)
      | cons r rs =>
        by_cases hr : r.1 ≤ n
        · have : (r :: rs).filter (fun e => decide (e.1 ≤ n)) = r :: rs.filter (fun e => decide (e.1 ≤ n)) := by
            simp [hr]
          rw [this]
          exact c.1
        · have hall : ∀ y ∈ r :: rs, n < y.1 := by
            intro y hy
            rcases List.mem_cons.mp hy with rfl | hy'
            · omega
            · have := s.tail.head_lt y hy'
              omega
          rw [filter_nil_of_gt hall]
          apply c.1.anti
          show min N (n + 1) ≤ r.1
          omega
    · have hall : ∀ y ∈ (b, x) :: rest, n < y.1 := by
        intro y hy
        rcases List.mem_cons.mp hy with rfl | hy'
        · show n < b; omega
        · have := s.head_lt y hy'
          have : b < y.1 := this
          omega
      rw [filter_nil_of_gt hall]
      trivial

/-- an old history (`isOld`: newest stamp more than `W` blocks below `b`) of a pool key holds no transaction:
`MAX_FUTURE_TRANSACTION_BLOCKS ≤ MAX_REORG_HISTORY_SIZE` -/
theorem Chain.old_latest_none {h : Hist String} {N b : Nat} (c : Chain h N) (hb : b ≤ N)
    (ho : isOld Node.W h b = true) : latest h = none := by
  cases hl : lastKey? h with
  | none => rw [lastKey?_none hl]; rfl
  | some l =>
    cases hv : latest h with
    | none => rfl
    | some v =>
      exfalso
      have := (c.last hl v hv).2
      simp only [isOld, hl, decide_eq_true_eq] at ho
      unfold Node.W at ho
      unfold FUTURE_BLOCKS at this
      omega

/-- every stored version carries its own stamp -/
theorem Chain.mem {h : Hist String} {N : Nat} (c : Chain h N) {b : Nat} {v : String} (hm : (b, some v) ∈ h) :
    parkedBlock v = some b := by
  induction h with
  | nil => cases hm
  | cons e rest ih =>
    obtain ⟨b', x⟩ := e
    rcases List.mem_cons.mp hm with e1 | e1
    · cases e1; exact (c.1 v rfl).1
    · exact ih c.2 e1

/-! ## The table -/

/-- every history a write would act on is a chain up to the height being built `N`; every history a restart would
find is a chain up to the height `D` a restart continues at -/
structure TOk (t : Table String String) (N D : Nat) : Prop where
  eff : ∀ k, Chain (t.retrieve k) N
  disk : ∀ k, Chain (Table.disk t k) D

theorem TOk.init (N D : Nat) : TOk ({} : Table String String) N D :=
  ⟨fun _ => chain_new_none N, fun _ => chain_new_none D⟩

theorem retrieve_insert (t : Table String String) (k : String) (h : Hist String) (k' : String) :
    ({ t with cache := t.cache.insert k h } : Table String String).retrieve k' =
      if k' = k then h else t.retrieve k' := by
  simp only [Table.retrieve, AMap.get?_insert]
  by_cases hk : k' = k <;> simp [hk]

theorem TOk.write {t : Table String String} {N D : Nat} (o : TOk t N D) (k : String) {h' : Hist String}
    (hc : Chain h' N) : TOk { t with cache := t.cache.insert k h' } N D := by
  refine ⟨fun k' => ?_, o.disk⟩
  rw [retrieve_insert]
  split
  · exact hc
  · exact o.eff k'

theorem TOk.set {t t' : Table String String} {N D : Nat} (o : TOk t N D) {W : Nat} {k v : String}
    (hv : parkedBlock v = some N) (hs : t.set W N k v = some t') : TOk t' N D := by
  unfold Table.set at hs
  split at hs
  · rename_i h' e
    cases hs
    exact o.write k ((o.eff k).set hv e)
  · cases hs

theorem TOk.unset {t t' : Table String String} {N D : Nat} (o : TOk t N D) {W : Nat} {k : String}
    (hs : t.unset W N k = some t') : TOk t' N D := by
  unfold Table.unset at hs
  split at hs
  · rename_i h' e
    cases hs
    exact o.write k ((o.eff k).unset e)
  · cases hs

/-- `clear_cache` / restart: back to what is on disk -/
theorem TOk.clear {t : Table String String} {N D : Nat} (o : TOk t N D) : TOk t.clear D D := by
  refine ⟨fun k => ?_, o.disk⟩
  have : t.clear.retrieve k = Table.disk t k := Table.eff_uncached (t := t.clear) rfl
  rw [this]; exact o.disk k

/-- `commit b`, for any `b` at or below the height being built: a history that is dropped as old holds no
transaction, so the value row that stays behind is empty -/
theorem TOk.commit {t : Table String String} {N : Nat} (he : ∀ k, Chain (t.retrieve k) N)
    (nd : AMap.Nodup t.cache) {b : Nat} (hb : b ≤ N) : TOk (t.commit Node.W b) N N := by
  have key : ∀ k, Chain (Table.disk (t.commit Node.W b) k) N := by
    intro k
    rw [Table.disk_commit Node.W b t nd k]
    cases hc : t.cache.get? k with
    | none =>
      simp only []
      have := he k
      rwa [show t.retrieve k = Table.disk t k from Table.eff_uncached hc] at this
    | some h =>
      simp only []
      have ch : Chain h N := by
        have := he k
        rwa [Table.retrieve_cached hc] at this
      split
      · rename_i ho
        rw [ch.old_latest_none hb ho]; exact chain_new_none N
      · exact ch
  refine ⟨fun k => ?_, key⟩
  have : (t.commit Node.W b).retrieve k = Table.disk (t.commit Node.W b) k := Table.eff_commit Node.W b t k
  rw [this]; exact key k

/-- a table whose cache is empty is left alone by `commit` -/
theorem commit_of_cache_nil {t : Table String String} (hc : t.cache = []) (W b : Nat) : t.commit W b = t := by
  obtain ⟨db, cdb, cache⟩ := t
  simp only at hc
  subst hc
  rfl

/-- `reorg n` that did not panic, seen from a height `N'` that is at most the old one and lies in `[n, n + 1]` -/
theorem TOk.reorg {t t' : Table String String} {top N D n N' : Nat} (o : TOk t N D) (i : Table.Inv t top)
    (h : t.reorg Node.W n = some t') (h1 : N' ≤ N) (h2 : N' ≤ n + 1) (h3 : n ≤ N') :
    TOk t' N' N' ∧ t'.cache = [] := by
  unfold Table.reorg at h
  cases hl : t.reorgLoad n t.reorgKeys with
  | none => rw [hl] at h; cases h
  | some t1 =>
    rw [hl] at h
    simp only [Option.some.injEq] at h
    subst h
    refine ⟨?_, rfl⟩
    have hne : ∀ k, (t.retrieve k).filter (fun e => decide (e.1 ≤ n)) ≠ [] := by
      intro k
      by_cases hk : k ∈ t.reorgKeys
      · exact Table.reorgLoad_some_ne hl k hk
      · have hk' := (not_congr (Table.mem_reorgKeys t k)).mp hk
        have hcdb : t.cdb.get? k = none := by
          cases hx : t.cdb.get? k with
          | none => rfl
          | some _ => exact absurd (Or.inl (by simp [hx])) hk'
        have hca : t.cache.get? k = none := by
          cases hx : t.cache.get? k with
          | none => rfl
          | some _ => exact absurd (Or.inr (by simp [hx])) hk'
        simp [Table.retrieve, hca, hcdb, Hist.new]
    obtain ⟨t1', e1, e2, e3, e4, e5⟩ := Table.reorgLoad_spec n t.reorgKeys t hne
    rw [hl, Option.some.injEq] at e1
    subst e1
    apply TOk.commit _ (e4 i.cache_nodup) h3
    intro k
    by_cases hk : k ∈ t.reorgKeys
    · have hg := e5 k
      simp only [hk, if_true] at hg
      rw [Table.retrieve_cached hg]
      exact ((o.eff k).filter (Table.eff_ok i k).sorted n).anti (by omega)
    · have hg := e5 k
      simp only [hk, if_false] at hg
      have hk' := (not_congr (Table.mem_reorgKeys t k)).mp hk
      have hca : t.cache.get? k = none := by
        cases hx : t.cache.get? k with
        | none => rfl
        | some _ => exact absurd (Or.inr (by simp [hx])) hk'
      rw [hca] at hg
      have : t1.retrieve k = t.retrieve k := by
        rw [Table.retrieve_uncached hg, Table.retrieve_uncached hca, e2, e3]
      rw [this]
      exact (o.eff k).anti h1

/-- the height moves on: every readable row has to be young enough at the new height -/
theorem TOk.bump {t : Table String String} {top N D N' : Nat} (o : TOk t N D) (i : Table.Inv t top)
    (hf : ∀ k v, t.latest k = some v → ∃ pb, parkedBlock v = some pb ∧ N' ≤ pb + FUTURE_BLOCKS) : TOk t N' D :=
  ⟨fun k => (o.eff k).bump (fun v hv => hf k v (by rw [Table.latest_eff i k]; exact hv)), o.disk⟩

/-- a readable row: parked at or below the height being built, at most 10 blocks ago -/
theorem TOk.row {t : Table String String} {top N D : Nat} (o : TOk t N D) (i : Table.Inv t top) (htop : top ≤ N)
    {k v : String} (hl : t.latest k = some v) :
    ∃ pb, parkedBlock v = some pb ∧ pb ≤ N ∧ N ≤ pb + FUTURE_BLOCKS := by
  rw [Table.latest_eff i k] at hl
  obtain ⟨l, hk, hle⟩ := (Table.eff_ok i k).lastKey
  have := (o.eff k).last hk v hl
  exact ⟨l, this.1, Nat.le_trans hle htop, this.2⟩

end Pool

namespace Node
open Pool BlockDb

/-! ## The recorded events of one operation -/

/-- every recorded `set` of a pending-table row in the list carries `e` as its block number -/
def SetsCarry (e : Nat) (evs : List Ev) : Prop :=
  ∀ tb st k v, Ev.s tb st k (some v) ∈ evs → tb = TId.pending.name → parkedBlock v = some e

theorem setsCarry_of_noPendingSet {evs : List Ev} (h : noPendingSet evs = true) (e : Nat) : SetsCarry e evs := by
  intro tb st k v hm ht
  unfold noPendingSet at h
  rw [List.all_eq_true] at h
  have := h _ hm
  simp only [bne_iff_ne, ne_eq] at this
  exact absurd ht this

/-- what `parkedShape` says of the recorded pending-table writes: each is a `set` of the row of `(sender, nonce)`
with the height being built as block number -/
theorem parkedShape_spec {sender : String} {nonce bn : Nat} {evs : List Ev}
    (h : parkedShape sender nonce bn evs = true) {tb : String} {st : Nat} {k : String} {x : Option String}
    (hm : Ev.s tb st k x ∈ evs) (ht : tb = TId.pending.name) :
    k = sender ++ hexN 16 nonce ∧ ∃ v, x = some v ∧ parkedBlock v = some bn := by
  have hmem : (tb, k, x) ∈ tableWrites evs := List.mem_filterMap.mpr ⟨_, hm, rfl⟩
  unfold parkedShape at h
  split at h
  · rename_i t1 k1 v1 t2 k2 v2 heq
    rw [heq] at hmem
    simp only [List.mem_cons, Prod.mk.injEq, List.not_mem_nil, or_false] at hmem
    simp only [Bool.or_eq_true, Bool.and_eq_true, beq_iff_eq] at h
    have hne : TId.pendingTxid.name ≠ TId.pending.name := by decide
    rcases h with ⟨⟨⟨h1, h2⟩, h3⟩, h4⟩ | ⟨⟨⟨h1, h2⟩, h3⟩, h4⟩
    · rcases hmem with ⟨a, b, c⟩ | ⟨a, b, c⟩
      · subst b; subst c; exact ⟨h3, v1, rfl, h4⟩
      · exact absurd (by rw [← h2, ← a, ht]) hne
    · rcases hmem with ⟨a, b, c⟩ | ⟨a, b, c⟩
      · exact absurd (by rw [← h1, ← a, ht]) hne
      · subst b; subst c; exact ⟨h3, v2, rfl, h4⟩
  · cases h

theorem setsCarry_of_parkedShape {sender : String} {nonce bn : Nat} {evs : List Ev}
    (h : parkedShape sender nonce bn evs = true) : SetsCarry bn evs := by
  intro tb st k v hm ht
  obtain ⟨_, v', e, hv⟩ := parkedShape_spec h hm ht
  cases e; exact hv

theorem SetsCarry.tail {e : Nat} {ev : Ev} {evs : List Ev} (h : SetsCarry e (ev :: evs)) : SetsCarry e evs :=
  fun tb st k v hm ht => h tb st k v (List.mem_cons_of_mem _ hm) ht

theorem TOk_applyS {n n' : Node} {e D : Nat} (o : TOk (n.t .pending) e D) {tb : String} {st : Nat} {k : String}
    {x : Option String} (ha : n.applyS e tb st k x = some n')
    (hx : ∀ v, x = some v → tb = TId.pending.name → parkedBlock v = some e) : TOk (n'.t .pending) e D := by
  unfold Node.applyS at ha
  split at ha
  · cases ha
  · rename_i hst
    have hst : st = e := Decidable.not_not.mp hst
    subst hst
    cases hT : TId.ofName tb with
    | some i =>
      rw [hT] at ha
      by_cases hi : i = .pending
      · subst hi
        have hname := ofName_name hT
        cases x with
        | some v =>
          simp only [Option.map_eq_some_iff] at ha
          obtain ⟨t', e1, rfl⟩ := ha
          have : (n.setT .pending t').t .pending = t' := by simp [setT]
          rw [this]
          exact o.set (hx v rfl hname) e1
        | none =>
          simp only [Option.map_eq_some_iff] at ha
          obtain ⟨t', e1, rfl⟩ := ha
          have : (n.setT .pending t').t .pending = t' := by simp [setT]
          rw [this]
          exact o.unset e1
      · have hne : ∀ t', (n.setT i t').t .pending = n.t .pending := by
          intro t'
          have : TId.pending ≠ i := fun x => hi x.symm
          simp [setT, this]
        cases x with
        | some v =>
          simp only [Option.map_eq_some_iff] at ha
          obtain ⟨t', _, rfl⟩ := ha
          rw [hne]; exact o
        | none =>
          simp only [Option.map_eq_some_iff] at ha
          obtain ⟨t', _, rfl⟩ := ha
          rw [hne]; exact o
    | none =>
      rw [hT] at ha
      simp only [] at ha
      split at ha
      · split at ha
        · cases ha; exact o
        · cases ha
      · cases ha

/-- the recorded writes of one operation, all stamped `e`, whose pending-table `set`s carry `e` as block number -/
theorem TOk_events {n n' : Node} {e D : Nat} {evs : List Ev} (o : TOk (n.t .pending) e D)
    (ha : applyEvents n e evs = some n') (hs : SetsCarry e evs) : TOk (n'.t .pending) e D := by
  induction evs generalizing n with
  | nil => simp only [applyEvents] at ha; cases ha; exact o
  | cons ev rest ih =>
    cases ev with
    | s tb st k v =>
      simp only [applyEvents] at ha
      split at ha
      · rename_i n1 h1
        refine ih (TOk_applyS o h1 ?_) ha hs.tail
        intro v' hv ht
        subst hv
        exact hs tb st k v' (List.mem_cons_self ..) ht
      · cases ha
    | x kind fs okRun succ gas logs => simp only [applyEvents] at ha; exact ih o ha hs.tail
    | other => simp only [applyEvents] at ha; exact ih o ha hs.tail

/-! ## The node invariant -/

/-- **The pending pool of a node**: every history of `account_and_nonce_to_tx_hash` a write would act on is a chain
up to the height being built, every history a restart would find is a chain up to the height the restart continues
at (`Pool.Chain`: each version carries its own stamp as block number and was replaced, or is still in force, at most
10 blocks later). -/
structure PInv (n : Node) : Prop where
  ok : TOk (n.t .pending) n.nextHeight n.durNext

theorem PInv.init : PInv ({} : Node) := ⟨TOk.init _ _⟩

/-- `PInv` only looks at the pending table, the hash table and the in-memory height -/
theorem PInv.congr {n n' : Node} (h : PInv n) (ht : n'.t .pending = n.t .pending) (hb : n'.b = n.b)
    (hl : n'.latest = n.latest) : PInv n' := by
  have hnx : n'.nextHeight = n.nextHeight := by rw [nextHeight_eq, nextHeight_eq, hl, hb]
  have hdn : n'.durNext = n.durNext := by unfold durNext; rw [hb]
  exact ⟨by rw [ht, hnx, hdn]; exact h.ok⟩

theorem PInv.addTxs {n : Node} (h : PInv n) (ts : Nat) (hash0 : String) (idx : Nat) (txid : Option String)
    (evs : List Ev) (k : Option Nat) : PInv (n.addTxs ts hash0 idx txid evs k).1 := by
  by_cases hok : (n.addTxs ts hash0 idx txid evs k).2 = .ok
  · obtain ⟨hb, hl, _⟩ := addTxs_block_frame n ts hash0 idx txid evs k
    have hnx : (n.addTxs ts hash0 idx txid evs k).1.nextHeight = n.nextHeight := by
      rw [nextHeight_eq, nextHeight_eq, hl, hb]
    have hdn : (n.addTxs ts hash0 idx txid evs k).1.durNext = n.durNext := by unfold durNext; rw [hb]
    obtain ⟨_, _, _, _, _, n', ha, hn⟩ := addTxs_ok hok
    refine ⟨?_⟩
    rw [hnx, hdn, hn]
    exact TOk_events (n' := n') h.ok ha (setsCarry_of_noPendingSet (addTxs_ok_noPendingSet hok) _)
  · rw [addTxs_fst_of_ne_ok hok]; exact h

theorem PInv.addRawTx {n : Node} (h : PInv n) (ts : Nat) (hash0 : String) (idx : Nat) (txid : String)
    (dec : RawDecode) (evs : List Ev) : PInv (n.addRawTx ts hash0 idx txid dec evs).1 := by
  cases dec with
  | fail => exact h
  | wrongChain =>
    simp only [Node.addRawTx]
    split <;> exact h
  | ok sender nonce =>
    simp only [Node.addRawTx]
    by_cases h1 : nonce ≠ n.accountNonce sender
    · rw [if_pos h1]
      by_cases h2 : nonce > n.accountNonce sender ∧ nonce < n.accountNonce sender + FUTURE_NONCES
      · rw [if_pos h2]
        by_cases h3 : (!(txRuns evs).isEmpty) = true
        · rw [if_pos h3]; exact h
        · rw [if_neg h3]
          by_cases h4 : (!poolOnly evs) = true
          · rw [if_pos h4]; exact h
          · rw [if_neg h4]
            have hp : poolOnly evs = true := by simpa using h4
            by_cases h5 : (!parkedShape sender nonce n.nextHeight evs) = true
            · rw [if_pos h5]; exact h
            · rw [if_neg h5]
              have hsh : parkedShape sender nonce n.nextHeight evs = true := by simpa using h5
              cases ha : applyEvents n n.nextHeight evs with
              | none => exact h
              | some n' =>
                obtain ⟨_, hlat, _⟩ := applyEvents_fields ha
                have hb : n'.b = n.b := applyEvents_pool_frame hp ha
                have hnx : n'.nextHeight = n.nextHeight := by rw [nextHeight_eq, nextHeight_eq, hlat, hb]
                have hdn : n'.durNext = n.durNext := by unfold durNext; rw [hb]
                refine ⟨?_⟩
                show TOk (n'.t .pending) n'.nextHeight n'.durNext
                rw [hnx, hdn]
                exact TOk_events h.ok ha (setsCarry_of_parkedShape hsh)
      · rw [if_neg h2]
        split <;> exact h
    · rw [if_neg h1]
      exact drainCheck_fst_ind h (h.addTxs ts hash0 idx (some txid) evs _)

theorem PInv.finaliseOne {n : Node} {G : Ghost} (h : PInv n) (r : RInv n G) (ts : Nat) (hash0 : String) (count : Nat)
    (evs : List Ev) : PInv (n.finaliseOne ts hash0 count evs).1 := by
  by_cases hok : (n.finaliseOne ts hash0 count evs).2 = .ok
  · obtain ⟨n', ha, _, hn⟩ := finaliseOne_ok_node hok
    obtain ⟨_, n'', ha', _, _, _, _, _, _, _, hf⟩ := finaliseOne_ok hok
    rw [ha, Option.some.injEq] at ha'
    subst ha'
    have o := TOk_events h.ok ha (setsCarry_of_noPendingSet (finaliseOne_ok_noPendingSet hok) _)
    have hi := ((r.core.events ha).sim .pending).inv
    have hb := (applyEvents_bstep ha).bclear .numberToHash
    rw [hn]
    refine ⟨?_⟩
    show TOk (n'.t .pending) (n.nextHeight + 1) (nextOf (n'.b .numberToHash).clear.lastKey)
    rw [hb]
    apply o.bump hi
    intro k v hl
    obtain ⟨pb, h1, h2⟩ := poolFreshAt_spec hf k v hl
    exact ⟨pb, h1, by omega⟩
  · rw [finaliseOne_fst_of_ne_ok hok]; exact h

theorem PInv.mineLoop {n : Node} {G : Ghost} (h : PInv n) (r : RInv n G) (ts : Nat) (evs : List Ev) (k : Nat) :
    PInv (mineLoop n ts evs k).1 := by
  induction k generalizing n G with
  | zero => exact h
  | succ k ih =>
    have hf := h.finaliseOne r ts zeroHash 0 (evs.filter (fun e => stampOf e == some n.nextHeight))
    have rf := r.finaliseOne ts zeroHash 0 (evs.filter (fun e => stampOf e == some n.nextHeight))
    simp only [Node.mineLoop]
    cases hr : Node.finaliseOne n ts zeroHash 0 (evs.filter (fun e => stampOf e == some n.nextHeight)) with
    | mk n' c =>
      rw [hr] at hf rf
      cases c with
      | ok => exact ih hf rf
      | err e => exact hf
      | panic => exact hf
      | reject w => exact hf

theorem PInv.initialise {n : Node} {G : Ghost} (h : PInv n) (r : RInv n G) (hash0 : String) (ts height : Nat)
    (evs : List Ev) : PInv (n.initialise hash0 ts height evs).1 := by
  rw [initialise_eq]
  cases (n.b .block).get height with
  | some _ => simp only []; split <;> exact h
  | none =>
    simp only []
    by_cases hh : height ≠ n.nextHeight
    · rw [if_pos hh]; exact h
    · rw [if_neg hh]
      have ha := h.addTxs ts (normHash hash0 height) 0 (some zeroHash) (evs.filter (fun e => !isFinEv e)) (some 1)
      have ra := r.addTxs ts (normHash hash0 height) 0 (some zeroHash) (evs.filter (fun e => !isFinEv e)) (some 1)
      cases hr : Node.addTxs n ts (normHash hash0 height) 0 (some zeroHash) (evs.filter (fun e => !isFinEv e)) (some 1) with
      | mk n1 c =>
        rw [hr] at ha ra
        cases c with
        | ok => exact ha.finaliseOne ra _ _ _ _
        | err e => exact ha
        | panic => exact ha
        | reject w => exact ha

theorem PInv.clear {n : Node} (h : PInv n) : PInv (n.clear).1 := by
  have hnx : (n.clear).1.nextHeight = n.durNext := by rw [nextHeight_eq]; rfl
  have hdn : (n.clear).1.durNext = n.durNext := rfl
  refine ⟨?_⟩
  rw [hnx, hdn]
  exact h.ok.clear

theorem PInv.commit {n : Node} {G : Ghost} (h : PInv n) (hr : Reach n) (r : RInv n G) : PInv n.commit.1 := by
  unfold Node.commit
  split
  · exact h
  · have hnx : n.commitAll.nextHeight = n.nextHeight := by
      rw [hr.heights.2, nextHeight_eq]
      show nextOf ((n.b .numberToHash).commit.clear).lastKey = _
      rw [BlockDb.lastKey_commit_clear]
    have hdn : n.commitAll.durNext = n.nextHeight := by
      rw [hr.heights.2]
      show nextOf ((n.b .numberToHash).commit.clear).clear.lastKey = _
      rw [BlockDb.clear_clear, BlockDb.lastKey_commit_clear]
    refine ⟨?_⟩
    rw [hnx, hdn]
    exact TOk.commit h.ok.eff (r.core.sim .pending).inv.cache_nodup (Nat.le_refl _)

/-- `reorg`: every history is cut at `target`; the height being built afterwards is `target + 1` (or stays `0` on
an empty database) -/
theorem PInv.reorg {n : Node} {G : Ghost} (h : PInv n) (hr : Reach n) (r : RInv n G) (target : Nat)
    (ha : (n.reorg target).2.accepted) : PInv (n.reorg target).1 := by
  by_cases hrf : Refused n target
  · rw [reorg_fst_of_refused hrf]; exact h
  · have hr2 : Reach (n.reorg target).1 := Reach.step (.reorg target) hr ha
    rw [reorg_of_not_refused n target hrf] at hr2 ⊢
    unfold reorgBody at hr2 ⊢
    cases hx : reorgTables n target allTIds with
    | none => exact h
    | some n1 =>
      rw [hx] at hr2
      simp only [] at hr2 ⊢
      obtain ⟨eb, _, _, _⟩ := reorgTables_frame target allTIds n n1 hx
      have htab := (reorgTables_tables target allTIds nodup_allTIds n n1 hx).1 .pending (mem_allTIds _)
      have hget : ∀ k, ((({ n1 with b := fun i => (n1.b i).reorg target } : Node).commitAll).b .numberToHash).get k =
          if k ≤ target then (n.b .numberToHash).get k else none := by
        intro k
        show ((n1.b .numberToHash).reorg target).commit.clear.get k = _
        rw [BlockDb.get_commit_clear, BlockDb.get_reorg, eb]
      have hrows := fun k => (hr.block_rows.1 .numberToHash k)
      have hrows2 := fun k => (hr2.block_rows.1 .numberToHash k)
      have key : ∀ k, k < (({ n1 with b := fun i => (n1.b i).reorg target } : Node).commitAll).nextHeight ↔
          (k ≤ target ∧ k < n.nextHeight) := by
        intro k
        rw [← hrows2 k, hget k, ← hrows k]
        by_cases hk : k ≤ target <;> simp [hk]
      have hdn : (({ n1 with b := fun i => (n1.b i).reorg target } : Node).commitAll).durNext =
          (({ n1 with b := fun i => (n1.b i).reorg target } : Node).commitAll).nextHeight := by
        rw [nextHeight_eq]; rfl
      have hLN : n.latestHeight ≤ n.nextHeight := by
        rw [hr.heights.1, hr.heights.2]
        cases (n.b .numberToHash).lastKey with
        | none => exact Nat.le_refl _
        | some e => simp only [Option.getD_some, nextOf]; omega
      have htl : target ≤ n.latestHeight := by
        simp only [Refused, not_or] at hrf
        omega
      generalize hM : (({ n1 with b := fun i => (n1.b i).reorg target } : Node).commitAll).nextHeight = M at key hdn
      have h1 : M ≤ n.nextHeight ∧ M ≤ target + 1 := by
        cases M with
        | zero => omega
        | succ m => have := (key m).mp (Nat.lt_succ_self m); omega
      have h3 : target ≤ M := by
        have := (not_congr (key M)).mp (Nat.lt_irrefl M)
        omega
      obtain ⟨o, hc⟩ := h.ok.reorg (r.core.sim .pending).inv htab h1.1 h1.2 h3
      refine ⟨?_⟩
      rw [hdn, hM]
      show TOk ((n1.t .pending).commit W _) M M
      rw [commit_of_cache_nil hc]
      exact o

/-- one accepted call -/
theorem PInv.step {n : Node} (h : PInv n) (hr : Reach n) (op : Op) (ha : (op.run n).2.accepted) :
    PInv (op.run n).1 := by
  obtain ⟨G, r⟩ := hr.inv
  cases op with
  | initialise hash0 ts height evs => exact h.initialise r hash0 ts height evs
  | mine count ts evs =>
    show PInv (n.mine count ts evs).1
    unfold Node.mine
    split
    · exact h
    · split
      · exact h
      · exact h.mineLoop r ts evs count
  | addTxs ts hash0 idx txid evs k => exact h.addTxs ts hash0 idx txid evs k
  | addRawTx ts hash0 idx txid dec evs => exact h.addRawTx ts hash0 idx txid dec evs
  | finaliseOne ts hash0 count evs => exact h.finaliseOne r ts hash0 count evs
  | commit => exact h.commit hr r
  | clear => exact h.clear
  | reopen => exact h.clear
  | reorg target => exact h.reorg hr r target ha

/-- **Every reachable node satisfies `PInv`.** -/
theorem Reach.pinv {n : Node} (h : Reach n) : PInv n := by
  induction h with
  | init => exact PInv.init
  | step op hr ha ih => exact ih.step hr op ha

/-- **The pending pool of every reachable node** (at a block boundary or not): every readable row of
`account_and_nonce_to_tx_hash` carries the number `pb` of the block it was parked in; that block is at most the one
being built, and fewer than `MAX_FUTURE_TRANSACTION_BLOCKS` (10) blocks older than the latest block. -/
theorem Reach.pool_rows {n : Node} (h : Reach n) {k v : String} (hl : (n.t .pending).latest k = some v) :
    ∃ pb, parkedBlock v = some pb ∧ pb ≤ n.nextHeight ∧ n.nextHeight ≤ pb + FUTURE_BLOCKS ∧
      n.latestHeight < pb + FUTURE_BLOCKS := by
  obtain ⟨G, r⟩ := h.inv
  obtain ⟨pb, h1, h2, h3⟩ := h.pinv.ok.row (r.core.sim .pending).inv (r.core.top_le .pending) hl
  refine ⟨pb, h1, h2, h3, ?_⟩
  obtain ⟨e1, e2⟩ := h.heights
  unfold FUTURE_BLOCKS at h3 ⊢
  cases hlk : (n.b .numberToHash).lastKey with
  | none => rw [hlk] at e1; simp only [Option.getD_none] at e1; omega
  | some e => rw [hlk] at e1 e2; simp only [Option.getD_some, nextOf] at e1 e2; omega

/-- **Every version the pending table stores anywhere carries its own stamp as block number**: in the cache and in
the history column every entry `(b, Some(tx))` has `tx.block_number = Some(b)`. -/
theorem Reach.pool_versions {n : Node} (h : Reach n) {k : String} {hist : Hist String}
    (hk : (n.t .pending).cache.get? k = some hist ∨ (n.t .pending).cdb.get? k = some hist) {b : Nat} {v : String}
    (hm : (b, some v) ∈ hist) : parkedBlock v = some b := by
  rcases hk with hc | hc
  · have := h.pinv.ok.eff k
    rw [Table.retrieve_cached hc] at this
    exact this.mem hm
  · have := h.pinv.ok.disk k
    simp only [Table.disk, hc] at this
    exact this.mem hm

/-- the heights after an accepted `reorg` of a reachable node: the latest block is the target; the next one is
`target + 1` (or still `0` on an empty database) -/
theorem Reach.reorg_heights {n : Node} (hr : Reach n) {target : Nat} (hok : (n.reorg target).2 = .ok) :
    (n.reorg target).1.latestHeight = target ∧ (n.reorg target).1.nextHeight ≤ target + 1 ∧
      target ≤ (n.reorg target).1.nextHeight := by
  have hr2 : Reach (n.reorg target).1 := Reach.step (.reorg target) hr (by show (n.reorg target).2.accepted; rw [hok]; trivial)
  obtain ⟨hrf, n1, hx, e2⟩ := reorg_ok n target hok
  obtain ⟨eb, _, _, _⟩ := reorgTables_frame target allTIds n n1 hx
  have hget : ∀ k, ((n.reorg target).1.b .numberToHash).get k =
      if k ≤ target then (n.b .numberToHash).get k else none := by
    intro k
    rw [e2]
    show ((n1.b .numberToHash).reorg target).commit.clear.get k = _
    rw [BlockDb.get_commit_clear, BlockDb.get_reorg, eb]
  have hrows := fun k => (hr.block_rows.1 .numberToHash k)
  have hrows2 := fun k => (hr2.block_rows.1 .numberToHash k)
  have key : ∀ k, k < (n.reorg target).1.nextHeight ↔ (k ≤ target ∧ k < n.nextHeight) := by
    intro k
    rw [← hrows2 k, hget k, ← hrows k]
    by_cases hk : k ≤ target <;> simp [hk]
  have htl : target ≤ n.latestHeight := by
    simp only [Refused, not_or] at hrf
    omega
  obtain ⟨a1, a2⟩ := hr.heights
  obtain ⟨b1, b2⟩ := hr2.heights
  generalize (n.reorg target).1.nextHeight = M at key b2
  generalize (n.reorg target).1.latestHeight = L' at b1
  have h1 : M ≤ n.nextHeight ∧ M ≤ target + 1 := by
    cases M with
    | zero => omega
    | succ m => have := (key m).mp (Nat.lt_succ_self m); omega
  have h3 := (not_congr (key M)).mp (Nat.lt_irrefl M)
  have h4 := key target
  cases hl : (n.b .numberToHash).lastKey with
  | none =>
    rw [hl] at a1 a2
    simp only [Option.getD_none, nextOf] at a1 a2
    cases hl2 : ((n.reorg target).1.b .numberToHash).lastKey with
    | none => rw [hl2] at b1 b2; simp only [Option.getD_none, nextOf] at b1 b2; omega
    | some e2 => rw [hl2] at b1 b2; simp only [Option.getD_some, nextOf] at b1 b2; omega
  | some e =>
    rw [hl] at a1 a2
    simp only [Option.getD_some, nextOf] at a1 a2
    cases hl2 : ((n.reorg target).1.b .numberToHash).lastKey with
    | none => rw [hl2] at b1 b2; simp only [Option.getD_none, nextOf] at b1 b2; omega
    | some e2 => rw [hl2] at b1 b2; simp only [Option.getD_some, nextOf] at b1 b2; omega

/-! ## Where rows come from: only a parked submission creates one -/

theorem _root_.Brc20.Hist.latest_put (h : Hist String) (b : Nat) (x : Option String) : Hist.latest (Hist.put h b x) = x := by
  induction h with
  | nil => rfl
  | cons e rest ih =>
    cases rest with
    | nil =>
      obtain ⟨b', v'⟩ := e
      simp only [Hist.put]
      split <;> rfl
    | cons r rs =>
      have hp : Hist.put (e :: r :: rs) b x = e :: Hist.put (r :: rs) b x := by simp [Hist.put]
      rw [hp, latest_cons_ne_nil put_ne_nil]
      exact ih

theorem _root_.Brc20.Hist.latest_prune (W : Nat) (h : Hist String) (b : Nat) : Hist.latest (Hist.prune W h b) = Hist.latest h := by
  fun_induction Hist.prune W h b
  · rename_i e₁ e₂ rest hle ih
    rw [ih]; exact (latest_cons_ne_nil (by simp)).symm
  · rfl
  · rfl

theorem _root_.Brc20.Hist.latest_set {W : Nat} {h h' : Hist String} {b : Nat} {v : String}
    (hs : Hist.set W h b v = some h') : Hist.latest h' = some v := by
  unfold Hist.set at hs
  split at hs
  · split at hs
    · cases hs
    · split at hs
      · rename_i hl; cases hs; exact hl
      · cases hs; rw [Hist.latest_prune, Hist.latest_put]
  · cases hs; rw [Hist.latest_prune, Hist.latest_put]

theorem _root_.Brc20.Hist.latest_unset {W : Nat} {h h' : Hist String} {b : Nat}
    (hs : Hist.unset W h b = some h') : Hist.latest h' = none ∨ h' = [] := by
  unfold Hist.unset at hs
  split at hs
  · split at hs
    · cases hs
    · split at hs
      · rename_i hl; cases hs; left; simpa using hl
      · cases hs; left; rw [Hist.latest_prune, Hist.latest_put]
  · rename_i hl
    cases hs; right; exact lastKey?_none hl

theorem latest_insert_self (t : Table String String) (k : String) (h : Hist String) :
    ({ t with cache := t.cache.insert k h } : Table String String).latest k = Hist.latest h := by
  simp [Table.latest, AMap.get?_insert]

/-- one recorded write: a row readable afterwards was readable before, or is the row this write sets -/
theorem applyS_pending_latest {n n' : Node} {e : Nat} {tb : String} {st : Nat} {k0 : String} {x : Option String}
    (ha : n.applyS e tb st k0 x = some n') {k v : String} (hl : (n'.t .pending).latest k = some v) :
    (n.t .pending).latest k = some v ∨ (tb = TId.pending.name ∧ k0 = k ∧ x = some v) := by
  unfold Node.applyS at ha
  split at ha
  · cases ha
  · cases hT : TId.ofName tb with
    | some i =>
      rw [hT] at ha
      by_cases hi : i = .pending
      · subst hi
        have hname := ofName_name hT
        have hT' : ∀ t', (n.setT .pending t').t .pending = t' := fun t' => by simp [setT]
        by_cases hk : k = k0
        · subst hk
          cases x with
          | some v' =>
            simp only [Option.map_eq_some_iff] at ha
            obtain ⟨t', e1, rfl⟩ := ha
            rw [hT'] at hl
            right
            refine ⟨hname, rfl, ?_⟩
            unfold Table.set at e1
            split at e1
            · rename_i h' e2
              cases e1
              rw [latest_insert_self, Hist.latest_set e2] at hl
              exact hl
            · cases e1
          | none =>
            exfalso
            simp only [Option.map_eq_some_iff] at ha
            obtain ⟨t', e1, rfl⟩ := ha
            rw [hT'] at hl
            unfold Table.unset at e1
            split at e1
            · rename_i h' e2
              cases e1
              rw [latest_insert_self] at hl
              rcases Hist.latest_unset e2 with h0 | h0
              · rw [h0] at hl; cases hl
              · rw [h0] at hl; cases hl
            · cases e1
        · left
          cases x with
          | some v' =>
            simp only [Option.map_eq_some_iff] at ha
            obtain ⟨t', e1, rfl⟩ := ha
            rw [hT'] at hl
            rw [← Table.latest_set_other e1 hk]; exact hl
          | none =>
            simp only [Option.map_eq_some_iff] at ha
            obtain ⟨t', e1, rfl⟩ := ha
            rw [hT'] at hl
            rw [← Table.latest_unset_other e1 hk]; exact hl
      · left
        have hne : ∀ t', (n.setT i t').t .pending = n.t .pending := by
          intro t'
          have : TId.pending ≠ i := fun x => hi x.symm
          simp [setT, this]
        cases x with
        | some v' =>
          simp only [Option.map_eq_some_iff] at ha
          obtain ⟨t', _, rfl⟩ := ha
          rw [hne] at hl; exact hl
        | none =>
          simp only [Option.map_eq_some_iff] at ha
          obtain ⟨t', _, rfl⟩ := ha
          rw [hne] at hl; exact hl
    | none =>
      rw [hT] at ha
      simp only [] at ha
      left
      split at ha
      · split at ha
        · cases ha; exact hl
        · cases ha
      · cases ha

/-- the recorded writes of one operation: a row readable afterwards was readable before, or one of the recorded
writes sets it -/
theorem applyEvents_pending_latest {n n' : Node} {e : Nat} {evs : List Ev} (ha : applyEvents n e evs = some n')
    {k v : String} (hl : (n'.t .pending).latest k = some v) :
    (n.t .pending).latest k = some v ∨ ∃ st, Ev.s TId.pending.name st k (some v) ∈ evs := by
  induction evs generalizing n with
  | nil => simp only [applyEvents] at ha; cases ha; exact Or.inl hl
  | cons ev rest ih =>
    cases ev with
    | s tb st k0 x =>
      simp only [applyEvents] at ha
      split at ha
      · rename_i n1 h1
        rcases ih ha with h2 | ⟨st', h2⟩
        · rcases applyS_pending_latest h1 h2 with h3 | ⟨rfl, rfl, rfl⟩
          · exact Or.inl h3
          · exact Or.inr ⟨st, List.mem_cons_self ..⟩
        · exact Or.inr ⟨st', List.mem_cons_of_mem _ h2⟩
      · cases ha
    | x kind fs okRun succ gas logs =>
      simp only [applyEvents] at ha
      rcases ih ha with h2 | ⟨st', h2⟩
      · exact Or.inl h2
      · exact Or.inr ⟨st', List.mem_cons_of_mem _ h2⟩
    | other =>
      simp only [applyEvents] at ha
      rcases ih ha with h2 | ⟨st', h2⟩
      · exact Or.inl h2
      · exact Or.inr ⟨st', List.mem_cons_of_mem _ h2⟩

theorem noPendingSet_not_mem {evs : List Ev} (h : noPendingSet evs = true) {st : Nat} {k v : String} :
    Ev.s TId.pending.name st k (some v) ∉ evs := by
  intro hm
  unfold noPendingSet at h
  rw [List.all_eq_true] at h
  have := h _ hm
  simp at this

/-- **A transaction never adds a pool row** (executed transactions, their drained successors, inscription
transactions, deposits...): a row readable after `addTxs` was readable before. -/
theorem addTxs_pool_rows_from {n : Node} (ts : Nat) (hash0 : String) (idx : Nat) (txid : Option String)
    (evs : List Ev) (k' : Option Nat) {k v : String}
    (hl : ((n.addTxs ts hash0 idx txid evs k').1.t .pending).latest k = some v) : (n.t .pending).latest k = some v := by
  by_cases hok : (n.addTxs ts hash0 idx txid evs k').2 = .ok
  · obtain ⟨_, _, _, _, _, n', ha, hn⟩ := addTxs_ok hok
    rw [hn] at hl
    rcases applyEvents_pending_latest (n' := n') ha hl with h1 | ⟨st, h1⟩
    · exact h1
    · exact absurd h1 (noPendingSet_not_mem (addTxs_ok_noPendingSet hok))
  · rw [addTxs_fst_of_ne_ok hok] at hl; exact hl

/-- **A finalise never adds a pool row.** -/
theorem finaliseOne_pool_rows_from {n : Node} (ts : Nat) (hash0 : String) (count : Nat) (evs : List Ev) {k v : String}
    (hl : ((n.finaliseOne ts hash0 count evs).1.t .pending).latest k = some v) : (n.t .pending).latest k = some v := by
  by_cases hok : (n.finaliseOne ts hash0 count evs).2 = .ok
  · obtain ⟨_, n', ha, _, _, _, _, ht, _⟩ := finaliseOne_ok hok
    rw [ht] at hl
    rcases applyEvents_pending_latest ha hl with h1 | ⟨st, h1⟩
    · exact h1
    · exact absurd h1 (noPendingSet_not_mem (finaliseOne_ok_noPendingSet hok))
  · rw [finaliseOne_fst_of_ne_ok hok] at hl; exact hl

/-- **Only a parked submission adds a pool row**: a row readable after `addRawTx` was readable before, or it is the
row of the submitted `(sender, nonce)`, the nonce is ahead of the account by fewer than 10, and the row carries the
height being built as its block number. -/
theorem addRawTx_pool_rows_from {n : Node} (ts : Nat) (hash0 : String) (idx : Nat) (txid : String) (dec : RawDecode)
    (evs : List Ev) {k v : String}
    (hl : ((n.addRawTx ts hash0 idx txid dec evs).1.t .pending).latest k = some v) :
    (n.t .pending).latest k = some v ∨
    ∃ sender nonce, dec = .ok sender nonce ∧ k = sender ++ hexN 16 nonce ∧
      n.accountNonce sender < nonce ∧ nonce < n.accountNonce sender + FUTURE_NONCES ∧
      parkedBlock v = some n.nextHeight := by
  cases dec with
  | fail => exact Or.inl hl
  | wrongChain =>
    left
    simp only [Node.addRawTx] at hl
    split at hl <;> exact hl
  | ok sender nonce =>
    simp only [Node.addRawTx] at hl
    by_cases h1 : nonce ≠ n.accountNonce sender
    · rw [if_pos h1] at hl
      by_cases h2 : nonce > n.accountNonce sender ∧ nonce < n.accountNonce sender + FUTURE_NONCES
      · rw [if_pos h2] at hl
        by_cases h3 : (!(txRuns evs).isEmpty) = true
        · rw [if_pos h3] at hl; exact Or.inl hl
        · rw [if_neg h3] at hl
          by_cases h4 : (!poolOnly evs) = true
          · rw [if_pos h4] at hl; exact Or.inl hl
          · rw [if_neg h4] at hl
            by_cases h5 : (!parkedShape sender nonce n.nextHeight evs) = true
            · rw [if_pos h5] at hl; exact Or.inl hl
            · rw [if_neg h5] at hl
              have hsh : parkedShape sender nonce n.nextHeight evs = true := by simpa using h5
              cases ha : applyEvents n n.nextHeight evs with
              | none => rw [ha] at hl; exact Or.inl hl
              | some n' =>
                rw [ha] at hl
                rcases applyEvents_pending_latest ha hl with h6 | ⟨st, h6⟩
                · exact Or.inl h6
                · right
                  obtain ⟨hk, v', e1, hv⟩ := parkedShape_spec hsh h6 rfl
                  cases e1
                  exact ⟨sender, nonce, rfl, hk, h2.1, h2.2, hv⟩
      · rw [if_neg h2] at hl
        left
        split at hl <;> exact hl
    · rw [if_neg h1] at hl
      left
      rcases drainCheck_cases n sender (n.accountNonce sender + 1)
        (drainPlan n sender n.nextHeight FUTURE_NONCES (n.accountNonce sender + 1)).2
        (n.addTxs ts hash0 idx (some txid) evs
          (some (1 + (drainPlan n sender n.nextHeight FUTURE_NONCES (n.accountNonce sender + 1)).1))) with e' | ⟨_, e'⟩
      · rw [e'] at hl; exact addTxs_pool_rows_from _ _ _ _ _ _ hl
      · rw [e'] at hl; exact hl

end Node
end Brc20
