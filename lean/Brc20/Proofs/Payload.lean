/-
Payload codec: base64 and nada round trips, limits, padding.
-/
import Brc20.Model.Payload
set_option linter.unusedSectionVars false

namespace Brc20.Payload

/-! ### base64 -/

theorem b64Val_b64Char (n : Nat) (h : n < 64) : b64Val (b64Char n) = some n := by
  have : ∀ n : Fin 64, b64Val (b64Char n.val) = some n.val := by decide
  exact this ⟨n, h⟩

private theorem ofNat_eq (a : UInt8) (n : Nat) (h : n = a.toNat) : UInt8.ofNat n = a := by
  subst h; exact UInt8.ofNat_toNat

/-- base64 (no padding) is lossless. -/
theorem b64_roundtrip (x : Bytes) : b64Decode (b64Encode x) = some x := by
  fun_induction b64Encode x with
  | case1 => rfl
  | case2 a n =>
    have ha : n < 256 := a.toNat_lt
    simp only [b64Decode]
    rw [b64Val_b64Char _ (by omega), b64Val_b64Char _ (by omega)]
    simp only
    rw [if_pos (by omega)]
    rw [ofNat_eq a _ (by omega)]
  | case3 a b n =>
    have ha := a.toNat_lt
    have hb := b.toNat_lt
    simp only [b64Decode]
    rw [b64Val_b64Char _ (by omega), b64Val_b64Char _ (by omega), b64Val_b64Char _ (by omega)]
    simp only
    rw [if_pos (by omega)]
    rw [ofNat_eq a _ (by omega), ofNat_eq b _ (by omega)]
  | case4 a b c rest n ih =>
    have ha := a.toNat_lt
    have hb := b.toNat_lt
    have hc := c.toNat_lt
    simp only [b64Decode]
    rw [b64Val_b64Char _ (by omega), b64Val_b64Char _ (by omega), b64Val_b64Char _ (by omega),
      b64Val_b64Char _ (by omega), ih]
    simp only
    rw [ofNat_eq a _ (by omega), ofNat_eq b _ (by omega), ofNat_eq c _ (by omega)]

theorem b64Char_ne_pad (n : Nat) : b64Char n ≠ '=' := by
  by_cases h : n < 64
  · have : ∀ n : Fin 64, b64Char n.val ≠ '=' := by decide
    exact this ⟨n, h⟩
  · unfold b64Char
    rw [if_neg (by omega), if_neg (by omega), if_neg (by omega), if_neg (by omega)]
    decide

/-- The encoder never emits `=`. -/
theorem b64Encode_no_pad (x : Bytes) : '=' ∉ b64Encode x := by
  fun_induction b64Encode x <;>
    simp [*, (b64Char_ne_pad _).symm]

/-- Stripping at the first `=` undoes any `=...` suffix on text that has no `=` itself. -/
theorem stripPad_append (s t : List Char) (h : '=' ∉ s) : stripPad (s ++ '=' :: t) = s := by
  induction s with
  | nil => simp [stripPad]
  | cons c s ih =>
    simp only [List.mem_cons, not_or] at h
    simp [stripPad, Ne.symm h.1, ih h.2]

theorem stripPad_id (s : List Char) (h : '=' ∉ s) : stripPad s = s := by
  induction s with
  | nil => simp [stripPad]
  | cons c s ih =>
    simp only [List.mem_cons, not_or] at h
    simp [stripPad, Ne.symm h.1, ih h.2]

/-! ### nada

Invariant: after the encoder has consumed a prefix `p`, its (reversed) output decodes from the initial decoder
state to `p` minus the pending run (`zeroRun` zeroes or `ffRun` 0xFF bytes, never both), with the decoder not
waiting; `flush` then emits the pending run in a form the decoder expands back. -/

namespace Nada

/-- The decoder as a fold of `feed`. -/
def decFold (d : NDec) : Bytes → Option NDec
  | [] => some d
  | b :: r => (d.feed b).bind (decFold · r)

theorem decFold_append (d : NDec) (a b : Bytes) :
    decFold d (a ++ b) = (decFold d a).bind (decFold · b) := by
  induction a generalizing d with
  | nil => simp [decFold]
  | cons x a ih =>
    simp only [List.cons_append, decFold]
    cases d.feed x with
    | none => rfl
    | some d' => simpa using ih d'

theorem nadaDecodeAll_eq (d : NDec) (x : Bytes) :
    nadaDecodeAll d x = (decFold d x).bind (fun d' => if d'.waiting then none else some d'.rout.reverse) := by
  induction x generalizing d with
  | nil => simp [nadaDecodeAll, decFold]
  | cons b r ih =>
    simp only [nadaDecodeAll, decFold]
    cases d.feed b with
    | none => rfl
    | some d' => simpa using ih d'

/-- `out` (a REVERSED encoder output) decodes, from the initial state, to `p`, and the decoder is not waiting. -/
def Dec (out p : Bytes) : Prop :=
  ∃ d, decFold {} out.reverse = some d ∧ d.waiting = false ∧ d.rout.reverse = p

theorem Dec_nil : Dec [] [] := ⟨{}, rfl, rfl, rfl⟩

theorem Dec_lit {out p : Bytes} (h : Dec out p) (b : UInt8) (hb : b ≠ 0xFF) : Dec (b :: out) (p ++ [b]) := by
  obtain ⟨d, hd, hw, hp⟩ := h
  refine ⟨{ d with rout := b :: d.rout, len := d.len + 1 }, ?_, hw, by simp [hp]⟩
  rw [List.reverse_cons, decFold_append, hd]
  simp [decFold, NDec.feed, hw, hb]

/-- What `FF n` expands to. -/
def expand (n : UInt8) : Bytes :=
  if n = 1 then [0xFF] else if n = 2 then [0xFF, 0xFF] else List.replicate n.toNat 0

theorem Dec_esc {out p : Bytes} (h : Dec out p) (n : UInt8) (hn : n ≠ 0) :
    Dec (n :: 0xFF :: out) (p ++ expand n) := by
  obtain ⟨d, hd, hw, hp⟩ := h
  have hr : (n :: 0xFF :: out).reverse = out.reverse ++ [0xFF, n] := by simp
  unfold Dec
  rw [hr, decFold_append, hd]
  simp only [Option.bind_some, decFold, NDec.feed, hw]
  simp only [Bool.false_eq_true, if_false, if_true, Option.bind_some, hn]
  unfold expand
  split
  · exact ⟨_, rfl, rfl, by simp [hp]⟩
  · split
    · exact ⟨_, rfl, rfl, by simp [hp]⟩
    · exact ⟨_, rfl, rfl, by simp [hp]⟩

theorem toNat_ofNat_lt (n : Nat) (h : n < 256) : (UInt8.ofNat n).toNat = n :=
  UInt8.toNat_ofNat_of_lt' h

theorem expand_ofNat (n : Nat) (h3 : 3 ≤ n) (h : n < 256) : expand (UInt8.ofNat n) = List.replicate n 0 := by
  have ht := toNat_ofNat_lt n h
  have h1 : UInt8.ofNat n ≠ 1 := by intro e; rw [e] at ht; revert ht; simp; omega
  have h2 : UInt8.ofNat n ≠ 2 := by intro e; rw [e] at ht; revert ht; simp; omega
  simp [expand, h1, h2, ht]

theorem ofNat_ne_zero (n : Nat) (h3 : 3 ≤ n) (h : n < 256) : UInt8.ofNat n ≠ 0 := by
  have ht := toNat_ofNat_lt n h
  intro e; rw [e] at ht; revert ht; simp; omega

/-- Output of `flushZeroes` on a run of `z` and reversed output `r`. -/
def zOut (z : Nat) (r : Bytes) : Bytes :=
  match z with
  | 0 => r
  | 1 => 0 :: r
  | 2 => 0 :: 0 :: r
  | n => UInt8.ofNat n :: 0xFF :: r

/-- Output of `flushFF`. -/
def fOut (f : Nat) (r : Bytes) : Bytes :=
  match f with
  | 0 => r
  | 1 => 1 :: 0xFF :: r
  | _ => 2 :: 0xFF :: r

theorem flushZeroes_eq (e : NEnc) : e.flushZeroes = ⟨0, e.ffRun, zOut e.zeroRun e.rout⟩ := by
  obtain ⟨z, f, r⟩ := e
  unfold NEnc.flushZeroes zOut
  split <;> simp_all

theorem flushFF_eq (e : NEnc) : e.flushFF = ⟨e.zeroRun, 0, fOut e.ffRun e.rout⟩ := by
  obtain ⟨z, f, r⟩ := e
  unfold NEnc.flushFF fOut
  split <;> simp_all

theorem Dec_zOut {r q : Bytes} (h : Dec r q) (z : Nat) (hz : z < 256) :
    Dec (zOut z r) (q ++ List.replicate z 0) := by
  unfold zOut
  split
  · simpa using h
  · exact Dec_lit h 0 (by decide)
  · simpa using Dec_lit (Dec_lit h 0 (by decide)) 0 (by decide)
  · next h0 h1 h2 =>
    have h3 : 3 ≤ z := by have : z ≠ 0 := h0; have : z ≠ 1 := h1; have : z ≠ 2 := h2; omega
    have := Dec_esc h (UInt8.ofNat z) (ofNat_ne_zero _ h3 hz)
    rwa [expand_ofNat _ h3 hz] at this

theorem Dec_fOut {r q : Bytes} (h : Dec r q) (f : Nat) (hf : f ≤ 2) :
    Dec (fOut f r) (q ++ List.replicate f 0xFF) := by
  unfold fOut
  split
  · simpa using h
  · exact Dec_esc h 1 (by decide)
  · next h0 h1 =>
    have h2 : f = 2 := by have : f ≠ 0 := h0; have : f ≠ 1 := h1; omega
    subst h2
    exact Dec_esc h 2 (by decide)

/-- Encoder invariant after consuming `p`. -/
def Inv (e : NEnc) (p : Bytes) : Prop :=
  e.zeroRun < 255 ∧ e.ffRun < 2 ∧ (e.zeroRun = 0 ∨ e.ffRun = 0) ∧
    ∃ q, Dec e.rout q ∧ p = q ++ List.replicate e.zeroRun 0 ++ List.replicate e.ffRun 0xFF

theorem Inv_init : Inv {} [] := ⟨by decide, by decide, Or.inl rfl, [], Dec_nil, rfl⟩

theorem Inv_feed {e : NEnc} {p : Bytes} (h : Inv e p) (b : UInt8) : Inv (e.feed b) (p ++ [b]) := by
  obtain ⟨z, f, r⟩ := e
  obtain ⟨hz, hf, hzf, q, hq, hp⟩ := h
  simp only at hz hf hzf hq hp
  subst hp
  unfold NEnc.feed
  simp only [NEnc.flush, flushZeroes_eq, flushFF_eq]
  split
  · next hb =>
    subst hb
    have h1 := Dec_fOut hq f (by omega)
    split
    · next h255 =>
      have h2 := Dec_zOut h1 (z + 1) (by omega)
      refine ⟨by simp, by simp, Or.inl rfl, _, h2, ?_⟩
      rcases hzf with hzf | hzf <;> simp [hzf, List.replicate_succ']
    · next h255 =>
      refine ⟨by simp at h255 ⊢; omega, by simp, Or.inr rfl, _, h1, ?_⟩
      rcases hzf with hzf | hzf <;> simp [hzf, List.replicate_succ']
  · split
    · next hb0 hb =>
      subst hb
      have h1 := Dec_zOut hq z (by omega)
      split
      · next hf2 =>
        have h2 := Dec_fOut h1 (f + 1) (by omega)
        refine ⟨by simp, by simp, Or.inl rfl, _, h2, ?_⟩
        rcases hzf with hzf | hzf <;> simp [hzf, List.replicate_succ']
      · next hf2 =>
        refine ⟨by simp, by simp at hf2 ⊢; omega, Or.inl rfl, _, h1, ?_⟩
        rcases hzf with hzf | hzf <;> simp [hzf, List.replicate_succ']
    · next hb0 hbf =>
      have h1 := Dec_fOut (Dec_zOut hq z (by omega)) f (by omega)
      refine ⟨by simp, by simp, Or.inl rfl, _, Dec_lit h1 b hbf, ?_⟩
      simp

theorem Inv_foldl (x : Bytes) {e : NEnc} {p : Bytes} (h : Inv e p) : Inv (x.foldl NEnc.feed e) (p ++ x) := by
  induction x generalizing e p with
  | nil => simpa using h
  | cons b x ih =>
    have := ih (Inv_feed h b)
    simpa using this

theorem Inv_flush {e : NEnc} {p : Bytes} (h : Inv e p) : Dec e.flush.rout p := by
  obtain ⟨hz, hf, _, q, hq, hp⟩ := h
  subst hp
  simp only [NEnc.flush, flushZeroes_eq, flushFF_eq]
  exact Dec_fOut (Dec_zOut hq _ (by omega)) _ (by omega)

theorem feed_len {d d' : NDec} {b : UInt8} (hl : d.len = d.rout.length) (h : d.feed b = some d') :
    d'.len = d'.rout.length ∧ d.len ≤ d'.len := by
  unfold NDec.feed at h
  split at h
  · split at h
    · cases h
    · split at h
      · cases h; simp [hl]
      · split at h
        · cases h; simp [hl]
        · cases h; simp [hl]; omega
  · split at h
    · cases h; simp [hl]
    · cases h; simp [hl]

theorem decodeAll_len {d : NDec} {e y : Bytes} (hl : d.len = d.rout.length) (h : nadaDecodeAll d e = some y) :
    d.len ≤ y.length := by
  induction e generalizing d with
  | nil =>
    unfold nadaDecodeAll at h
    split at h
    · cases h
    · cases h; simp [hl]
  | cons b rest ih =>
    unfold nadaDecodeAll at h
    split at h
    · cases h
    · next d' hd' =>
      have ⟨h1, h2⟩ := feed_len hl hd'
      exact Nat.le_trans h2 (ih h1 h)

theorem limit_ok_aux (limit : Nat) {d : NDec} {e y : Bytes} (hl : d.len = d.rout.length)
    (h : nadaDecodeAll d e = some y) (hy : y.length < limit) : nadaDecodeFrom limit d e = some y := by
  induction e generalizing d with
  | nil => simpa [nadaDecodeAll, nadaDecodeFrom] using h
  | cons b rest ih =>
    unfold nadaDecodeAll at h
    unfold nadaDecodeFrom
    split at h
    · cases h
    · next d' hd' =>
      have ⟨h1, _⟩ := feed_len hl hd'
      have h3 := decodeAll_len h1 h
      rw [if_neg (by omega)]
      exact ih h1 h

theorem limit_bounded_aux (limit : Nat) {d : NDec} {e y : Bytes} (hl : d.len = d.rout.length)
    (hd : d.len < limit) (h : nadaDecodeFrom limit d e = some y) : y.length < limit := by
  induction e generalizing d with
  | nil =>
    unfold nadaDecodeFrom at h
    split at h
    · cases h
    · cases h; simpa [← hl] using hd
  | cons b rest ih =>
    unfold nadaDecodeFrom at h
    split at h
    · cases h
    · next d' hd' =>
      have ⟨h1, _⟩ := feed_len hl hd'
      split at h
      · cases h
      · exact ih h1 (by omega) h

end Nada

open Nada

/-- nada is lossless (no limit). -/
theorem nada_roundtrip (x : Bytes) : nadaDecode (nadaEncode x) = some x := by
  have h := Inv_flush (Inv_foldl x Inv_init)
  obtain ⟨d, hd, hw, hp⟩ := h
  unfold nadaDecode nadaEncode
  rw [nadaDecodeAll_eq, hd]
  simpa [hw] using hp

/-- With a limit: the same answer as without, whenever the output is shorter than the limit ... -/
theorem nada_limit_ok (limit : Nat) (e y : Bytes) (h : nadaDecode e = some y) (hl : y.length < limit) :
    nadaDecodeLimit limit e = some y :=
  limit_ok_aux limit rfl h hl

/-- ... and never an output of `limit` bytes or more, however small the input (decompression bombs). -/
theorem nada_limit_bounded (limit : Nat) (e y : Bytes) (h : nadaDecodeLimit limit e = some y) (he : e ≠ []) :
    y.length < limit := by
  cases e with
  | nil => exact absurd rfl he
  | cons b rest =>
    unfold nadaDecodeLimit nadaDecodeFrom at h
    split at h
    · cases h
    · next d' hd' =>
      have ⟨h1, _⟩ := feed_len (d := {}) rfl hd'
      split at h
      · cases h
      · exact limit_bounded_aux limit h1 (by omega) h

theorem nada_limit_empty (limit : Nat) : nadaDecodeLimit limit [] = some [] := by
  simp [nadaDecodeLimit, nadaDecodeFrom]

end Brc20.Payload
