/-
Helper lemmas for C07: sums over association-list balances, the per-token invariant `TokOk` and its
preservation by every token entry point, and the controller-level invariant `CtlOk`.
-/
import Brc20.Model.Ledger
import Brc20.Proofs.AMap
set_option linter.unusedSectionVars false

namespace Brc20.Ledger
open AMap

/-! ### arithmetic -/

theorem maxu_succ : MAXU + 1 = U256 := by unfold MAXU U256; omega

theorem mod_u256_of_le {x : Nat} (h : x ≤ MAXU) : x % U256 = x :=
  Nat.mod_eq_of_lt (by have := maxu_succ; omega)

theorem sub_mod_u256 {s v : Nat} (hv : v ≤ s) (hs : s ≤ MAXU) : (s + U256 - v) % U256 = s - v := by
  have e : s + U256 - v = (s - v) + U256 := by omega
  rw [e, Nat.add_mod_right]
  exact mod_u256_of_le (by omega)

/-! ### sums -/

def bsum (m : AMap Addr Nat) : Nat := (m.map (·.2)).sum

theorem sumBalances_eq (t : Token) : t.sumBalances = bsum t.balances := rfl

@[simp] theorem bsum_nil : bsum [] = 0 := rfl
@[simp] theorem bsum_cons (p : Addr × Nat) (m : AMap Addr Nat) : bsum (p :: m) = p.2 + bsum m := by
  simp [bsum]

theorem erase_cons {K V : Type} [DecidableEq K] (p : K × V) (m : AMap K V) (k : K) :
    erase (p :: m) k = if p.1 = k then erase m k else p :: erase m k := by
  unfold erase
  simp only [List.filter_cons]
  by_cases h : p.1 = k <;> simp [h]

theorem erase_of_get?_none {K V : Type} [DecidableEq K] (m : AMap K V) (k : K) (h : get? m k = none) :
    erase m k = m := by
  induction m with
  | nil => rfl
  | cons p rest ih =>
    rw [get?_cons] at h
    by_cases h1 : p.1 = k
    · simp [h1] at h
    · simp only [h1, if_false] at h
      rw [erase_cons]; simp [h1, ih h]

theorem getD_le_bsum (m : AMap Addr Nat) (a : Addr) : (get? m a).getD 0 ≤ bsum m := by
  induction m with
  | nil => simp
  | cons p rest ih =>
    rw [get?_cons, bsum_cons]
    by_cases h1 : p.1 = a
    · simp [h1]
    · simp only [h1, if_false]; omega

theorem bsum_erase (m : AMap Addr Nat) (nd : Nodup m) (a : Addr) :
    bsum (erase m a) + (get? m a).getD 0 = bsum m := by
  induction m with
  | nil => simp [erase]
  | cons p rest ih =>
    have nd' : Nodup rest := by
      simp only [Nodup, keys, List.map_cons, List.nodup_cons] at nd; exact nd.2
    rw [erase_cons, get?_cons, bsum_cons]
    by_cases h1 : p.1 = a
    · have hn : get? rest a = none := by
        rw [get?_eq_none_iff]
        simp only [Nodup, keys, List.map_cons, List.nodup_cons] at nd
        rw [← h1]; exact nd.1
      simp only [h1, if_true, Option.getD_some]
      rw [erase_of_get?_none rest a hn]; omega
    · simp only [h1, if_false, bsum_cons]
      have := ih nd'; omega

/-- the key lemma, stated additively -/
theorem bsum_insert (m : AMap Addr Nat) (nd : Nodup m) (a : Addr) (x : Nat) :
    bsum (AMap.insert m a x) + (get? m a).getD 0 = bsum m + x := by
  unfold AMap.insert
  rw [bsum_cons]
  have := bsum_erase m nd a
  simp only; omega

/-! ### `_update`, case by case -/

theorem update_transfer (t : Token) (f to v : Nat) (hf : f ≠ 0) (hto : to ≠ 0) :
    t.update f to v =
      if t.balanceOf f < v then none
      else
        let b1 := AMap.insert t.balances f (t.balanceOf f - v)
        some { t with balances := AMap.insert b1 to (((get? b1 to).getD 0 + v) % U256) } := by
  unfold Token.update
  simp only [hf, hto, if_false]
  simp only [Token.balanceOf]
  by_cases h : (get? t.balances f).getD 0 < v <;> simp [h]

theorem update_mint (t : Token) (to v : Nat) (hto : to ≠ 0) :
    t.update 0 to v =
      if t.totalSupply + v ≤ MAXU then
        some { t with totalSupply := t.totalSupply + v,
                      balances := AMap.insert t.balances to ((t.balanceOf to + v) % U256) }
      else none := by
  unfold Token.update
  simp only [hto, if_true, if_false]
  by_cases h : t.totalSupply + v ≤ MAXU <;> simp [h, Token.balanceOf]

theorem update_burn (t : Token) (f v : Nat) (hf : f ≠ 0) :
    t.update f 0 v =
      if t.balanceOf f < v then none
      else some { t with balances := AMap.insert t.balances f (t.balanceOf f - v),
                         totalSupply := (t.totalSupply + U256 - v) % U256 } := by
  unfold Token.update
  simp only [hf, if_true, if_false]
  simp only [Token.balanceOf]
  by_cases h : (get? t.balances f).getD 0 < v <;> simp [h]

/-! ### the per-token invariant -/

structure TokOk (own : Addr) (t : Token) : Prop where
  owner_eq : t.owner = own
  nd : Nodup t.balances
  sup : t.totalSupply = bsum t.balances
  le : t.totalSupply ≤ MAXU
  z : get? t.balances 0 = none

theorem tokOk_fresh (own : Addr) : TokOk own { owner := own } :=
  ⟨rfl, by simp [Nodup, keys], rfl, by simp, rfl⟩

variable {own : Addr} {t t' : Token}

theorem balanceOf_le (h : TokOk own t) (a : Addr) : t.balanceOf a ≤ t.totalSupply := by
  rw [h.sup]; exact getD_le_bsum _ _

theorem transfer_ok {f to v : Nat} (h : TokOk own t) (hu : t.transfer_ f to v = some t') :
    TokOk own t' ∧ t'.totalSupply = t.totalSupply ∧ t'.allowances = t.allowances := by
  unfold Token.transfer_ at hu
  by_cases hf : f = 0
  · simp [hf] at hu
  by_cases hto : to = 0
  · simp [hf, hto] at hu
  simp only [hf, hto, if_false] at hu
  rw [update_transfer t f to v hf hto] at hu
  by_cases hlt : t.balanceOf f < v
  · simp [hlt] at hu
  simp only [hlt, if_false, Option.some.injEq] at hu
  subst hu
  simp only [Token.balanceOf] at hlt ⊢
  have nd1 := nodup_insert h.nd f ((get? t.balances f).getD 0 - v)
  have s1 := bsum_insert t.balances h.nd f ((get? t.balances f).getD 0 - v)
  generalize hb1 : AMap.insert t.balances f ((get? t.balances f).getD 0 - v) = b1 at *
  have hle1 := getD_le_bsum b1 to
  have hsup := h.sup
  have hmax := h.le
  have hmod : ((get? b1 to).getD 0 + v) % U256 = (get? b1 to).getD 0 + v :=
    mod_u256_of_le (by omega)
  rw [hmod]
  have s2 := bsum_insert b1 nd1 to ((get? b1 to).getD 0 + v)
  refine ⟨⟨h.owner_eq, nodup_insert nd1 _ _, ?_, h.le, ?_⟩, trivial, trivial⟩
  · show t.totalSupply = bsum (AMap.insert b1 to _)
    omega
  · show get? (AMap.insert b1 to _) 0 = none
    have h0f : ¬ (0 = f) := fun e => hf e.symm
    have h0t : ¬ (0 = to) := fun e => hto e.symm
    rw [get?_insert, if_neg h0t, ← hb1, get?_insert, if_neg h0f]; exact h.z

/-- a successful `_mint`, fully characterised -/
theorem mint_some {a v : Nat} (h : TokOk own t) (hu : t.mint_ a v = some t') :
    a ≠ 0 ∧ t.totalSupply + v ≤ MAXU ∧
    t' = { t with totalSupply := t.totalSupply + v,
                  balances := AMap.insert t.balances a (t.balanceOf a + v) } := by
  unfold Token.mint_ at hu
  by_cases ha : a = 0
  · simp [ha] at hu
  simp only [ha, if_false] at hu
  rw [update_mint t a v ha] at hu
  by_cases hfit : t.totalSupply + v ≤ MAXU
  · simp only [hfit, if_true, Option.some.injEq] at hu
    have := balanceOf_le h a
    rw [mod_u256_of_le (by omega)] at hu
    exact ⟨ha, hfit, hu.symm⟩
  · simp [hfit] at hu

theorem mint_succeeds {a v : Nat} (h : TokOk own t) (ha : a ≠ 0) (hfit : t.totalSupply + v ≤ MAXU) :
    t.mint_ a v = some { t with totalSupply := t.totalSupply + v,
                                balances := AMap.insert t.balances a (t.balanceOf a + v) } := by
  unfold Token.mint_
  simp only [ha, if_false]
  rw [update_mint t a v ha]
  simp only [hfit, if_true]
  have := balanceOf_le h a
  rw [mod_u256_of_le (by omega)]

theorem mint_ok {a v : Nat} (h : TokOk own t) (hu : t.mint_ a v = some t') : TokOk own t' := by
  obtain ⟨ha, hfit, rfl⟩ := mint_some h hu
  have s1 := bsum_insert t.balances h.nd a (t.balanceOf a + v)
  have hsup := h.sup
  simp only [Token.balanceOf] at s1 ⊢
  refine ⟨h.owner_eq, nodup_insert h.nd _ _, ?_, hfit, ?_⟩
  · show t.totalSupply + v = bsum (AMap.insert t.balances a _)
    omega
  · show get? (AMap.insert t.balances a _) 0 = none
    have h0 : ¬ (0 = a) := fun e => ha e.symm
    rw [get?_insert, if_neg h0]; exact h.z

/-- a successful `_burn`, fully characterised -/
theorem burn_some {a v : Nat} (h : TokOk own t) (hu : t.burn_ a v = some t') :
    a ≠ 0 ∧ v ≤ t.balanceOf a ∧
    t' = { t with balances := AMap.insert t.balances a (t.balanceOf a - v),
                  totalSupply := t.totalSupply - v } := by
  unfold Token.burn_ at hu
  by_cases ha : a = 0
  · simp [ha] at hu
  simp only [ha, if_false] at hu
  rw [update_burn t a v ha] at hu
  by_cases hlt : t.balanceOf a < v
  · simp [hlt] at hu
  · simp only [hlt, if_false, Option.some.injEq] at hu
    have := balanceOf_le h a
    rw [sub_mod_u256 (by omega) h.le] at hu
    exact ⟨ha, by omega, hu.symm⟩

theorem burn_succeeds {a v : Nat} (h : TokOk own t) (ha : a ≠ 0) (hv : v ≤ t.balanceOf a) :
    t.burn_ a v = some { t with balances := AMap.insert t.balances a (t.balanceOf a - v),
                                totalSupply := t.totalSupply - v } := by
  unfold Token.burn_
  simp only [ha, if_false]
  rw [update_burn t a v ha]
  have hlt : ¬ t.balanceOf a < v := by omega
  simp only [hlt, if_false]
  have := balanceOf_le h a
  rw [sub_mod_u256 (by omega) h.le]

theorem burn_fails {a v : Nat} (hv : t.balanceOf a < v) : t.burn_ a v = none := by
  unfold Token.burn_
  by_cases ha : a = 0
  · simp [ha]
  simp only [ha, if_false]
  rw [update_burn t a v ha]
  simp [hv]

theorem burn_ok {a v : Nat} (h : TokOk own t) (hu : t.burn_ a v = some t') : TokOk own t' := by
  obtain ⟨ha, hv, rfl⟩ := burn_some h hu
  have s1 := bsum_insert t.balances h.nd a (t.balanceOf a - v)
  have hsup := h.sup
  have hle := h.le
  have := balanceOf_le h a
  simp only [Token.balanceOf] at s1 hv this ⊢
  refine ⟨h.owner_eq, nodup_insert h.nd _ _, ?_, ?_, ?_⟩
  · show t.totalSupply - v = bsum (AMap.insert t.balances a _)
    omega
  · show t.totalSupply - v ≤ MAXU
    omega
  · show get? (AMap.insert t.balances a _) 0 = none
    have h0 : ¬ (0 = a) := fun e => ha e.symm
    rw [get?_insert, if_neg h0]; exact h.z

/-! ### allowances never touch balances or the supply -/

theorem approve_some {o sp v : Nat} (hu : t.approve_ o sp v = some t') :
    t' = { t with allowances := AMap.insert t.allowances (o, sp) v } := by
  unfold Token.approve_ at hu
  by_cases ho : o = 0
  · simp [ho] at hu
  by_cases hsp : sp = 0
  · simp [ho, hsp] at hu
  simp only [ho, hsp, if_false, Option.some.injEq] at hu
  exact hu.symm

theorem tokOk_of_eq (h : TokOk own t) (ho : t'.owner = t.owner) (hb : t'.balances = t.balances)
    (hs : t'.totalSupply = t.totalSupply) : TokOk own t' :=
  ⟨ho ▸ h.owner_eq, hb ▸ h.nd, by rw [hs, hb]; exact h.sup, hs ▸ h.le, hb ▸ h.z⟩

theorem approve_same {o sp v : Nat} (hu : t.approve_ o sp v = some t') :
    t'.owner = t.owner ∧ t'.balances = t.balances ∧ t'.totalSupply = t.totalSupply := by
  rw [approve_some hu]; exact ⟨rfl, rfl, rfl⟩

theorem spend_same {o sp v : Nat} (hu : t.spendAllowance o sp v = some t') :
    t'.owner = t.owner ∧ t'.balances = t.balances ∧ t'.totalSupply = t.totalSupply := by
  unfold Token.spendAllowance at hu
  simp only at hu
  split at hu
  · split at hu
    · cases hu
    · exact approve_same hu
  · cases hu; exact ⟨rfl, rfl, rfl⟩

theorem approve_ok {o sp v : Nat} (h : TokOk own t) (hu : t.approve_ o sp v = some t') : TokOk own t' := by
  obtain ⟨a, b, c⟩ := approve_same hu; exact tokOk_of_eq h a b c

theorem spend_ok {o sp v : Nat} (h : TokOk own t) (hu : t.spendAllowance o sp v = some t') : TokOk own t' := by
  obtain ⟨a, b, c⟩ := spend_same hu; exact tokOk_of_eq h a b c

theorem spend_transfer_ok {o sp f to v : Nat} (h : TokOk own t)
    (hu : (t.spendAllowance o sp v).bind (fun t1 => t1.transfer_ f to v) = some t') :
    TokOk own t' ∧ t'.totalSupply = t.totalSupply := by
  cases hs : t.spendAllowance o sp v with
  | none => simp [hs] at hu
  | some t1 =>
    simp only [hs, Option.bind_some] at hu
    obtain ⟨h1, h2, _⟩ := transfer_ok (spend_ok h hs) hu
    exact ⟨h1, by rw [h2]; exact (spend_same hs).2.2⟩

/-! ### every entry point -/

theorem exec_ok {s : Addr} {call : Token.Call} (h : TokOk own t) (hu : t.exec s call = some t') : TokOk own t' := by
  cases call with
  | transfer to v => exact (transfer_ok h hu).1
  | approve sp v => exact approve_ok h hu
  | transferFrom f to v => exact (spend_transfer_ok h hu).1
  | approveAs o sp v =>
    simp only [Token.exec] at hu
    split at hu
    · exact approve_ok h hu
    · cases hu
  | transferFromAs sp f to v =>
    simp only [Token.exec] at hu
    split at hu
    · exact (spend_transfer_ok h hu).1
    · cases hu
  | mint a v =>
    simp only [Token.exec] at hu
    split at hu
    · exact mint_ok h hu
    · cases hu
  | burn a v =>
    simp only [Token.exec] at hu
    split at hu
    · exact burn_ok h hu
    · cases hu

/-- the `onlyOwner` entry points -/
def Token.Call.isMintBurn : Token.Call → Bool
  | .mint _ _ => true
  | .burn _ _ => true
  | _ => false

/-- a call that is not a successful owner mint / burn leaves the supply alone -/
theorem exec_supply {s : Addr} {call : Token.Call} (h : TokOk own t)
    (hs : s ≠ own ∨ call.isMintBurn = false) (hu : t.exec s call = some t') :
    t'.totalSupply = t.totalSupply := by
  cases call with
  | transfer to v => exact (transfer_ok h hu).2.1
  | approve sp v => exact (approve_same hu).2.2
  | transferFrom f to v => exact (spend_transfer_ok h hu).2
  | approveAs o sp v =>
    simp only [Token.exec] at hu
    split at hu
    · exact (approve_same hu).2.2
    · cases hu
  | transferFromAs sp f to v =>
    simp only [Token.exec] at hu
    split at hu
    · exact (spend_transfer_ok h hu).2
    · cases hu
  | mint a v =>
    simp only [Token.exec, h.owner_eq] at hu
    rcases hs with hs | hs
    · simp [hs] at hu
    · simp [Token.Call.isMintBurn] at hs
  | burn a v =>
    simp only [Token.exec, h.owner_eq] at hu
    rcases hs with hs | hs
    · simp [hs] at hu
    · simp [Token.Call.isMintBurn] at hs

/-! ### the controller -/

structure CtlOk (c : Ctl) : Prop where
  self_ne : c.self ≠ 0
  nd : Nodup c.tokens
  tok : ∀ tk t, get? c.tokens tk = some t → TokOk c.self t

/-- `c'` is `c` with the token of `tk` replaced by `t'` (extensionally) -/
structure Upd (c c' : Ctl) (tk : List UInt8) (t' : Token) : Prop where
  self_eq : c'.self = c.self
  owner_eq : c'.owner = c.owner
  nd : Nodup c.tokens → Nodup c'.tokens
  get : ∀ tk', get? c'.tokens tk' = if tk' = tk then some t' else get? c.tokens tk'

theorem upd_insert (c : Ctl) (tk : List UInt8) (t' : Token) :
    Upd c { c with tokens := AMap.insert c.tokens tk t' } tk t' :=
  ⟨rfl, rfl, fun nd => nodup_insert nd _ _, fun _ => get?_insert _ _ _ _⟩

theorem upd_insert_insert (c : Ctl) (tk : List UInt8) (t0 t' : Token) :
    Upd c { c with tokens := AMap.insert (AMap.insert c.tokens tk t0) tk t' } tk t' := by
  refine ⟨rfl, rfl, fun nd => nodup_insert (nodup_insert nd _ _) _ _, fun tk' => ?_⟩
  show get? (AMap.insert (AMap.insert c.tokens tk t0) tk t') tk' = _
  rw [get?_insert, get?_insert]
  by_cases h : tk' = tk <;> simp [h]

theorem ctlOk_upd {c c' : Ctl} {tk : List UInt8} {t' : Token} (h : CtlOk c) (u : Upd c c' tk t')
    (ht' : TokOk c.self t') : CtlOk c' := by
  refine ⟨u.self_eq ▸ h.self_ne, u.nd h.nd, fun tk' t ht => ?_⟩
  rw [u.get] at ht
  rw [u.self_eq]
  by_cases e : tk' = tk
  · simp only [e, if_true, Option.some.injEq] at ht; exact ht ▸ ht'
  · simp only [e, if_false] at ht; exact h.tok tk' t ht

theorem onToken_some {c c' : Ctl} {tk : List UInt8} {call : Token.Call} (hu : c.onToken tk call = some c') :
    ∃ t t', get? c.tokens tk = some t ∧ t.exec c.self call = some t' ∧
      c' = { c with tokens := AMap.insert c.tokens tk t' } := by
  unfold Ctl.onToken at hu
  split at hu
  · cases hu
  · rename_i t ht
    cases he : t.exec c.self call with
    | none => simp [he] at hu
    | some t' =>
      simp only [he, Option.map_some, Option.some.injEq] at hu
      exact ⟨t, t', ht, he, hu.symm⟩

/-- a message that is neither an indexer call to the controller nor a direct call by the controller -/
def UserMsg (c : Ctl) : Msg → Prop
  | .ctl s _ => s ≠ c.owner
  | .token s _ _ => s ≠ c.self

/-- Every message either leaves the ledger unchanged or runs one successful call `call` from `s` on one token `t`
(the existing one, or a freshly created empty one) and stores the result. -/
theorem step_cases (c : Ctl) (m : Msg) :
    step c m = c ∨
    ∃ tk t t' s call,
      (get? c.tokens tk = some t ∨ (get? c.tokens tk = none ∧ t = { owner := c.self })) ∧
      t.exec s call = some t' ∧ Upd c (step c m) tk t' ∧
      (UserMsg c m → s ≠ c.self ∨ call.isMintBurn = false) := by
  cases m with
  | token s tk call =>
    simp only [step]
    cases hg : get? c.tokens tk with
    | none => left; rfl
    | some t =>
      cases he : t.exec s call with
      | none => left; simp only [he]
      | some t' =>
        right
        simp only [he]
        exact ⟨tk, t, t', s, call, Or.inl hg, he, upd_insert c tk t', fun hs => Or.inl hs⟩
  | ctl s call =>
    simp only [step]
    cases he : c.exec s call with
    | none => left; rfl
    | some c' =>
      right
      simp only [Option.getD_some]
      cases call with
      | transfer tk to v =>
        obtain ⟨t, t', ht, hx, rfl⟩ := onToken_some he
        exact ⟨tk, t, t', c.self, _, Or.inl ht, hx, upd_insert c tk t', fun _ => Or.inr rfl⟩
      | approve tk sp v =>
        obtain ⟨t, t', ht, hx, rfl⟩ := onToken_some he
        exact ⟨tk, t, t', c.self, _, Or.inl ht, hx, upd_insert c tk t', fun _ => Or.inr rfl⟩
      | transferFrom tk f to v =>
        obtain ⟨t, t', ht, hx, rfl⟩ := onToken_some he
        exact ⟨tk, t, t', c.self, _, Or.inl ht, hx, upd_insert c tk t', fun _ => Or.inr rfl⟩
      | burn tk f v =>
        simp only [Ctl.exec] at he
        split at he
        · cases he
        · rename_i hso
          obtain ⟨t, t', ht, hx, rfl⟩ := onToken_some he
          exact ⟨tk, t, t', c.self, _, Or.inl ht, hx, upd_insert c tk t', fun hu => absurd hu hso⟩
      | mint tk to v =>
        simp only [Ctl.exec] at he
        split at he
        · cases he
        · rename_i hso
          cases hg : get? c.tokens tk with
          | some t0 =>
            simp only [hg] at he
            obtain ⟨t, t', ht, hx, rfl⟩ := onToken_some he
            exact ⟨tk, t, t', c.self, _, Or.inl ht, hx, upd_insert c tk t', fun hu => absurd hu hso⟩
          | none =>
            simp only [hg] at he
            obtain ⟨t, t', ht, hx, rfl⟩ := onToken_some he
            have ht0 : t = { owner := c.self } := by
              have : get? (AMap.insert c.tokens tk ({ owner := c.self } : Token)) tk = some t := ht
              rw [get?_insert] at this
              simpa using this.symm
            exact ⟨tk, t, t', c.self, _, Or.inr ⟨hg, ht0⟩, hx, upd_insert_insert c tk _ t',
              fun hu => absurd hu hso⟩

theorem step_self (c : Ctl) (m : Msg) : (step c m).self = c.self := by
  rcases step_cases c m with h | ⟨_, _, _, _, _, _, _, u, _⟩
  · rw [h]
  · exact u.self_eq

theorem step_owner (c : Ctl) (m : Msg) : (step c m).owner = c.owner := by
  rcases step_cases c m with h | ⟨_, _, _, _, _, _, _, u, _⟩
  · rw [h]
  · exact u.owner_eq

theorem ctlOk_init (self owner : Addr) (h : self ≠ 0) : CtlOk { self := self, owner := owner } :=
  ⟨h, by simp [Nodup, keys], fun tk t ht => by simp at ht⟩

theorem ctlOk_step {c : Ctl} (m : Msg) (h : CtlOk c) : CtlOk (step c m) := by
  rcases step_cases c m with e | ⟨tk, t, t', s, call, ht, hx, u, _⟩
  · rw [e]; exact h
  · have hok : TokOk c.self t := by
      rcases ht with ht | ⟨_, rfl⟩
      · exact h.tok tk t ht
      · exact tokOk_fresh c.self
    exact ctlOk_upd h u (exec_ok hok hx)

theorem ctlOk_run {c : Ctl} (ms : List Msg) (h : CtlOk c) : CtlOk (run c ms) := by
  induction ms generalizing c with
  | nil => exact h
  | cons m ms ih => exact ih (ctlOk_step m h)

theorem step_supply {c : Ctl} (h : CtlOk c) (m : Msg) (hs : UserMsg c m) (tk : List UInt8) :
    (step c m).totalSupply tk = c.totalSupply tk := by
  rcases step_cases c m with e | ⟨tk0, t, t', s, call, ht, hx, u, hu⟩
  · rw [e]
  · have hok : TokOk c.self t := by
      rcases ht with ht | ⟨_, rfl⟩
      · exact h.tok tk0 t ht
      · exact tokOk_fresh c.self
    have hsup := exec_supply hok (hu hs) hx
    unfold Ctl.totalSupply
    rw [u.get]
    by_cases e : tk = tk0
    · subst e
      simp only [if_true]
      rcases ht with ht | ⟨ht, rfl⟩
      · rw [ht]; exact hsup
      · rw [ht]; exact hsup
    · simp only [e, if_false]

/-- the token after a successful `_mint` -/
def mintRes (t0 : Token) (to v : Nat) : Token :=
  { t0 with totalSupply := t0.totalSupply + v, balances := AMap.insert t0.balances to (t0.balanceOf to + v) }

/-- the token after a successful `_burn` -/
def burnRes (t0 : Token) (f v : Nat) : Token :=
  { t0 with balances := AMap.insert t0.balances f (t0.balanceOf f - v), totalSupply := t0.totalSupply - v }

/-- the indexer's `mint`, computed -/
theorem mint_step {c : Ctl} (h : CtlOk c) (tk : List UInt8) (to v : Nat) (hto : to ≠ 0)
    (hfit : c.totalSupply tk + v ≤ MAXU) :
    ∃ t0 : Token, (∀ a, t0.balanceOf a = c.balanceOf tk a) ∧
      Upd c (step c (.ctl c.owner (.mint tk to v))) tk (mintRes t0 to v) := by
  cases hg : get? c.tokens tk with
  | some t0 =>
    have hok := h.tok tk t0 hg
    have hfit' : t0.totalSupply + v ≤ MAXU := by simpa [Ctl.totalSupply, hg] using hfit
    refine ⟨t0, fun a => by simp [Ctl.balanceOf, hg], ?_⟩
    have e : step c (.ctl c.owner (.mint tk to v)) =
        { c with tokens := AMap.insert c.tokens tk (mintRes t0 to v) } := by
      simp [step, Ctl.exec, hg, Ctl.onToken, Token.exec, hok.owner_eq, mint_succeeds hok hto hfit', mintRes]
    rw [e]; exact upd_insert _ _ _
  | none =>
    have hok := tokOk_fresh c.self
    have hfit' : ({ owner := c.self } : Token).totalSupply + v ≤ MAXU := by
      simpa [Ctl.totalSupply, hg] using hfit
    refine ⟨{ owner := c.self }, fun a => by simp [Ctl.balanceOf, hg, Token.balanceOf], ?_⟩
    have e : step c (.ctl c.owner (.mint tk to v)) =
        { c with tokens := (AMap.insert (AMap.insert c.tokens tk { owner := c.self }) tk
            (mintRes { owner := c.self } to v)) } := by
      simp [step, Ctl.exec, hg, Ctl.onToken, Token.exec, get?_insert, mint_succeeds hok hto hfit', mintRes]
    rw [e]; exact upd_insert_insert _ _ _ _

/-- the indexer's `burn`, computed -/
theorem burn_step_ok {c : Ctl} (h : CtlOk c) (tk : List UInt8) (f v : Nat) (hf : f ≠ 0) (t0 : Token)
    (hg : get? c.tokens tk = some t0) (hv : v ≤ t0.balanceOf f) :
    Upd c (step c (.ctl c.owner (.burn tk f v))) tk (burnRes t0 f v) := by
  have hok := h.tok tk t0 hg
  have e : step c (.ctl c.owner (.burn tk f v)) =
      { c with tokens := AMap.insert c.tokens tk (burnRes t0 f v) } := by
    simp [step, Ctl.exec, hg, Ctl.onToken, Token.exec, hok.owner_eq, burn_succeeds hok hf hv, burnRes]
  rw [e]; exact upd_insert _ _ _

theorem burn_step_fail (c : Ctl) (tk : List UInt8) (f v : Nat) (hv : c.balanceOf tk f < v) :
    step c (.ctl c.owner (.burn tk f v)) = c := by
  cases hg : get? c.tokens tk with
  | none => simp [step, Ctl.exec, Ctl.onToken, hg]
  | some t0 =>
    have hv' : t0.balanceOf f < v := by simpa [Ctl.balanceOf, hg] using hv
    simp [step, Ctl.exec, Ctl.onToken, hg, Token.exec, burn_fails hv']

end Brc20.Ledger
