/-
Losslessness, self-delimitation and order preservation of the storage codec model.
-/
import Brc20.Model.Codec
set_option linter.unusedSectionVars false

namespace Brc20
open Ty

theorem length_beBytes (w n : Nat) : (beBytes w n).length = w := by
  induction w generalizing n with
  | zero => simp [beBytes]
  | succ w ih => simp [beBytes, ih]

theorem top_digit_lt {w n : Nat} (h : n < 256 ^ (w + 1)) : n / 256 ^ w < 256 := by
  rw [Nat.div_lt_iff_lt_mul (Nat.pow_pos (by decide))]
  rw [Nat.pow_succ, Nat.mul_comm] at h
  exact h

theorem toNat_ofNat_lt {d : Nat} (h : d < 256) : (UInt8.ofNat d).toNat = d := by
  simp [UInt8.toNat_ofNat']
  omega

theorem beVal_beBytes (w n : Nat) (h : n < 256 ^ w) : beVal (beBytes w n) = n := by
  induction w generalizing n with
  | zero => simp at h; simp [beBytes, beVal, h]
  | succ w ih =>
    have hd := top_digit_lt h
    have hP : 0 < 256 ^ w := Nat.pow_pos (by decide)
    simp only [beBytes, beVal, length_beBytes]
    rw [ih _ (Nat.mod_lt _ hP), Nat.mod_eq_of_lt hd, toNat_ofNat_lt hd, Nat.mul_comm]
    exact Nat.div_add_mod' n (256 ^ w) |> fun e => by rw [Nat.mul_comm]; exact e

theorem takeN_append (l rest : Bytes) : takeN l.length (l ++ rest) = some (l, rest) := by
  simp [takeN]

theorem takeN_of_length {k : Nat} (l rest : Bytes) (h : l.length = k) :
    takeN k (l ++ rest) = some (l, rest) := by
  subst h; exact takeN_append l rest

theorem takeN_beBytes (w n : Nat) (rest : Bytes) :
    takeN w (beBytes w n ++ rest) = some (beBytes w n, rest) :=
  takeN_of_length _ _ (length_beBytes w n)

theorem decodeMany_flatten {α : Type} (dec : Bytes → Option (α × Bytes)) (enc : α → Bytes)
    (xs : List α) (rest : Bytes)
    (h : ∀ x ∈ xs, ∀ r, dec (enc x ++ r) = some (x, r)) :
    decodeMany dec xs.length ((xs.map enc).flatten ++ rest) = some (xs, rest) := by
  induction xs with
  | nil => simp [decodeMany]
  | cons x xs ih =>
    have hx := h x (by simp)
    have ih' := ih (fun y hy => h y (by simp [hy]))
    simp only [List.length_cons, List.map_cons, List.flatten_cons, List.append_assoc, decodeMany,
      hx, ih']

theorem pow_256_4 : (256 : Nat) ^ 4 = 2 ^ 32 := by decide
theorem pow_256_8 : (256 : Nat) ^ 8 = 2 ^ 64 := by decide

/-- Lossless and self-delimiting: decoding an encoded well-formed value followed by arbitrary bytes returns the
value and exactly those bytes. -/
theorem Ty.roundtrip (t : Ty) (x : t.denote) (rest : Bytes) (wf : WF t x) :
    decode t (encode t x ++ rest) = some (x, rest) := by
  induction t generalizing rest with
  | u8 =>
    simp only [WF] at wf
    simp only [encode, decode, takeN_beBytes, Option.map_some]
    rw [beVal_beBytes 1 x (by simpa using wf)]
  | u32 =>
    simp only [WF] at wf
    simp only [encode, decode, takeN_beBytes, Option.map_some]
    rw [beVal_beBytes 4 x (by rw [pow_256_4]; exact wf)]
  | u64 =>
    simp only [WF] at wf
    simp only [encode, decode, takeN_beBytes, Option.map_some]
    rw [beVal_beBytes 8 x (by rw [pow_256_8]; exact wf)]
  | uint l =>
    simp only [WF] at wf
    simp only [encode, decode, takeN_beBytes, Option.map_some]
    rw [beVal_beBytes _ x wf]
  | fixed n =>
    simp only [WF] at wf
    simp only [encode, decode]
    exact takeN_of_length _ _ wf
  | bytes =>
    simp only [WF] at wf
    simp only [encode, decode, List.append_assoc, takeN_beBytes]
    rw [beVal_beBytes 4 _ (by rw [pow_256_4]; exact wf)]
    exact takeN_append _ _
  | opt t ih =>
    cases x with
    | none => simp [encode, decode]
    | some x =>
      simp only [WF] at wf
      simp [encode, decode, ih x rest wf]
  | vec t ih =>
    simp only [WF] at wf
    simp only [encode, decode, List.append_assoc, takeN_beBytes]
    rw [beVal_beBytes 4 _ (by rw [pow_256_4]; exact wf.1)]
    exact decodeMany_flatten _ _ _ _ (fun y hy r => ih y r (wf.2 y hy))
  | pair a b iha ihb =>
    obtain ⟨x, y⟩ := x
    simp only [WF] at wf
    simp only [encode, decode, List.append_assoc, iha x _ wf.1, ihb y _ wf.2]
  | unit => simp [encode, decode]

/-- Consequently encodings are injective on well-formed values. -/
theorem Ty.encode_injective (t : Ty) (x y : t.denote) (wx : WF t x) (wy : WF t y)
    (h : encode t x = encode t y) : x = y := by
  have hx := Ty.roundtrip t x [] wx
  have hy := Ty.roundtrip t y [] wy
  rw [h, hy] at hx
  simpa using hx.symm

theorem bytesLt_cons (a b : UInt8) (as bs : Bytes) :
    bytesLt (a :: as) (b :: bs) = if a < b then true else if b < a then false else bytesLt as bs := by
  simp [bytesLt]

theorem lt_iff_div_mod (a b P : Nat) :
    a < b ↔ a / P < b / P ∨ (a / P = b / P ∧ a % P < b % P) := by
  have ea := Nat.div_add_mod a P
  have eb := Nat.div_add_mod b P
  constructor
  · intro h
    have hle : a / P ≤ b / P := Nat.div_le_div_right (Nat.le_of_lt h)
    rcases Nat.lt_or_eq_of_le hle with h1 | h1
    · exact Or.inl h1
    · refine Or.inr ⟨h1, ?_⟩
      rw [h1] at ea
      generalize P * (b / P) = k at ea eb
      omega
  · rintro (h | ⟨h1, h2⟩)
    · exact Nat.lt_of_div_lt_div h
    · rw [h1] at ea
      generalize P * (b / P) = k at ea eb
      omega

/-- Fixed-width big-endian encodings compare (byte-lexicographically) exactly as the numbers do. -/
theorem be_order (w a b : Nat) (ha : a < 256 ^ w) (hb : b < 256 ^ w) :
    bytesLt (beBytes w a) (beBytes w b) = decide (a < b) := by
  induction w generalizing a b with
  | zero =>
    simp at ha hb
    subst ha hb
    simp [beBytes, bytesLt]
  | succ w ih =>
    have hda := top_digit_lt ha
    have hdb := top_digit_lt hb
    have hP : 0 < 256 ^ w := Nat.pow_pos (by decide)
    have ih' := ih (a % 256 ^ w) (b % 256 ^ w) (Nat.mod_lt _ hP) (Nat.mod_lt _ hP)
    have key := lt_iff_div_mod a b (256 ^ w)
    simp only [beBytes, bytesLt_cons, Nat.mod_eq_of_lt hda, Nat.mod_eq_of_lt hdb, ih',
      UInt8.lt_iff_toNat_lt, toNat_ofNat_lt hda, toNat_ofNat_lt hdb]
    by_cases h1 : a / 256 ^ w < b / 256 ^ w
    · simp [h1, key]
    · by_cases h2 : b / 256 ^ w < a / 256 ^ w
      · have : ¬ a / 256 ^ w = b / 256 ^ w := by omega
        simp [h1, h2, key, this]
      · have : a / 256 ^ w = b / 256 ^ w := by omega
        simp [key, this]

/-- Composite keys: with first components of equal length, the concatenation compares lexicographically
on (first, second). -/
theorem bytesLt_append (x₁ x₂ y₁ y₂ : Bytes) (hl : x₁.length = x₂.length) :
    bytesLt (x₁ ++ y₁) (x₂ ++ y₂) = (bytesLt x₁ x₂ || (decide (x₁ = x₂) && bytesLt y₁ y₂)) := by
  induction x₁ generalizing x₂ with
  | nil =>
    cases x₂ with
    | nil => simp [bytesLt]
    | cons b bs => simp at hl
  | cons a as ih =>
    cases x₂ with
    | nil => simp at hl
    | cons b bs =>
      have ih' := ih bs (by simpa using hl)
      simp only [List.cons_append, bytesLt_cons, ih']
      by_cases h1 : a < b
      · simp [h1]
      · by_cases h2 : b < a
        · have : a ≠ b := by rintro rfl; exact h1 h2
          simp [h1, h2, this]
        · have : a = b := by
            rw [UInt8.lt_iff_toNat_lt] at h1 h2
            exact UInt8.toNat_inj.mp (by omega)
          subst this
          simp [h1]

/-- `bytesLt` is a strict total order. -/
theorem bytesLt_irrefl (a : Bytes) : bytesLt a a = false := by
  induction a with
  | nil => simp [bytesLt]
  | cons x xs ih => simp [bytesLt_cons, ih, UInt8.lt_irrefl]

theorem bytesLt_trans (a b c : Bytes) (h1 : bytesLt a b = true) (h2 : bytesLt b c = true) : bytesLt a c = true := by
  induction a generalizing b c with
  | nil =>
    cases b with
    | nil => simp [bytesLt] at h1
    | cons y ys =>
      cases c with
      | nil => simp [bytesLt] at h2
      | cons z zs => simp [bytesLt]
  | cons x xs ih =>
    cases b with
    | nil => simp [bytesLt] at h1
    | cons y ys =>
      cases c with
      | nil => simp [bytesLt] at h2
      | cons z zs =>
        rw [bytesLt_cons] at h1 h2 ⊢
        simp only [UInt8.lt_iff_toNat_lt] at h1 h2 ⊢
        by_cases hxy : x.toNat < y.toNat
        · by_cases hyz : y.toNat < z.toNat
          · have : x.toNat < z.toNat := by omega
            simp [this]
          · by_cases hzy : z.toNat < y.toNat
            · simp [hyz, hzy] at h2
            · have : x.toNat < z.toNat := by omega
              simp [this]
        · by_cases hyx : y.toNat < x.toNat
          · simp [hxy, hyx] at h1
          · simp only [hxy, hyx, if_false] at h1
            by_cases hyz : y.toNat < z.toNat
            · have : x.toNat < z.toNat := by omega
              simp [this]
            · by_cases hzy : z.toNat < y.toNat
              · simp [hyz, hzy] at h2
              · simp only [hyz, hzy, if_false] at h2
                have e1 : ¬ x.toNat < z.toNat := by omega
                have e2 : ¬ z.toNat < x.toNat := by omega
                simp only [e1, e2, if_false]
                exact ih ys zs h1 h2

theorem bytesLt_total (a b : Bytes) : bytesLt a b = true ∨ a = b ∨ bytesLt b a = true := by
  induction a generalizing b with
  | nil =>
    cases b with
    | nil => simp
    | cons y ys => simp [bytesLt]
  | cons x xs ih =>
    cases b with
    | nil => simp [bytesLt]
    | cons y ys =>
      rw [bytesLt_cons, bytesLt_cons]
      by_cases hxy : x < y
      · simp [hxy]
      · by_cases hyx : y < x
        · simp [hxy, hyx]
        · have : x = y := by
            rw [UInt8.lt_iff_toNat_lt] at hxy hyx
            exact UInt8.toNat_inj.mp (by omega)
          subst this
          simp only [hxy, if_false, List.cons.injEq, true_and]
          exact ih ys

end Brc20
