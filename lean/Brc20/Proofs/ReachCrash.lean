/-
The engine-level crash theorems (Proofs/NodeCrash.lean) for EVERY REACHABLE STATE: their hypotheses are derived from
`ReachG n G` (Proofs/NodeRun.lean), a block boundary and conditions on the target that the caller can check.

  * `Node.DInv n G`   - "everything since the last commit point lies at or above the durable height":
                        the durable height `durNext` (the height a restart would continue at, read off the persisted
                        hash rows) is at most the height being built; every cached block-table row is filed under a
                        number `≥ durNext`; for every versioned table and key, the current log and the log as of the
                        last commit (`TSpec.dur`, which is also `(G.d i).cur`: `CoreAt.dur_coh`) say the same at every
                        block below `durNext`.
  * `ReachG.dinv`     - every reachable node satisfies it.  The reason: every recorded write carries the height being
                        built (`applyS` refuses any other stamp), that height never drops below `durNext` between commit
                        points, and a commit point (`commit`, accepted `reorg`) makes the current log the durable one
                        and empties the caches; `clear` / reopen return to the durable log.
  * `ReachG.crash_hyps` - from it, for a target `n0 < durNext`: the durability hypothesis `hdur`, `habove`, `hlat`,
                        `hrow` of `crashCommitAt_reorg_ok`.
  * `ReachG.crash_in_commit_recoverable`, `ReachG.crash_in_reorg_recoverable`,
    `ReachG.crash_in_reorg_commit_recoverable` - the capstone statements.
  * `crashCommitAt_zero` - a crash with no write in flight is a reopen.
  * `ReachCrashExample` - a concrete reachable node to which all of it applies.
-/
import Brc20.Proofs.NodeCrash
import Brc20.Proofs.ReachProps
set_option linter.unusedSectionVars false

namespace Brc20
open Node

namespace BlockDb
variable {V : Type}

theorem get_ne_none_of_clear {t : BlockDb V} {k : Nat} (h : t.clear.get k ≠ none) : t.get k ≠ none := by
  rw [get_clear] at h
  unfold get
  cases hc : t.cache.get? k with
  | some v => simp
  | none => exact h

/-- the persisted rows are among the readable ones: a restart continues at or below the height read with the cache -/
theorem nextOf_clear_le (t : BlockDb V) : nextOf t.clear.lastKey ≤ nextOf t.lastKey :=
  nextOf_lastKey_mono (fun _ h => get_ne_none_of_clear h)

theorem mem_cache_set {t : BlockDb V} {n : Nat} {v : V} {p : Nat × V} (h : p ∈ (t.set n v).cache) :
    p.1 = n ∨ p ∈ t.cache := by
  simp only [set, AMap.insert, List.mem_cons] at h
  rcases h with rfl | h
  · exact Or.inl rfl
  · unfold AMap.erase at h
    exact Or.inr (List.mem_filter.mp h).1

end BlockDb

namespace Node
open BlockDb (Contig nextOf)

theorem durNext_le_of_latest_none {n : Node} (hl : n.latest = none) : n.durNext ≤ n.nextHeight := by
  rw [nextHeight_eq, hl]
  exact BlockDb.nextOf_clear_le _

/-! ## the invariant, relative to a fixed durable height `D` while an operation is in progress -/

/-- Every cached block row is filed at or above `D`; below `D` the current log of every key says what the log as
of the last commit says. -/
structure DAt (n : Node) (G : Ghost) (D : Nat) : Prop where
  cache_above : ∀ i p, p ∈ (n.b i).cache → D ≤ p.1
  dur_same : ∀ i k m, m < D → ((G.s i).cur k).valAt m = ((G.s i).dur k).valAt m

/-- only the block tables and the logs matter -/
theorem DAt.congr {n n' : Node} {G : Ghost} {D : Nat} (h : DAt n G D) (hb : n'.b = n.b) : DAt n' G D :=
  ⟨by rw [hb]; exact h.cache_above, h.dur_same⟩

/-- one recorded write stamped `e ≥ D` -/
theorem DAt.applyS {n n' : Node} {G : Ghost} {e D : Nat} (c : CoreAt n G e) (h : DAt n G D) (hD : D ≤ e)
    {tb : String} {st : Nat} {k : String} {v : Option String} (ha : n.applyS e tb st k v = some n') :
    DAt n' (G.applyS tb st k v) D := by
  unfold Node.applyS at ha
  split at ha
  · cases ha
  · rename_i hst
    have hst : st = e := Decidable.not_not.mp hst
    subst hst
    cases hT : TId.ofName tb with
    | some i =>
      rw [hT] at ha
      have hG : G.applyS tb st k v = G.upd i (Ghost.wop st k v) := by simp [Ghost.applyS, hT]
      rw [hG]
      have hb : n'.b = n.b := by
        cases v with
        | some v =>
          simp only [Option.map_eq_some_iff] at ha
          obtain ⟨t', _, rfl⟩ := ha
          rfl
        | none =>
          simp only [Option.map_eq_some_iff] at ha
          obtain ⟨t', _, rfl⟩ := ha
          rfl
      refine ⟨by rw [hb]; exact h.cache_above, ?_⟩
      intro j key m hm
      show (((if j = i then (G.s i).step (Ghost.wop st k v) else G.s j)).cur key).valAt m =
        (((if j = i then (G.s i).step (Ghost.wop st k v) else G.s j)).dur key).valAt m
      by_cases hj : j = i
      · subst hj
        simp only [if_true]
        rw [wop_dur, ← h.dur_same j key m hm]
        have hcur : ((G.s j).step (Ghost.wop st k v)).cur =
            TSpec.upd (G.s j).cur k (TSpec.logWrite ((G.s j).cur k) st v) := by cases v <;> rfl
        rw [hcur]
        unfold TSpec.upd
        by_cases hk : key = k
        · subst hk
          simp only [if_true]
          rw [Table.valAt_logWrite ((c.sim j).cur_ok key).1 (c.top_le j) v m]
          have : ¬ st ≤ m := by omega
          simp [this]
        · simp only [hk, if_false]
      · simp only [hj, if_false]
        exact h.dur_same j key m hm
    | none =>
      rw [hT] at ha
      have hG : G.applyS tb st k v = G := by simp [Ghost.applyS, hT]
      rw [hG]
      simp only [] at ha
      split at ha
      · split at ha
        · rename_i i v' _ hk
          cases ha
          refine ⟨?_, h.dur_same⟩
          intro j p hp
          by_cases hj : j = i
          · subst hj
            simp only [setB, if_true] at hp
            rcases BlockDb.mem_cache_set hp with h1 | h1
            · rw [h1, hk]; exact hD
            · exact h.cache_above j p h1
          · simp only [setB, hj, if_false] at hp
            exact h.cache_above j p hp
        · cases ha
      · cases ha

theorem DAt.events {n n' : Node} {G : Ghost} {e D : Nat} {evs : List Ev} (c : CoreAt n G e) (h : DAt n G D)
    (hD : D ≤ e) (ha : applyEvents n e evs = some n') : DAt n' (G.events evs) D := by
  induction evs generalizing n G with
  | nil => simp only [applyEvents] at ha; cases ha; exact h
  | cons ev rest ih =>
    cases ev with
    | s tb st k v =>
      simp only [applyEvents] at ha
      split at ha
      · rename_i n1 h1
        exact ih (c.applyS h1) (h.applyS c hD h1) ha
      · cases ha
    | x kind fs okRun succ gas logs => simp only [applyEvents] at ha; exact ih c h ha
    | other => simp only [applyEvents] at ha; exact ih c h ha

/-! ## the invariant of reachable nodes -/

/-- **Everything since the last commit point lies at or above the durable height.** -/
structure DInv (n : Node) (G : Ghost) : Prop where
  /-- a restart would continue at or below the height being built -/
  dn_le : n.durNext ≤ n.nextHeight
  at_ : DAt n G n.durNext

theorem DInv.cache_above {n : Node} {G : Ghost} (h : DInv n G) : ∀ i p, p ∈ (n.b i).cache → n.durNext ≤ p.1 :=
  h.at_.cache_above

theorem DInv.dur_same {n : Node} {G : Ghost} (h : DInv n G) :
    ∀ i k m, m < n.durNext → ((G.s i).cur k).valAt m = ((G.s i).dur k).valAt m := h.at_.dur_same

theorem DInv.init : DInv ({} : Node) Ghost.init :=
  ⟨Nat.le_refl _, ⟨fun _ _ hp => (by cases hp), fun _ _ _ _ => rfl⟩⟩

theorem durNext_congr {n n' : Node} (hb : ∀ i, (n'.b i).clear = (n.b i).clear) : n'.durNext = n.durNext := by
  unfold durNext; rw [hb]

/-- the recorded writes of one call, on a node that then only changes heights / block info -/
theorem DInv.events {n n' n'' : Node} {G : Ghost} {evs : List Ev} (r : RInv n G) (h : DInv n G)
    (ha : applyEvents n n.nextHeight evs = some n') (hb : n''.b = n'.b) (hnx : n.nextHeight ≤ n''.nextHeight) :
    DInv n'' (G.events evs) := by
  have hs := applyEvents_bstep ha
  have hd : n''.durNext = n.durNext := by
    apply durNext_congr; intro i; rw [hb]; exact hs.bclear i
  refine ⟨by rw [hd]; exact Nat.le_trans h.dn_le hnx, ?_⟩
  rw [hd]
  exact (h.at_.events r.core h.dn_le ha).congr hb

theorem DInv.addTxs {n : Node} {G : Ghost} (r : RInv n G) (h : DInv n G) (ts : Nat) (hash0 : String) (idx : Nat)
    (txid : Option String) (evs : List Ev) (k : Option Nat) :
    DInv (n.addTxs ts hash0 idx txid evs k).1 (gAddTxs n G ts hash0 idx txid evs k) := by
  unfold gAddTxs
  by_cases hok : (n.addTxs ts hash0 idx txid evs k).2 = .ok
  · rw [if_pos hok]
    obtain ⟨_, _, _, _, _, n', ha, hn⟩ := addTxs_ok hok
    rw [hn]
    exact h.events r ha rfl (applyEvents_bstep ha).nextHeight_le
  · rw [if_neg hok, addTxs_fst_of_ne_ok hok]; exact h

theorem DInv.finaliseOne {n : Node} {G : Ghost} (r : RInv n G) (h : DInv n G) (ts : Nat) (hash0 : String)
    (count : Nat) (evs : List Ev) :
    DInv (n.finaliseOne ts hash0 count evs).1 (gFinaliseOne n G ts hash0 count evs) := by
  unfold gFinaliseOne
  by_cases hok : (n.finaliseOne ts hash0 count evs).2 = .ok
  · rw [if_pos hok]
    obtain ⟨n', ha, _, hn⟩ := finaliseOne_ok_node hok
    rw [hn]
    exact h.events r ha rfl (Nat.le_succ _)
  · rw [if_neg hok, finaliseOne_fst_of_ne_ok hok]; exact h

theorem DInv.mineLoop {n : Node} {G : Ghost} (r : RInv n G) (h : DInv n G) (ts : Nat) (evs : List Ev) (k : Nat) :
    DInv (mineLoop n ts evs k).1 (gMineLoop n G ts evs k) := by
  induction k generalizing n G with
  | zero => exact h
  | succ k ih =>
    have rf := r.finaliseOne ts zeroHash 0 (evs.filter (fun e => stampOf e == some n.nextHeight))
    have hf := h.finaliseOne r ts zeroHash 0 (evs.filter (fun e => stampOf e == some n.nextHeight))
    unfold gFinaliseOne at rf hf
    simp only [Node.mineLoop, gMineLoop]
    cases hr : Node.finaliseOne n ts zeroHash 0 (evs.filter (fun e => stampOf e == some n.nextHeight)) with
    | mk n' c =>
      rw [hr] at rf hf
      cases c with
      | ok => simp only [if_true] at rf hf ⊢; exact ih rf hf
      | err e => simp at hf ⊢; exact hf
      | panic => simp at hf ⊢; exact hf
      | reject w => simp at hf ⊢; exact hf

theorem DInv.mine {n : Node} {G : Ghost} (r : RInv n G) (h : DInv n G) (count ts : Nat) (evs : List Ev) :
    DInv (n.mine count ts evs).1 (gMine n G count ts evs) := by
  unfold Node.mine gMine
  split
  · exact h
  · split
    · exact h
    · exact h.mineLoop r ts evs count

theorem DInv.addRawTx {n : Node} {G : Ghost} (r : RInv n G) (h : DInv n G) (ts : Nat) (hash0 : String) (idx : Nat)
    (txid : String) (dec : RawDecode) (evs : List Ev) :
    DInv (n.addRawTx ts hash0 idx txid dec evs).1 (gAddRawTx n G ts hash0 idx txid dec evs) := by
  cases dec with
  | fail => exact h
  | wrongChain =>
    simp only [Node.addRawTx, gAddRawTx]
    split <;> exact h
  | ok sender nonce =>
    simp only [Node.addRawTx, gAddRawTx]
    by_cases h1 : nonce ≠ n.accountNonce sender
    · rw [if_pos h1, if_pos h1]
      by_cases h2 : nonce > n.accountNonce sender ∧ nonce < n.accountNonce sender + FUTURE_NONCES
      · rw [if_pos h2, if_pos h2]
        by_cases h3 : (!(txRuns evs).isEmpty) = true
        · rw [if_pos h3, if_pos h3]; exact h
        · rw [if_neg h3, if_neg h3]
          by_cases h4 : (!poolOnly evs) = true
          · rw [if_pos h4, if_pos h4]; exact h
          · rw [if_neg h4, if_neg h4]
            by_cases h5 : (!parkedShape sender nonce n.nextHeight evs) = true
            · rw [if_pos h5, if_pos h5]; exact h
            · rw [if_neg h5, if_neg h5]
              cases ha : applyEvents n n.nextHeight evs with
              | none => exact h
              | some n' => exact h.events r ha rfl (applyEvents_bstep ha).nextHeight_le
      · rw [if_neg h2, if_neg h2]
        split <;> exact h
    · rw [if_neg h1, if_neg h1]
      have ha := h.addTxs r ts hash0 idx (some txid) evs
        (some (1 + (drainPlan n sender n.nextHeight FUTURE_NONCES (n.accountNonce sender + 1)).1))
      unfold gAddTxs at ha
      by_cases hok : (drainCheck n sender (n.accountNonce sender + 1)
          (drainPlan n sender n.nextHeight FUTURE_NONCES (n.accountNonce sender + 1)).2
          (n.addTxs ts hash0 idx (some txid) evs
            (some (1 + (drainPlan n sender n.nextHeight FUTURE_NONCES (n.accountNonce sender + 1)).1)))).2 = .ok
      · obtain ⟨h1', h2', _⟩ := drainCheck_ok hok
        rw [if_pos hok, h2']
        rw [if_pos h1'] at ha
        exact ha
      · rw [if_neg hok, drainCheck_fst_of_ne_ok addTxs_fst_of_ne_ok hok]
        exact h

theorem DInv.initialise {n : Node} {G : Ghost} (r : RInv n G) (h : DInv n G) (hash0 : String) (ts height : Nat)
    (evs : List Ev) : DInv (n.initialise hash0 ts height evs).1 (gInitialise n G hash0 ts height evs) := by
  rw [initialise_eq]
  unfold gInitialise
  cases (n.b .block).get height with
  | some _ => simp only []; split <;> exact h
  | none =>
    simp only []
    by_cases hh : height ≠ n.nextHeight
    · rw [if_pos hh, if_pos hh]; exact h
    · rw [if_neg hh, if_neg hh]
      have ra := r.addTxs ts (normHash hash0 height) 0 (some zeroHash) (evs.filter (fun e => !isFinEv e)) (some 1)
      have ha := h.addTxs r ts (normHash hash0 height) 0 (some zeroHash) (evs.filter (fun e => !isFinEv e)) (some 1)
      unfold gAddTxs at ra ha
      cases hr : Node.addTxs n ts (normHash hash0 height) 0 (some zeroHash) (evs.filter (fun e => !isFinEv e)) (some 1) with
      | mk n1 c =>
        rw [hr] at ra ha
        cases c with
        | ok => simp only [if_true] at ra ha ⊢; exact ha.finaliseOne ra _ _ _ _
        | err e => simp at ha ⊢; exact ha
        | panic => simp at ha ⊢; exact ha
        | reject w => simp at ha ⊢; exact ha

/-- a commit point: caches empty, no in-memory height, current log = durable log -/
theorem DInv.of_commit_point {n : Node} {G : Ghost} (hl : n.latest = none) (hc : ∀ i, (n.b i).cache = [])
    (hcd : ∀ i, (G.s i).cur = (G.s i).dur) : DInv n G :=
  ⟨durNext_le_of_latest_none hl, ⟨fun i p hp => (by rw [hc i] at hp; cases hp), fun i k m _ => by rw [hcd i]⟩⟩

theorem DInv.commit {n : Node} {G : Ghost} (h : DInv n G) : DInv n.commit.1 (gCommit n G) := by
  unfold Node.commit gCommit
  by_cases hw : n.lbi.waiting ≠ 0
  · rw [if_pos hw, if_pos hw]; exact h
  · rw [if_neg hw, if_neg hw]
    exact DInv.of_commit_point rfl (fun _ => rfl) (fun _ => rfl)

theorem DInv.clear {n : Node} {G : Ghost} (r : RInv n G) : DInv (n.clear).1 G.clear := by
  apply DInv.of_commit_point rfl (fun _ => rfl)
  intro i
  have := r.core.dur_coh i
  show (G.d i).cur = (G.d i).dur
  exact this.1.trans this.2.symm

theorem reorg_fst_of_ne_ok {n : Node} {target : Nat} (h : (n.reorg target).2 ≠ .ok) : (n.reorg target).1 = n := by
  by_cases hr : Refused n target
  · exact reorg_fst_of_refused hr
  · rw [reorg_of_not_refused n target hr] at h ⊢
    unfold reorgBody at h ⊢
    cases hx : reorgTables n target allTIds with
    | none => rfl
    | some n1 => rw [hx] at h; exact absurd rfl h

theorem DInv.reorg {n : Node} {G : Ghost} (h : DInv n G) (target : Nat) :
    DInv (n.reorg target).1 (gReorg n G target) := by
  unfold gReorg
  by_cases hok : (n.reorg target).2 = .ok
  · rw [if_pos hok]
    obtain ⟨_, n1, _, e⟩ := reorg_ok n target hok
    rw [e]
    exact DInv.of_commit_point rfl (fun _ => rfl) (fun _ => rfl)
  · rw [if_neg hok, reorg_fst_of_ne_ok hok]; exact h

theorem DInv.step {n : Node} {G : Ghost} (r : RInv n G) (h : DInv n G) (op : Op) :
    DInv (op.run n).1 (op.ghost n G) := by
  cases op with
  | initialise hash0 ts height evs => exact h.initialise r hash0 ts height evs
  | mine count ts evs => exact h.mine r count ts evs
  | addTxs ts hash0 idx txid evs k => exact h.addTxs r ts hash0 idx txid evs k
  | addRawTx ts hash0 idx txid dec evs => exact h.addRawTx r ts hash0 idx txid dec evs
  | finaliseOne ts hash0 count evs => exact h.finaliseOne r ts hash0 count evs
  | commit => exact h.commit
  | clear => exact DInv.clear r
  | reopen => exact DInv.clear r
  | reorg target => exact h.reorg target

/-- **Every reachable node satisfies `DInv`.** -/
theorem ReachG.dinv {n : Node} {G : Ghost} (h : ReachG n G) : DInv n G := by
  induction h with
  | init => exact DInv.init
  | step op hr _ _ ih => exact ih.step hr.inv op

/-! ## the hypotheses of the crash theorems, on reachable nodes -/

/-- **What a reachable node gives for a target below the durable height** (`n0 < durNext`: block `n0` was persisted
by a completed commit): nothing written since the last commit point is visible at `n0` (`hdur`), every pending block
row lies above `n0` (`habove`), the in-memory height is the newest hash row (`hlat`), every block table has the row of
`n0` on disk (`hrow`). -/
theorem ReachG.crash_hyps {n : Node} {G : Ghost} (h : ReachG n G) {n0 : Nat} (hn0 : n0 < n.durNext) :
    (∀ i k, ((G.s i).cur k).valAt n0 = ((G.s i).dur k).valAt n0) ∧
    (∀ i, ∀ p ∈ (n.b i).cache, n0 < p.1) ∧
    (∀ a x, n.latest = some (a, x) → (n.b .numberToHash).lastKey = some a) ∧
    (∀ i, (n.b i).db.get? n0 ≠ none) := by
  have d := h.dinv
  refine ⟨fun i k => d.dur_same i k n0 hn0, ?_, h.reach.heightInv_always.latest_is_last, ?_⟩
  · intro i p hp
    have := d.cache_above i p hp
    omega
  · intro i
    have := (h.reach.block_rows.2 i n0).mpr hn0
    rwa [BlockDb.get_clear] at this

/-- the durable log inside `G.s i` (`TSpec.dur`) is the node-level log as of the last commit (`G.d i`) -/
theorem ReachG.dur_is_d {n : Node} {G : Ghost} (h : ReachG n G) (i : TId) :
    (G.s i).dur = (G.d i).cur ∧ (G.d i).dur = (G.d i).cur :=
  ⟨(h.inv.core.dur_coh i).1.symm, (h.inv.core.dur_coh i).2.trans (h.inv.core.dur_coh i).1.symm⟩

/-- At a block boundary, a target inside the engine's own acceptance test (`max_block_number ≤ W + n0`) is inside
the window of every table other than the two pending-pool tables; with the proviso of finding F10 for those two, of
every table. -/
theorem ReachG.window_bdry {n : Node} {G : Ghost} (h : ReachG n G) (hw : n.lbi.waiting = 0) {n0 : Nat}
    (hmax : n.maxBlock.getD 0 ≤ W + n0) (hpool : ∀ i, i ∈ poolTables → (G.s i).maxEver ≤ n0 + W) :
    ∀ i, (G.s i).maxEver ≤ n0 + W := by
  intro i
  by_cases hi : i ∈ poolTables
  · exact hpool i hi
  · have := (h.inv.bdry hw).2.1 i hi
    unfold mb at this
    omega

/-- One block of slack makes the proviso of F10 unnecessary: no table has ever been passed a number above
`max_block_number + 1`. -/
theorem ReachG.pool_of_slack {n : Node} {G : Ghost} (h : ReachG n G) (hw : n.lbi.waiting = 0) {n0 : Nat}
    (hmax : n.maxBlock.getD 0 < W + n0) : ∀ i, i ∈ poolTables → (G.s i).maxEver ≤ n0 + W := by
  intro i _
  have h1 := h.inv.core.me_le i
  have h2 := h.inv.next_le hw
  unfold mb at h1 h2
  omega

/-! ## the capstone: a crash at any write, on any reachable node, is repaired by a rollback to a durable height -/

/-- **Crash at any write of the engine commit, every reachable state.**  `n` is reachable with plain logs `G`, at a
block boundary (the engine refuses `commit` otherwise).  The process dies after ANY number `j` of the persistent
writes of `commit_changes` and the directory is reopened.  Let `n0` be a height that
  * was persisted by a completed commit (`n0 < durNext`, `durNext` = the height a restart continues at),
  * passes the engine's depth test on the written-through `max_block_number` row (`hmax`),
  * is inside the window of the two pending-pool tables (`hpool`: the proviso of finding F10).
Then `reorg n0` on the reopened node is accepted, does not panic, answers `ok`; every versioned table reads, for every
key, the value the plain log has at the end of block `n0`; every block table holds exactly the persisted rows `≤ n0`;
nothing is under construction and the node stands at height `n0`. -/
theorem ReachG.crash_in_commit_recoverable {n : Node} {G : Ghost} (h : ReachG n G) (hw : n.lbi.waiting = 0)
    (j n0 : Nat) (hn0 : n0 < n.durNext) (hmax : n.maxBlock.getD 0 ≤ W + n0)
    (hpool : ∀ i, i ∈ poolTables → (G.s i).maxEver ≤ n0 + W) :
    ∃ r, (n.crashCommitAt j).reorg n0 = (r, .ok) ∧ RestoredAt n G.s n0 r ∧
      r.latestHeight = n0 ∧ r.nextHeight = n0 + 1 := by
  obtain ⟨hdur, habove, hlat, hrow⟩ := h.crash_hyps hn0
  have hdeep : n.latestHeight ≤ n0 + W := by
    have := h.inv.stamps.2.2.2.2.2 hw
    unfold mb at this
    omega
  exact crashCommitAt_reorg_ok n G.s h.sim j n0 (h.window_bdry hw hmax hpool) hdur habove hlat
    (hrow .numberToHash) hdeep hmax

/-- The same for ANY order in which the engine might commit its tables (each table once): the statement does not
depend on the transcription of `commit_changes`. -/
theorem ReachG.crash_in_commit_recoverable_any_order {n : Node} {G : Ghost} (h : ReachG n G)
    (hw : n.lbi.waiting = 0) (ob : List BId) (ot : List TId) (ndb : ob.Nodup) (ndt : ot.Nodup)
    (hob : ∀ i, i ∈ ob) (hot : ∀ i, i ∈ ot)
    (j n0 : Nat) (hn0 : n0 < n.durNext) (hmax : n.maxBlock.getD 0 ≤ W + n0)
    (hpool : ∀ i, i ∈ poolTables → (G.s i).maxEver ≤ n0 + W) :
    ∃ r, (n.crashCommitAtIn ob ot j).reorg n0 = (r, .ok) ∧ RestoredAt n G.s n0 r ∧
      r.latestHeight = n0 ∧ r.nextHeight = n0 + 1 := by
  obtain ⟨hdur, habove, hlat, hrow⟩ := h.crash_hyps hn0
  have hdeep : n.latestHeight ≤ n0 + W := by
    have := h.inv.stamps.2.2.2.2.2 hw
    unfold mb at this
    omega
  exact crashCommitAtIn_reorg_ok n G.s h.sim ob ot ndb ndt hob hot j n0 (h.window_bdry hw hmax hpool) hdur habove
    hlat (hrow .numberToHash) hdeep hmax

/-- With one block of slack in the depth test, no proviso on the pool tables. -/
theorem ReachG.crash_in_commit_recoverable_slack {n : Node} {G : Ghost} (h : ReachG n G) (hw : n.lbi.waiting = 0)
    (j n0 : Nat) (hn0 : n0 < n.durNext) (hmax : n.maxBlock.getD 0 < W + n0) :
    ∃ r, (n.crashCommitAt j).reorg n0 = (r, .ok) ∧ RestoredAt n G.s n0 r ∧
      r.latestHeight = n0 ∧ r.nextHeight = n0 + 1 :=
  h.crash_in_commit_recoverable hw j n0 hn0 (Nat.le_of_lt hmax) (h.pool_of_slack hw hmax)

/-- **Crash inside the table phase of `reorg m`, every reachable state**: the process dies after any number `j` of
the persistent writes the twelve table rollbacks issue; reopen; `reorg n0` with `n0 ≤ m ≤ n0 + W`, `n0` durable and
inside the engine's depth test (and the F10 proviso) restores block `n0`. -/
theorem ReachG.crash_in_reorg_recoverable {n : Node} {G : Ghost} (h : ReachG n G) (hw : n.lbi.waiting = 0)
    (m j n0 : Nat) (hnm : n0 ≤ m) (hmW : m ≤ n0 + W) (hn0 : n0 < n.durNext) (hmax : n.maxBlock.getD 0 ≤ W + n0)
    (hpool : ∀ i, i ∈ poolTables → (G.s i).maxEver ≤ n0 + W) :
    ∃ r, (n.crashReorgAt m j).reorg n0 = (r, .ok) ∧ RestoredAt n G.s n0 r ∧
      r.latestHeight = n0 ∧ r.nextHeight = n0 + 1 := by
  obtain ⟨hdur, _, _, hrow⟩ := h.crash_hyps hn0
  refine crashReorgAt_reorg_ok n G.s h.sim m j n0 hnm hmW (h.window_bdry hw hmax hpool) hdur
    (hrow .numberToHash) ?_ hmax
  intro k hk
  have := h.inv.core.drows_le k (by rwa [BlockDb.get_clear])
  unfold mb at this
  omega

/-- **Crash inside the commit that ends `reorg m`, every reachable state.**  `n1` is the node after the table phase
of `reorg m`; the process dies after any number `j` of the writes of the closing `commit_changes`. -/
theorem ReachG.crash_in_reorg_commit_recoverable {n : Node} {G : Ghost} (h : ReachG n G) (hw : n.lbi.waiting = 0)
    (m n0 : Nat) (hnm : n0 ≤ m) (hmW : m ≤ n0 + W) (hn0 : n0 < n.durNext) (hmax : n.maxBlock.getD 0 ≤ W + n0)
    (hpool : ∀ i, i ∈ poolTables → (G.s i).maxEver ≤ n0 + W)
    (n1 : Node) (e1 : reorgTables n m allTIds = some n1) (j : Nat) :
    ∃ r, (({ n1 with b := fun i => (n1.b i).reorg m } : Node).crashCommitAt j).reorg n0 = (r, .ok) ∧
      RestoredAt n G.s n0 r ∧ r.latestHeight = n0 ∧ r.nextHeight = n0 + 1 := by
  obtain ⟨_, habove, _, hrow⟩ := h.crash_hyps hn0
  rw [crashCommitAt_eq_crashIdx]
  refine crash_in_reorg_commit_ok n G.s h.sim m n0 hnm hmW (h.window_bdry hw hmax hpool) ?_ habove
    (hrow .numberToHash) ?_ hmax n1 e1 _ _
  · have := h.inv.next_le hw
    unfold mb at this
    omega
  · intro k hk
    have := (h.inv.bdry hw).1 k hk
    unfold mb at this
    omega

/-- **A crash anywhere inside an accepted `reorg m`** - in the table phase (`crashReorgAt`) or in the closing commit
(`n2.crashCommitAt`, where `(n.reorg m).1 = n2.commitAll`) - on any reachable node, is repaired by `reorg n0` for
every durable `n0 ≤ m` inside the depth test. -/
theorem ReachG.crash_in_accepted_reorg_recoverable {n : Node} {G : Ghost} (h : ReachG n G) (m : Nat)
    (hok : (n.reorg m).2 = .ok) (n0 : Nat) (hnm : n0 ≤ m) (hn0 : n0 < n.durNext)
    (hmax : n.maxBlock.getD 0 ≤ W + n0) (hpool : ∀ i, i ∈ poolTables → (G.s i).maxEver ≤ n0 + W) :
    (∀ j, ∃ r, (n.crashReorgAt m j).reorg n0 = (r, .ok) ∧ RestoredAt n G.s n0 r ∧
      r.latestHeight = n0 ∧ r.nextHeight = n0 + 1) ∧
    ∃ n2 : Node, (n.reorg m).1 = n2.commitAll ∧
      ∀ j, ∃ r, (n2.crashCommitAt j).reorg n0 = (r, .ok) ∧ RestoredAt n G.s n0 r ∧
        r.latestHeight = n0 ∧ r.nextHeight = n0 + 1 := by
  obtain ⟨hnr, n1, e1, e⟩ := reorg_ok n m hok
  simp only [Refused, not_or] at hnr
  obtain ⟨hw, h2, _, _⟩ := hnr
  have hw : n.lbi.waiting = 0 := Decidable.not_not.mp hw
  have hmW : m ≤ n0 + W := by
    have := h.inv.stamps.2.2.2.2.2 hw
    unfold mb at this
    omega
  refine ⟨fun j => h.crash_in_reorg_recoverable hw m j n0 hnm hmW hn0 hmax hpool,
    { n1 with b := fun i => (n1.b i).reorg m }, by rw [e], fun j => ?_⟩
  exact h.crash_in_reorg_commit_recoverable hw m n0 hnm hmW hn0 hmax hpool n1 e1 j

/-! ## a crash with no write in flight -/

/-- dying before the first write of a commit (or anywhere outside `commit` / `reorg`) is a reopen -/
theorem crashCommitAt_zero (n : Node) : n.crashCommitAt 0 = n.reopen := rfl

theorem crashReorgAt_zero_reads (n : Node) (m : Nat) (i : TId) :
    ((n.crashReorgAt m 0).t i) = (n.reorgLoaded m i).clear := rfl

/-- **A crash outside commit / reorg loses only uncommitted work, every reachable state**: the reopened node reads,
in every table and for every key, the log as of the last commit point (`G.d`, which is also `TSpec.dur` of the
current log); block tables read their persisted rows, i.e. the blocks below `durNext`; it stands at `durNext`; and it
is itself reachable, with logs `G.clear`. -/
theorem ReachG.crash_outside_commit {n : Node} {G : Ghost} (h : ReachG n G) :
    (∀ i k, ((n.crashCommitAt 0).t i).latest k = (G.d i).read k) ∧
    (∀ i k, (G.d i).read k = ((G.s i).dur k).latest) ∧
    (∀ i k, ((n.crashCommitAt 0).b i).get k = (n.b i).db.get? k) ∧
    (∀ i k, ((n.crashCommitAt 0).b i).get k ≠ none ↔ k < n.durNext) ∧
    (n.crashCommitAt 0).nextHeight = n.durNext ∧ (n.crashCommitAt 0).lbi = {} ∧
    ReachG (n.crashCommitAt 0) G.clear := by
  rw [crashCommitAt_zero]
  have hc := h.inv.core
  refine ⟨fun i k => Table.sim_latest (hc.dsim i) k, ?_, fun i k => BlockDb.get_clear (n.b i) k,
    fun i k => h.reach.block_rows.2 i k, ?_, rfl, ReachG.step .reopen h trivial trivial⟩
  · intro i k
    show ((G.d i).cur k).latest = _
    rw [(hc.dur_coh i).1]
  · rw [nextHeight_eq]; rfl

end Node

/-! ## non-vacuity: a reachable node, cut in the middle of its commit

The run of `Node.Example` with a commit after the genesis block: genesis (block 0, a deployment), `commit`, a parked
transaction (two pool rows stamped 1), block 1 with a call (`account` row rewritten, a `tx` row), its finalise, block 2
mined - nothing of blocks 1 and 2 committed.  The durable height is 1 (block 0 persisted), the node stands at 2.  The
engine commit issues 21 writes: 9 block rows (3 tables x blocks 1, 2 + flush), then `tx` (2), `pending` (2),
`pendingTxid` (2), `account` (2), `hashToNumber` (4).  Dying at write 12 leaves the block tables and `tx` at block 2,
`pending` cut between its two writes, `account` and `hashToNumber` at block 0. -/

namespace ReachCrashExample
open Node Node.Example

-- the parked row of `Node.Example` is a 162-character string that `decide` has to walk through
set_option maxRecDepth 8192

def opsC : List Op := ops.take 1 ++ [.commit] ++ (ops.drop 1).take 4

def st : Node × Ghost := runOps opsC ({}, Ghost.init)

theorem st_reach : ReachG st.1 st.2 := reachG_runOps opsC ReachG.init (by decide) (by decide)

theorem st_facts : st.1.lbi.waiting = 0 ∧ st.1.durNext = 1 ∧ st.1.nextHeight = 3 ∧ st.1.maxBlock = some 2 ∧
    st.1.globalWrites.length = 21 := by decide

theorem st_pool : ∀ i, i ∈ poolTables → (st.2.s i).maxEver ≤ 0 + W := by
  intro i hi
  simp only [poolTables, List.mem_cons, List.not_mem_nil, or_false] at hi
  rcases hi with rfl | rfl <;> decide

/-- the torn state on disk after 12 writes: block 1's `tx` row is there, the `account` row is still the genesis one,
the hash table says height 2 -/
example : ((st.1.crashCommitAt 12).t .tx).latest "t1" = some "x" ∧
    ((st.1.crashCommitAt 12).t .account).latest "aa" = some acct0 ∧
    (st.1.t .account).latest "aa" = some acct1 ∧
    st.1.itOf 12 .tx = 3 ∧ st.1.itOf 12 .pending = 1 ∧ (st.1.tWrites .pending).length = 2 ∧
    st.1.itOf 12 .account = 0 ∧ (st.1.crashCommitAt 12).latestHeight = 2 := by decide

/-- **The capstone theorem applies**, for every crash point `j`: `reorg 0` on the reopened node answers `ok` and
restores block 0. -/
theorem recovers (j : Nat) :
    ∃ r, (st.1.crashCommitAt j).reorg 0 = (r, .ok) ∧ RestoredAt st.1 st.2.s 0 r ∧
      r.latestHeight = 0 ∧ r.nextHeight = 1 :=
  st_reach.crash_in_commit_recoverable st_facts.1 j 0 (by rw [st_facts.2.1]; decide)
    (by rw [st_facts.2.2.2.1]; decide) st_pool

/-- and inside `reorg 1` (table phase, any write), then `reorg 0` -/
theorem recovers_in_reorg (j : Nat) :
    ∃ r, (st.1.crashReorgAt 1 j).reorg 0 = (r, .ok) ∧ RestoredAt st.1 st.2.s 0 r ∧
      r.latestHeight = 0 ∧ r.nextHeight = 1 :=
  st_reach.crash_in_reorg_recoverable st_facts.1 1 j 0 (by decide) (by decide) (by rw [st_facts.2.1]; decide)
    (by rw [st_facts.2.2.2.1]; decide) st_pool

/-- what "restored" means here, and the same by direct evaluation of the model -/
example : (st.2.s .account).readAt "aa" 0 = some acct0 ∧ (st.2.s .tx).readAt "t1" 0 = none ∧
    ((st.1.crashCommitAt 12).reorg 0).2 = .ok ∧
    (((st.1.crashCommitAt 12).reorg 0).1.t .tx).latest "t1" = none ∧
    (((st.1.crashCommitAt 12).reorg 0).1.t .account).latest "aa" = some acct0 ∧
    (((st.1.crashCommitAt 12).reorg 0).1.t .pendingTxid).latest "77" = none ∧
    (((st.1.crashCommitAt 12).reorg 0).1.b .numberToHash).get 1 = none ∧
    (((st.1.crashCommitAt 12).reorg 0).1.b .numberToHash).get 0 = some h0 := by decide

/-- **The target must be durable** (`n0 < durNext` cannot be dropped), and the crashed directory does not tell which
heights are: the block tables are committed first, so after the crash at write 12 the reopened node reports height 2
and `durNext = 3`, while `account` is still at block 0.  `reorg 1` (block 1 was never covered by a completed commit)
is accepted and answers `ok`, but `account` reads its genesis value, not its value at block 1; after a crash before
the first write the same `reorg 1` is refused (`above`). -/
example : ((st.1.crashCommitAt 0).reorg 1).2 = .err "above" ∧ ((st.1.crashCommitAt 12).reorg 1).2 = .ok ∧
    (((st.1.crashCommitAt 12).reorg 1).1.t .account).latest "aa" = some acct0 ∧
    (st.2.s .account).readAt "aa" 1 = some acct1 ∧ (st.1.crashCommitAt 12).durNext = 3 := by decide

/-- a crash with no write in flight: the reopened node is back at the last commit point (block 0) -/
example : st.1.crashCommitAt 0 = st.1.reopen ∧ ((st.1.crashCommitAt 0).t .account).latest "aa" = some acct0 ∧
    (st.1.crashCommitAt 0).nextHeight = 1 := by
  refine ⟨rfl, ?_, ?_⟩ <;> decide

end ReachCrashExample
end Brc20
