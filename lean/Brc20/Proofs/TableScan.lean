/-
Range scans and full scans of the versioned table model: complete, in key order, independent of the
iteration order of the in-memory `HashMap`.
-/
import Brc20.Proofs.Table
import Brc20.Proofs.ScanLemmas
set_option linter.unusedSectionVars false
-- `mem_getRange` / `mem_all` keep the `StrictTotal` argument for a uniform interface; membership does not need it
set_option linter.unusedVariables false

namespace Brc20.Table
variable {K V : Type} [DecidableEq K] [DecidableEq V]

/-- `lt` is a strict total order on keys (byte-lexicographic order on encoded keys is one: `bytesLt_*`). -/
structure StrictTotal (lt : K → K → Bool) : Prop where
  irrefl : ∀ a, lt a a = false
  trans : ∀ a b c, lt a b = true → lt b c = true → lt a c = true
  total : ∀ a b, lt a b = true ∨ a = b ∨ lt b a = true

/-- The two RocksDB columns never hold a key twice (they are maps); preserved by every operation. -/
def ColsNodup (t : Table K V) : Prop := AMap.Nodup t.db ∧ AMap.Nodup t.cdb

theorem colsNodup_empty : ColsNodup (Table.empty : Table K V) := by
  exact ⟨List.nodup_nil, List.nodup_nil⟩

theorem colsNodup_applyWrite {t : Table K V} (h : ColsNodup t) (w : Write K V) :
    ColsNodup (t.applyWrite w) := by
  cases w with
  | putCdb k x => exact ⟨h.1, AMap.nodup_insert h.2 k x⟩
  | delCdb k => exact ⟨h.1, AMap.nodup_erase h.2 k⟩
  | putDb k v => exact ⟨AMap.nodup_insert h.1 k v, h.2⟩
  | delDb k => exact ⟨AMap.nodup_erase h.1 k, h.2⟩

theorem colsNodup_applyWrites {t : Table K V} (h : ColsNodup t) (ws : List (Write K V)) :
    ColsNodup (t.applyWrites ws) := by
  induction ws generalizing t with
  | nil => exact h
  | cons w ws ih => exact ih (colsNodup_applyWrite h w)

theorem colsNodup_commit {t : Table K V} (h : ColsNodup t) (W b : Nat) : ColsNodup (t.commit W b) :=
  colsNodup_applyWrites h _

theorem colsNodup_step {W : Nat} {t t' : Table K V} (h : ColsNodup t) (op : TOp K V)
    (hs : t.step W op = some t') : ColsNodup t' := by
  cases op with
  | set b k v =>
    simp only [step, set] at hs
    split at hs
    · simp only [Option.some.injEq] at hs; subst hs; exact h
    · exact absurd hs (by simp)
  | unset b k =>
    simp only [step, unset] at hs
    split at hs
    · simp only [Option.some.injEq] at hs; subst hs; exact h
    · exact absurd hs (by simp)
  | commit b =>
    simp only [step, Option.some.injEq] at hs; subst hs; exact colsNodup_commit h W b
  | clear =>
    simp only [step, Option.some.injEq] at hs; subst hs; exact h
  | reorg n =>
    simp only [step, reorg] at hs
    split at hs
    · rename_i t1 hl
      simp only [Option.some.injEq] at hs; subst hs
      obtain ⟨e1, e2⟩ := reorgLoad_cols n _ t t1 hl
      exact colsNodup_commit (t := t1) (by unfold ColsNodup; rw [e1, e2]; exact h) W n
    · exact absurd hs (by simp)

/-- The readable map as an association list: duplicate-free, and `get?` is `latest` restricted to `f`. -/
theorem scan_core {t : Table K V} (hc : AMap.Nodup t.cache) (hd : AMap.Nodup t.db) (f : K → Bool) :
    let m := overlay (t.db.filter (fun p => f p.1)) (t.cache.filter (fun p => f p.1))
    AMap.Nodup m ∧ ∀ k, AMap.get? m k = if f k = true then t.latest k else none := by
  refine ⟨nodup_overlay _ _ (AMap.nodup_filter hd _), ?_⟩
  intro k
  rw [get?_overlay _ (AMap.nodup_filter hc _), AMap.get?_filter, AMap.get?_filter]
  by_cases hf : f k = true
  · simp only [hf, if_true, latest]
    cases AMap.get? t.cache k <;> rfl
  · simp [hf]

theorem all_core {t : Table K V} (hc : AMap.Nodup t.cache) (hd : AMap.Nodup t.db) :
    AMap.Nodup (overlay t.db t.cache) ∧ ∀ k, AMap.get? (overlay t.db t.cache) k = t.latest k :=
  ⟨nodup_overlay _ _ hd, fun k => by rw [get?_overlay _ hc]; rfl⟩

/-- Range scan = exactly the readable pairs with `lo ≤ k < hi`. -/
theorem mem_getRange {lt : K → K → Bool} (st : StrictTotal lt) {t : Table K V}
    (hc : AMap.Nodup t.cache) (hd : AMap.Nodup t.db) (lo hi k : K) (v : V) :
    (k, v) ∈ t.getRange lt lo hi ↔ (lt k lo = false ∧ lt k hi = true ∧ t.latest k = some v) := by
  obtain ⟨nd, hg⟩ := scan_core hc hd (fun k => !lt k lo && lt k hi)
  unfold getRange
  simp only
  rw [mem_sortByKey, AMap.mem_iff_get? nd, hg]
  cases h1 : lt k lo <;> cases h2 : lt k hi <;> simp

/-- ... each key once, in strictly ascending key order. -/
theorem getRange_sorted {lt : K → K → Bool} (st : StrictTotal lt) {t : Table K V}
    (hc : AMap.Nodup t.cache) (hd : AMap.Nodup t.db) (lo hi : K) :
    (t.getRange lt lo hi).Pairwise (fun a b => lt a.1 b.1 = true) := by
  obtain ⟨nd, _⟩ := scan_core hc hd (fun k => !lt k lo && lt k hi)
  exact sortByKey_pairwise st.trans st.total _ nd

/-- Two strictly sorted lists with the same members are equal: the scan result is determined by the
readable map alone, whatever order the `HashMap` (the cache list) or the column is iterated in. -/
theorem getRange_order_independent {lt : K → K → Bool} (st : StrictTotal lt) {t t' : Table K V}
    (hc : AMap.Nodup t.cache) (hd : AMap.Nodup t.db) (hc' : AMap.Nodup t'.cache) (hd' : AMap.Nodup t'.db)
    (hl : ∀ k, t.latest k = t'.latest k) (lo hi : K) :
    t.getRange lt lo hi = t'.getRange lt lo hi := by
  apply pairwise_ext (R := fun a b : K × V => lt a.1 b.1 = true)
    (fun a => by simp [st.irrefl]) (fun a b c => st.trans a.1 b.1 c.1)
  · exact getRange_sorted st hc hd lo hi
  · exact getRange_sorted st hc' hd' lo hi
  · rintro ⟨k, v⟩
    rw [mem_getRange st hc hd, mem_getRange st hc' hd', hl k]

/-- Full scan = exactly the readable pairs, in key order. -/
theorem mem_all {lt : K → K → Bool} (st : StrictTotal lt) {t : Table K V}
    (hc : AMap.Nodup t.cache) (hd : AMap.Nodup t.db) (k : K) (v : V) :
    (k, v) ∈ t.all lt ↔ t.latest k = some v := by
  obtain ⟨nd, hg⟩ := all_core hc hd
  unfold all
  rw [mem_sortByKey, AMap.mem_iff_get? nd, hg]

theorem all_sorted {lt : K → K → Bool} (st : StrictTotal lt) {t : Table K V}
    (hc : AMap.Nodup t.cache) (hd : AMap.Nodup t.db) :
    (t.all lt).Pairwise (fun a b => lt a.1 b.1 = true) := by
  exact sortByKey_pairwise st.trans st.total _ (all_core hc hd).1

end Brc20.Table
