/-
Specifications of the history operations (`set`, `unset`, `reorg`, `isOld`) in terms of `valAt`.
-/
import Brc20.Proofs.Hist
set_option linter.unusedSectionVars false

namespace Brc20.Hist
variable {V : Type} [DecidableEq V]

/-- Well-formed history whose keys are all ≤ `top`. -/
structure Ok (h : Hist V) (top : Nat) : Prop where
  sorted : Sorted h
  le : KeysLe h top
  ne : h ≠ []

theorem ok_new (i : Option V) (top : Nat) : Ok (Hist.new i) top :=
  ⟨sorted_new i, keysLe_new i top, by simp [Hist.new]⟩

theorem Ok.mono {h : Hist V} {a b : Nat} (o : Ok h a) (hab : a ≤ b) : Ok h b :=
  ⟨o.sorted, keysLe_mono o.le hab, o.ne⟩

theorem Ok.lastKey {h : Hist V} {top : Nat} (o : Ok h top) : ∃ l, lastKey? h = some l ∧ l ≤ top := by
  cases hl : lastKey? h with
  | none => exact absurd (lastKey?_none hl) o.ne
  | some l =>
    obtain ⟨e, he, rfl⟩ := lastKey?_mem hl
    exact ⟨e.1, rfl, o.le e he⟩

theorem Ok.valAt_top {h : Hist V} {top m : Nat} (o : Ok h top) (hm : top ≤ m) : valAt h m = some (latest h) :=
  valAt_eq_latest o.ne (keysLe_mono o.le hm)

/-- Writing value `x` (`some v` for set, `none` for unset) at block `b ≥ top`. -/
def writeSpec (W : Nat) (h h' : Hist V) (b : Nat) (x : Option V) : Prop :=
  Ok h' b ∧ (∀ m, b ≤ m + W → valAt h' m = if b ≤ m then some x else valAt h m) ∧
  (h.length ≤ W + 1 → h'.length ≤ W + 1) ∧ latest h' = x

theorem put_prune_spec (W : Nat) {h : Hist V} {top b : Nat} (o : Ok h top) (hb : top ≤ b) (x : Option V) :
    writeSpec W h (prune W (put h b x) b) b x := by
  have ob := o.mono hb
  have sp : Sorted (put h b x) := sorted_put ob.sorted ob.le
  have kp : KeysLe (put h b x) b := keysLe_put ob.le
  have okp : Ok (prune W (put h b x) b) b := ⟨sorted_prune W sp, keysLe_prune W kp, prune_ne_nil W put_ne_nil⟩
  refine ⟨okp, ?_, fun _ => length_prune W sp kp, ?_⟩
  · intro m hm
    rw [valAt_prune W sp hm, valAt_put ob.sorted ob.le]
  · have h1 := okp.valAt_top (Nat.le_refl b)
    rw [valAt_prune W sp (by omega), valAt_put ob.sorted ob.le] at h1
    simp at h1
    exact h1.symm

theorem set_spec (W : Nat) {h : Hist V} {top b : Nat} (o : Ok h top) (hb : top ≤ b) (v : V) :
    ∃ h', set W h b v = some h' ∧ writeSpec W h h' b (some v) := by
  obtain ⟨l, hl, hle⟩ := o.lastKey
  unfold set
  simp only [hl]
  have : ¬ b < l := by omega
  simp only [this, if_false]
  by_cases hv : latest h = some v
  · simp only [hv, if_true]
    refine ⟨h, rfl, o.mono hb, ?_, fun x => x, hv⟩
    intro m _
    by_cases hm : b ≤ m
    · simp [hm, o.valAt_top (by omega : top ≤ m), hv]
    · simp [hm]
  · simp only [hv, if_false]
    exact ⟨_, rfl, put_prune_spec W o hb (some v)⟩

theorem unset_spec (W : Nat) {h : Hist V} {top b : Nat} (o : Ok h top) (hb : top ≤ b) :
    ∃ h', unset W h b = some h' ∧ writeSpec W h h' b none := by
  obtain ⟨l, hl, hle⟩ := o.lastKey
  unfold unset
  simp only [hl]
  have : ¬ b < l := by omega
  simp only [this, if_false]
  by_cases hv : (latest h).isNone = true
  · simp only [hv, if_true]
    have hv' : latest h = none := by simpa using hv
    refine ⟨h, rfl, o.mono hb, ?_, fun x => x, hv'⟩
    intro m _
    by_cases hm : b ≤ m
    · simp [hm, o.valAt_top (by omega : top ≤ m), hv']
    · simp [hm]
  · simp only [hv]
    exact ⟨_, rfl, put_prune_spec W o hb none⟩

/-- A stamp below the newest stored key is refused (the Rust panics). -/
theorem set_panics {W : Nat} {h : Hist V} {b l : Nat} (hl : lastKey? h = some l) (hb : b < l) (v : V) :
    set W h b v = none := by
  unfold set; simp [hl, hb]

theorem reorg_spec {h : Hist V} {top : Nat} (o : Ok h top) (n : Nat) :
    (reorg h n = none ↔ valAt h n = none) ∧
    (∀ h', reorg h n = some h' → Ok h' (min top n) ∧ (∀ m, valAt h' m = valAt h (min m n)) ∧ h'.length ≤ h.length) := by
  refine ⟨reorg_none_iff o.sorted n, ?_⟩
  intro h' hr
  obtain ⟨rfl, hne⟩ := reorg_some hr
  refine ⟨⟨sorted_filter o.sorted _, ?_, hne⟩, fun m => valAt_filter o.sorted n m, List.length_filter_le _ _⟩
  intro e he
  have := List.mem_filter.mp he
  have h1 := o.le e this.1
  have h2 : e.1 ≤ n := by simpa using this.2
  omega

/-- An old history (`isOld`: `lastKey + W < b`) has had a constant value at every block `m` with
`b ≤ m + W + 1` (one block more generous than the window of a write stamped `b`). -/
theorem isOld_const' {W : Nat} {h : Hist V} {top b : Nat} (o : Ok h top) (ho : isOld W h b = true) {m : Nat}
    (hm : b ≤ m + W + 1) : valAt h m = some (latest h) := by
  obtain ⟨l, hl, _⟩ := o.lastKey
  unfold isOld at ho
  simp [hl] at ho
  exact valAt_eq_latest o.ne (keysLe_mono (keysLe_lastKey o.sorted hl) (by omega))

/-- An old history (`isOld`) has had a constant value throughout the window of `b`. -/
theorem isOld_const {W : Nat} {h : Hist V} {top b : Nat} (o : Ok h top) (ho : isOld W h b = true) {m : Nat}
    (hm : b ≤ m + W) : valAt h m = some (latest h) :=
  isOld_const' o ho (by omega)

theorem valAt_new (i : Option V) (m : Nat) : valAt (Hist.new i) m = some i := by
  simp [Hist.new, valAt]

theorem latest_new (i : Option V) : latest (Hist.new i) = i := by
  simp [Hist.new, latest]

end Brc20.Hist
