/-
Helper lemmas about the engine bookkeeping model (`Brc20.Model.Node`), used by Props C05 / C06 / C08 / C19.
-/
import Brc20.Model.Node
import Brc20.Proofs.AMap

namespace Brc20
namespace Node

abbrev Run := List (String × String) × Bool × Bool × Nat × Nat

/-! ### `validateNextTx` -/

theorem validateNextTx_none {n : Node} {idx : Nat} {hash : String} {bn ts : Nat}
    (h : n.validateNextTx idx hash bn ts = none) :
    n.lbi.waiting = idx ∧ (n.lbi.waiting ≠ 0 → n.lbi.ts = ts ∧ n.lbi.hash = hash) ∧
      n.blockExists hash bn = false := by
  unfold validateNextTx at h
  split at h
  · cases h
  · split at h
    · cases h
    · split at h
      · cases h
      · split at h
        · cases h
        · refine ⟨by omega, ?_, by simp_all⟩
          intro hw
          constructor
          · apply Decidable.byContradiction; intro hc; simp_all
          · apply Decidable.byContradiction; intro hc; simp_all

theorem validateNextTx_some_mem {n : Node} {idx : Nat} {hash : String} {bn ts : Nat} {e : String}
    (h : n.validateNextTx idx hash bn ts = some e) : e = "idx" ∨ e = "ts" ∨ e = "hash" ∨ e = "exists" := by
  unfold validateNextTx at h
  split at h
  · simp_all
  · split at h
    · simp_all
    · split at h
      · simp_all
      · split at h
        · simp_all
        · cases h

/-! ### `bumpLbi` -/

theorem bumpLbi_nil (l : Lbi) : bumpLbi l [] = l := rfl

theorem bumpLbi_cons (l : Lbi) (r : Run) (rs : List Run) :
    bumpLbi l (r :: rs) =
      bumpLbi { l with waiting := l.waiting + 1,
                       gasUsed := if l.gasUsed + (if r.2.1 then r.2.2.2.1 else 0) ≤ U64MAX
                                  then l.gasUsed + (if r.2.1 then r.2.2.2.1 else 0) else l.gasUsed,
                       logIndex := l.logIndex + (if r.2.1 then r.2.2.2.2 else 0) } rs := rfl

theorem bumpLbi_waiting (l : Lbi) (runs : List Run) : (bumpLbi l runs).waiting = l.waiting + runs.length := by
  induction runs generalizing l with
  | nil => simp [bumpLbi_nil]
  | cons r rs ih => rw [bumpLbi_cons, ih]; simp only [List.length_cons]; omega

theorem bumpLbi_ts (l : Lbi) (runs : List Run) : (bumpLbi l runs).ts = l.ts := by
  induction runs generalizing l with
  | nil => simp [bumpLbi_nil]
  | cons r rs ih => rw [bumpLbi_cons, ih]

theorem bumpLbi_hash (l : Lbi) (runs : List Run) : (bumpLbi l runs).hash = l.hash := by
  induction runs generalizing l with
  | nil => simp [bumpLbi_nil]
  | cons r rs ih => rw [bumpLbi_cons, ih]

theorem bumpLbi_logIndex (l : Lbi) (runs : List Run) :
    (bumpLbi l runs).logIndex = l.logIndex + (runs.map (fun r => if r.2.1 then r.2.2.2.2 else 0)).sum := by
  induction runs generalizing l with
  | nil => simp [bumpLbi_nil]
  | cons r rs ih => rw [bumpLbi_cons, ih]; simp only [List.map_cons, List.sum_cons]; omega

theorem bumpLbi_gasUsed (l : Lbi) (runs : List Run)
    (hfit : l.gasUsed + (runs.map (fun r => if r.2.1 then r.2.2.2.1 else 0)).sum ≤ U64MAX) :
    (bumpLbi l runs).gasUsed = l.gasUsed + (runs.map (fun r => if r.2.1 then r.2.2.2.1 else 0)).sum := by
  induction runs generalizing l with
  | nil => simp [bumpLbi_nil]
  | cons r rs ih =>
    simp only [List.map_cons, List.sum_cons] at hfit
    have h1 : l.gasUsed + (if r.2.1 then r.2.2.2.1 else 0) ≤ U64MAX := by omega
    rw [bumpLbi_cons, ih]
    · simp only [List.map_cons, List.sum_cons, if_pos h1]; omega
    · simp only [if_pos h1]; omega

/-! ### `applyEvents` keeps heights and the block under construction -/

theorem applyS_fields {n n' : Node} {expect : Nat} {tb : String} {st : Nat} {k : String} {v : Option String}
    (h : n.applyS expect tb st k v = some n') :
    n'.lbi = n.lbi ∧ n'.latest = n.latest ∧ n'.maxBlock = n.maxBlock := by
  unfold applyS at h
  split at h
  · cases h
  · split at h
    · split at h
      · simp only [Option.map_eq_some_iff] at h
        obtain ⟨x, _, rfl⟩ := h
        simp [setT]
      · simp only [Option.map_eq_some_iff] at h
        obtain ⟨x, _, rfl⟩ := h
        simp [setT]
    · split at h
      · split at h
        · cases h; simp [setB]
        · cases h
      · cases h

theorem applyEvents_fields {n n' : Node} {expect : Nat} {evs : List Ev}
    (h : applyEvents n expect evs = some n') :
    n'.lbi = n.lbi ∧ n'.latest = n.latest ∧ n'.maxBlock = n.maxBlock := by
  induction evs generalizing n with
  | nil => simp only [applyEvents] at h; cases h; simp
  | cons e rest ih =>
    cases e with
    | s tb st k v =>
      simp only [applyEvents] at h
      split at h
      · rename_i n1 h1
        have a := applyS_fields h1
        have b := ih h
        exact ⟨b.1.trans a.1, b.2.1.trans a.2.1, b.2.2.trans a.2.2⟩
      · cases h
    | x kind fs okRun succ gas logs => simp only [applyEvents] at h; exact ih h
    | other => simp only [applyEvents] at h; exact ih h

/-! ### `addTxs` -/

/-- the block info an accepted `addTxs` starts from -/
def l0 (n : Node) (ts : Nat) (hash : String) : Lbi :=
  if n.lbi.waiting = 0 then { waiting := 0, ts := ts, hash := hash, gasUsed := 0, logIndex := 0 } else n.lbi

theorem l0_waiting (n : Node) (ts : Nat) (hash : String) : (l0 n ts hash).waiting = n.lbi.waiting := by
  unfold l0; split <;> simp_all

theorem ite_reject_eq_ok {c : Prop} [Decidable c] {w : String} {x : Class} :
    ((if c then Class.reject w else x) = Class.ok) = (¬c ∧ x = Class.ok) := by
  split <;> simp [*]

/-- An error response of `addTxs` comes from the protocol check and leaves the node alone. -/
theorem addTxs_err {n : Node} {ts : Nat} {h : String} {idx : Nat} {txid : Option String} {evs : List Ev}
    {k : Option Nat} {e : String} (he : (n.addTxs ts h idx txid evs k).2 = .err e) :
    n.validateNextTx idx (normHash h n.nextHeight) n.nextHeight ts = some e ∧ (n.addTxs ts h idx txid evs k).1 = n := by
  cases hv : n.validateNextTx idx (normHash h n.nextHeight) n.nextHeight ts with
  | some e' =>
    simp only [addTxs, hv] at he ⊢
    simp only [Class.err.injEq] at he
    subst he
    refine ⟨?_, ?_⟩ <;> first | rfl | trivial
  | none =>
    simp only [addTxs, hv] at he
    exfalso
    repeat' (first | cases he | split at he)

/-- What an accepted `addTxs` guarantees. -/
theorem addTxs_ok {n : Node} {ts : Nat} {h : String} {idx : Nat} {txid : Option String} {evs : List Ev}
    {k : Option Nat} (hok : (n.addTxs ts h idx txid evs k).2 = .ok) :
    n.validateNextTx idx (normHash h n.nextHeight) n.nextHeight ts = none ∧
    txRuns evs ≠ [] ∧
    (∀ k', k = some k' → (txRuns evs).length = k') ∧
    (∀ r ∈ txRuns evs, envOk r.1 n.nextHeight ts (normHash h n.nextHeight) none = true) ∧
    (∀ r, (txRuns evs).head? = some r → envOk r.1 n.nextHeight ts (normHash h n.nextHeight) txid = true) ∧
    ∃ n', applyEvents n n.nextHeight evs = some n' ∧
      (n.addTxs ts h idx txid evs k).1 = { n' with lbi := bumpLbi (l0 n ts (normHash h n.nextHeight)) (txRuns evs) } := by
  cases hv : n.validateNextTx idx (normHash h n.nextHeight) n.nextHeight ts with
  | some e' =>
    simp only [addTxs, hv] at hok
    cases hok
  | none =>
    simp only [addTxs, hv] at hok ⊢
    simp only [apply_ite Prod.snd, ite_reject_eq_ok] at hok
    obtain ⟨h1, h2, h3, h4, h4b, h4c, hok⟩ := hok
    rw [if_neg h1, if_neg h2, if_neg h3, if_neg h4, if_neg h4b, if_neg h4c]
    cases h5 : applyEvents n n.nextHeight evs with
    | none => rw [h5] at hok; cases hok
    | some n' =>
      simp only []
      refine ⟨trivial, ?_, ?_, ?_, ?_, n', rfl, rfl⟩
      · intro hc; rw [hc] at h1; simp at h1
      · intro k' hk; subst hk; simpa using h2
      · simp only [Bool.not_eq_true', Bool.not_eq_false, List.all_eq_true] at h3
        exact h3
      · intro r hr; rw [hr] at h4; simpa using h4

/-! ### `finaliseOne` -/

theorem finaliseOne_err {n : Node} {ts : Nat} {h : String} {count : Nat} {evs : List Ev} {e : String}
    (he : (n.finaliseOne ts h count evs).2 = .err e) :
    n.validateNextTx count (normHash h n.nextHeight) n.nextHeight ts = some e ∧ (n.finaliseOne ts h count evs).1 = n := by
  cases hv : n.validateNextTx count (normHash h n.nextHeight) n.nextHeight ts with
  | some e' =>
    simp only [finaliseOne, hv] at he ⊢
    simp only [Class.err.injEq] at he
    subst he
    refine ⟨?_, ?_⟩ <;> first | rfl | trivial
  | none =>
    simp only [finaliseOne, hv] at he
    exfalso
    split at he
    · cases he
    split at he
    · cases he
    cases h5 : applyEvents n n.nextHeight evs with
    | none => rw [h5] at he; cases he
    | some n' =>
      rw [h5] at he
      simp only [apply_ite Prod.snd] at he
      repeat' (first | cases he | split at he)

theorem finaliseOne_ok {n : Node} {ts : Nat} {h : String} {count : Nat} {evs : List Ev}
    (hok : (n.finaliseOne ts h count evs).2 = .ok) :
    n.validateNextTx count (normHash h n.nextHeight) n.nextHeight ts = none ∧
    ∃ n', applyEvents n n.nextHeight evs = some n' ∧
      (n'.b .numberToHash).get n.nextHeight = some (normHash h n.nextHeight) ∧
      ((n'.b .block).get n.nextHeight).isSome ∧ ((n'.b .rawBlock).get n.nextHeight).isSome ∧
      (n'.t .hashToNumber).latest (normHash h n.nextHeight) = some (hexN 16 n.nextHeight) ∧
      (n.finaliseOne ts h count evs).1.t = n'.t ∧ (n.finaliseOne ts h count evs).1.b = n'.b ∧
      (n.finaliseOne ts h count evs).1.lbi = {} ∧ poolFreshAt n' n.nextHeight = true := by
  cases hv : n.validateNextTx count (normHash h n.nextHeight) n.nextHeight ts with
  | some e' =>
    simp only [finaliseOne, hv] at hok
    cases hok
  | none =>
    refine ⟨rfl, ?_⟩
    simp only [finaliseOne, hv] at hok ⊢
    split at hok
    · cases hok
    rename_i hfin
    rw [if_neg hfin]
    split at hok
    · cases hok
    rename_i hnps
    rw [if_neg hnps]
    cases h5 : applyEvents n n.nextHeight evs with
    | none => rw [h5] at hok; cases hok
    | some n' =>
      rw [h5] at hok
      simp only [] at hok ⊢
      simp only [apply_ite Prod.snd, ite_reject_eq_ok] at hok
      obtain ⟨h1, h2, h3, h4, _⟩ := hok
      rw [if_neg h1, if_neg h2, if_neg h3, if_neg h4]
      refine ⟨n', rfl, ?_, ?_, ?_, ?_, rfl, rfl, rfl, by simpa using h4⟩
      · exact Decidable.not_not.mp h1
      · cases hb : (n'.b .block).get n.nextHeight with
        | none => exact absurd (Or.inl (by simp [hb])) h2
        | some _ => rfl
      · cases hb : (n'.b .rawBlock).get n.nextHeight with
        | none => exact absurd (Or.inr (by simp [hb])) h2
        | some _ => rfl
      · exact Decidable.not_not.mp h3

/-! ### the pending pool: drained entries leave it, a finalise leaves no expired entry -/

theorem drainCheck_cases (n : Node) (sender : String) (start visited : Nat) (r : Node × Class) :
    drainCheck n sender start visited r = r ∨
    (r.2 = .ok ∧ drainCheck n sender start visited r = (n, .reject "drain-kept")) := by
  obtain ⟨n', c⟩ := r
  cases c with
  | ok =>
    by_cases hg : drainGone n' sender start visited = true
    · left; show (if _ then _ else _) = _; rw [if_pos hg]
    · right; refine ⟨rfl, ?_⟩; show (if _ then _ else _) = _; rw [if_neg hg]
  | err e => exact Or.inl rfl
  | panic => exact Or.inl rfl
  | reject w => exact Or.inl rfl

/-- an accepted `drainCheck` is the accepted `addTxs` answer, and no visited nonce has a pending row -/
theorem drainCheck_ok {n : Node} {sender : String} {start visited : Nat} {r : Node × Class}
    (hok : (drainCheck n sender start visited r).2 = .ok) :
    r.2 = .ok ∧ drainCheck n sender start visited r = r ∧ drainGone r.1 sender start visited = true := by
  obtain ⟨n', c⟩ := r
  cases c with
  | ok =>
    by_cases hg : drainGone n' sender start visited = true
    · refine ⟨rfl, ?_, hg⟩; show (if _ then _ else _) = _; rw [if_pos hg]
    · exfalso
      have : drainCheck n sender start visited (n', .ok) = (n, .reject "drain-kept") := by
        show (if _ then _ else _) = _; rw [if_neg hg]
      rw [this] at hok; cases hok
  | err e => cases hok
  | panic => cases hok
  | reject w => cases hok

theorem drainCheck_fst_of_ne_ok {n : Node} {sender : String} {start visited : Nat} {r : Node × Class}
    (hr : r.2 ≠ .ok → r.1 = n) (hne : (drainCheck n sender start visited r).2 ≠ .ok) :
    (drainCheck n sender start visited r).1 = n := by
  rcases drainCheck_cases n sender start visited r with e | ⟨_, e⟩
  · rw [e] at hne ⊢; exact hr hne
  · rw [e]

/-- whatever holds of the node before and of the node `addTxs` returns holds of the node `drainCheck` returns -/
theorem drainCheck_fst_ind {P : Node → Prop} {n : Node} {sender : String} {start visited : Nat} {r : Node × Class}
    (hn : P n) (hr : P r.1) : P (drainCheck n sender start visited r).1 := by
  rcases drainCheck_cases n sender start visited r with e | ⟨_, e⟩
  · rw [e]; exact hr
  · rw [e]; exact hn

theorem drainGone_spec {n : Node} {sender : String} {start visited : Nat}
    (h : drainGone n sender start visited = true) :
    ∀ k, k < visited → (n.t .pending).latest (sender ++ hexN 16 (start + k)) = none := by
  intro k hk
  unfold drainGone at h
  rw [List.all_eq_true] at h
  have := h k (List.mem_range.mpr hk)
  simpa using this

/-- what `poolFreshAt` says: every readable row of the pending table was parked fewer than 10 blocks before `bn` -/
theorem poolFreshAt_spec {n : Node} {bn : Nat} (h : poolFreshAt n bn = true) :
    ∀ k v, (n.t .pending).latest k = some v → ∃ pb, parkedBlock v = some pb ∧ bn < pb + FUTURE_BLOCKS := by
  intro k v hl
  unfold poolFreshAt at h
  rw [List.all_eq_true] at h
  have hmem : k ∈ (n.t .pending).db.keys ++ (n.t .pending).cache.keys := by
    rw [List.mem_append]
    unfold Table.latest at hl
    cases hc : AMap.get? (n.t .pending).cache k with
    | some hh =>
      right
      apply Decidable.byContradiction
      intro hno
      rw [(AMap.get?_eq_none_iff _ _).mpr hno] at hc
      cases hc
    | none =>
      left
      rw [hc] at hl
      apply Decidable.byContradiction
      intro hno
      rw [(AMap.get?_eq_none_iff _ _).mpr hno] at hl
      cases hl
  have := h k hmem
  rw [hl] at this
  simp only at this
  cases hp : parkedBlock v with
  | none => rw [hp] at this; cases this
  | some pb =>
    rw [hp] at this
    exact ⟨pb, rfl, by simpa using this⟩

/-- `addRawTx` at the account nonce: `addTxs` for `1 +` the live successors, then the drain check -/
theorem addRawTx_exec (n : Node) (ts : Nat) (hash0 : String) (idx : Nat) (txid : String) (sender : String)
    (evs : List Ev) :
    n.addRawTx ts hash0 idx txid (.ok sender (n.accountNonce sender)) evs =
      drainCheck n sender (n.accountNonce sender + 1)
        (drainPlan n sender n.nextHeight FUTURE_NONCES (n.accountNonce sender + 1)).2
        (n.addTxs ts hash0 idx (some txid) evs
          (some (1 + (drainPlan n sender n.nextHeight FUTURE_NONCES (n.accountNonce sender + 1)).1))) := by
  simp only [addRawTx, ne_eq, not_true_eq_false, if_false]

/-- an accepted `addTxs` recorded no write to a block-keyed table -/
theorem addTxs_ok_noBlock {n : Node} {ts : Nat} {h : String} {idx : Nat} {txid : Option String} {evs : List Ev}
    {k : Option Nat} (hok : (n.addTxs ts h idx txid evs k).2 = .ok) : noBlockWrites evs = true := by
  cases hv : n.validateNextTx idx (normHash h n.nextHeight) n.nextHeight ts with
  | some e' =>
    simp only [addTxs, hv] at hok
    cases hok
  | none =>
    simp only [addTxs, hv] at hok
    simp only [apply_ite Prod.snd, ite_reject_eq_ok] at hok
    obtain ⟨_, _, _, _, h4b, _⟩ := hok
    simpa using h4b

/-- an accepted `addTxs` recorded no `set` of a row of the pending table -/
theorem addTxs_ok_noPendingSet {n : Node} {ts : Nat} {h : String} {idx : Nat} {txid : Option String} {evs : List Ev}
    {k : Option Nat} (hok : (n.addTxs ts h idx txid evs k).2 = .ok) : noPendingSet evs = true := by
  cases hv : n.validateNextTx idx (normHash h n.nextHeight) n.nextHeight ts with
  | some e' =>
    simp only [addTxs, hv] at hok
    cases hok
  | none =>
    simp only [addTxs, hv] at hok
    simp only [apply_ite Prod.snd, ite_reject_eq_ok] at hok
    obtain ⟨_, _, _, _, _, h4c, _⟩ := hok
    simpa using h4c

/-- an accepted `finaliseOne` recorded no `set` of a row of the pending table -/
theorem finaliseOne_ok_noPendingSet {n : Node} {ts : Nat} {h : String} {count : Nat} {evs : List Ev}
    (hok : (n.finaliseOne ts h count evs).2 = .ok) : noPendingSet evs = true := by
  cases hv : n.validateNextTx count (normHash h n.nextHeight) n.nextHeight ts with
  | some e' =>
    simp only [finaliseOne, hv] at hok
    cases hok
  | none =>
    simp only [finaliseOne, hv] at hok
    split at hok
    · cases hok
    split at hok
    · cases hok
    · rename_i hnps; simpa using hnps

/-- an accepted `finaliseOne` recorded only block-table rows, the hash-index row of its block and pool entries -/
theorem finaliseOne_ok_finOnly {n : Node} {ts : Nat} {h : String} {count : Nat} {evs : List Ev}
    (hok : (n.finaliseOne ts h count evs).2 = .ok) : finOnly (normHash h n.nextHeight) evs = true := by
  cases hv : n.validateNextTx count (normHash h n.nextHeight) n.nextHeight ts with
  | some e' =>
    simp only [finaliseOne, hv] at hok
    cases hok
  | none =>
    simp only [finaliseOne, hv] at hok
    split at hok
    · cases hok
    · rename_i hfin; simpa using hfin

end Node
end Brc20
