import Brc20.Model.AMap
set_option linter.unusedSectionVars false

namespace Brc20.AMap
variable {K V : Type} [DecidableEq K]

@[simp] theorem get?_nil (k : K) : get? ([] : AMap K V) k = none := rfl

theorem get?_cons (p : K × V) (m : AMap K V) (k : K) :
    get? (p :: m) k = if p.1 = k then some p.2 else get? m k := by
  obtain ⟨a, b⟩ := p; simp [get?]

theorem get?_erase (m : AMap K V) (k k' : K) :
    get? (erase m k) k' = if k' = k then none else get? m k' := by
  induction m with
  | nil => simp [erase]
  | cons p rest ih =>
    unfold erase at *
    simp only [List.filter_cons]
    split <;> simp_all [get?_cons] <;> grind

theorem get?_insert (m : AMap K V) (k : K) (v : V) (k' : K) :
    get? (insert m k v) k' = if k' = k then some v else get? m k' := by
  simp only [insert, get?_cons, get?_erase]
  by_cases h : k' = k
  · subst h; simp
  · have : ¬ k = k' := fun e => h e.symm
    simp [h, this]

theorem get?_eq_none_iff (m : AMap K V) (k : K) : get? m k = none ↔ k ∉ keys m := by
  induction m with
  | nil => simp [keys]
  | cons p rest ih =>
    simp only [get?_cons, keys, List.map_cons, List.mem_cons, not_or]
    by_cases h : p.1 = k
    · simp [h]
    · simp only [h, if_false]
      constructor
      · intro h1; exact ⟨fun e => h e.symm, by simpa [keys] using ih.mp h1⟩
      · intro h1; exact ih.mpr (by simpa [keys] using h1.2)

theorem mem_of_get? {m : AMap K V} {k : K} {v : V} (h : get? m k = some v) : (k, v) ∈ m := by
  induction m with
  | nil => simp at h
  | cons p rest ih =>
    rw [get?_cons] at h
    by_cases h1 : p.1 = k
    · simp [h1] at h; subst h1; subst h; simp
    · simp [h1] at h; exact List.mem_cons_of_mem _ (ih h)

theorem get?_of_mem_nodup {m : AMap K V} {k : K} {v : V} (nd : Nodup m) (h : (k, v) ∈ m) : get? m k = some v := by
  induction m with
  | nil => simp at h
  | cons p rest ih =>
    simp only [Nodup, keys, List.map_cons, List.nodup_cons] at nd
    rw [get?_cons]
    rcases List.mem_cons.mp h with h1 | h1
    · subst h1; simp
    · have : p.1 ≠ k := by
        intro e; apply nd.1; rw [e]; exact List.mem_map_of_mem (f := (·.1)) h1
      simp [this]; exact ih nd.2 h1

theorem keys_erase_subset (m : AMap K V) (k : K) : ∀ x ∈ keys (erase m k), x ∈ keys m ∧ x ≠ k := by
  intro x hx
  simp only [keys, erase, List.mem_map, List.mem_filter] at hx
  obtain ⟨p, ⟨hp, hne⟩, rfl⟩ := hx
  exact ⟨List.mem_map_of_mem (f := (·.1)) hp, by simpa using hne⟩

theorem nodup_erase {m : AMap K V} (nd : Nodup m) (k : K) : Nodup (erase m k) := by
  unfold Nodup keys erase at *
  exact (List.Nodup.sublist (List.Sublist.map _ List.filter_sublist) nd)

theorem nodup_insert {m : AMap K V} (nd : Nodup m) (k : K) (v : V) : Nodup (insert m k v) := by
  unfold insert
  simp only [Nodup, keys, List.map_cons, List.nodup_cons]
  refine ⟨?_, nodup_erase nd k⟩
  intro h
  exact (keys_erase_subset m k k h).2 rfl

end Brc20.AMap
