/-
Node-level simulation: every versioned table of the node refines its plain per-key-log specification.
-/
import Brc20.Model.Node
import Brc20.Proofs.Table
import Brc20.Proofs.BlockDb
set_option linter.unusedSectionVars false

namespace Brc20
open Node

/-- every table of the node is in simulation with its ghost specification -/
structure NodeSim (n : Node) (g : TId → TSpec String String) : Prop where
  sim : ∀ i, Table.Sim Node.W (n.t i) (g i)

/-- the in-memory latest height, when present, is the newest row of the hash table, and no two rows of one
block table live under one number -/
structure HeightInv (n : Node) : Prop where
  latest_is_last : ∀ h x, n.latest = some (h, x) → (n.b .numberToHash).lastKey = some h
  nodup : ∀ i, AMap.Nodup (n.b i).db ∧ AMap.Nodup (n.b i).cache

namespace Node

theorem mem_allTIds (i : TId) : i ∈ allTIds := by cases i <;> decide

theorem nodup_allTIds : allTIds.Nodup := by decide

/-- `reorgTables` only replaces versioned tables. -/
theorem reorgTables_frame (target : Nat) (l : List TId) (n n1 : Node) (h : reorgTables n target l = some n1) :
    n1.b = n.b ∧ n1.latest = n.latest ∧ n1.lbi = n.lbi ∧ n1.maxBlock = n.maxBlock := by
  induction l generalizing n with
  | nil => simp only [reorgTables, Option.some.injEq] at h; subst h; exact ⟨rfl, rfl, rfl, rfl⟩
  | cons i rest ih =>
    simp only [reorgTables] at h
    cases hr : (n.t i).reorg W target with
    | none => rw [hr] at h; cases h
    | some t' =>
      rw [hr] at h
      exact ih (n.setT i t') h

/-- Over a duplicate-free list of table ids, `reorgTables` replaces each listed table by its own `Table.reorg`
(the tables are independent: `setT` on `i` does not touch `j ≠ i`). -/
theorem reorgTables_spec (target : Nat) (f : TId → Table String String) (l : List TId) (nd : l.Nodup) (n : Node)
    (hf : ∀ i ∈ l, (n.t i).reorg W target = some (f i)) :
    ∃ n1, reorgTables n target l = some n1 ∧ ∀ j, n1.t j = if j ∈ l then f j else n.t j := by
  induction l generalizing n with
  | nil => exact ⟨n, rfl, fun j => by simp⟩
  | cons i rest ih =>
    rw [List.nodup_cons] at nd
    have hi := hf i List.mem_cons_self
    have hrest : ∀ j ∈ rest, ((n.setT i (f i)).t j).reorg W target = some (f j) := by
      intro j hj
      have hne : j ≠ i := fun e => nd.1 (e ▸ hj)
      simp only [setT, hne, if_false]
      exact hf j (List.mem_cons_of_mem _ hj)
    obtain ⟨n1, e1, e2⟩ := ih nd.2 (n.setT i (f i)) hrest
    refine ⟨n1, ?_, ?_⟩
    · simp only [reorgTables, hi]; exact e1
    · intro j
      rw [e2 j]
      by_cases hj : j ∈ rest
      · simp [hj]
      · by_cases hji : j = i
        · subst hji; simp [hj, setT]
        · simp [hj, hji, setT]

/-- `reorgTables` over all twelve tables, when each table's own `reorg` succeeds. -/
theorem reorgTables_all (target : Nat) (n : Node) (f : TId → Table String String)
    (hf : ∀ i, (n.t i).reorg W target = some (f i)) :
    ∃ n1, reorgTables n target allTIds = some n1 ∧ (∀ j, n1.t j = f j) ∧
      n1.b = n.b ∧ n1.latest = n.latest ∧ n1.lbi = n.lbi ∧ n1.maxBlock = n.maxBlock := by
  obtain ⟨n1, e1, e2⟩ := reorgTables_spec target f allTIds nodup_allTIds n (fun i _ => hf i)
  refine ⟨n1, e1, ?_, reorgTables_frame target allTIds n n1 e1⟩
  intro j
  rw [e2 j]; simp [mem_allTIds]

/-- the refusal condition of `reorg` -/
def Refused (n : Node) (target : Nat) : Prop :=
  n.lbi.waiting ≠ 0 ∨ target > n.latestHeight ∨ n.latestHeight - target > W ∨ n.maxBlock.getD 0 > W + target

/-- what an accepted `reorg` computes -/
def reorgBody (n : Node) (target : Nat) : Node × Class :=
  match reorgTables n target allTIds with
  | none => (n, .panic)
  | some n1 => (({ n1 with b := fun i => (n1.b i).reorg target } : Node).commitAll, .ok)

theorem reorg_of_not_refused (n : Node) (target : Nat) (h : ¬ Refused n target) :
    n.reorg target = reorgBody n target := by
  simp only [Refused, not_or] at h
  obtain ⟨h1, h2, h3, h4⟩ := h
  unfold Node.reorg reorgBody
  simp only [h1, h2, h3, h4, if_false]
  cases reorgTables n target allTIds <;> rfl

theorem reorg_refused (n : Node) (target : Nat) (h : Refused n target) : ∃ e, (n.reorg target).2 = .err e := by
  unfold Node.reorg
  by_cases h1 : n.lbi.waiting ≠ 0
  · exact ⟨_, by rw [if_pos h1]⟩
  · rw [if_neg h1]
    simp only []
    by_cases h2 : target > n.latestHeight
    · exact ⟨_, by rw [if_pos h2]⟩
    · rw [if_neg h2]
      by_cases h3 : n.latestHeight - target > W
      · exact ⟨_, by rw [if_pos h3]⟩
      · rw [if_neg h3]
        by_cases h4 : n.maxBlock.getD 0 > W + target
        · exact ⟨_, by rw [if_pos h4]⟩
        · exact absurd h (by simp only [Refused, not_or]; exact ⟨h1, h2, h3, h4⟩)

theorem reorgBody_not_err (n : Node) (target : Nat) (e : String) : (reorgBody n target).2 ≠ .err e := by
  unfold reorgBody
  cases reorgTables n target allTIds <;> simp

/-- an `ok` answer means: not refused, and the table phase did not panic -/
theorem reorg_ok (n : Node) (target : Nat) (hok : (n.reorg target).2 = .ok) :
    ¬ Refused n target ∧ ∃ n1, reorgTables n target allTIds = some n1 ∧
      n.reorg target = (({ n1 with b := fun i => (n1.b i).reorg target } : Node).commitAll, .ok) := by
  have hnr : ¬ Refused n target := by
    intro hr
    obtain ⟨e, he⟩ := reorg_refused n target hr
    rw [he] at hok; cases hok
  refine ⟨hnr, ?_⟩
  rw [reorg_of_not_refused n target hnr] at hok ⊢
  unfold reorgBody at hok ⊢
  cases hr : reorgTables n target allTIds with
  | none => rw [hr] at hok; cases hok
  | some n1 => exact ⟨n1, rfl, rfl⟩

/-- With every table in simulation and the target inside every table's window, the table phase of `reorg`
succeeds and leaves every table in simulation with its log truncated at the target. -/
theorem reorgTables_sim (n : Node) (g : TId → TSpec String String) (hs : NodeSim n g) (target : Nat)
    (hwin : ∀ i, (g i).maxEver ≤ target + W ∧ target ≤ (g i).maxEver) :
    ∃ n1, reorgTables n target allTIds = some n1 ∧
      (∀ i, (n.t i).reorg W target = some (n1.t i)) ∧
      (∀ i, Table.Sim W (n1.t i) ((g i).step (.reorg target))) ∧
      n1.b = n.b ∧ n1.latest = n.latest ∧ n1.lbi = n.lbi ∧ n1.maxBlock = n.maxBlock := by
  have hstep : ∀ i, ∃ t', (n.t i).reorg W target = some t' ∧ Table.Sim W t' ((g i).step (.reorg target)) :=
    fun i => Table.step_sim (hs.sim i) (.reorg target) (hwin i)
  let f : TId → Table String String := fun i => ((n.t i).reorg W target).getD (n.t i)
  have hf : ∀ i, (n.t i).reorg W target = some (f i) := by
    intro i
    obtain ⟨t', e, _⟩ := hstep i
    simp [f, e]
  obtain ⟨n1, e1, e2, e3⟩ := reorgTables_all target n f hf
  refine ⟨n1, e1, ?_, ?_, e3⟩
  · intro i; rw [e2 i]; exact hf i
  · intro i
    obtain ⟨t', e, s'⟩ := hstep i
    rw [e2 i]
    have : f i = t' := by simp [f, e]
    rw [this]; exact s'

end Node
end Brc20
