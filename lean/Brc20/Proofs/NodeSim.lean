/-
Node-level simulation: every versioned table of the node refines its plain per-key-log specification.
-/
import Brc20.Model.Node
import Brc20.Proofs.Table
set_option linter.unusedSectionVars false

namespace Brc20
open Node

/-- every table of the node is in simulation with its ghost specification -/
structure NodeSim (n : Node) (g : TId → TSpec String String) : Prop where
  sim : ∀ i, Table.Sim Node.W (n.t i) (g i)

/-- the in-memory latest height, when present, is the newest row of the hash table, and no two rows of one
block table live under one number -/
structure HeightInv (n : Node) : Prop where
  latest_is_last : ∀ h x, n.latest = some (h, x) → (n.b .numberToHash).lastKey = some h
  nodup : ∀ i, AMap.Nodup (n.b i).db ∧ AMap.Nodup (n.b i).cache

end Brc20
