import Brc20.Model.Sim
import Brc20.Proofs.AMap

namespace Brc20
namespace Node

/-- the round's `nonces` map says: account nonce + calls of the round made so far by that caller -/
def NoncesInv (acct : String → Nat) (m : AMap String Nat) (seen : List String) : Prop :=
  ∀ c, nonceEntry acct m c = acct c + seen.count c

theorem noncesInv_empty (acct : String → Nat) : NoncesInv acct [] [] := by
  intro c; simp [nonceEntry]

theorem noncesInv_step {acct : String → Nat} {m : AMap String Nat} {seen : List String}
    (h : NoncesInv acct m seen) (c : String) :
    NoncesInv acct (m.insert c (nonceEntry acct m c + 1)) (c :: seen) := by
  intro c'
  unfold nonceEntry
  rw [AMap.get?_insert]
  by_cases e : c' = c
  · subst e
    simp only [if_true, List.count_cons_self]
    have := h c'
    unfold nonceEntry at this
    omega
  · have e' : ¬ (c == c') = true := by simpa using fun x => e x.symm
    simp only [e, if_false, List.count_cons, e']
    have := h c'
    unfold nonceEntry at this
    simpa using this

/-- The map-based loop of the Rust hands out exactly "account nonce + earlier calls of the same caller". -/
theorem roundNoncesImpl_eq (acct : String → Nat) (cs : List String) :
    ∀ (m : AMap String Nat) (seen : List String), NoncesInv acct m seen →
      roundNoncesImpl acct m cs = roundNonces acct seen cs := by
  induction cs with
  | nil => intro m seen _; rfl
  | cons c cs ih =>
    intro m seen h
    simp only [roundNoncesImpl, roundNonces]
    rw [ih _ _ (noncesInv_step h c), h c]

/-- One complete round (no run refused by revm, at most `ncalls` runs left in the round): the model's check is the
conjunction of the per-call environment checks against the plain nonce rule. -/
theorem multiCheckAux_round (n : Node) (ncalls : Nat) (runs : List (List (String × String) × Bool)) :
    ∀ (m : AMap String Nat) (k : Nat) (seen : List String),
      NoncesInv n.accountNonce m seen → (∀ r ∈ runs, r.2 = true) → k + runs.length ≤ ncalls →
      multiCheckAux n ncalls m k runs =
        ((runs.map (·.1)).zip (roundNonces n.accountNonce seen (runs.map (fun r => field r.1 "caller")))).all
          (fun p => simMultiEnvOk n p.1 p.2) := by
  induction runs with
  | nil => intro m k seen _ _ _; rfl
  | cons r rest ih =>
    intro m k seen h hok hlen
    obtain ⟨fs, okRun⟩ := r
    have hr : okRun = true := hok (fs, okRun) (List.mem_cons_self ..)
    subst hr
    simp only [List.length_cons] at hlen
    simp only [multiCheckAux, List.map_cons, roundNonces, List.zip_cons_cons, List.all_cons, h (field fs "caller")]
    congr 1
    by_cases hk : k + 1 < ncalls
    · simp only [hk, decide_true, Bool.and_self, if_true]
      have := ih (m.insert (field fs "caller") (nonceEntry n.accountNonce m (field fs "caller") + 1)) (k + 1)
        (field fs "caller" :: seen) (noncesInv_step h _) (fun r hr => hok r (List.mem_cons_of_mem _ hr)) (by omega)
      rw [h (field fs "caller")] at this
      exact this
    · have : rest = [] := by
        cases rest with
        | nil => rfl
        | cons a b => simp only [List.length_cons] at hlen; omega
      subst this
      simp [hk, multiCheckAux]

end Node
end Brc20
