/-
Crash in the middle of a table commit: any prefix of the persistent writes followed by a reopen is repaired exactly by
a rollback to a height at or below the last completed commit (and inside the window).

Two statements needed an extra hypothesis (both are false without it, see the notes at each theorem and the
machine-checked counterexample `crash_in_reorg_not_recoverable` at the end of the file):

* `crash_recoverable` needs `CacheAhead t` ("no cached history is behind the persisted one").  It holds in every
  state reached through the API (`cacheAhead_run`; `crash_recoverable_run` is the resulting unconditional statement
  for reachable states) but it is not a consequence of `Sim`, which also relates the half-way state inside `reorg`.
* `crash_in_reorg_recoverable` needs `hrow`: if the crash separates the two writes of a key (`i` odd, key number
  `i / 2` of the cache) whose *truncated* history is old - so that its history row has just been deleted - then that
  key's value row must already hold the rolled-back value.  Without it the key keeps the rolled-back-over value for
  ever: no later `reorg` visits a key that has no history row.  This is a genuine crash window of `reorg`.
-/
import Brc20.Proofs.Table
import Brc20.Proofs.TableScan
import Brc20.Proofs.CrashLemmas
set_option linter.unusedSectionVars false
-- `hc : ColsNodup t` and `hn : n ≤ s.maxEver` are kept for a uniform interface; the proofs do not need them
set_option linter.unusedVariables false

namespace Brc20.Table
variable {K V : Type} [DecidableEq K] [DecidableEq V]
open Hist

/-- Core of `crash_recoverable`, with the weakest hypothesis on the value rows: only the key the crash caught
between its two writes matters, and only if its history is old (its history row was deleted, not rewritten). -/
theorem crash_recoverable_of_row {W : Nat} {t : Table K V} {s : TSpec K V} (h : Sim W t s) (b i n : Nat)
    (hw : s.maxEver ≤ n + W) (hb : b ≤ n + W + 1)
    (hdur : ∀ k, (s.cur k).valAt n = (s.dur k).valAt n)
    (hrow : ∀ k h0, i % 2 = 1 → t.cache[i / 2]? = some (k, h0) → h0.isOld W b = true → t.db.get? k = h0.latest) :
    ∃ t', (t.crashCommit W b i).reorg W n = some t' ∧ ∀ k, t'.latest k = s.readAt k n := by
  have hcv : ∀ k h0, t.cache.get? k = some h0 → valAt h0 n = some (s.readAt k n) := by
    intro k h0 hg
    rw [← eff_cached hg, h.cur_eq k n hw]; exact valAt_cur_readAt h k n
  have hold : ∀ k h0, t.cache.get? k = some h0 → h0.isOld W b = true → h0.latest = s.readAt k n := by
    intro k h0 hg ho
    have h1 := isOld_const' (h.inv.cache_ok k h0 hg) ho hb
    rw [hcv k h0 hg] at h1
    simp only [Option.some.injEq] at h1
    exact h1.symm
  obtain ⟨hc0, hr⟩ := crash_retrieve (W := W) (b := b) (i := i) (n := n) h.inv.cache_nodup
    (fun k => s.readAt k n)
    (fun k h0 hg => (h.inv.cache_ok k h0 hg).sorted)
    (fun k h0 hg => (h.inv.cdb_ok k h0 hg).1.sorted)
    (fun k => by rw [h.dur_eq k n hw, ← hdur k]; exact valAt_cur_readAt h k n)
    hcv hold
    (fun k h0 hi hg ho => by
      have hm : (k, h0) ∈ t.cache := List.mem_of_getElem? hg
      rw [hrow k h0 hi hg ho]
      exact hold k h0 (AMap.get?_of_mem_nodup h.inv.cache_nodup hm) ho)
  exact reorg_reads hc0 _ (fun k => (hr k).1) (fun k => (hr k).2)

/-- **Crash-recoverable commit.**  `t` is in simulation with the plain specification `s`.  The process dies after
the first `i` persistent writes of `commit b` (any `i`, including 0 and all of them) and the directory is reopened
(`crashCommit`).  Let `n` be a rollback target inside the window (`maxEver ≤ n + W`, `n ≤ maxEver`, also w.r.t. the
commit block: `b ≤ n + W + 1`) that is *durable*: nothing written since the last completed commit is visible at `n`
(`valAt (cur k) n = valAt (dur k) n` for every key - all uncommitted writes carry stamps above `n`).
Then `reorg n` on the reopened table does not panic and every key reads exactly the value it had at the end of
block `n`.

**Added hypothesis** `ha : CacheAhead t` (no persisted stamp of a key lies above the newest cached stamp of that
key).  It is an invariant of the API (`cacheAhead_step`, `cacheAhead_run`) but not part of `Sim`, and the statement
is false without it.  Counterexample (`W = 10`): `cache = [(k, [(0,none),(5,v1)])]`,
`cdb = [(k, [(0,none),(5,v1),(7,v2)])]`, `db = [(k, v2)]`, in simulation with `cur k = [(0,none),(5,v1)]`,
`dur k = [(0,none),(5,v1),(7,v2)]`, `top = maxEver = 7`; `b = 16`, `i = 1`, `n = 5`: the cached history is old at 16,
the crash deletes the history row and leaves the value row `v2`; `reorg 5` then has no key to visit and `k` reads
`v2`, not `v1`.  (This is the state *inside* a `reorg 6`, between load and commit.) -/
theorem crash_recoverable {W : Nat} {t : Table K V} {s : TSpec K V} (h : Sim W t s) (hc : ColsNodup t)
    (ha : CacheAhead t) (b i n : Nat)
    (hw : s.maxEver ≤ n + W) (hn : n ≤ s.maxEver) (hb : b ≤ n + W + 1)
    (hdur : ∀ k, (s.cur k).valAt n = (s.dur k).valAt n) :
    ∃ t', (t.crashCommit W b i).reorg W n = some t' ∧ ∀ k, t'.latest k = s.readAt k n := by
  apply crash_recoverable_of_row h b i n hw hb hdur
  intro k h0 _ hg ho
  have hm : (k, h0) ∈ t.cache := List.mem_of_getElem? hg
  exact ha.row h hw hb hdur (AMap.get?_of_mem_nodup h.inv.cache_nodup hm) ho

/-- `crash_recoverable` for every state reached from the empty table by a legal history: no extra hypothesis. -/
theorem crash_recoverable_run {W : Nat} (ops : List (TOp K V)) (hl : TSpec.legalRun W TSpec.init ops) :
    ∃ t, (Table.empty : Table K V).run W ops = some t ∧
      ∀ b i n, (TSpec.init.run ops).maxEver ≤ n + W → b ≤ n + W + 1 →
        (∀ k, (((TSpec.init : TSpec K V).run ops).cur k).valAt n = ((TSpec.init.run ops).dur k).valAt n) →
        ∃ t', (t.crashCommit W b i).reorg W n = some t' ∧ ∀ k, t'.latest k = (TSpec.init.run ops).readAt k n := by
  obtain ⟨t, e, hs, ha⟩ := cacheAhead_run (sim_init W) cacheAhead_empty ops hl
  refine ⟨t, e, ?_⟩
  intro b i n hw hb hdur
  apply crash_recoverable_of_row hs b i n hw hb hdur
  intro k h0 _ hg ho
  have hm : (k, h0) ∈ t.cache := List.mem_of_getElem? hg
  exact ha.row hs hw hb hdur (AMap.get?_of_mem_nodup hs.inv.cache_nodup hm) ho

/-- The same for a crash in the middle of the commit that ends a `reorg m` (after the in-memory truncation): a
later rollback to any `n ≤ m` inside the window repairs it.

**Added hypothesis** `hrow`: if the crash falls between the two writes of a key (`i` odd; the key is number `i / 2`
of the loaded cache) whose truncated history is old at `m` - its history row has been deleted - then its value row
already holds the value `commit m` was about to write.  The statement is false without it
(`crash_in_reorg_not_recoverable` below): `set 5 k v1; commit 6; set 17 k v2; commit 18; reorg 16` with `W = 10`
truncates `k`'s history to `[(5,v1)]`, which is old at 16; a crash after the deletion of the history row leaves the
value row `v2` with no history row, and every later `reorg` skips `k`. -/
theorem crash_in_reorg_recoverable {W : Nat} {t : Table K V} {s : TSpec K V} (h : Sim W t s) (hc : ColsNodup t)
    (m i n : Nat) (hm : s.maxEver ≤ m + W) (hm' : m ≤ s.maxEver) (hnm : n ≤ m)
    (hw : s.maxEver ≤ n + W)
    (hdur : ∀ k, (s.cur k).valAt n = (s.dur k).valAt n) (tl : Table K V)
    (hl : t.reorgLoad m t.reorgKeys = some tl)
    (hrow : ∀ k h0, i % 2 = 1 → tl.cache[i / 2]? = some (k, h0) → h0.isOld W m = true →
      tl.db.get? k = h0.latest) :
    ∃ t', (tl.crashCommit W m i).reorg W n = some t' ∧ ∀ k, t'.latest k = s.readAt k n := by
  obtain ⟨t1, e1, e2, e3, nd1, hk⟩ := reorg_load h m hm
  rw [hl] at e1
  cases e1
  -- the loaded cache: truncated effective histories
  have hcf : ∀ k h0, tl.cache.get? k = some h0 →
      h0 = (eff t k).filter (fun e => decide (e.1 ≤ m)) ∧ h0 ≠ [] := by
    intro k h0 hg
    rcases hk k with ⟨hg', hne⟩ | ⟨hg', _⟩
    · rw [hg'] at hg; cases hg; exact ⟨rfl, hne⟩
    · rw [hg'] at hg; cases hg
  have hcv : ∀ k h0, tl.cache.get? k = some h0 → valAt h0 n = some (s.readAt k n) := by
    intro k h0 hg
    obtain ⟨rfl, _⟩ := hcf k h0 hg
    rw [valAt_filter (eff_ok h.inv k).sorted, Nat.min_eq_left hnm, h.cur_eq k n hw]
    exact valAt_cur_readAt h k n
  have hold : ∀ k h0, tl.cache.get? k = some h0 → h0.isOld W m = true → h0.latest = s.readAt k n := by
    intro k h0 hg ho
    obtain ⟨e, hne⟩ := hcf k h0 hg
    have o : Ok h0 (min s.top m) := by rw [e] at hne ⊢; exact ok_filter (eff_ok h.inv k) m hne
    have h1 := isOld_const' o ho (by omega : m ≤ n + W + 1)
    rw [hcv k h0 hg] at h1
    simp only [Option.some.injEq] at h1
    exact h1.symm
  have hd : ∀ k, disk tl k = disk t k := by
    intro k; unfold disk; rw [e2, e3]
  obtain ⟨hc0, hr⟩ := crash_retrieve (W := W) (b := m) (i := i) (n := n) nd1
    (fun k => s.readAt k n)
    (fun k h0 hg => by
      obtain ⟨rfl, _⟩ := hcf k h0 hg
      exact sorted_filter (eff_ok h.inv k).sorted _)
    (fun k h0 hg => by rw [e3] at hg; exact (h.inv.cdb_ok k h0 hg).1.sorted)
    (fun k => by rw [hd k, h.dur_eq k n hw, ← hdur k]; exact valAt_cur_readAt h k n)
    hcv hold
    (fun k h0 hi hg ho => by
      have hmem : (k, h0) ∈ tl.cache := List.mem_of_getElem? hg
      rw [hrow k h0 hi hg ho]
      exact hold k h0 (AMap.get?_of_mem_nodup nd1 hmem) ho)
  exact reorg_reads hc0 _ (fun k => (hr k).1) (fun k => (hr k).2)

/-- A crash *between* the write pairs of two keys (even `i`) inside `reorg m` is always recoverable. -/
theorem crash_in_reorg_recoverable_even {W : Nat} {t : Table K V} {s : TSpec K V} (h : Sim W t s) (hc : ColsNodup t)
    (m i n : Nat) (hm : s.maxEver ≤ m + W) (hm' : m ≤ s.maxEver) (hnm : n ≤ m)
    (hw : s.maxEver ≤ n + W)
    (hdur : ∀ k, (s.cur k).valAt n = (s.dur k).valAt n) (tl : Table K V)
    (hl : t.reorgLoad m t.reorgKeys = some tl) (hi : i % 2 = 0) :
    ∃ t', (tl.crashCommit W m i).reorg W n = some t' ∧ ∀ k, t'.latest k = s.readAt k n :=
  crash_in_reorg_recoverable h hc m i n hm hm' hnm hw hdur tl hl (fun _ _ h1 => by omega)

/-- A crash with no write in flight (`i = 0`) is a discard: the reopened table reads its durable logs. -/
theorem crash_before_first_write {W : Nat} {t : Table K V} {s : TSpec K V} (h : Sim W t s) (b : Nat) (k : K) :
    (t.crashCommit W b 0).latest k = (s.dur k).latest := by
  have e : t.crashCommit W b 0 = t.clear := by
    simp [crashCommit, applyWrites]
  rw [e]; exact clear_reads_durable h k

/-- A crash after the last write is a completed commit followed by a reopen. -/
theorem crash_after_last_write {W : Nat} {t : Table K V} (b i : Nat) (hi : (t.commitWrites W b).length ≤ i) :
    t.crashCommit W b i = (t.commit W b).reopen := by
  unfold crashCommit commit reopen
  rw [List.take_of_length_le hi]
  rfl

/-! ## The crash window of `reorg`: a reachable, machine-checked counterexample

`W = 10`, one key `0`.  History `set 5 0 1; commit 6; set 17 0 2; commit 18` (legal; `maxEver = 17`).  `reorg 16`
loads key 0 and truncates its history `[(5,1),(17,2)]` to `[(5,1)]`, which is old at 16 (`5 + 10 < 16`): the
commit first deletes the history row, then rewrites the value row to `1`.  A crash between the two (`i = 1`) and a
reopen leave `db = [(0,2)]`, `cdb = []`.  Every hypothesis of `crash_in_reorg_recoverable` other than `hrow`
holds for `m = n = 16`, yet `reorg 16` (any `reorg`) on the reopened table leaves key 0 at `2`; the plain map has
`1` at block 16. -/

def cexOps : List (TOp Nat Nat) := [.set 5 0 1, .commit 6, .set 17 0 2, .commit 18]

theorem cexOps_legal : TSpec.legalRun 10 (TSpec.init : TSpec Nat Nat) cexOps := by
  simp [cexOps, TSpec.legalRun, TSpec.legal, TSpec.step, TSpec.init]

theorem crash_in_reorg_not_recoverable :
    ∃ (t tl : Table Nat Nat) (s : TSpec Nat Nat), s = TSpec.init.run cexOps ∧
      Table.empty.run 10 cexOps = some t ∧ Sim 10 t s ∧ ColsNodup t ∧
      s.maxEver ≤ 16 + 10 ∧ 16 ≤ s.maxEver ∧ (∀ k, (s.cur k).valAt 16 = (s.dur k).valAt 16) ∧
      t.reorgLoad 16 t.reorgKeys = some tl ∧
      ((tl.crashCommit 10 16 1).reorg 10 16).map (fun t' => t'.latest 0) = some (some 2) ∧
      s.readAt 0 16 = some 1 := by
  obtain ⟨t, e, hs⟩ := run_sim (sim_init 10) cexOps cexOps_legal
  have et : (Table.empty : Table Nat Nat).run 10 cexOps =
      some { db := [(0, 2)], cdb := [(0, [(5, some 1), (17, some 2)])], cache := [] } := by rfl
  rw [et] at e; cases e
  refine ⟨_, { db := [(0, 2)], cdb := [(0, [(5, some 1), (17, some 2)])], cache := [(0, [(5, some 1)])] },
    _, rfl, et, hs, ?_, by decide, by decide, ?_, by rfl, by decide, by decide⟩
  · exact ⟨by simp [AMap.Nodup, AMap.keys], by simp [AMap.Nodup, AMap.keys]⟩
  · intro k
    by_cases hk : k = 0
    · subst hk; decide
    · simp [cexOps, TSpec.run, TSpec.step, TSpec.upd, hk]

/-! ## `crash_recoverable` without `CacheAhead`: machine-checked counterexample

A table in simulation (`Sim`) whose cached history of key 0 is *behind* the persisted one - the shape of the state
inside a `reorg`, between load and commit.  All hypotheses of the original statement hold (`b = 16`, `i = 1`,
`n = 5`, `W = 10`), the conclusion fails: key 0 reads `2`, the plain map has `1` at block 5. -/

def cexTable : Table Nat Nat :=
  { db := [(0, 2)], cdb := [(0, [(0, none), (5, some 1), (7, some 2)])], cache := [(0, [(0, none), (5, some 1)])] }

def cexSpec : TSpec Nat Nat :=
  { cur := fun k => if k = 0 then [(0, none), (5, some 1)] else Hist.new none,
    dur := fun k => if k = 0 then [(0, none), (5, some 1), (7, some 2)] else Hist.new none,
    top := 7, maxEver := 7 }

theorem cex_sim : Sim 10 cexTable cexSpec := by
  have ok1 : Ok ([(0, none), (5, some 1)] : Hist Nat) 7 :=
    ⟨by simp [Sorted], by intro e he; simp at he; rcases he with rfl | rfl <;> simp, by simp⟩
  have ok2 : Ok ([(0, none), (5, some 1), (7, some 2)] : Hist Nat) 7 :=
    ⟨by simp [Sorted], by intro e he; simp at he; rcases he with rfl | rfl | rfl <;> simp, by simp⟩
  have hget : ∀ {α : Type} (k : Nat) (x : α), k ≠ 0 → AMap.get? [((0 : Nat), x)] k = none := by
    intro α k x hk
    have : ¬ (0 = k) := fun e => hk e.symm
    simp [AMap.get?, this]
  refine ⟨⟨?_, ?_, ?_⟩, ?_, ?_, Nat.le_refl _, ?_, ?_⟩
  · simp [cexTable, AMap.Nodup, AMap.keys]
  · intro k h hg
    by_cases hk : k = 0
    · subst hk; simp [cexTable, AMap.get?] at hg; subst hg; exact ok1
    · simp [cexTable, hget k _ hk] at hg
  · intro k h hg
    by_cases hk : k = 0
    · subst hk; simp [cexTable, AMap.get?] at hg; subst hg; exact ⟨ok2, by decide⟩
    · simp [cexTable, hget k _ hk] at hg
  · intro k
    by_cases hk : k = 0
    · subst hk; exact ⟨ok1, none, _, rfl⟩
    · simp only [cexSpec, hk, if_false]; exact ⟨ok_new _ _, none, [], rfl⟩
  · intro k
    by_cases hk : k = 0
    · subst hk; exact ⟨ok2, none, _, rfl⟩
    · simp only [cexSpec, hk, if_false]; exact ⟨ok_new _ _, none, [], rfl⟩
  · intro k m _
    by_cases hk : k = 0
    · subst hk; rfl
    · simp [eff, retrieve, cexTable, cexSpec, hget k _ hk, hk]
  · intro k m _
    by_cases hk : k = 0
    · subst hk; rfl
    · simp [disk, cexTable, cexSpec, hget k _ hk, hk]

theorem crash_not_recoverable_without_cacheAhead :
    Sim 10 cexTable cexSpec ∧ ColsNodup cexTable ∧
      cexSpec.maxEver ≤ 5 + 10 ∧ 5 ≤ cexSpec.maxEver ∧ 16 ≤ 5 + 10 + 1 ∧
      (∀ k, (cexSpec.cur k).valAt 5 = (cexSpec.dur k).valAt 5) ∧
      ((cexTable.crashCommit 10 16 1).reorg 10 5).map (fun t' => t'.latest 0) = some (some 2) ∧
      cexSpec.readAt 0 5 = some 1 ∧ ¬ CacheAhead cexTable := by
  refine ⟨cex_sim, ⟨by simp [cexTable, AMap.Nodup, AMap.keys], by simp [cexTable, AMap.Nodup, AMap.keys]⟩,
    by decide, by decide, by decide, ?_, by decide, by decide, ?_⟩
  · intro k
    by_cases hk : k = 0
    · subst hk; decide
    · simp [cexSpec, hk]
  · intro ha
    have := ha 0 [(0, none), (5, some 1)] 5 (by decide) (by decide) (7, some 2) (by decide)
    omega

end Brc20.Table
