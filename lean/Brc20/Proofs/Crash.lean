/-
Crash in the middle of a table commit: any prefix of the persistent writes followed by a reopen is repaired exactly by
a rollback to a height at or below the last completed commit (and inside the window).

`commit` writes, for a cached key whose history is *kept*, the history row and then the value row; for a key whose
history is *old* (to be dropped), the value row first and the deletion of the history row last (`Table.keyWrites`).
With that order every prefix of the writes leaves, for every key, a retrievable history that still says at the
durable target `n` what the plain specification says, so that:

* `crash_recoverable` holds for every table in simulation (`Sim`).  Its hypothesis `CacheAhead t` ("no cached history
  is behind the persisted one") is kept in the statement for interface stability but is no longer used:
  `crash_recoverable_of_sim` is the same statement without it.  (With the former order - history row deleted *before*
  the value row was written - the hypothesis was necessary; the former counterexample now recovers, see
  `crash_without_cacheAhead_scenario_recovers`.)
* `crash_in_reorg_recoverable` - a crash inside the commit that ends a `reorg m`, after the in-memory truncation -
  holds with no side condition on the value rows (the former hypothesis `hrow` is gone).  The scenario that was a
  machine-checked counterexample under the former order is now `crash_in_reorg_scenario_recovers`.
-/
import Brc20.Proofs.Table
import Brc20.Proofs.TableScan
import Brc20.Proofs.CrashLemmas
set_option linter.unusedSectionVars false
-- `hc : ColsNodup t`, `ha : CacheAhead t` and `hn : n ≤ s.maxEver` are kept for a uniform
-- interface; the proofs do not need them
set_option linter.unusedVariables false

namespace Brc20.Table
variable {K V : Type} [DecidableEq K] [DecidableEq V]
open Hist

/-- Core of `crash_recoverable`: `Sim` alone suffices.  Per cached key `k` with history `h0`, after `i` writes:
kept history - nothing written / history row written / both; old history - nothing written / value row written and
the previously persisted history (or none) still in place / both (row deleted).  In each case the reopened table
retrieves a history that says `readAt k n` at `n` (`crash_retrieve`), and `reorg n` rewrites the value row from it
(`reorg_reads`). -/
theorem crash_recoverable_of_sim {W : Nat} {t : Table K V} {s : TSpec K V} (h : Sim W t s) (b i n : Nat)
    (hw : s.maxEver ≤ n + W) (hb : b ≤ n + W + 1)
    (hdur : ∀ k, (s.cur k).valAt n = (s.dur k).valAt n) :
    ∃ t', (t.crashCommit W b i).reorg W n = some t' ∧ ∀ k, t'.latest k = s.readAt k n := by
  have hcv : ∀ k h0, t.cache.get? k = some h0 → valAt h0 n = some (s.readAt k n) := by
    intro k h0 hg
    rw [← eff_cached hg, h.cur_eq k n hw]; exact valAt_cur_readAt h k n
  have hold : ∀ k h0, t.cache.get? k = some h0 → h0.isOld W b = true → h0.latest = s.readAt k n := by
    intro k h0 hg ho
    have h1 := isOld_const' (h.inv.cache_ok k h0 hg) ho hb
    rw [hcv k h0 hg] at h1
    simp only [Option.some.injEq] at h1
    exact h1.symm
  obtain ⟨hc0, hr⟩ := crash_retrieve (W := W) (b := b) (i := i) (n := n) h.inv.cache_nodup
    (fun k => s.readAt k n)
    (fun k h0 hg => (h.inv.cache_ok k h0 hg).sorted)
    (fun k h0 hg => (h.inv.cdb_ok k h0 hg).1.sorted)
    (fun k => by rw [h.dur_eq k n hw, ← hdur k]; exact valAt_cur_readAt h k n)
    hcv hold
  exact reorg_reads hc0 _ (fun k => (hr k).1) (fun k => (hr k).2)

/-- **Crash-recoverable commit.**  `t` is in simulation with the plain specification `s`.  The process dies after
the first `i` persistent writes of `commit b` (any `i`, including 0 and all of them) and the directory is reopened
(`crashCommit`).  Let `n` be a rollback target inside the window (`maxEver ≤ n + W`, `n ≤ maxEver`, also w.r.t. the
commit block: `b ≤ n + W + 1`) that is *durable*: nothing written since the last completed commit is visible at `n`
(`valAt (cur k) n = valAt (dur k) n` for every key - all uncommitted writes carry stamps above `n`).
Then `reorg n` on the reopened table does not panic and every key reads exactly the value it had at the end of
block `n`.

The hypothesis `ha : CacheAhead t` (no persisted stamp of a key lies above the newest cached stamp of that key; an
invariant of the API, `cacheAhead_step`, `cacheAhead_run`) was necessary when `commit` deleted an old history row
before writing the value row.  With the present write order it is not used (`crash_recoverable_of_sim`); it is kept so
that the statement is unchanged. -/
theorem crash_recoverable {W : Nat} {t : Table K V} {s : TSpec K V} (h : Sim W t s) (hc : ColsNodup t)
    (ha : CacheAhead t) (b i n : Nat)
    (hw : s.maxEver ≤ n + W) (hn : n ≤ s.maxEver) (hb : b ≤ n + W + 1)
    (hdur : ∀ k, (s.cur k).valAt n = (s.dur k).valAt n) :
    ∃ t', (t.crashCommit W b i).reorg W n = some t' ∧ ∀ k, t'.latest k = s.readAt k n :=
  crash_recoverable_of_sim h b i n hw hb hdur

/-- `crash_recoverable` for every state reached from the empty table by a legal history: no extra hypothesis. -/
theorem crash_recoverable_run {W : Nat} (ops : List (TOp K V)) (hl : TSpec.legalRun W TSpec.init ops) :
    ∃ t, (Table.empty : Table K V).run W ops = some t ∧
      ∀ b i n, (TSpec.init.run ops).maxEver ≤ n + W → b ≤ n + W + 1 →
        (∀ k, (((TSpec.init : TSpec K V).run ops).cur k).valAt n = ((TSpec.init.run ops).dur k).valAt n) →
        ∃ t', (t.crashCommit W b i).reorg W n = some t' ∧ ∀ k, t'.latest k = (TSpec.init.run ops).readAt k n := by
  obtain ⟨t, e, hs⟩ := run_sim (sim_init W) ops hl
  exact ⟨t, e, fun b i n hw hb hdur => crash_recoverable_of_sim hs b i n hw hb hdur⟩

/-- Core of `crash_in_reorg_recoverable` (no `ColsNodup`). -/
theorem crash_in_reorg_recoverable_core {W : Nat} {t : Table K V} {s : TSpec K V} (h : Sim W t s)
    (m i n : Nat) (hm : s.maxEver ≤ m + W) (hm' : m ≤ s.maxEver) (hnm : n ≤ m)
    (hw : s.maxEver ≤ n + W)
    (hdur : ∀ k, (s.cur k).valAt n = (s.dur k).valAt n) (tl : Table K V)
    (hl : t.reorgLoad m t.reorgKeys = some tl) :
    ∃ t', (tl.crashCommit W m i).reorg W n = some t' ∧ ∀ k, t'.latest k = s.readAt k n := by
  obtain ⟨t1, e1, e2, e3, nd1, hk⟩ := reorg_load h m hm
  rw [hl] at e1
  cases e1
  -- the loaded cache: truncated effective histories
  have hcf : ∀ k h0, tl.cache.get? k = some h0 →
      h0 = (eff t k).filter (fun e => decide (e.1 ≤ m)) ∧ h0 ≠ [] := by
    intro k h0 hg
    rcases hk k with ⟨hg', hne⟩ | ⟨hg', _⟩
    · rw [hg'] at hg; cases hg; exact ⟨rfl, hne⟩
    · rw [hg'] at hg; cases hg
  have hcv : ∀ k h0, tl.cache.get? k = some h0 → valAt h0 n = some (s.readAt k n) := by
    intro k h0 hg
    obtain ⟨rfl, _⟩ := hcf k h0 hg
    rw [valAt_filter (eff_ok h.inv k).sorted, Nat.min_eq_left hnm, h.cur_eq k n hw]
    exact valAt_cur_readAt h k n
  have hold : ∀ k h0, tl.cache.get? k = some h0 → h0.isOld W m = true → h0.latest = s.readAt k n := by
    intro k h0 hg ho
    obtain ⟨e, hne⟩ := hcf k h0 hg
    have o : Ok h0 (min s.top m) := by rw [e] at hne ⊢; exact ok_filter (eff_ok h.inv k) m hne
    have h1 := isOld_const' o ho (by omega : m ≤ n + W + 1)
    rw [hcv k h0 hg] at h1
    simp only [Option.some.injEq] at h1
    exact h1.symm
  have hd : ∀ k, disk tl k = disk t k := by
    intro k; unfold disk; rw [e2, e3]
  obtain ⟨hc0, hr⟩ := crash_retrieve (W := W) (b := m) (i := i) (n := n) nd1
    (fun k => s.readAt k n)
    (fun k h0 hg => by
      obtain ⟨rfl, _⟩ := hcf k h0 hg
      exact sorted_filter (eff_ok h.inv k).sorted _)
    (fun k h0 hg => by rw [e3] at hg; exact (h.inv.cdb_ok k h0 hg).1.sorted)
    (fun k => by rw [hd k, h.dur_eq k n hw, ← hdur k]; exact valAt_cur_readAt h k n)
    hcv hold
  exact reorg_reads hc0 _ (fun k => (hr k).1) (fun k => (hr k).2)

/-- **Crash inside `reorg`.**  The same for a crash in the middle of the commit that ends a `reorg m` (after the
in-memory truncation; `tl` is the loaded table): a later rollback to any durable `n ≤ m` inside the window repairs it,
whatever the number `i` of writes that reached the disk.

No side condition on the value rows is needed.  The critical case is a key whose *truncated* history is old at `m`
and which the crash catches between its two writes (`i` odd, key number `i / 2` of the loaded cache): its value row
has been rewritten to the rolled-back value, and its history row - the history persisted *before* the `reorg`, which
by `dur_eq` and durability of `n` says the right thing at `n` - is still on disk, so the next `reorg n` visits the key
and rewrites both rows from it.  If the key had no persisted history, the new value row alone is the right answer. -/
theorem crash_in_reorg_recoverable {W : Nat} {t : Table K V} {s : TSpec K V} (h : Sim W t s) (hc : ColsNodup t)
    (m i n : Nat) (hm : s.maxEver ≤ m + W) (hm' : m ≤ s.maxEver) (hnm : n ≤ m)
    (hw : s.maxEver ≤ n + W)
    (hdur : ∀ k, (s.cur k).valAt n = (s.dur k).valAt n) (tl : Table K V)
    (hl : t.reorgLoad m t.reorgKeys = some tl) :
    ∃ t', (tl.crashCommit W m i).reorg W n = some t' ∧ ∀ k, t'.latest k = s.readAt k n :=
  crash_in_reorg_recoverable_core h m i n hm hm' hnm hw hdur tl hl

/-- A crash *between* the write pairs of two keys (even `i`) inside `reorg m`: special case, kept for interface
stability (under the former write order it was the only unconditional case). -/
theorem crash_in_reorg_recoverable_even {W : Nat} {t : Table K V} {s : TSpec K V} (h : Sim W t s) (hc : ColsNodup t)
    (m i n : Nat) (hm : s.maxEver ≤ m + W) (hm' : m ≤ s.maxEver) (hnm : n ≤ m)
    (hw : s.maxEver ≤ n + W)
    (hdur : ∀ k, (s.cur k).valAt n = (s.dur k).valAt n) (tl : Table K V)
    (hl : t.reorgLoad m t.reorgKeys = some tl) (hi : i % 2 = 0) :
    ∃ t', (tl.crashCommit W m i).reorg W n = some t' ∧ ∀ k, t'.latest k = s.readAt k n :=
  crash_in_reorg_recoverable h hc m i n hm hm' hnm hw hdur tl hl

/-- `crash_in_reorg_recoverable` for every state reached from the empty table by a legal history: `reorg m` loads
without panic, and a crash after any number `i` of the writes of its commit, followed by a reopen and `reorg n`
(`n ≤ m`, both inside the window, `n` durable), restores every key to its value at the end of block `n`. -/
theorem crash_in_reorg_recoverable_run {W : Nat} (ops : List (TOp K V)) (hl : TSpec.legalRun W TSpec.init ops) :
    ∃ t, (Table.empty : Table K V).run W ops = some t ∧
      ∀ m n, m ≤ (TSpec.init.run ops).maxEver → n ≤ m → (TSpec.init.run ops).maxEver ≤ n + W →
        (∀ k, (((TSpec.init : TSpec K V).run ops).cur k).valAt n = ((TSpec.init.run ops).dur k).valAt n) →
        ∃ tl, t.reorgLoad m t.reorgKeys = some tl ∧
          ∀ i, ∃ t', (tl.crashCommit W m i).reorg W n = some t' ∧
            ∀ k, t'.latest k = (TSpec.init.run ops).readAt k n := by
  obtain ⟨t, e, hs⟩ := run_sim (sim_init W) ops hl
  refine ⟨t, e, ?_⟩
  intro m n hm' hnm hw hdur
  have hm : (TSpec.init.run ops : TSpec K V).maxEver ≤ m + W := by omega
  obtain ⟨tl, el, _⟩ := reorg_load hs m hm
  exact ⟨tl, el, fun i => crash_in_reorg_recoverable_core hs m i n hm hm' hnm hw hdur tl el⟩

/-- A crash with no write in flight (`i = 0`) is a discard: the reopened table reads its durable logs. -/
theorem crash_before_first_write {W : Nat} {t : Table K V} {s : TSpec K V} (h : Sim W t s) (b : Nat) (k : K) :
    (t.crashCommit W b 0).latest k = (s.dur k).latest := by
  have e : t.crashCommit W b 0 = t.clear := by
    simp [crashCommit, applyWrites]
  rw [e]; exact clear_reads_durable h k

/-- A crash after the last write is a completed commit followed by a reopen. -/
theorem crash_after_last_write {W : Nat} {t : Table K V} (b i : Nat) (hi : (t.commitWrites W b).length ≤ i) :
    t.crashCommit W b i = (t.commit W b).reopen := by
  unfold crashCommit commit reopen
  rw [List.take_of_length_le hi]
  rfl

/-! ## The former crash window of `reorg`: the scenario, machine-checked, now recovers

`W = 10`, one key `0`.  History `set 5 0 1; commit 6; set 17 0 2; commit 18` (legal; `maxEver = 17`).  `reorg 16`
loads key 0 and truncates its history `[(5,1),(17,2)]` to `[(5,1)]`, which is old at 16 (`5 + 10 < 16`): the
commit first rewrites the value row to `1`, then deletes the history row.  A crash between the two (`i = 1`) and a
reopen leave `db = [(0,1)]`, `cdb = [(0,[(5,1),(17,2)])]`: the history row is still there, so `reorg 16` on the
reopened table visits key 0 again, and key 0 reads `1` - the value the plain map has at block 16.  (With the former
order - deletion first - the crash left `db = [(0,2)]`, `cdb = []`, and key 0 read `2` for ever.)  The same holds
for every crash index `i`. -/

def cexOps : List (TOp Nat Nat) := [.set 5 0 1, .commit 6, .set 17 0 2, .commit 18]

theorem cexOps_legal : TSpec.legalRun 10 (TSpec.init : TSpec Nat Nat) cexOps := by
  simp [cexOps, TSpec.legalRun, TSpec.legal, TSpec.step, TSpec.init]

/-- The table `reorg 16` has loaded (key 0 truncated to `[(5,1)]`), before its commit. -/
def cexLoaded : Table Nat Nat :=
  { db := [(0, 2)], cdb := [(0, [(5, some 1), (17, some 2)])], cache := [(0, [(5, some 1)])] }

theorem crash_in_reorg_scenario_recovers :
    ∃ (t tl : Table Nat Nat) (s : TSpec Nat Nat), s = TSpec.init.run cexOps ∧
      Table.empty.run 10 cexOps = some t ∧ Sim 10 t s ∧ ColsNodup t ∧
      s.maxEver ≤ 16 + 10 ∧ 16 ≤ s.maxEver ∧ (∀ k, (s.cur k).valAt 16 = (s.dur k).valAt 16) ∧
      t.reorgLoad 16 t.reorgKeys = some tl ∧
      -- the state on disk after the crash: value row rewritten, history row still there
      tl.crashCommit 10 16 1 = { db := [(0, 1)], cdb := [(0, [(5, some 1), (17, some 2)])], cache := [] } ∧
      ((tl.crashCommit 10 16 1).reorg 10 16).map (fun t' => t'.latest 0) = some (some 1) ∧
      (∀ i, ((tl.crashCommit 10 16 i).reorg 10 16).map (fun t' => t'.latest 0) = some (some 1)) ∧
      s.readAt 0 16 = some 1 := by
  obtain ⟨t, e, hs⟩ := run_sim (sim_init 10) cexOps cexOps_legal
  have et : (Table.empty : Table Nat Nat).run 10 cexOps =
      some { db := [(0, 2)], cdb := [(0, [(5, some 1), (17, some 2)])], cache := [] } := by rfl
  rw [et] at e; cases e
  refine ⟨_, cexLoaded, _, rfl, et, hs, ?_, by decide, by decide, ?_, by rfl, by rfl, by decide, ?_, by decide⟩
  · exact ⟨by simp [AMap.Nodup, AMap.keys], by simp [AMap.Nodup, AMap.keys]⟩
  · intro k
    by_cases hk : k = 0
    · subst hk; decide
    · simp [cexOps, TSpec.run, TSpec.step, TSpec.upd, hk]
  · intro i
    match i with
    | 0 => decide
    | 1 => decide
    | j + 2 =>
      have l2 : (commitWrites 10 cexLoaded 16).length = 2 := by decide
      have e : cexLoaded.crashCommit 10 16 (j + 2) = cexLoaded.crashCommit 10 16 2 := by
        rw [crash_after_last_write 16 (j + 2) (by rw [l2]; omega), crash_after_last_write 16 2 (by rw [l2]; omega)]
      show ((cexLoaded.crashCommit 10 16 (j + 2)).reorg 10 16).map (fun t' => t'.latest 0) = some (some 1)
      rw [e]; decide

/-! ## `crash_recoverable` without `CacheAhead`: the former counterexample now recovers

A table in simulation (`Sim`) whose cached history of key 0 is *behind* the persisted one - the shape of the state
inside a `reorg`, between load and commit - so `CacheAhead` fails.  With the former write order the crash at `b = 16`,
`i = 1` deleted the history row and left the value row `2`, and `reorg 5` read `2` instead of `1`.  Now the first
write is the value row (`1`), the history row is still on disk, and `reorg 5` reads `1`: `CacheAhead` is not needed
(`crash_recoverable_of_sim`). -/

def cexTable : Table Nat Nat :=
  { db := [(0, 2)], cdb := [(0, [(0, none), (5, some 1), (7, some 2)])], cache := [(0, [(0, none), (5, some 1)])] }

def cexSpec : TSpec Nat Nat :=
  { cur := fun k => if k = 0 then [(0, none), (5, some 1)] else Hist.new none,
    dur := fun k => if k = 0 then [(0, none), (5, some 1), (7, some 2)] else Hist.new none,
    top := 7, maxEver := 7 }

theorem cex_sim : Sim 10 cexTable cexSpec := by
  have ok1 : Ok ([(0, none), (5, some 1)] : Hist Nat) 7 :=
    ⟨by simp [Sorted], by intro e he; simp at he; rcases he with rfl | rfl <;> simp, by simp⟩
  have ok2 : Ok ([(0, none), (5, some 1), (7, some 2)] : Hist Nat) 7 :=
    ⟨by simp [Sorted], by intro e he; simp at he; rcases he with rfl | rfl | rfl <;> simp, by simp⟩
  have hget : ∀ {α : Type} (k : Nat) (x : α), k ≠ 0 → AMap.get? [((0 : Nat), x)] k = none := by
    intro α k x hk
    have : ¬ (0 = k) := fun e => hk e.symm
    simp [AMap.get?, this]
  refine ⟨⟨?_, ?_, ?_⟩, ?_, ?_, Nat.le_refl _, ?_, ?_⟩
  · simp [cexTable, AMap.Nodup, AMap.keys]
  · intro k h hg
    by_cases hk : k = 0
    · subst hk; simp [cexTable, AMap.get?] at hg; subst hg; exact ok1
    · simp [cexTable, hget k _ hk] at hg
  · intro k h hg
    by_cases hk : k = 0
    · subst hk; simp [cexTable, AMap.get?] at hg; subst hg; exact ⟨ok2, by decide⟩
    · simp [cexTable, hget k _ hk] at hg
  · intro k
    by_cases hk : k = 0
    · subst hk; exact ⟨ok1, none, _, rfl⟩
    · simp only [cexSpec, hk, if_false]; exact ⟨ok_new _ _, none, [], rfl⟩
  · intro k
    by_cases hk : k = 0
    · subst hk; exact ⟨ok2, none, _, rfl⟩
    · simp only [cexSpec, hk, if_false]; exact ⟨ok_new _ _, none, [], rfl⟩
  · intro k m _
    by_cases hk : k = 0
    · subst hk; rfl
    · simp [eff, retrieve, cexTable, cexSpec, hget k _ hk, hk]
  · intro k m _
    by_cases hk : k = 0
    · subst hk; rfl
    · simp [disk, cexTable, cexSpec, hget k _ hk, hk]

theorem crash_without_cacheAhead_scenario_recovers :
    Sim 10 cexTable cexSpec ∧ ColsNodup cexTable ∧
      cexSpec.maxEver ≤ 5 + 10 ∧ 5 ≤ cexSpec.maxEver ∧ 16 ≤ 5 + 10 + 1 ∧
      (∀ k, (cexSpec.cur k).valAt 5 = (cexSpec.dur k).valAt 5) ∧
      cexTable.crashCommit 10 16 1 =
        { db := [(0, 1)], cdb := [(0, [(0, none), (5, some 1), (7, some 2)])], cache := [] } ∧
      ((cexTable.crashCommit 10 16 1).reorg 10 5).map (fun t' => t'.latest 0) = some (some 1) ∧
      cexSpec.readAt 0 5 = some 1 ∧ ¬ CacheAhead cexTable := by
  refine ⟨cex_sim, ⟨by simp [cexTable, AMap.Nodup, AMap.keys], by simp [cexTable, AMap.Nodup, AMap.keys]⟩,
    by decide, by decide, by decide, ?_, by rfl, by decide, by decide, ?_⟩
  · intro k
    by_cases hk : k = 0
    · subst hk; decide
    · simp [cexSpec, hk]
  · intro ha
    have := ha 0 [(0, none), (5, some 1)] 5 (by decide) (by decide) (7, some 2) (by decide)
    omega

end Brc20.Table
