/-
Lemmas about the per-key history model.  Everything is phrased through `Hist.valAt`.
-/
import Brc20.Model.Hist

set_option linter.unusedSectionVars false

namespace Brc20.Hist
variable {V : Type} [DecidableEq V]

/-- Keys strictly ascending (what a `BTreeMap` iteration yields). -/
def Sorted (h : Hist V) : Prop := h.Pairwise (fun a b => a.1 < b.1)

/-- Every key is at most `b`. -/
def KeysLe (h : Hist V) (b : Nat) : Prop := ∀ e ∈ h, e.1 ≤ b

theorem sorted_nil : Sorted ([] : Hist V) := List.Pairwise.nil

theorem sorted_new (i : Option V) : Sorted (Hist.new i) := by
  simp [Sorted, Hist.new]

theorem keysLe_new (i : Option V) (b : Nat) : KeysLe (Hist.new i) b := by
  simp [KeysLe, Hist.new]

theorem Sorted.tail {e : Nat × Option V} {h : Hist V} (s : Sorted (e :: h)) : Sorted h := by
  unfold Sorted at *; exact (List.pairwise_cons.mp s).2

theorem Sorted.head_lt {e : Nat × Option V} {h : Hist V} (s : Sorted (e :: h)) : ∀ x ∈ h, e.1 < x.1 := by
  unfold Sorted at *; exact (List.pairwise_cons.mp s).1

theorem valAt_none_of_lt {h : Hist V} {m : Nat} (s : Sorted h) (hlt : ∀ e ∈ h, m < e.1) : valAt h m = none := by
  cases h with
  | nil => rfl
  | cons e rest =>
    have := hlt e (by simp)
    simp [valAt]; omega

/-- On a sorted history, once the head is above `m` nothing is in force at `m`. -/
theorem valAt_cons_gt {e : Nat × Option V} {h : Hist V} {m : Nat} (hgt : m < e.1) : valAt (e :: h) m = none := by
  obtain ⟨b, v⟩ := e
  simp [valAt]; intro hle; simp at hgt; omega

theorem valAt_cons_le {e : Nat × Option V} {h : Hist V} {m : Nat} (hle : e.1 ≤ m) :
    valAt (e :: h) m = some ((valAt h m).getD e.2) := by
  obtain ⟨b, v⟩ := e
  simp at hle
  simp [valAt, hle]
  cases valAt h m <;> simp

/-- `put` keeps keys sorted and bounded when `b` is at least every stored key. -/
theorem put_mem {h : Hist V} {b : Nat} {v : Option V} : ∀ x ∈ put h b v, x ∈ h ∨ x = (b, v) := by
  fun_induction put h b v <;> simp_all <;> grind

theorem keysLe_put {h : Hist V} {b : Nat} {v : Option V} (k : KeysLe h b) : KeysLe (put h b v) b := by
  intro x hx
  rcases put_mem x hx with h1 | h1
  · exact k x h1
  · subst h1; simp

theorem sorted_put {h : Hist V} {b : Nat} {v : Option V} (s : Sorted h) (k : KeysLe h b) : Sorted (put h b v) := by
  fun_induction put h b v
  · simp [Sorted]
  · simp [Sorted]
  · rename_i b' v' hne
    have : b' ≤ b := k (b', v') (by simp)
    simp [Sorted]; omega
  · rename_i e rest hne ih
    have hs := s.tail
    have hk : KeysLe rest b := fun x hx => k x (by simp [hx])
    have ih' := ih hs hk
    unfold Sorted at *
    refine List.pairwise_cons.mpr ⟨?_, ih'⟩
    intro x hx
    rcases put_mem x hx with h1 | h1
    · exact (List.pairwise_cons.mp s).1 x h1
    · subst h1
      simp
      -- e.1 < b : e.1 < (some element of rest).1 ≤ b
      cases rest with
      | nil => exact (hne e.1 e.2 rfl rfl).elim
      | cons r rs =>
        have h1 := (List.pairwise_cons.mp s).1 r (by simp)
        have h2 := k r (by simp)
        omega

theorem valAt_put {h : Hist V} {b : Nat} {v : Option V} (s : Sorted h) (k : KeysLe h b) (m : Nat) :
    valAt (put h b v) m = if b ≤ m then some v else valAt h m := by
  fun_induction put h b v
  · simp [valAt]
  · simp [valAt]; split <;> simp
  · rename_i b' v' hne
    have : b' ≤ b := k (b', v') (by simp)
    simp [valAt]
    split <;> split <;> simp_all <;> omega
  · rename_i e rest hne ih
    have hs := s.tail
    have hk : KeysLe rest b := fun x hx => k x (by simp [hx])
    have ih' := ih hs hk
    obtain ⟨eb, ev⟩ := e
    have heb : eb ≤ b := k (eb, ev) (by simp)
    simp only [valAt, ih']
    by_cases h1 : b ≤ m
    · have : eb ≤ m := by omega
      simp [h1, this]
    · simp [h1]

theorem sorted_prune (W : Nat) {h : Hist V} {b : Nat} (s : Sorted h) : Sorted (prune W h b) := by
  fun_induction prune W h b
  · rename_i e₁ e₂ rest hle ih
    exact ih s.tail
  · exact s
  · exact s

theorem prune_mem (W : Nat) {h : Hist V} {b : Nat} : ∀ x ∈ prune W h b, x ∈ h := by
  fun_induction prune W h b <;> simp_all

theorem keysLe_prune (W : Nat) {h : Hist V} {b c : Nat} (k : KeysLe h c) : KeysLe (prune W h b) c :=
  fun x hx => k x (prune_mem W x hx)

theorem valAt_prune (W : Nat) {h : Hist V} {b : Nat} (s : Sorted h) {m : Nat} (hm : b ≤ m + W) :
    valAt (prune W h b) m = valAt h m := by
  fun_induction prune W h b
  · rename_i e₁ e₂ rest hle ih
    rw [ih s.tail]
    have h12 : e₁.1 < e₂.1 := s.head_lt e₂ (by simp)
    have h2 : e₂.1 ≤ m := by omega
    have h1 : e₁.1 ≤ m := by omega
    rw [valAt_cons_le (h := e₂ :: rest) h1, valAt_cons_le h2]
    simp
  · rfl
  · rfl

theorem prune_ne_nil (W : Nat) {h : Hist V} {b : Nat} (hne : h ≠ []) : prune W h b ≠ [] := by
  fun_induction prune W h b <;> simp_all

theorem put_ne_nil {h : Hist V} {b : Nat} {v : Option V} : put h b v ≠ [] := by
  fun_induction put h b v <;> simp_all

end Brc20.Hist
