/-
Lemmas about the per-key history model.  Everything is phrased through `Hist.valAt`.
-/
import Brc20.Model.Hist

set_option linter.unusedSectionVars false

namespace Brc20.Hist
variable {V : Type} [DecidableEq V]

/-- Keys strictly ascending (what a `BTreeMap` iteration yields). -/
def Sorted (h : Hist V) : Prop := h.Pairwise (fun a b => a.1 < b.1)

/-- Every key is at most `b`. -/
def KeysLe (h : Hist V) (b : Nat) : Prop := ∀ e ∈ h, e.1 ≤ b

theorem sorted_nil : Sorted ([] : Hist V) := List.Pairwise.nil

theorem sorted_new (i : Option V) : Sorted (Hist.new i) := by
  simp [Sorted, Hist.new]

theorem keysLe_new (i : Option V) (b : Nat) : KeysLe (Hist.new i) b := by
  simp [KeysLe, Hist.new]

theorem Sorted.tail {e : Nat × Option V} {h : Hist V} (s : Sorted (e :: h)) : Sorted h := by
  unfold Sorted at *; exact (List.pairwise_cons.mp s).2

theorem Sorted.head_lt {e : Nat × Option V} {h : Hist V} (s : Sorted (e :: h)) : ∀ x ∈ h, e.1 < x.1 := by
  unfold Sorted at *; exact (List.pairwise_cons.mp s).1

theorem valAt_none_of_lt {h : Hist V} {m : Nat} (s : Sorted h) (hlt : ∀ e ∈ h, m < e.1) : valAt h m = none := by
  cases h with
  | nil => rfl
  | cons e rest =>
    have := hlt e (by simp)
    simp [valAt]; omega

/-- On a sorted history, once the head is above `m` nothing is in force at `m`. -/
theorem valAt_cons_gt {e : Nat × Option V} {h : Hist V} {m : Nat} (hgt : m < e.1) : valAt (e :: h) m = none := by
  obtain ⟨b, v⟩ := e
  simp [valAt]; intro hle; simp at hgt; omega

theorem valAt_cons_le {e : Nat × Option V} {h : Hist V} {m : Nat} (hle : e.1 ≤ m) :
    valAt (e :: h) m = some ((valAt h m).getD e.2) := by
  obtain ⟨b, v⟩ := e
  simp at hle
  simp [valAt, hle]
  cases valAt h m <;> simp

/-- `put` keeps keys sorted and bounded when `b` is at least every stored key. -/
theorem put_mem {h : Hist V} {b : Nat} {v : Option V} : ∀ x ∈ put h b v, x ∈ h ∨ x = (b, v) := by
  fun_induction put h b v <;> simp_all <;> grind

theorem keysLe_put {h : Hist V} {b : Nat} {v : Option V} (k : KeysLe h b) : KeysLe (put h b v) b := by
  intro x hx
  rcases put_mem x hx with h1 | h1
  · exact k x h1
  · subst h1; simp

theorem sorted_put {h : Hist V} {b : Nat} {v : Option V} (s : Sorted h) (k : KeysLe h b) : Sorted (put h b v) := by
  fun_induction put h b v
  · simp [Sorted]
  · simp [Sorted]
  · rename_i b' v' hne
    have : b' ≤ b := k (b', v') (by simp)
    simp [Sorted]; omega
  · rename_i e rest hne ih
    have hs := s.tail
    have hk : KeysLe rest b := fun x hx => k x (by simp [hx])
    have ih' := ih hs hk
    unfold Sorted at *
    refine List.pairwise_cons.mpr ⟨?_, ih'⟩
    intro x hx
    rcases put_mem x hx with h1 | h1
    · exact (List.pairwise_cons.mp s).1 x h1
    · subst h1
      simp
      -- e.1 < b : e.1 < (some element of rest).1 ≤ b
      cases rest with
      | nil => exact (hne e.1 e.2 rfl rfl).elim
      | cons r rs =>
        have h1 := (List.pairwise_cons.mp s).1 r (by simp)
        have h2 := k r (by simp)
        omega

theorem valAt_put {h : Hist V} {b : Nat} {v : Option V} (s : Sorted h) (k : KeysLe h b) (m : Nat) :
    valAt (put h b v) m = if b ≤ m then some v else valAt h m := by
  fun_induction put h b v
  · simp [valAt]
  · simp [valAt]; split <;> simp
  · rename_i b' v' hne
    have : b' ≤ b := k (b', v') (by simp)
    simp [valAt]
    split <;> split <;> simp_all <;> omega
  · rename_i e rest hne ih
    have hs := s.tail
    have hk : KeysLe rest b := fun x hx => k x (by simp [hx])
    have ih' := ih hs hk
    obtain ⟨eb, ev⟩ := e
    have heb : eb ≤ b := k (eb, ev) (by simp)
    simp only [valAt, ih']
    by_cases h1 : b ≤ m
    · have : eb ≤ m := by omega
      simp [h1, this]
    · simp [h1]

theorem sorted_prune (W : Nat) {h : Hist V} {b : Nat} (s : Sorted h) : Sorted (prune W h b) := by
  fun_induction prune W h b
  · rename_i e₁ e₂ rest hle ih
    exact ih s.tail
  · exact s
  · exact s

theorem prune_mem (W : Nat) {h : Hist V} {b : Nat} : ∀ x ∈ prune W h b, x ∈ h := by
  fun_induction prune W h b <;> simp_all

theorem keysLe_prune (W : Nat) {h : Hist V} {b c : Nat} (k : KeysLe h c) : KeysLe (prune W h b) c :=
  fun x hx => k x (prune_mem W x hx)

theorem valAt_prune (W : Nat) {h : Hist V} {b : Nat} (s : Sorted h) {m : Nat} (hm : b ≤ m + W) :
    valAt (prune W h b) m = valAt h m := by
  fun_induction prune W h b
  · rename_i e₁ e₂ rest hle ih
    rw [ih s.tail]
    have h12 : e₁.1 < e₂.1 := s.head_lt e₂ (by simp)
    have h2 : e₂.1 ≤ m := by omega
    have h1 : e₁.1 ≤ m := by omega
    rw [valAt_cons_le (h := e₂ :: rest) h1, valAt_cons_le h2]
    simp
  · rfl
  · rfl

theorem prune_ne_nil (W : Nat) {h : Hist V} {b : Nat} (hne : h ≠ []) : prune W h b ≠ [] := by
  fun_induction prune W h b <;> simp_all

theorem put_ne_nil {h : Hist V} {b : Nat} {v : Option V} : put h b v ≠ [] := by
  fun_induction put h b v <;> simp_all


theorem latest_cons_ne_nil {e : Nat × Option V} {h : Hist V} (hne : h ≠ []) : latest (e :: h) = latest h := by
  cases h with
  | nil => exact absurd rfl hne
  | cons x xs => simp [latest, List.getLast?_cons_cons]

theorem lastKey?_cons_ne_nil {e : Nat × Option V} {h : Hist V} (hne : h ≠ []) : lastKey? (e :: h) = lastKey? h := by
  cases h with
  | nil => exact absurd rfl hne
  | cons x xs => simp [lastKey?, List.getLast?_cons_cons]

/-- At or above every stored key, the value in force is `latest`. -/
theorem valAt_eq_latest {h : Hist V} {m : Nat} (hne : h ≠ []) (k : KeysLe h m) : valAt h m = some (latest h) := by
  induction h with
  | nil => exact absurd rfl hne
  | cons e rest ih =>
    have he : e.1 ≤ m := k e (by simp)
    rw [valAt_cons_le he]
    cases rest with
    | nil => simp [valAt, latest]
    | cons x xs =>
      have hk : KeysLe (x :: xs) m := fun y hy => k y (by simp [hy])
      have h1 := ih (by simp) hk
      have h2 : latest (e :: x :: xs) = latest (x :: xs) := latest_cons_ne_nil (by simp)
      rw [h1, h2]; simp

theorem lastKey?_mem {h : Hist V} {l : Nat} (hl : lastKey? h = some l) : ∃ e ∈ h, e.1 = l := by
  unfold lastKey? at hl
  cases hg : h.getLast? with
  | none => simp [hg] at hl
  | some e =>
    simp [hg] at hl
    exact ⟨e, List.mem_of_getLast? hg, hl⟩

theorem lastKey?_none {h : Hist V} (hl : lastKey? h = none) : h = [] := by
  unfold lastKey? at hl
  cases hg : h.getLast? with
  | none => exact List.getLast?_eq_none_iff.mp hg
  | some e => simp [hg] at hl

/-- On a sorted history the last key bounds every key. -/
theorem keysLe_lastKey {h : Hist V} (s : Sorted h) {l : Nat} (hl : lastKey? h = some l) : KeysLe h l := by
  induction h with
  | nil => intro e he; simp at he
  | cons e rest ih =>
    cases rest with
    | nil =>
      simp [lastKey?] at hl
      intro x hx; simp at hx; subst hx; omega
    | cons y ys =>
      rw [lastKey?_cons_ne_nil (by simp)] at hl
      have ih' := ih s.tail hl
      intro x hx
      rcases List.mem_cons.mp hx with h1 | h1
      · subst h1
        have := s.head_lt y (by simp)
        have := ih' y (by simp)
        omega
      · exact ih' x h1

theorem keysLe_mono {h : Hist V} {a b : Nat} (k : KeysLe h a) (hab : a ≤ b) : KeysLe h b :=
  fun e he => Nat.le_trans (k e he) hab

/-- Filtering a sorted history at `n` is "looking at it from block `min m n`". -/
theorem filter_nil_of_gt {h : Hist V} {n : Nat} (hgt : ∀ e ∈ h, n < e.1) :
    h.filter (fun e => decide (e.1 ≤ n)) = [] := by
  apply List.filter_eq_nil_iff.mpr
  intro e he; have := hgt e he; simp; omega

theorem valAt_filter {h : Hist V} (s : Sorted h) (n m : Nat) :
    valAt (h.filter (fun e => decide (e.1 ≤ n))) m = valAt h (min m n) := by
  induction h with
  | nil => simp [valAt]
  | cons e rest ih =>
    by_cases he : e.1 ≤ n
    · have : (e :: rest).filter (fun e => decide (e.1 ≤ n)) = e :: rest.filter (fun e => decide (e.1 ≤ n)) := by
        simp [List.filter_cons, he]
      rw [this]
      by_cases hm : e.1 ≤ m
      · rw [valAt_cons_le hm, valAt_cons_le (by omega : e.1 ≤ min m n), ih s.tail]
      · rw [valAt_cons_gt (by omega), valAt_cons_gt (by omega)]
    · have hr : ∀ x ∈ rest, n < x.1 := fun x hx => by have := s.head_lt x hx; omega
      have : (e :: rest).filter (fun e => decide (e.1 ≤ n)) = [] := by
        simp [List.filter_cons, he]; exact List.filter_eq_nil_iff.mp (filter_nil_of_gt hr) |> fun f => by
          intro a b hab; have := f (a, b) hab; simpa using this
      rw [this, valAt_cons_gt (by omega)]
      rfl

theorem sorted_filter {h : Hist V} (s : Sorted h) (p : Nat × Option V → Bool) : Sorted (h.filter p) := by
  unfold Sorted at *; exact List.Pairwise.sublist List.filter_sublist s

theorem valAt_none_iff {h : Hist V} (n : Nat) : valAt h n = none ↔ (h = [] ∨ ∃ e rest, h = e :: rest ∧ n < e.1) := by
  cases h with
  | nil => simp [valAt]
  | cons e rest =>
    by_cases he : e.1 ≤ n
    · rw [valAt_cons_le he]; simp; omega
    · rw [valAt_cons_gt (by omega)]; simp; omega

/-- `reorg` panics exactly when nothing is in force at `n`. -/
theorem reorg_none_iff {h : Hist V} (s : Sorted h) (n : Nat) : reorg h n = none ↔ valAt h n = none := by
  have hv := valAt_filter s n n
  simp only [Nat.min_self] at hv
  unfold reorg
  simp only
  split
  · rename_i he
    have : h.filter (fun e => decide (e.1 ≤ n)) = [] := by simpa using he
    rw [this] at hv
    simp [valAt] at hv
    simp [hv.symm]
  · rename_i he
    simp only [reduceCtorEq, false_iff]
    intro hn
    rw [← hv] at hn
    rcases (valAt_none_iff n).mp hn with h1 | ⟨e, rest, h1, h2⟩
    · simp [h1] at he
    · have hmem : e ∈ h.filter (fun e => decide (e.1 ≤ n)) := by rw [h1]; simp
      have := (List.mem_filter.mp hmem).2
      simp at this; omega

theorem reorg_some {h h' : Hist V} {n : Nat} (hr : reorg h n = some h') :
    h' = h.filter (fun e => decide (e.1 ≤ n)) ∧ h' ≠ [] := by
  unfold reorg at hr
  simp only at hr
  split at hr
  · simp at hr
  · rename_i he
    simp at hr
    subst hr
    exact ⟨rfl, by simpa using he⟩

/-- A strictly ascending list of keys in `(lo, hi]` has at most `hi - lo` entries. -/
theorem length_le_of_range {h : Hist V} (s : Sorted h) {lo hi : Nat} (r : ∀ e ∈ h, lo < e.1 ∧ e.1 ≤ hi) :
    h.length ≤ hi - lo := by
  induction h generalizing lo with
  | nil => simp
  | cons e rest ih =>
    have he := r e (by simp)
    have := ih s.tail (lo := e.1) (fun x hx => ⟨s.head_lt x hx, (r x (by simp [hx])).2⟩)
    simp; omega

theorem length_prune (W : Nat) {h : Hist V} {b : Nat} (s : Sorted h) (k : KeysLe h b) :
    (prune W h b).length ≤ W + 1 := by
  fun_induction prune W h b
  · rename_i e₁ e₂ rest hle ih
    exact ih s.tail (fun x hx => k x (by simp [hx]))
  · rename_i e₁ e₂ rest hle
    have hs := s.tail
    have : rest.length ≤ b - e₂.1 := by
      apply length_le_of_range hs.tail
      intro x hx
      exact ⟨hs.head_lt x hx, k x (by simp [hx])⟩
    have h2 : e₂.1 ≤ b := k e₂ (by simp)
    simp at this ⊢; omega
  · rename_i h hne
    cases h with
    | nil => simp
    | cons e rest =>
      cases rest with
      | nil => simp
      | cons e2 r2 => exact absurd rfl (hne e e2 r2)

end Brc20.Hist
