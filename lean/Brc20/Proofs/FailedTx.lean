import Brc20.Model.FailedTx
import Brc20.Proofs.ReachProps

namespace Brc20
namespace Node

/-- a recorded write that is not a write of table `i0` for `key` leaves `i0`'s answer for `key` alone -/
theorem applyS_table_frame (i0 : TId) {n n' : Node} {e : Nat} {tb : String} {st : Nat} {k : String} {v : Option String}
    (ha : n.applyS e tb st k v = some n') {key : String} (hk : tb = i0.name → k ≠ key) :
    (n'.t i0).latest key = (n.t i0).latest key := by
  unfold Node.applyS at ha
  split at ha
  · cases ha
  · cases hT : TId.ofName tb with
    | some i =>
      rw [hT] at ha
      by_cases hi : i = i0
      · subst hi
        have hne : key ≠ k := fun x => hk (ofName_name hT) x.symm
        cases v with
        | some v =>
          simp only [Option.map_eq_some_iff] at ha
          obtain ⟨t', e1, rfl⟩ := ha
          simp only [setT, if_true]
          exact Table.latest_set_other e1 hne
        | none =>
          simp only [Option.map_eq_some_iff] at ha
          obtain ⟨t', e1, rfl⟩ := ha
          simp only [setT, if_true]
          exact Table.latest_unset_other e1 hne
      · have hne : i0 ≠ i := fun x => hi x.symm
        cases v with
        | some v =>
          simp only [Option.map_eq_some_iff] at ha
          obtain ⟨t', _, rfl⟩ := ha
          simp only [setT, hne, if_false]
        | none =>
          simp only [Option.map_eq_some_iff] at ha
          obtain ⟨t', _, rfl⟩ := ha
          simp only [setT, hne, if_false]
    | none =>
      rw [hT] at ha
      simp only [] at ha
      split at ha
      · split at ha
        · cases ha; rfl
        · cases ha
      · cases ha

theorem applyEvents_table_frame (i0 : TId) {n n' : Node} {e : Nat} {evs : List Ev} (ha : applyEvents n e evs = some n')
    {key : String} (hk : ∀ st k v, Ev.s i0.name st k v ∈ evs → k ≠ key) :
    (n'.t i0).latest key = (n.t i0).latest key := by
  induction evs generalizing n with
  | nil => simp only [applyEvents] at ha; cases ha; rfl
  | cons ev rest ih =>
    have hrest : ∀ st k v, Ev.s i0.name st k v ∈ rest → k ≠ key :=
      fun st k v hm => hk st k v (List.mem_cons_of_mem _ hm)
    cases ev with
    | s tb st k v =>
      simp only [applyEvents] at ha
      split at ha
      · rename_i n1 h1
        rw [ih ha hrest]
        apply applyS_table_frame i0 h1
        intro htb
        subst htb
        exact hk st k v List.mem_cons_self
      · cases ha
    | x kind fs okRun succ gas logs => simp only [applyEvents] at ha; exact ih ha hrest
    | other => simp only [applyEvents] at ha; exact ih ha hrest

/-- what `failedTxOk` says about the recorded writes of a call whose single run failed -/
theorem failedTxOk_writes {n : Node} {evs : List Ev} {fs : List (String × String)} {okRun : Bool} {gas logs : Nat}
    (hr : txRuns evs = [(fs, okRun, false, gas, logs)]) (hok : failedTxOk n evs = true) :
    (∀ st k v, Ev.s TId.accountMemory.name st k v ∉ evs) ∧
    (∀ st k v, Ev.s TId.code.name st k v ∉ evs) ∧
    (∀ st k v, Ev.s TId.account.name st k v ∈ evs → k = field fs "caller" ∨ k = zeroAddr) := by
  unfold failedTxOk at hok
  rw [hr] at hok
  simp only [List.all_eq_true] at hok
  refine ⟨?_, ?_, ?_⟩
  · intro st k v hm
    have := hok _ hm
    simp [harmlessWrite] at this
  · intro st k v hm
    have := hok _ hm
    simp [harmlessWrite, TId.name] at this
  · intro st k v hm
    have := hok _ hm
    simp only [harmlessWrite, TId.name] at this
    simp only [show ("account" == "account_memory") = false by decide, show ("account" == "code") = false by decide,
      Bool.or_false, Bool.false_eq_true, if_false, beq_self_eq_true, if_true, Bool.or_eq_true, Bool.and_eq_true,
      beq_iff_eq] at this
    rcases this with h | ⟨h, _⟩
    · exact Or.inl h
    · exact Or.inr h

end Node
end Brc20
