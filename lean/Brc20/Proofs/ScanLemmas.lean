/-
Helper lemmas for `Brc20.Proofs.TableScan`: `AMap.get?` through `filter` and `overlay`,
insertion sort by key, and uniqueness of a strictly sorted list with given members.
-/
import Brc20.Model.TableSpec
import Brc20.Proofs.AMap
set_option linter.unusedSectionVars false

namespace Brc20.AMap
variable {K V : Type} [DecidableEq K]

theorem nodup_cons_iff {p : K × V} {m : AMap K V} : Nodup (p :: m) ↔ p.1 ∉ keys m ∧ Nodup m := by
  simp [Nodup, keys, List.nodup_cons]

theorem get?_filter (m : AMap K V) (f : K → Bool) (k : K) :
    get? (m.filter (fun p => f p.1)) k = if f k = true then get? m k else none := by
  induction m with
  | nil => simp
  | cons p rest ih =>
    simp only [List.filter_cons]
    by_cases hp : f p.1 = true
    · simp only [hp, if_true, get?_cons, ih]
      by_cases hk : p.1 = k
      · subst hk; simp [hp]
      · simp [hk]
    · by_cases hk : p.1 = k
      · subst hk; simp [hp, ih]
      · simp [hp, ih, get?_cons, hk]

theorem nodup_filter {m : AMap K V} (nd : Nodup m) (f : K × V → Bool) : Nodup (m.filter f) := by
  unfold Nodup keys at *
  exact List.Nodup.sublist (List.Sublist.map _ List.filter_sublist) nd

theorem mem_iff_get? {m : AMap K V} (nd : Nodup m) (k : K) (v : V) : (k, v) ∈ m ↔ get? m k = some v :=
  ⟨get?_of_mem_nodup nd, mem_of_get?⟩

end Brc20.AMap

namespace Brc20.Table
variable {K V : Type} [DecidableEq K] [DecidableEq V]

/-! ## `overlay` -/

theorem overlay_cons (base : AMap K V) (k : K) (h : Hist V) (rest : AMap K (Hist V)) :
    overlay base ((k, h) :: rest) =
      overlay (match h.latest with | some v => base.insert k v | none => base.erase k) rest := by
  rw [overlay]
  cases h.latest <;> rfl

theorem nodup_overlay (c : AMap K (Hist V)) (base : AMap K V) (nd : AMap.Nodup base) :
    AMap.Nodup (overlay base c) := by
  induction c generalizing base with
  | nil => exact nd
  | cons p rest ih =>
    obtain ⟨k, h⟩ := p
    rw [overlay_cons]
    cases h.latest with
    | none => exact ih _ (AMap.nodup_erase nd k)
    | some v => exact ih _ (AMap.nodup_insert nd k v)

theorem get?_overlay (c : AMap K (Hist V)) (nd : AMap.Nodup c) (base : AMap K V) (k : K) :
    AMap.get? (overlay base c) k =
      match c.get? k with
      | some h => h.latest
      | none => base.get? k := by
  induction c generalizing base with
  | nil => simp [overlay]
  | cons p rest ih =>
    obtain ⟨k0, h0⟩ := p
    obtain ⟨hk0, nd'⟩ := AMap.nodup_cons_iff.mp nd
    have hn : AMap.get? rest k0 = none := (AMap.get?_eq_none_iff rest k0).mpr hk0
    rw [overlay_cons, ih nd', AMap.get?_cons]
    by_cases hk : k0 = k
    · subst hk
      simp only [hn, if_true]
      cases h0.latest <;> simp [AMap.get?_erase, AMap.get?_insert]
    · have hk' : ¬ k = k0 := fun e => hk e.symm
      simp only [hk, if_false]
      cases AMap.get? rest k with
      | some h => rfl
      | none => cases h0.latest <;> simp [AMap.get?_erase, AMap.get?_insert, hk']

/-! ## insertion sort by key -/

theorem mem_insertSorted (lt : K → K → Bool) (p x : K × V) (l : List (K × V)) :
    x ∈ insertSorted lt p l ↔ x = p ∨ x ∈ l := by
  induction l with
  | nil => simp [insertSorted]
  | cons q rest ih =>
    simp only [insertSorted]
    split
    · simp
    · simp only [List.mem_cons, ih]
      constructor
      · rintro (h | h | h)
        · exact Or.inr (Or.inl h)
        · exact Or.inl h
        · exact Or.inr (Or.inr h)
      · rintro (h | h | h)
        · exact Or.inr (Or.inl h)
        · exact Or.inl h
        · exact Or.inr (Or.inr h)

theorem sortByKey_cons (lt : K → K → Bool) (p : K × V) (l : List (K × V)) :
    sortByKey lt (p :: l) = insertSorted lt p (sortByKey lt l) := rfl

theorem mem_sortByKey (lt : K → K → Bool) (x : K × V) (l : List (K × V)) :
    x ∈ sortByKey lt l ↔ x ∈ l := by
  induction l with
  | nil => simp [sortByKey]
  | cons p rest ih => rw [sortByKey_cons, mem_insertSorted, ih]; simp

theorem insertSorted_pairwise {lt : K → K → Bool}
    (tr : ∀ a b c, lt a b = true → lt b c = true → lt a c = true)
    (tot : ∀ a b, lt a b = true ∨ a = b ∨ lt b a = true)
    (p : K × V) (l : List (K × V))
    (hl : l.Pairwise (fun a b => lt a.1 b.1 = true)) (hp : ∀ q ∈ l, q.1 ≠ p.1) :
    (insertSorted lt p l).Pairwise (fun a b => lt a.1 b.1 = true) := by
  induction l with
  | nil => simp [insertSorted]
  | cons q rest ih =>
    obtain ⟨hq, hrest⟩ := List.pairwise_cons.mp hl
    simp only [insertSorted]
    split
    · rename_i hlt
      refine List.pairwise_cons.mpr ⟨?_, hl⟩
      intro x hx
      rcases List.mem_cons.mp hx with rfl | hx
      · exact hlt
      · exact tr _ _ _ hlt (hq x hx)
    · rename_i hlt
      refine List.pairwise_cons.mpr ⟨?_, ih hrest (fun x hx => hp x (List.mem_cons_of_mem _ hx))⟩
      intro x hx
      rcases (mem_insertSorted lt p x rest).mp hx with rfl | hx
      · rcases tot x.1 q.1 with h | h | h
        · exact absurd h hlt
        · exact absurd h.symm (hp q (List.mem_cons_self ..))
        · exact h
      · exact hq x hx

theorem sortByKey_pairwise {lt : K → K → Bool}
    (tr : ∀ a b c, lt a b = true → lt b c = true → lt a c = true)
    (tot : ∀ a b, lt a b = true ∨ a = b ∨ lt b a = true)
    (l : List (K × V)) (nd : AMap.Nodup l) :
    (sortByKey lt l).Pairwise (fun a b => lt a.1 b.1 = true) := by
  induction l with
  | nil => simp [sortByKey]
  | cons p rest ih =>
    obtain ⟨hp, nd'⟩ := AMap.nodup_cons_iff.mp nd
    rw [sortByKey_cons]
    refine insertSorted_pairwise tr tot p _ (ih nd') ?_
    intro q hq e
    apply hp
    rw [← e]
    exact List.mem_map_of_mem (f := (·.1)) ((mem_sortByKey lt q rest).mp hq)

/-! ## a strictly sorted list is determined by its members -/

theorem pairwise_ext {α : Type} {R : α → α → Prop} (irr : ∀ a, ¬ R a a)
    (tr : ∀ a b c, R a b → R b c → R a c) :
    ∀ (l₁ l₂ : List α), l₁.Pairwise R → l₂.Pairwise R → (∀ x, x ∈ l₁ ↔ x ∈ l₂) → l₁ = l₂ := by
  intro l₁
  induction l₁ with
  | nil =>
    intro l₂ _ _ hm
    cases l₂ with
    | nil => rfl
    | cons b l₂ => exact absurd ((hm b).mpr (List.mem_cons_self ..)) (by simp)
  | cons a l₁ ih =>
    intro l₂ h1 h2 hm
    cases l₂ with
    | nil => exact absurd ((hm a).mp (List.mem_cons_self ..)) (by simp)
    | cons b l₂ =>
      obtain ⟨ha, h1'⟩ := List.pairwise_cons.mp h1
      obtain ⟨hb, h2'⟩ := List.pairwise_cons.mp h2
      have hab : a = b := by
        rcases List.mem_cons.mp ((hm a).mp (List.mem_cons_self ..)) with e | e
        · exact e
        · rcases List.mem_cons.mp ((hm b).mpr (List.mem_cons_self ..)) with e' | e'
          · exact e'.symm
          · exact absurd (tr _ _ _ (ha b e') (hb a e)) (irr a)
      subst hab
      congr 1
      apply ih l₂ h1' h2'
      intro x
      constructor
      · intro hx
        rcases List.mem_cons.mp ((hm x).mp (List.mem_cons_of_mem _ hx)) with e | e
        · subst e; exact absurd (ha x hx) (irr x)
        · exact e
      · intro hx
        rcases List.mem_cons.mp ((hm x).mpr (List.mem_cons_of_mem _ hx)) with e | e
        · subst e; exact absurd (hb x hx) (irr x)
        · exact e

/-! ## operations and the two columns -/

theorem reorgLoad_cols (n : Nat) (ks : List K) (t t' : Table K V) (h : t.reorgLoad n ks = some t') :
    t'.db = t.db ∧ t'.cdb = t.cdb := by
  induction ks generalizing t with
  | nil => simp only [reorgLoad, Option.some.injEq] at h; subst h; exact ⟨rfl, rfl⟩
  | cons k ks ih =>
    simp only [reorgLoad] at h
    split at h
    · have := ih _ h; exact this
    · exact absurd h (by simp)

end Brc20.Table
