/-
Helper lemmas for `Brc20/Proofs/Crash.lean`: the state of the two columns after a *prefix* of the writes of
`commit b`, what a reopened table retrieves for each key, and what `reorg n` reads on a table with an empty cache.
Nothing in the first three sections mentions the simulation relation.
-/
import Brc20.Proofs.Table
import Brc20.Proofs.TableScan
set_option linter.unusedSectionVars false

namespace Brc20.Hist
variable {V : Type} [DecidableEq V]

/-! ## `lastKey?` of `put` / `prune` / `set` / `unset` -/

theorem lastKey?_put (h : Hist V) (b : Nat) (x : Option V) : lastKey? (put h b x) = some b := by
  fun_induction put h b x
  · simp [lastKey?]
  · simp [lastKey?]
  · simp [lastKey?]
  · rename_i ih
    rw [lastKey?_cons_ne_nil put_ne_nil]; exact ih

theorem lastKey?_prune (W : Nat) (h : Hist V) (b : Nat) : lastKey? (prune W h b) = lastKey? h := by
  fun_induction prune W h b
  · rename_i e₁ e₂ rest _ ih
    rw [ih]; exact (lastKey?_cons_ne_nil (by simp)).symm
  · rfl
  · rfl

/-- A write either leaves the history alone (same value) or makes `b` its newest key. -/
theorem set_lastKey {W : Nat} {h h' : Hist V} {b : Nat} {v : V} (e : set W h b v = some h') :
    h' = h ∨ lastKey? h' = some b := by
  unfold set at e
  split at e
  · split at e
    · cases e
    · split at e
      · left; cases e; rfl
      · right; cases e; rw [lastKey?_prune, lastKey?_put]
  · right; cases e; rw [lastKey?_prune, lastKey?_put]

theorem unset_lastKey {W : Nat} {h h' : Hist V} {b : Nat} (e : unset W h b = some h') :
    h' = h ∨ lastKey? h' = some b := by
  unfold unset at e
  split at e
  · split at e
    · cases e
    · split at e
      · left; cases e; rfl
      · right; cases e; rw [lastKey?_prune, lastKey?_put]
  · left; cases e; rfl

end Brc20.Hist

namespace Brc20.Table
variable {K V : Type} [DecidableEq K] [DecidableEq V]
open Hist

/-! ## The columns after a prefix of the writes of `commit b` -/

/-- The two writes of one cached key, and the effect of the first one alone: a kept history has its history row
written and its value row untouched; an old history has its value row written and its history row (the previously
persisted history, if any) still in place. -/
theorem keyWrites_first (W b : Nat) (t : Table K V) (k0 : K) (h0 : Hist V) :
    ∃ w1 w2, keyWrites W b k0 h0 = [w1, w2] ∧ (applyWrite t w1).cache = t.cache ∧
      (∀ k, k ≠ k0 → (applyWrite t w1).cdb.get? k = t.cdb.get? k ∧ (applyWrite t w1).db.get? k = t.db.get? k) ∧
      (applyWrite t w1).cdb.get? k0 = (if h0.isOld W b then t.cdb.get? k0 else some h0) ∧
      (applyWrite t w1).db.get? k0 = (if h0.isOld W b then h0.latest else t.db.get? k0) := by
  cases ho : h0.isOld W b <;> cases hl : h0.latest <;>
    refine ⟨_, _, by simp only [keyWrites, ho, hl]; rfl, ?_⟩ <;>
    simp (config := { contextual := true }) [applyWrite, AMap.get?_erase, AMap.get?_insert]

/-- After the first `i` writes of the commit of a duplicate-free cache list `c`: a key outside `c` is untouched;
a key of `c` is untouched, or has both rows written, or - only the key number `i / 2` of `c`, and only for odd
`i` - has its first row written and its second not yet: for a kept history the history row is written and the value
row is the old one; for an old history the value row is written and the history row is still the old one. -/
theorem applyWrites_take (W b : Nat) (c : AMap K (Hist V)) (nd : AMap.Nodup c) (t : Table K V) (i : Nat) :
    let t' := t.applyWrites ((c.flatMap (fun p => keyWrites W b p.1 p.2)).take i)
    t'.cache = t.cache ∧
    (∀ k, c.get? k = none → t'.cdb.get? k = t.cdb.get? k ∧ t'.db.get? k = t.db.get? k) ∧
    (∀ k h, c.get? k = some h →
      (t'.cdb.get? k = t.cdb.get? k ∧ t'.db.get? k = t.db.get? k) ∨
      (t'.cdb.get? k = (if h.isOld W b then t.cdb.get? k else some h) ∧
        t'.db.get? k = (if h.isOld W b then h.latest else t.db.get? k) ∧
        i % 2 = 1 ∧ c[i / 2]? = some (k, h)) ∨
      (t'.cdb.get? k = (if h.isOld W b then none else some h) ∧ t'.db.get? k = h.latest)) := by
  induction c generalizing t i with
  | nil =>
    intro t'
    have e : t' = t := by simp [t', applyWrites]
    rw [e]
    exact ⟨rfl, fun k _ => ⟨rfl, rfl⟩, fun k h hg => by simp at hg⟩
  | cons p rest ih =>
    obtain ⟨k0, h0⟩ := p
    have nd' : AMap.Nodup rest := by
      simp only [AMap.Nodup, AMap.keys, List.map_cons, List.nodup_cons] at nd; exact nd.2
    have hk0 : AMap.get? rest k0 = none := by
      apply (AMap.get?_eq_none_iff rest k0).mpr
      simp only [AMap.Nodup, AMap.keys, List.map_cons, List.nodup_cons] at nd; exact nd.1
    obtain ⟨w1, w2, hw2, c1, o1, d1, b1⟩ := keyWrites_first W b t k0 h0
    have hfl : ((k0, h0) :: rest).flatMap (fun p => keyWrites W b p.1 p.2) =
        w1 :: w2 :: rest.flatMap (fun p => keyWrites W b p.1 p.2) := by
      rw [List.flatMap_cons]
      show keyWrites W b k0 h0 ++ _ = _
      rw [hw2]; rfl
    rw [hfl]
    match i with
    | 0 =>
      intro t'
      have e : t' = t := by simp [t', applyWrites]
      rw [e]
      exact ⟨rfl, fun k _ => ⟨rfl, rfl⟩, fun k h _ => Or.inl ⟨rfl, rfl⟩⟩
    | 1 =>
      intro t'
      have e : t' = applyWrite t w1 := by
        simp [t', applyWrites]
      rw [e]
      refine ⟨c1, ?_, ?_⟩
      · intro k hg
        rw [AMap.get?_cons] at hg
        by_cases hk : k0 = k
        · simp [hk] at hg
        · exact o1 k (fun e => hk e.symm)
      · intro k h hg
        rw [AMap.get?_cons] at hg
        by_cases hk : k0 = k
        · subst hk
          simp at hg; subst hg
          right; left
          exact ⟨d1, b1, rfl, rfl⟩
        · left
          exact o1 k (fun e => hk e.symm)
    | j + 2 =>
      intro t'
      let t1 := t.applyWrites (keyWrites W b k0 h0)
      have e : t' = t1.applyWrites ((rest.flatMap (fun p => keyWrites W b p.1 p.2)).take j) := by
        simp [t', t1, applyWrites, hw2]
      rw [e]
      obtain ⟨c1, d1, b1⟩ := applyWrites_keyWrites W b t k0 h0
      obtain ⟨c2, u2, m2⟩ := ih nd' t1 j
      refine ⟨c2.trans c1, ?_, ?_⟩
      · intro k hg
        rw [AMap.get?_cons] at hg
        by_cases hk : k0 = k
        · simp [hk] at hg
        · have hk' : ¬ k = k0 := fun e => hk e.symm
          simp only [hk, if_false] at hg
          obtain ⟨x1, x2⟩ := u2 k hg
          rw [x1, x2, d1 k, b1 k]; simp [hk']
      · intro k h hg
        rw [AMap.get?_cons] at hg
        by_cases hk : k0 = k
        · subst hk
          simp at hg; subst hg
          obtain ⟨x1, x2⟩ := u2 k0 hk0
          right; right
          rw [x1, x2, d1 k0, b1 k0]; simp
        · have hk' : ¬ k = k0 := fun e => hk e.symm
          simp only [hk, if_false] at hg
          have hd : t1.cdb.get? k = t.cdb.get? k := by rw [d1 k]; simp [hk']
          have hb : t1.db.get? k = t.db.get? k := by rw [b1 k]; simp [hk']
          rcases m2 k h hg with ⟨x1, x2⟩ | ⟨x1, x2, x3, x4⟩ | ⟨x1, x2⟩
          · left; exact ⟨x1.trans hd, x2.trans hb⟩
          · right; left
            refine ⟨by rw [x1, hd], by rw [x2, hb], by omega, ?_⟩
            have : (j + 2) / 2 = j / 2 + 1 := by omega
            rw [this, List.getElem?_cons_succ]; exact x4
          · right; right; exact ⟨x1, x2⟩

/-! ## What the reopened table retrieves -/

/-- Key by key: if, at block `n`, the persisted history and the cached one (when there is one) both say `x k`, and
an old cached history has `x k` as its latest value, then after the crash and the reopen every key's retrievable
history says `x k` at `n`.  (For the one key the crash may have caught between its two writes: a kept history has
been written; an old history has had its value row written and the previously persisted history - which says `x k`
at `n` - is still there, or there was none and the new value row is `x k`.) -/
theorem crash_retrieve {W b i n : Nat} {t : Table K V} (nd : AMap.Nodup t.cache) (x : K → Option V)
    (hs1 : ∀ k h, t.cache.get? k = some h → Sorted h)
    (hs2 : ∀ k h, t.cdb.get? k = some h → Sorted h)
    (hdisk : ∀ k, valAt (disk t k) n = some (x k))
    (hcache : ∀ k h, t.cache.get? k = some h → valAt h n = some (x k))
    (hold : ∀ k h, t.cache.get? k = some h → h.isOld W b = true → h.latest = x k) :
    (t.crashCommit W b i).cache = [] ∧
    ∀ k, Sorted ((t.crashCommit W b i).retrieve k) ∧ valAt ((t.crashCommit W b i).retrieve k) n = some (x k) := by
  refine ⟨rfl, ?_⟩
  intro k
  obtain ⟨_, hu, hm⟩ := applyWrites_take W b t.cache nd t i
  have hsd : Sorted (disk t k) := by
    unfold disk
    cases hd : t.cdb.get? k with
    | some h => exact hs2 k h hd
    | none => exact sorted_new _
  -- the reopened table retrieves from the two columns only
  have hr : (t.crashCommit W b i).retrieve k =
      (match (t.applyWrites ((t.commitWrites W b).take i)).cdb.get? k with
        | some h => h
        | none => Hist.new ((t.applyWrites ((t.commitWrites W b).take i)).db.get? k)) :=
    retrieve_uncached (t := t.crashCommit W b i) rfl
  have hun : ∀ (u : Table K V), u.cdb.get? k = t.cdb.get? k → u.db.get? k = t.db.get? k →
      (match u.cdb.get? k with | some h => h | none => Hist.new (u.db.get? k)) = disk t k := by
    intro u e1 e2; rw [e1, e2]; rfl
  rw [hr]
  unfold commitWrites
  cases hg : t.cache.get? k with
  | none =>
    obtain ⟨e1, e2⟩ := hu k hg
    rw [hun _ e1 e2]
    exact ⟨hsd, hdisk k⟩
  | some h =>
    rcases hm k h hg with ⟨e1, e2⟩ | ⟨e1, e2, e3, e4⟩ | ⟨e1, e2⟩
    · rw [hun _ e1 e2]
      exact ⟨hsd, hdisk k⟩
    · rw [e1, e2]
      cases ho : h.isOld W b with
      | false => simp only [Bool.false_eq_true, if_false]; exact ⟨hs1 k h hg, hcache k h hg⟩
      | true =>
        simp only [if_true]
        cases hd : t.cdb.get? k with
        | some hp =>
          -- the previously persisted history is still on disk
          have e : disk t k = hp := by unfold disk; rw [hd]
          simp only []
          rw [← e]; exact ⟨hsd, hdisk k⟩
        | none =>
          simp only []
          rw [hold k h hg ho]
          exact ⟨sorted_new _, valAt_new _ _⟩
    · rw [e1, e2]
      cases ho : h.isOld W b with
      | false => simp only [Bool.false_eq_true, if_false]; exact ⟨hs1 k h hg, hcache k h hg⟩
      | true =>
        simp only [if_true]
        rw [hold k h hg ho]
        exact ⟨sorted_new _, valAt_new _ _⟩

/-! ## `reorg` on a table with an empty cache -/

/-- `reorg n` on a freshly opened table (empty cache) whose retrievable histories are sorted and all have an
entry in force at `n`: no panic, and every key reads the value its retrievable history had at `n`.  (The equation
`h.latest = db.get? k` between the two columns is *not* assumed: `reorg` re-establishes it.) -/
theorem reorg_reads {W n : Nat} {u : Table K V} (hc : u.cache = []) (x : K → Option V)
    (hs : ∀ k, Sorted (u.retrieve k)) (hv : ∀ k, valAt (u.retrieve k) n = some (x k)) :
    ∃ u', u.reorg W n = some u' ∧ ∀ k, u'.latest k = x k := by
  have hne : ∀ k, (u.retrieve k).filter (fun e => decide (e.1 ≤ n)) ≠ [] := by
    intro k
    apply filter_ne_nil_of_valAt (hs k)
    rw [hv k]; simp
  obtain ⟨t1, e1, e2, e3, e4, e5⟩ := reorgLoad_spec n u.reorgKeys u hne
  have nd1 : AMap.Nodup t1.cache := e4 (by rw [hc]; exact List.nodup_nil)
  refine ⟨t1.commit W n, by simp [Table.reorg, e1], ?_⟩
  intro k
  rw [latest_commit W n t1 nd1 k]
  have h5 := e5 k
  by_cases hk : k ∈ u.reorgKeys
  · simp only [hk, if_true] at h5
    simp only [Table.latest, h5]
    have hkl : KeysLe ((u.retrieve k).filter (fun e => decide (e.1 ≤ n))) n := by
      intro e he
      simpa using (List.mem_filter.mp he).2
    have h1 := valAt_eq_latest (hne k) hkl
    rw [valAt_filter (hs k), Nat.min_self, hv k] at h1
    simp only [Option.some.injEq] at h1
    exact h1.symm
  · simp only [hk, if_false] at h5
    have hk' := (not_congr (mem_reorgKeys u k)).mp hk
    have hcdb : u.cdb.get? k = none := by
      cases hx : u.cdb.get? k with
      | none => rfl
      | some _ => exact absurd (Or.inl (by simp [hx])) hk'
    have hca : u.cache.get? k = none := by rw [hc]; rfl
    rw [hca] at h5
    have hr : u.retrieve k = Hist.new (u.db.get? k) := by
      rw [retrieve_uncached hca, hcdb]
    have h1 := hv k
    rw [hr, valAt_new] at h1
    simp only [Option.some.injEq] at h1
    simp only [Table.latest, h5, e2]
    exact h1

/-! ## The cache is never behind the disk

(`CacheAhead` was a necessary hypothesis of `crash_recoverable` while `commit` deleted an old history row before
writing the value row.  With the present write order `crash_recoverable` no longer uses it; the invariant and its
preservation theorems are kept, they are true and independent of the write order.) -/

/-- Every cached history is at least as new as the persisted history of its key: no persisted stamp lies above
the newest cached stamp.  True of every state reached through the API (`cacheAhead_run`): a cached history is the
persisted one, possibly extended at stamps `≥ top`.  It fails only *inside* `reorg`, between the load (which
truncates the cached copies) and the commit. -/
def CacheAhead (t : Table K V) : Prop :=
  ∀ k h l, t.cache.get? k = some h → lastKey? h = some l → KeysLe (disk t k) l

theorem cacheAhead_of_cache_nil {t : Table K V} (hc : t.cache = []) : CacheAhead t := by
  intro k h l hg; rw [hc] at hg; simp at hg

theorem cacheAhead_empty : CacheAhead (Table.empty : Table K V) :=
  cacheAhead_of_cache_nil rfl

theorem cacheAhead_insert {t : Table K V} {top b : Nat} (ha : CacheAhead t) (iv : Inv t top) (hb : top ≤ b)
    (k : K) (h' : Hist V) (hh : h' = eff t k ∨ lastKey? h' = some b) :
    CacheAhead { t with cache := t.cache.insert k h' } := by
  intro k1 h1 l hg hl
  show KeysLe (disk t k1) l
  simp only [AMap.get?_insert] at hg
  by_cases hk : k1 = k
  · subst hk
    simp at hg; subst hg
    rcases hh with hh | hh
    · cases hc : t.cache.get? k1 with
      | some h0 =>
        rw [eff_cached hc] at hh; rw [hh] at hl
        exact ha k1 h0 l hc hl
      | none =>
        rw [eff_uncached hc] at hh; rw [hh] at hl
        exact keysLe_lastKey (disk_ok iv k1).1.sorted hl
    · rw [hh] at hl; cases hl
      exact keysLe_mono (disk_ok iv k1).1.le hb
  · simp [hk] at hg
    exact ha k1 h1 l hg hl

/-- One legal API call keeps the cache ahead of the disk. -/
theorem cacheAhead_step {W : Nat} {t : Table K V} {s : TSpec K V} (h : Sim W t s) (ha : CacheAhead t)
    (op : TOp K V) (hl : TSpec.legal W s op) : ∀ t', t.step W op = some t' → CacheAhead t' := by
  intro t' e
  cases op with
  | set b k v =>
    simp only [Table.step, Table.set] at e
    split at e
    · rename_i h' he
      cases e
      exact cacheAhead_insert ha h.inv hl k h' (set_lastKey he)
    · cases e
  | unset b k =>
    simp only [Table.step, Table.unset] at e
    split at e
    · rename_i h' he
      cases e
      exact cacheAhead_insert ha h.inv hl k h' (unset_lastKey he)
    · cases e
  | commit b =>
    simp only [Table.step, Option.some.injEq] at e; subst e
    exact cacheAhead_of_cache_nil rfl
  | clear =>
    simp only [Table.step, Option.some.injEq] at e; subst e
    exact cacheAhead_of_cache_nil rfl
  | reorg n =>
    simp only [Table.step, Table.reorg] at e
    split at e
    · simp only [Option.some.injEq] at e; subst e
      exact cacheAhead_of_cache_nil rfl
    · cases e

/-- Any legal history keeps the cache ahead of the disk. -/
theorem cacheAhead_run {W : Nat} {t : Table K V} {s : TSpec K V} (h : Sim W t s) (ha : CacheAhead t)
    (ops : List (TOp K V)) (hl : TSpec.legalRun W s ops) :
    ∃ t', t.run W ops = some t' ∧ Sim W t' (s.run ops) ∧ CacheAhead t' := by
  induction ops generalizing t s with
  | nil => exact ⟨t, rfl, h, ha⟩
  | cons op ops ih =>
    obtain ⟨t1, e1, h1⟩ := step_sim h op hl.1
    obtain ⟨t2, e2, h2, a2⟩ := ih h1 (cacheAhead_step h ha op hl.1 t1 e1) hl.2
    refine ⟨t2, ?_, ?_, a2⟩
    · simp only [Table.run, e1]; exact e2
    · simpa [TSpec.run] using h2

/-- In a table whose cache is ahead of the disk, the value row of a cached key whose history is old at `b`
already holds that history's latest value - provided nothing uncommitted is visible at some `n` in the window
of `b` (`hdur`). -/
theorem CacheAhead.row {W : Nat} {t : Table K V} {s : TSpec K V} (h : Sim W t s) (ha : CacheAhead t) {b n : Nat}
    (hw : s.maxEver ≤ n + W) (hb : b ≤ n + W + 1)
    (hdur : ∀ k, (s.cur k).valAt n = (s.dur k).valAt n)
    {k : K} {h0 : Hist V} (hg : t.cache.get? k = some h0) (ho : h0.isOld W b = true) :
    t.db.get? k = h0.latest := by
  have o0 := h.inv.cache_ok k h0 hg
  obtain ⟨l, hl, _⟩ := o0.lastKey
  have hln : l ≤ n := by
    unfold isOld at ho
    simp [hl] at ho
    omega
  have hkd : KeysLe (disk t k) n := keysLe_mono (ha k h0 l hg hl) hln
  have h1 := valAt_eq_latest (disk_ok h.inv k).1.ne hkd
  rw [(disk_ok h.inv k).2, h.dur_eq k n hw, ← hdur k, ← h.cur_eq k n hw, eff_cached hg,
    isOld_const' o0 ho hb] at h1
  simp only [Option.some.injEq] at h1
  exact h1.symm

theorem valAt_cur_readAt {W : Nat} {t : Table K V} {s : TSpec K V} (h : Sim W t s) (k : K) (n : Nat) :
    valAt (s.cur k) n = some (s.readAt k n) := by
  unfold TSpec.readAt
  cases hv : valAt (s.cur k) n with
  | none => exact absurd hv ((h.cur_ok k).2.valAt_ne n)
  | some x => rfl

end Brc20.Table
