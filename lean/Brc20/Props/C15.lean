/-
C15 - Inscription payload decoding is lossless, bounded and encoding-independent.

`decodePayload limit zdec` is the model of `decode_bytes_from_inscription_data`; zstd is the parameter `zdec`
with the stated contract (`ZstdOk`). The limit is the regenerated `CALLDATA_LIMIT`.
-/
import Brc20.Proofs.Payload
import Brc20.Model.DriverP
import Brc20.Gen.Constants

namespace Brc20
open Payload

/-- The limit the model driver uses is the one in the source. -/
theorem C15.limit_is_source_constant : DriverP.LIMIT = Gen.CALLDATA_LIMIT := by decide

/-- base64 without padding is lossless, for every byte string. -/
theorem C15.b64_roundtrip (x : Bytes) : b64Decode (b64Encode x) = some x := Payload.b64_roundtrip x

/-- nada is lossless, for every byte string (unbounded induction over the encoder state machine). -/
theorem C15.nada_roundtrip (x : Bytes) : nadaDecode (nadaEncode x) = some x := Payload.nada_roundtrip x

/-- Trailing `=` padding (any text after the first `=`) is ignored. -/
theorem C15.padding_ignored (limit : Nat) (zdec : Bytes → Option Bytes) (x : Bytes) (t : List Char) :
    decodePayload limit zdec (b64Encode x ++ '=' :: t) = decodePayload limit zdec (b64Encode x) := by
  unfold decodePayload
  rw [stripPad_append _ _ (b64Encode_no_pad x), stripPad_id _ (b64Encode_no_pad x)]

/-- Raw packing (prefix 0x00) round-trips for every payload up to and including the limit. -/
theorem C15.raw_roundtrip (limit : Nat) (zdec : Bytes → Option Bytes) (x : Bytes) (h : x.length ≤ limit) :
    decodePayload limit zdec (b64Encode (0 :: x)) = some x := by
  unfold decodePayload
  rw [stripPad_id _ (b64Encode_no_pad _), Payload.b64_roundtrip]
  simp; omega

/-- nada packing (prefix 0x01) round-trips for every payload up to and including the limit. -/
theorem C15.nada_payload_roundtrip (limit : Nat) (zdec : Bytes → Option Bytes) (x : Bytes) (h : x.length ≤ limit) :
    decodePayload limit zdec (b64Encode (1 :: nadaEncode x)) = some x := by
  unfold decodePayload
  rw [stripPad_id _ (b64Encode_no_pad _), Payload.b64_roundtrip]
  simp
  exact nada_limit_ok (limit + 1) _ _ (Payload.nada_roundtrip x) (by omega)

/-- zstd contract (parameter): what the decompressor returns fits the buffer, and it inverts the compressor. -/
structure ZstdOk (limit : Nat) (zenc : Bytes → Option Bytes) (zdec : Bytes → Option Bytes) : Prop where
  bounded : ∀ d y, zdec d = some y → y.length ≤ limit
  inverse : ∀ x z, x.length ≤ limit → zenc x = some z → zdec z = some x

/-- **Lossless**: whatever prefix the published encoder picks, its output decodes to the original bytes, with
any `=` padding appended, for every payload up to the limit. -/
theorem C15.payload_roundtrip (limit : Nat) (zenc zdec : Bytes → Option Bytes) (hz : ZstdOk limit zenc zdec)
    (x : Bytes) (h : x.length ≤ limit) (s : List Char) (hs : fromBytes (zenc x) x = some s) (pad : List Char) :
    decodePayload limit zdec (s ++ '=' :: pad) = some x ∧ decodePayload limit zdec s = some x := by
  unfold fromBytes at hs
  cases hzx : zenc x with
  | none => simp [hzx] at hs
  | some z =>
    simp only [hzx] at hs
    split at hs
    · injection hs with hs; subst hs
      rw [C15.padding_ignored]; exact ⟨C15.raw_roundtrip limit zdec x h, C15.raw_roundtrip limit zdec x h⟩
    · split at hs
      · injection hs with hs; subst hs
        rw [C15.padding_ignored]
        exact ⟨C15.nada_payload_roundtrip limit zdec x h, C15.nada_payload_roundtrip limit zdec x h⟩
      · injection hs with hs; subst hs
        rw [C15.padding_ignored]
        have : decodePayload limit zdec (b64Encode (2 :: z)) = some x := by
          unfold decodePayload
          rw [stripPad_id _ (b64Encode_no_pad _), Payload.b64_roundtrip]
          simp [hz.inverse x z h hzx]
        exact ⟨this, this⟩

/-- **Bounded**: no text, however small, decodes to more than `limit` bytes (decompression bombs included). -/
theorem C15.decode_bounded (limit : Nat) (zdec : Bytes → Option Bytes)
    (hz : ∀ d y, zdec d = some y → y.length ≤ limit) (s : List Char) (y : Bytes)
    (h : decodePayload limit zdec s = some y) : y.length ≤ limit := by
  unfold decodePayload at h
  split at h
  · simp at h
  · simp at h
  · rename_i p body _
    by_cases h0 : p = 0
    · simp [h0] at h; obtain ⟨h3, h4⟩ := h; subst h4; omega
    · by_cases h1 : p = 1
      · simp [h1] at h
        cases body with
        | nil => rw [nada_limit_empty] at h; simp at h; subst h; simp
        | cons b bs => have := nada_limit_bounded (limit + 1) (b :: bs) y h (by simp); omega
      · by_cases h2 : p = 2
        · simp [h2] at h; exact hz _ _ h
        · simp [h0, h1, h2] at h

/-- Unknown compression prefixes are refused. -/
theorem C15.unknown_prefix_none (limit : Nat) (zdec : Bytes → Option Bytes) (p : UInt8) (body : Bytes)
    (h0 : p ≠ 0) (h1 : p ≠ 1) (h2 : p ≠ 2) : decodePayload limit zdec (b64Encode (p :: body)) = none := by
  unfold decodePayload
  rw [stripPad_id _ (b64Encode_no_pad _), Payload.b64_roundtrip]
  simp [h0, h1, h2]

/-- The empty text and pure padding have no prefix byte: refused (the Rust used to panic here; fixed). -/
theorem C15.empty_refused (limit : Nat) (zdec : Bytes → Option Bytes) (t : List Char) :
    decodePayload limit zdec [] = none ∧ decodePayload limit zdec ('=' :: t) = none := by
  constructor <;> simp [decodePayload, stripPad, b64Decode]

/-- **Encoding independence at the field-selection level**: the hex field and the base64 field carrying the
packed form of the same bytes select the same bytes. -/
theorem C15.fields_agree (limit : Nat) (zenc zdec : Bytes → Option Bytes) (hz : ZstdOk limit zenc zdec)
    (x : Bytes) (h : x.length ≤ limit) (s : List Char) (hs : fromBytes (zenc x) x = some s) :
    selectBytes (some (some x)) none = selectBytes none (some (decodePayload limit zdec s)) := by
  rw [(C15.payload_roundtrip limit zenc zdec hz x h s hs []).2]
  rfl

/-- Exactly one of the two fields must be given. -/
theorem C15.both_or_neither_refused (a b : Option Bytes) :
    selectBytes (some a) (some b) = none ∧ selectBytes none none = none := by
  constructor <;> rfl

/-! Non-vacuity -/
example : fromBytes (some [1,2,3,4,5,6,7,8,9,10,11,12,13,14,15,16,17,18,19,20]) [0, 0, 0, 0, 0xFF, 7] = some (b64Encode (1 :: nadaEncode [0, 0, 0, 0, 0xFF, 7])) := by
  decide

end Brc20
