/-
C02 - Replicas fed the same call history agree byte for byte.

Three ingredients: (1) the consensus constants of the source are pinned for protocol version 2 - regenerated on
every run and compared as a whole table by the kernel; (2) no result depends on the iteration order of an
in-memory `HashMap` (C13: scans are determined by the readable map alone); (3) the model is a function of the call
history (no wall-clock, no randomness: the only time-dependent field, the block processing time, is not part of it).
On the real code: twin instances with different hash seeds and commit schedules, and pinned observation digests.
-/
import Brc20.Gen.Constants
import Brc20.Props.C13
import Brc20.Proofs.ReachProps

namespace Brc20

/-- **Consensus constants pinned for protocol version 2**: gas per byte, precompile gas prices, window and pool
sizes, fork heights, chain ids, call-data limit, block size, estimate floor, log span. -/
theorem C02.constants_pinned : Gen.PROTOCOL_VERSION = 2 →
    Gen.allConsts = [("BATCH_REQUEST_LIMIT_DEFAULT", 50), ("CALLDATA_LIMIT", 1048576), ("CHAIN_ID", 284847977008),
      ("CHAIN_ID_TESTNETS", 72921082114163), ("DB_VERSION", 7), ("ESTIMATE_LOWER_GAS_LIMIT", 21000),
      ("EVM_CALL_GAS_LIMIT", 1000000000), ("GAS_PER_BIP_322_VERIFY", 20000), ("GAS_PER_BITCOIN_RPC_CALL", 400000),
      ("GAS_PER_BYTE", 12000), ("GAS_PER_LOCKED_PKSCRIPT", 20000), ("GAS_PER_OP_RETURN_TX_ID", 40),
      ("GET_LOGS_MAX_SPAN", 5), ("MAX_BLOCK_SIZE", 4194304), ("MAX_FUTURE_TRANSACTION_BLOCKS", 10),
      ("MAX_FUTURE_TRANSACTION_NONCES", 10), ("MAX_REORG_HISTORY_SIZE", 10), ("MAX_REQUEST_SIZE_DEFAULT", 10485760),
      ("MAX_RESPONSE_SIZE_DEFAULT", 104857600), ("PRAGUE_ACTIVATION_HEIGHT_MAINNET", 923369),
      ("PRAGUE_ACTIVATION_HEIGHT_SIGNET", 275000), ("PROTOCOL_VERSION", 2), ("RLP_HASH_ACTIVATION_HEIGHT_MAINNET", 929000),
      ("RLP_HASH_ACTIVATION_HEIGHT_SIGNET", 0)] := by
  intro _; decide

/-- The indexer / invalid addresses and the five helper-contract addresses are pinned too. -/
theorem C02.addresses_pinned : Gen.PROTOCOL_VERSION = 2 →
    Gen.allAddrs = [("BIP322_PRECOMPILE_ADDRESS", "0x00000000000000000000000000000000000000fe"),
      ("BTC_TX_DETAILS_PRECOMPILE_ADDRESS", "0x00000000000000000000000000000000000000fd"),
      ("GET_LOCKED_PK_SCRIPT_PRECOMPILE_ADDRESS", "0x00000000000000000000000000000000000000fb"),
      ("GET_OP_RETURN_TX_ID_PRECOMPILE_ADDRESS", "0x00000000000000000000000000000000000000fa"),
      ("INDEXER_ADDRESS", "0x0000000000000000000000000000000000003ca6"),
      ("INVALID_ADDRESS", "0x000000000000000000000000000000000000dead"),
      ("LAST_SAT_LOCATION_PRECOMPILE_ADDRESS", "0x00000000000000000000000000000000000000fc")] := by
  intro _; decide

/-- List-valued results do not depend on hash-map iteration order: two tables that read the same (e.g. two
replicas, whatever order their in-memory maps iterate in, wherever they committed) return the same scan. -/
theorem C02.scans_replica_independent {K V : Type} [DecidableEq K] [DecidableEq V] {lt : K → K → Bool}
    (st : Table.StrictTotal lt) {t t' : Table K V}
    (hc : AMap.Nodup t.cache) (hd : AMap.Nodup t.db) (hc' : AMap.Nodup t'.cache) (hd' : AMap.Nodup t'.db)
    (hl : ∀ k, t.latest k = t'.latest k) (lo hi : K) : t.getRange lt lo hi = t'.getRange lt lo hi :=
  C13.range_scan_order_independent st hc hd hc' hd' hl lo hi

/-- **The same for every pair of reachable nodes** (two replicas, whatever calls, recorded events, commit schedules
and in-memory iteration orders led to them): if a table reads the same on both, every range scan of it returns the
same list. The duplicate-freeness hypotheses are discharged from reachability (`Node.Reach.table_nodup`). -/
theorem C02.scans_replica_independent_reachable {lt : String → String → Bool} (st : Table.StrictTotal lt)
    (n n' : Node) (hr : Node.Reach n) (hr' : Node.Reach n') (i : TId)
    (hl : ∀ k, (n.t i).latest k = (n'.t i).latest k) (lo hi : String) :
    (n.t i).getRange lt lo hi = (n'.t i).getRange lt lo hi :=
  C02.scans_replica_independent st (hr.table_nodup i).2 (hr.table_nodup i).1 (hr'.table_nodup i).2
    (hr'.table_nodup i).1 hl lo hi

end Brc20
