/-
C08 - Signed transactions execute once, in nonce order, via a bounded pending pool.

`addRawTx` is the model of `add_raw_tx_to_block`. The EVM's part of the contract - "a run that revm accepts
bumps the sender's nonce by exactly one" - is a hypothesis where needed; everything else is bookkeeping.

"`txpool_content` shows exactly the waiting set": the model checks, on the recorded events, that every entry the
drain loop visited has left the pending table (`drainCheck`, reject `drain-kept`) and that a finalise leaves no entry
parked 10 or more blocks ago (`poolFreshAt`, reject `expired-kept`): `C08.drained_entries_leave_pool`,
`C08.finalise_leaves_no_expired`, `C08.mine_leaves_no_expired`.

The pool invariant of EVERY reachable node (`C08.pool_rows_wellformed_reachable` and the theorems after it, proofs in
Proofs/Pool.lean): the model accepts a `set` of a row of the pending table only from a parked submission, only for the
submitted `(sender, nonce)` and only with the height being built as the block number inside the row (`parkedShape`,
reject `parked-shape`; `noPendingSet`, rejects `tx-set-pending` / `fin-set-pending`). Hence every readable row of a
reachable node - at a block boundary or not, after `commit`, `clear`, a restart or a `reorg` - was parked at most at
the height being built and fewer than 10 blocks before the latest block.
-/
import Brc20.Model.Node
import Brc20.Proofs.Node
import Brc20.Proofs.NodeRun
import Brc20.Proofs.Pool
import Brc20.Gen.Constants

namespace Brc20
open Node

theorem C08.constants : Gen.MAX_FUTURE_TRANSACTION_NONCES = Node.FUTURE_NONCES ∧
    Gen.MAX_FUTURE_TRANSACTION_BLOCKS = Node.FUTURE_BLOCKS := by decide

/-- Undecodable raw transactions are rejected without effect. -/
theorem C08.undecodable_rejected (n : Node) (ts : Nat) (h : String) (idx : Nat) (txid : String) (evs : List Ev) :
    n.addRawTx ts h idx txid .fail evs = (n, .err "decode") := by
  rfl

/-- Wrong-chain, stale (nonce below the account) and far-future (10 or more ahead) transactions leave the node
untouched and append nothing, whatever the response class. -/
theorem C08.ignored_noop (n : Node) (ts : Nat) (h : String) (idx : Nat) (txid : String) (sender : String) (nonce : Nat)
    (evs : List Ev) (hn : nonce < n.accountNonce sender ∨ n.accountNonce sender + FUTURE_NONCES ≤ nonce) :
    (n.addRawTx ts h idx txid (.ok sender nonce) evs).1 = n ∧ (n.addRawTx ts h idx txid .wrongChain evs).1 = n := by
  refine ⟨?_, ?_⟩
  · simp only [addRawTx]
    have h1 : nonce ≠ n.accountNonce sender := by unfold FUTURE_NONCES at hn; omega
    have h2 : ¬(nonce > n.accountNonce sender ∧ nonce < n.accountNonce sender + FUTURE_NONCES) := by omega
    rw [if_pos h1, if_neg h2]
    split <;> rfl
  · simp only [addRawTx]
    split <;> rfl

/-- A transaction ahead of the account by fewer than 10 is parked: no EVM run is accepted for it, the block under
construction (count, gas, log index, header) is untouched, heights are untouched. -/
theorem C08.parked_leaves_block_untouched (n : Node) (ts : Nat) (h : String) (idx : Nat) (txid : String) (sender : String)
    (nonce : Nat) (evs : List Ev)
    (hn : n.accountNonce sender < nonce ∧ nonce < n.accountNonce sender + FUTURE_NONCES) :
    (n.addRawTx ts h idx txid (.ok sender nonce) evs).1.lbi = n.lbi ∧
    (n.addRawTx ts h idx txid (.ok sender nonce) evs).1.latest = n.latest ∧
    (n.addRawTx ts h idx txid (.ok sender nonce) evs).1.maxBlock = n.maxBlock := by
  simp only [addRawTx]
  have h1 : nonce ≠ n.accountNonce sender := by omega
  have h2 : nonce > n.accountNonce sender ∧ nonce < n.accountNonce sender + FUTURE_NONCES := ⟨hn.1, hn.2⟩
  rw [if_pos h1, if_pos h2]
  split
  · exact ⟨rfl, rfl, rfl⟩
  · split
    · exact ⟨rfl, rfl, rfl⟩
    · split
      · exact ⟨rfl, rfl, rfl⟩
      · split
        · exact ⟨rfl, rfl, rfl⟩
        · rename_i n' ha
          exact applyEvents_fields ha

/-- Execution happens only at the account nonce: an accepted call whose transaction was run had
`nonce = account nonce` (so, with the EVM bumping the nonce by one per accepted run, on-chain nonces of a signer are
0, 1, 2, ... each once). -/
theorem C08.executes_only_at_account_nonce (n : Node) (ts : Nat) (h : String) (idx : Nat) (txid : String) (sender : String)
    (nonce : Nat) (evs : List Ev)
    (hrun : (n.addRawTx ts h idx txid (.ok sender nonce) evs).1.lbi.waiting ≠ n.lbi.waiting) :
    nonce = n.accountNonce sender := by
  apply Decidable.byContradiction
  intro h1
  apply hrun
  simp only [addRawTx]
  rw [if_pos h1]
  split
  · split
    · rfl
    · split
      · rfl
      · split
        · rfl
        · split
          · rfl
          · rename_i n' ha
            rw [(applyEvents_fields ha).1]
  · split <;> rfl

/-- **Receipts = appended**: when the call is accepted at the account nonce, the number of transactions appended to
the block is exactly `1 +` the number of live waiting successors found in the pool, and they take consecutive
indexes starting at the submitted one. -/
theorem C08.appended_count (n : Node) (ts : Nat) (h : String) (txid : String) (sender : String) (evs : List Ev)
    (hok : (n.addRawTx ts h n.lbi.waiting txid (.ok sender (n.accountNonce sender)) evs).2 = .ok) :
    (n.addRawTx ts h n.lbi.waiting txid (.ok sender (n.accountNonce sender)) evs).1.lbi.waiting =
      n.lbi.waiting + 1 + (drainPlan n sender n.nextHeight FUTURE_NONCES (n.accountNonce sender + 1)).1 := by
  rw [addRawTx_exec] at hok ⊢
  obtain ⟨hok', he, _⟩ := drainCheck_ok hok
  rw [he]
  obtain ⟨_, _, hk, _, _, n', _, hn⟩ := addTxs_ok hok'
  rw [hn]
  simp only [bumpLbi_waiting, l0_waiting]
  rw [hk _ rfl]
  omega

/-- The drain visits consecutive nonces and executes exactly the entries younger than 10 blocks; it never executes
more than it visits, and visits at most 10. -/
theorem C08.drain_bounds (n : Node) (sender : String) (bn fuel nonce : Nat) :
    (drainPlan n sender bn fuel nonce).1 ≤ (drainPlan n sender bn fuel nonce).2 ∧
    (drainPlan n sender bn fuel nonce).2 ≤ fuel := by
  induction fuel generalizing nonce with
  | zero => simp [drainPlan]
  | succ fuel ih =>
    unfold drainPlan
    split
    · simp
    · have := ih (nonce + 1)
      simp only []
      split <;> split <;> omega

/-- What the drain visits: the entries at the consecutive nonces `nonce, nonce + 1, ..` that have a row in the
pending table, up to the first gap (or 10 entries). -/
theorem C08.drain_visits_consecutive (n : Node) (sender : String) (bn fuel nonce : Nat) :
    (∀ k, k < (drainPlan n sender bn fuel nonce).2 →
      (n.t .pending).latest (sender ++ hexN 16 (nonce + k)) ≠ none) ∧
    ((drainPlan n sender bn fuel nonce).2 < fuel →
      (n.t .pending).latest (sender ++ hexN 16 (nonce + (drainPlan n sender bn fuel nonce).2)) = none) := by
  induction fuel generalizing nonce with
  | zero => simp [drainPlan]
  | succ fuel ih =>
    unfold drainPlan
    cases hl : (n.t .pending).latest (sender ++ hexN 16 nonce) with
    | none =>
      refine ⟨fun k hk => absurd hk (Nat.not_lt_zero k), fun _ => ?_⟩
      simpa using hl
    | some v =>
      obtain ⟨ih1, ih2⟩ := ih (nonce + 1)
      refine ⟨?_, ?_⟩
      · intro k hk
        cases k with
        | zero => rw [Nat.add_zero, hl]; simp
        | succ k =>
          have := ih1 k (by simpa using hk)
          rwa [Nat.add_assoc, Nat.add_comm 1 k] at this
      · intro hlt
        have := ih2 (by simpa using hlt)
        simp only []
        rwa [Nat.add_assoc, Nat.add_comm 1] at this

/-- **Drained entries leave the pool.** When a signed transaction at the account nonce is accepted, every waiting
successor the drain loop visited - executed, or skipped because it was parked 10 or more blocks ago - has no row in
the pending table (`account_and_nonce_to_tx_hash`) any more: `txpool_content` no longer shows it.
(The engine calls `remove_pending_tx` for each visited entry; the companion row in `pending_tx_hash_to_tx_id` is
not removed by the engine and nothing is claimed about it.) -/
theorem C08.drained_entries_leave_pool (n : Node) (ts : Nat) (h : String) (idx : Nat) (txid : String) (sender : String)
    (evs : List Ev)
    (hok : (n.addRawTx ts h idx txid (.ok sender (n.accountNonce sender)) evs).2 = .ok) :
    ∀ k, k < (drainPlan n sender n.nextHeight FUTURE_NONCES (n.accountNonce sender + 1)).2 →
      ((n.addRawTx ts h idx txid (.ok sender (n.accountNonce sender)) evs).1.t .pending).latest
        (sender ++ hexN 16 (n.accountNonce sender + 1 + k)) = none := by
  rw [addRawTx_exec] at hok ⊢
  obtain ⟨_, he, hg⟩ := drainCheck_ok hok
  rw [he]
  exact drainGone_spec hg

/-- A model answer `ok` for a call whose recorded events keep a drained entry is impossible: such a call is
rejected as not fitting the engine (`drain-kept`), with the node left alone. -/
theorem C08.kept_drained_entry_rejected (n : Node) (ts : Nat) (h : String) (idx : Nat) (txid : String) (sender : String)
    (evs : List Ev) (k : Nat)
    (hk : k < (drainPlan n sender n.nextHeight FUTURE_NONCES (n.accountNonce sender + 1)).2)
    (hadd : (n.addTxs ts h idx (some txid) evs
      (some (1 + (drainPlan n sender n.nextHeight FUTURE_NONCES (n.accountNonce sender + 1)).1))).2 = .ok)
    (hkept : ((n.addTxs ts h idx (some txid) evs
      (some (1 + (drainPlan n sender n.nextHeight FUTURE_NONCES (n.accountNonce sender + 1)).1))).1.t .pending).latest
        (sender ++ hexN 16 (n.accountNonce sender + 1 + k)) ≠ none) :
    n.addRawTx ts h idx txid (.ok sender (n.accountNonce sender)) evs = (n, .reject "drain-kept") := by
  rw [addRawTx_exec]
  rcases drainCheck_cases n sender (n.accountNonce sender + 1)
    (drainPlan n sender n.nextHeight FUTURE_NONCES (n.accountNonce sender + 1)).2
    (n.addTxs ts h idx (some txid) evs
      (some (1 + (drainPlan n sender n.nextHeight FUTURE_NONCES (n.accountNonce sender + 1)).1))) with e | ⟨_, e⟩
  · exfalso
    have hok : (drainCheck n sender (n.accountNonce sender + 1)
        (drainPlan n sender n.nextHeight FUTURE_NONCES (n.accountNonce sender + 1)).2
        (n.addTxs ts h idx (some txid) evs
          (some (1 + (drainPlan n sender n.nextHeight FUTURE_NONCES (n.accountNonce sender + 1)).1)))).2 = .ok := by
      rw [e]; exact hadd
    exact hkept (drainGone_spec (drainCheck_ok hok).2.2 k hk)
  · exact e

/-- **A finalise leaves no expired entry in the pool.** After an accepted finalise of block `bn` (the new latest
height), every row of the pending table carries the number `pb` of the block it was parked in, and
`bn < pb + 10`: it was parked fewer than 10 blocks ago. (`clear_txpool(bn)` removes every entry without a block
number or with `pb + 10 <= bn`.) -/
theorem C08.finalise_leaves_no_expired (n : Node) (ts : Nat) (h : String) (count : Nat) (evs : List Ev)
    (hok : (n.finaliseOne ts h count evs).2 = .ok) :
    (n.finaliseOne ts h count evs).1.latestHeight = n.nextHeight ∧
    ∀ k v, ((n.finaliseOne ts h count evs).1.t .pending).latest k = some v →
      ∃ pb, parkedBlock v = some pb ∧ (n.finaliseOne ts h count evs).1.latestHeight < pb + 10 := by
  obtain ⟨n1, _, _, hn⟩ := finaliseOne_ok_node hok
  have hlh : (n.finaliseOne ts h count evs).1.latestHeight = n.nextHeight := by rw [hn]; rfl
  obtain ⟨_, n', _, _, _, _, _, ht, _, _, hf⟩ := finaliseOne_ok hok
  refine ⟨hlh, ?_⟩
  intro k v hl
  rw [ht] at hl
  rw [hlh]
  exact poolFreshAt_spec hf k v hl

/-- the same for `mine`: after an accepted `mine` of at least one block, no pool entry is 10 or more blocks old -/
theorem C08.mine_leaves_no_expired (n : Node) (count ts : Nat) (evs : List Ev) (hc : 0 < count)
    (hok : (n.mine count ts evs).2 = .ok) :
    ∀ k v, ((n.mine count ts evs).1.t .pending).latest k = some v →
      ∃ pb, parkedBlock v = some pb ∧ (n.mine count ts evs).1.latestHeight < pb + 10 := by
  have loop : ∀ (c : Nat) (m : Node),
      (c = 0 → ∀ k v, (m.t .pending).latest k = some v → ∃ pb, parkedBlock v = some pb ∧ m.latestHeight < pb + 10) →
      (mineLoop m ts evs c).2 = .ok →
      ∀ k v, ((mineLoop m ts evs c).1.t .pending).latest k = some v →
        ∃ pb, parkedBlock v = some pb ∧ (mineLoop m ts evs c).1.latestHeight < pb + 10 := by
    intro c
    induction c with
    | zero => intro m hm _; exact hm rfl
    | succ c ih =>
      intro m _ hok
      simp only [mineLoop] at hok ⊢
      cases hr : finaliseOne m ts zeroHash 0 (evs.filter (fun e => stampOf e == some m.nextHeight)) with
      | mk m' cl =>
        rw [hr] at hok
        cases cl with
        | ok =>
          simp only [] at hok ⊢
          have hfo : (finaliseOne m ts zeroHash 0 (evs.filter (fun e => stampOf e == some m.nextHeight))).2 = .ok := by
            rw [hr]
          have := (C08.finalise_leaves_no_expired m ts zeroHash 0 _ hfo).2
          rw [hr] at this
          exact ih m' (fun _ => this) hok
        | err e => cases hok
        | panic => cases hok
        | reject w => cases hok
  unfold mine at hok ⊢
  split at hok
  · cases hok
  · rename_i hw
    rw [if_neg hw]
    split at hok
    · cases hok
    · rename_i hcl
      rw [if_neg hcl]
      exact loop count n (fun h0 => absurd h0 (by omega)) hok

/-- **A parked submission must record the writes of `set_pending_tx`, with the height being built inside the row.**
Before the `parked-shape` check the model accepted any pending-pool writes from a parked submission, so a reachable
node could hold a row without a block number between finalises (the recorded events below: one write, of a row `"77"`
in which `parkedBlock` finds no block number). The model now rejects these events, and leaves the node alone. -/
example : (({} : Node).addRawTx 150 zeroHash 0 "cd" (.ok "aa" 1)
      [.s "account_and_nonce_to_tx_hash" 0 "aa0000000000000001" (some "77")]) = ({}, .reject "parked-shape") ∧
    parkedBlock "77" = none ∧
    ¬ (({} : Node).addRawTx 150 zeroHash 0 "cd" (.ok "aa" 1)
      [.s "account_and_nonce_to_tx_hash" 0 "aa0000000000000001" (some "77")]).2.accepted := by
  have h : (({} : Node).addRawTx 150 zeroHash 0 "cd" (.ok "aa" 1)
      [.s "account_and_nonce_to_tx_hash" 0 "aa0000000000000001" (some "77")]) = ({}, .reject "parked-shape") := by
    have h2 : parkedShape "aa" 1 ({} : Node).nextHeight
        [.s "account_and_nonce_to_tx_hash" 0 "aa0000000000000001" (some "77")] = false := by decide
    have hacc : ({} : Node).accountNonce "aa" = 0 := by decide
    simp only [addRawTx, hacc]
    rw [if_pos (by decide), if_pos (by decide), if_neg (by decide), if_neg (by decide), h2]
    rfl
  refine ⟨h, by decide, ?_⟩
  rw [h]; exact fun x => x

namespace C08.Example

-- the parked row is a 162-character string that `decide` has to walk through
set_option maxRecDepth 8192

/-- a parked transaction row as far as the model reads it: hash, nonce 1, block hash, `Some(0)`: parked in block 0 -/
def row : String :=
  "0000000000000000000000000000000000000000000000000000000000000077" ++ "0000000000000001" ++
  "0000000000000000000000000000000000000000000000000000000000000001" ++ "01" ++ "0000000000000000"

/-- sender `aa` (account nonce 0) with nonce 1 parked in block 0 -/
def parked : Node :=
  (({} : Node).addRawTx 100 zeroHash 0 "cd" (.ok "aa" 1)
    [.s "pending_tx_hash_to_tx_id" 0 "77" (some "cd"), .s "account_and_nonce_to_tx_hash" 0 "aa0000000000000001" (some row)]).1

def env : List (String × String) :=
  [("number", "0"), ("ts", "100"), ("prevrandao", generatedHash 0), ("basefee", "0"), ("gasprice", "0"), ("value", "0"),
   ("coinbase", "0000000000000000000000000000000000000000"), ("txid", "ab"), ("blockgaslimit", "18446744073709551615")]

/-- nonce 0 arrives: two runs (the submitted transaction and the drained successor), the account row after them -/
def evRuns : List Ev :=
  [ .x "tx" env true true 21000 0, .x "tx" env true true 21000 0,
    .s "account" 0 "aa" (some "a2") ]

/-- Non-vacuity: the drain visits and executes one entry. With the recorded `remove_pending_tx` the call is accepted,
two transactions are appended and the entry has left the pool; without it (an engine that forgets the removal) the
same call is rejected as `drain-kept` and the node is left alone. -/
example : drainPlan parked "aa" parked.nextHeight FUTURE_NONCES (parked.accountNonce "aa" + 1) = (1, 1) ∧
    (parked.t .pending).latest "aa0000000000000001" = some row ∧
    (parked.addRawTx 100 zeroHash 0 "ab" (.ok "aa" 0)
      (evRuns ++ [.s "account_and_nonce_to_tx_hash" 0 "aa0000000000000001" none])).2 = .ok ∧
    (parked.addRawTx 100 zeroHash 0 "ab" (.ok "aa" 0)
      (evRuns ++ [.s "account_and_nonce_to_tx_hash" 0 "aa0000000000000001" none])).1.lbi.waiting = 2 ∧
    ((parked.addRawTx 100 zeroHash 0 "ab" (.ok "aa" 0)
      (evRuns ++ [.s "account_and_nonce_to_tx_hash" 0 "aa0000000000000001" none])).1.t .pending).latest
        "aa0000000000000001" = none ∧
    parked.addRawTx 100 zeroHash 0 "ab" (.ok "aa" 0) evRuns = (parked, .reject "drain-kept") := by
  refine ⟨by decide, by decide, by decide, by decide, by decide, ?_⟩
  exact C08.kept_drained_entry_rejected parked 100 zeroHash 0 "ab" "aa" evRuns 0 (by decide) (by decide) (by decide)

/-- Non-vacuity of the pool invariant: `parked` is reachable, its pool holds the row, the row carries block 0 = the
height being built. -/
example : Reach parked ∧ (parked.t .pending).latest "aa0000000000000001" = some row ∧
    parkedBlock row = some 0 ∧ parked.nextHeight = 0 ∧ parked.latestHeight = 0 := by
  refine ⟨?_, by decide, by decide, by decide, by decide⟩
  have hok : (({} : Node).addRawTx 100 zeroHash 0 "cd" (.ok "aa" 1)
      [.s "pending_tx_hash_to_tx_id" 0 "77" (some "cd"),
       .s "account_and_nonce_to_tx_hash" 0 "aa0000000000000001" (some row)]).2 = .ok := by decide
  exact Reach.step (.addRawTx 100 zeroHash 0 "cd" (.ok "aa" 1)
    [.s "pending_tx_hash_to_tx_id" 0 "77" (some "cd"),
     .s "account_and_nonce_to_tx_hash" 0 "aa0000000000000001" (some row)]) Reach.init
    (by
      show (({} : Node).addRawTx 100 zeroHash 0 "cd" (.ok "aa" 1)
        [.s "pending_tx_hash_to_tx_id" 0 "77" (some "cd"),
         .s "account_and_nonce_to_tx_hash" 0 "aa0000000000000001" (some row)]).2.accepted
      rw [hok]; trivial)

/-- the same submission with a row that carries another block number (`Some(1)` while block 0 is being built) is
rejected -/
example : (({} : Node).addRawTx 100 zeroHash 0 "cd" (.ok "aa" 1)
    [.s "pending_tx_hash_to_tx_id" 0 "77" (some "cd"),
     .s "account_and_nonce_to_tx_hash" 0 "aa0000000000000001"
       (some ("0000000000000000000000000000000000000000000000000000000000000077" ++ "0000000000000001" ++
          "0000000000000000000000000000000000000000000000000000000000000001" ++ "01" ++ "0000000000000001"))]).2 =
    .reject "parked-shape" := by decide

end C08.Example

/-- An entry parked in block `pb` is live for the drain of block `bn` iff `bn < pb + 10` (window edge exact). -/
theorem C08.window_edge (pb bn : Nat) : decide (FUTURE_BLOCKS + pb > bn) = true ↔ bn < pb + 10 := by
  rw [decide_eq_true_iff]
  unfold FUTURE_BLOCKS
  omega

/-! ### The pool of every reachable node

`Node.Reach`: the empty node, closed under every operation of the model with ANY arguments and ANY recorded events,
as long as the model answers `ok` or an error. -/

/-- **The pool invariant, for every reachable node** (at a block boundary or mid-block; after `commit`, `clear`, a
restart, `reorg`): every row `txpool_content` shows carries the number `pb` of the block it was parked in, `pb` is at
most the height being built, and the latest block is fewer than `MAX_FUTURE_TRANSACTION_BLOCKS` = 10 blocks after
`pb`. (Right after a parked submission `pb = nextHeight`; right after a finalise `pb ≤ latestHeight`.) -/
theorem C08.pool_rows_wellformed_reachable {n : Node} (h : Reach n) (k v : String)
    (hl : (n.t .pending).latest k = some v) :
    ∃ pb, parkedBlock v = some pb ∧ pb ≤ n.nextHeight ∧ n.latestHeight < pb + 10 := by
  obtain ⟨pb, h1, h2, _, h4⟩ := h.pool_rows hl
  exact ⟨pb, h1, h2, h4⟩

/-- the same, in terms of the latest block only: a row was parked in one of the 10 blocks
`latestHeight - 8 .. latestHeight + 1` -/
theorem C08.pool_rows_window_reachable {n : Node} (h : Reach n) (k v : String)
    (hl : (n.t .pending).latest k = some v) :
    ∃ pb, parkedBlock v = some pb ∧ pb ≤ n.latestHeight + 1 ∧ n.latestHeight < pb + 10 := by
  obtain ⟨pb, h1, h2, h3⟩ := C08.pool_rows_wellformed_reachable h k v hl
  refine ⟨pb, h1, ?_, h3⟩
  obtain ⟨e1, e2⟩ := h.heights
  cases hlk : (n.b .numberToHash).lastKey with
  | none => rw [hlk] at e2; simp only [BlockDb.nextOf] at e2; omega
  | some e => rw [hlk] at e1 e2; simp only [Option.getD_some, BlockDb.nextOf] at e1 e2; omega

/-- **What comes back after a `clear` / restart is well-formed too**: the committed rows (the value column) of a
reachable node, relative to the heights a restart continues at. -/
theorem C08.pool_rows_wellformed_durable {n : Node} (h : Reach n) (k v : String)
    (hl : (n.t .pending).db.get? k = some v) :
    ∃ pb, parkedBlock v = some pb ∧ pb ≤ n.durNext ∧ n.durLatest < pb + 10 := by
  have hc : Reach (n.clear).1 := Reach.step .clear h trivial
  exact C08.pool_rows_wellformed_reachable hc k v hl

/-- **After an accepted `reorg` to `target`** every pool row was parked at most in block `target + 1` and fewer than
10 blocks before `target`: a rollback restores only rows that were live at the end of block `target`. -/
theorem C08.pool_rows_after_reorg {n : Node} (h : Reach n) (target : Nat) (hok : (n.reorg target).2 = .ok)
    (k v : String) (hl : ((n.reorg target).1.t .pending).latest k = some v) :
    ∃ pb, parkedBlock v = some pb ∧ pb ≤ target + 1 ∧ target < pb + 10 := by
  have hr2 : Reach (n.reorg target).1 :=
    Reach.step (.reorg target) h (by show (n.reorg target).2.accepted; rw [hok]; trivial)
  obtain ⟨pb, h1, h2, h3⟩ := C08.pool_rows_wellformed_reachable hr2 k v hl
  obtain ⟨e1, e2, _⟩ := h.reorg_heights hok
  exact ⟨pb, h1, by omega, by omega⟩

/-- **Every version the pending table keeps carries its own stamp**: in the cache and in the history column of a
reachable node every entry `(b, Some(tx))` of every key has `tx.block_number = Some(b)` - the stamp of the write is
the height being built, which is the block number `add_raw_tx_to_block` puts into the transaction. -/
theorem C08.pool_versions_carry_their_stamp {n : Node} (h : Reach n) (k : String) (hist : Hist String)
    (hk : (n.t .pending).cache.get? k = some hist ∨ (n.t .pending).cdb.get? k = some hist) (b : Nat) (v : String)
    (hm : (b, some v) ∈ hist) : parkedBlock v = some b :=
  h.pool_versions hk hm

/-- **Rows come from parked signed submissions only.** A row readable after `add_raw_tx_to_block` was readable
before, or it is the row of the submitted `(sender, nonce)`, the nonce is ahead of the account nonce by fewer than
`MAX_FUTURE_TRANSACTION_NONCES` = 10, and the row carries the height being built. -/
theorem C08.pool_row_from_parked_submission (n : Node) (ts : Nat) (h : String) (idx : Nat) (txid : String)
    (dec : RawDecode) (evs : List Ev) (k v : String)
    (hl : ((n.addRawTx ts h idx txid dec evs).1.t .pending).latest k = some v) :
    (n.t .pending).latest k = some v ∨
    ∃ sender nonce, dec = .ok sender nonce ∧ k = sender ++ hexN 16 nonce ∧
      n.accountNonce sender < nonce ∧ nonce < n.accountNonce sender + 10 ∧
      parkedBlock v = some n.nextHeight :=
  addRawTx_pool_rows_from ts h idx txid dec evs hl

/-- Transactions (inscription transactions, deposits, the executed path of a signed transaction with its drained
successors) and finalises (`clear_txpool`) only remove rows. -/
theorem C08.pool_rows_only_removed (n : Node) (ts : Nat) (h : String) (idx : Nat) (txid : Option String)
    (evs : List Ev) (kk : Option Nat) (count : Nat) (k v : String) :
    (((n.addTxs ts h idx txid evs kk).1.t .pending).latest k = some v → (n.t .pending).latest k = some v) ∧
    (((n.finaliseOne ts h count evs).1.t .pending).latest k = some v → (n.t .pending).latest k = some v) :=
  ⟨fun hl => addTxs_pool_rows_from ts h idx txid evs kk hl, fun hl => finaliseOne_pool_rows_from ts h count evs hl⟩

/-- a recorded `set` of a pending-table row by a transaction or a finalise is rejected -/
theorem C08.tx_set_pending_rejected (n : Node) (ts : Nat) (h : String) (idx : Nat) (txid : Option String)
    (evs : List Ev) (kk : Option Nat) (count : Nat) (st : Nat) (k v : String)
    (hm : Ev.s TId.pending.name st k (some v) ∈ evs) :
    (n.addTxs ts h idx txid evs kk).2 ≠ .ok ∧ (n.finaliseOne ts h count evs).2 ≠ .ok :=
  ⟨fun hok => noPendingSet_not_mem (addTxs_ok_noPendingSet hok) hm,
   fun hok => noPendingSet_not_mem (finaliseOne_ok_noPendingSet hok) hm⟩

end Brc20
