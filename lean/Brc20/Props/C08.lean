/-
C08 - Signed transactions execute once, in nonce order, via a bounded pending pool.

`addRawTx` is the model of `add_raw_tx_to_block`. The EVM's part of the contract - "a run that revm accepts
bumps the sender's nonce by exactly one" - is a hypothesis where needed; everything else is bookkeeping.
-/
import Brc20.Model.Node
import Brc20.Proofs.Node
import Brc20.Gen.Constants

namespace Brc20
open Node

theorem C08.constants : Gen.MAX_FUTURE_TRANSACTION_NONCES = Node.FUTURE_NONCES ∧
    Gen.MAX_FUTURE_TRANSACTION_BLOCKS = Node.FUTURE_BLOCKS := by decide

/-- Undecodable raw transactions are rejected without effect. -/
theorem C08.undecodable_rejected (n : Node) (ts : Nat) (h : String) (idx : Nat) (txid : String) (evs : List Ev) :
    n.addRawTx ts h idx txid .fail evs = (n, .err "decode") := by
  rfl

/-- Wrong-chain, stale (nonce below the account) and far-future (10 or more ahead) transactions leave the node
untouched and append nothing, whatever the response class. -/
theorem C08.ignored_noop (n : Node) (ts : Nat) (h : String) (idx : Nat) (txid : String) (sender : String) (nonce : Nat)
    (evs : List Ev) (hn : nonce < n.accountNonce sender ∨ n.accountNonce sender + FUTURE_NONCES ≤ nonce) :
    (n.addRawTx ts h idx txid (.ok sender nonce) evs).1 = n ∧ (n.addRawTx ts h idx txid .wrongChain evs).1 = n := by
  refine ⟨?_, ?_⟩
  · simp only [addRawTx]
    have h1 : nonce ≠ n.accountNonce sender := by unfold FUTURE_NONCES at hn; omega
    have h2 : ¬(nonce > n.accountNonce sender ∧ nonce < n.accountNonce sender + FUTURE_NONCES) := by omega
    rw [if_pos h1, if_neg h2]
    split <;> rfl
  · simp only [addRawTx]
    split <;> rfl

/-- A transaction ahead of the account by fewer than 10 is parked: no EVM run is accepted for it, the block under
construction (count, gas, log index, header) is untouched, heights are untouched. -/
theorem C08.parked_leaves_block_untouched (n : Node) (ts : Nat) (h : String) (idx : Nat) (txid : String) (sender : String)
    (nonce : Nat) (evs : List Ev)
    (hn : n.accountNonce sender < nonce ∧ nonce < n.accountNonce sender + FUTURE_NONCES) :
    (n.addRawTx ts h idx txid (.ok sender nonce) evs).1.lbi = n.lbi ∧
    (n.addRawTx ts h idx txid (.ok sender nonce) evs).1.latest = n.latest ∧
    (n.addRawTx ts h idx txid (.ok sender nonce) evs).1.maxBlock = n.maxBlock := by
  simp only [addRawTx]
  have h1 : nonce ≠ n.accountNonce sender := by omega
  have h2 : nonce > n.accountNonce sender ∧ nonce < n.accountNonce sender + FUTURE_NONCES := ⟨hn.1, hn.2⟩
  rw [if_pos h1, if_pos h2]
  split
  · exact ⟨rfl, rfl, rfl⟩
  · split
    · exact ⟨rfl, rfl, rfl⟩
    · split
      · exact ⟨rfl, rfl, rfl⟩
      · rename_i n' ha
        exact applyEvents_fields ha

/-- Execution happens only at the account nonce: an accepted call whose transaction was run had
`nonce = account nonce` (so, with the EVM bumping the nonce by one per accepted run, on-chain nonces of a signer are
0, 1, 2, ... each once). -/
theorem C08.executes_only_at_account_nonce (n : Node) (ts : Nat) (h : String) (idx : Nat) (txid : String) (sender : String)
    (nonce : Nat) (evs : List Ev)
    (hrun : (n.addRawTx ts h idx txid (.ok sender nonce) evs).1.lbi.waiting ≠ n.lbi.waiting) :
    nonce = n.accountNonce sender := by
  apply Decidable.byContradiction
  intro h1
  apply hrun
  simp only [addRawTx]
  rw [if_pos h1]
  split
  · split
    · rfl
    · split
      · rfl
      · split
        · rfl
        · rename_i n' ha
          rw [(applyEvents_fields ha).1]
  · split <;> rfl

/-- **Receipts = appended**: when the call is accepted at the account nonce, the number of transactions appended to
the block is exactly `1 +` the number of live waiting successors found in the pool, and they take consecutive
indexes starting at the submitted one. -/
theorem C08.appended_count (n : Node) (ts : Nat) (h : String) (txid : String) (sender : String) (evs : List Ev)
    (hok : (n.addRawTx ts h n.lbi.waiting txid (.ok sender (n.accountNonce sender)) evs).2 = .ok) :
    (n.addRawTx ts h n.lbi.waiting txid (.ok sender (n.accountNonce sender)) evs).1.lbi.waiting =
      n.lbi.waiting + 1 + (drainPlan n sender n.nextHeight FUTURE_NONCES (n.accountNonce sender + 1)).1 := by
  simp only [addRawTx, ne_eq, not_true_eq_false, if_false] at hok ⊢
  obtain ⟨_, _, hk, _, _, n', _, hn⟩ := addTxs_ok hok
  rw [hn]
  simp only [bumpLbi_waiting, l0_waiting]
  rw [hk _ rfl]
  omega

/-- The drain visits consecutive nonces and executes exactly the entries younger than 10 blocks; it never executes
more than it visits, and visits at most 10. -/
theorem C08.drain_bounds (n : Node) (sender : String) (bn fuel nonce : Nat) :
    (drainPlan n sender bn fuel nonce).1 ≤ (drainPlan n sender bn fuel nonce).2 ∧
    (drainPlan n sender bn fuel nonce).2 ≤ fuel := by
  induction fuel generalizing nonce with
  | zero => simp [drainPlan]
  | succ fuel ih =>
    unfold drainPlan
    split
    · simp
    · have := ih (nonce + 1)
      simp only []
      split <;> split <;> omega

/-- An entry parked in block `pb` is live for the drain of block `bn` iff `bn < pb + 10` (window edge exact). -/
theorem C08.window_edge (pb bn : Nat) : decide (FUTURE_BLOCKS + pb > bn) = true ↔ bn < pb + 10 := by
  rw [decide_eq_true_iff]
  unfold FUTURE_BLOCKS
  omega

end Brc20
