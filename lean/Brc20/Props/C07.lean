/-
C07 - The BRC20 bridge ledger is conserved and only the indexer can mint or burn.

`Ledger.step` is one message to the controller or directly to a token contract from an arbitrary sender (a reverted
message leaves the state unchanged).  `Good c` collects the invariants of reachable ledger states.
The engine-level facts "a user transaction's sender is a pkscript hash or a recovered signer, never the indexer
address" and "deposits / withdrawals are the only operations whose sender is the indexer" are the hypothesis
`hs` of `user_cannot_mint`; EVM isolation of contract storage and faithfulness of the compiled bytecode are
validated by correspondence (suite K), not proved.
-/
import Brc20.Model.Ledger
import Brc20.Proofs.AMap
import Brc20.Proofs.Ledger

namespace Brc20
open Ledger

/-- invariants of a reachable ledger -/
structure Ledger.Good (c : Ctl) : Prop where
  self_ne_zero : c.self ≠ 0
  tokens_nodup : AMap.Nodup c.tokens
  token_ok : ∀ tk t, c.tokens.get? tk = some t →
    t.owner = c.self ∧ AMap.Nodup t.balances ∧ t.totalSupply = t.sumBalances ∧ t.totalSupply ≤ MAXU ∧
    t.balances.get? 0 = none

theorem Ledger.good_iff (c : Ctl) : Ledger.Good c ↔ CtlOk c := by
  constructor
  · intro h
    exact ⟨h.self_ne_zero, h.tokens_nodup, fun tk t ht => by
      obtain ⟨a, b, d, e, f⟩ := h.token_ok tk t ht; exact ⟨a, b, d, e, f⟩⟩
  · intro h
    exact ⟨h.self_ne, h.nd, fun tk t ht => by
      have := h.tok tk t ht; exact ⟨this.owner_eq, this.nd, this.sup, this.le, this.z⟩⟩

theorem Ledger.userMsg_iff (c : Ctl) (m : Msg) :
    (match m with | .ctl s _ => s ≠ c.owner | .token s _ _ => s ≠ c.self) ↔ UserMsg c m := by
  cases m <;> exact Iff.rfl

/-- The invariants hold initially and are preserved by every message from every sender. -/
theorem C07.good_init (self owner : Addr) (h : self ≠ 0) : Ledger.Good { self := self, owner := owner } :=
  (Ledger.good_iff _).mpr (ctlOk_init self owner h)

theorem C07.good_step (c : Ctl) (m : Msg) (h : Ledger.Good c) : Ledger.Good (step c m) :=
  (Ledger.good_iff _).mpr (ctlOk_step m ((Ledger.good_iff _).mp h))

/-- **Supply = sum of balances**, for every token, after any message history. -/
theorem C07.supply_eq_sum (self owner : Addr) (hs : self ≠ 0) (ms : List Msg) (tk : List UInt8) (t : Token)
    (ht : (run { self := self, owner := owner } ms).tokens.get? tk = some t) : t.totalSupply = t.sumBalances :=
  ((ctlOk_run ms (ctlOk_init self owner hs)).tok tk t ht).sup

/-- **Only the indexer changes a supply**: a message whose sender is neither the indexer (for controller calls)
nor the controller itself (for direct token calls) leaves every total supply unchanged. -/
theorem C07.only_owner_changes_supply (c : Ctl) (h : Ledger.Good c) (m : Msg)
    (hs : match m with | .ctl s _ => s ≠ c.owner | .token s _ _ => s ≠ c.self) (tk : List UInt8) :
    (step c m).totalSupply tk = c.totalSupply tk :=
  step_supply ((Ledger.good_iff _).mp h) m ((Ledger.userMsg_iff c m).mp hs) tk

/-- Hence no sequence of user messages creates or destroys tokens. -/
theorem C07.user_cannot_mint (c : Ctl) (h : Ledger.Good c) (ms : List Msg)
    (hs : ∀ m ∈ ms, match m with | .ctl s _ => s ≠ c.owner | .token s _ _ => s ≠ c.self) (tk : List UInt8) :
    (run c ms).totalSupply tk = c.totalSupply tk := by
  induction ms generalizing c with
  | nil => rfl
  | cons m ms ih =>
    show (run (step c m) ms).totalSupply tk = _
    rw [ih (step c m) (C07.good_step c m h)]
    · exact C07.only_owner_changes_supply c h m (hs m (List.mem_cons_self ..)) tk
    · intro m' hm'
      have := hs m' (List.mem_cons_of_mem _ hm')
      rw [step_self, step_owner]; exact this

/-- **Deposit** (the indexer's `mint`): the balance grows by exactly the amount (when the supply stays below
2^256), nobody else's balance of that ticker changes. -/
theorem C07.deposit_exact (c : Ctl) (h : Ledger.Good c) (tk : List UInt8) (to : Addr) (v : Nat) (hto : to ≠ 0)
    (hfit : c.totalSupply tk + v ≤ MAXU) :
    (step c (.ctl c.owner (.mint tk to v))).balanceOf tk to = c.balanceOf tk to + v ∧
    ∀ a, a ≠ to → (step c (.ctl c.owner (.mint tk to v))).balanceOf tk a = c.balanceOf tk a := by
  obtain ⟨t0, hb, u⟩ := mint_step ((Ledger.good_iff _).mp h) tk to v hto hfit
  have hbal : ∀ a, (step c (.ctl c.owner (.mint tk to v))).balanceOf tk a = (mintRes t0 to v).balanceOf a := by
    intro a; unfold Ctl.balanceOf; rw [u.get]; simp
  constructor
  · rw [hbal, ← hb]; simp [mintRes, Token.balanceOf, AMap.get?_insert]
  · intro a ha
    rw [hbal, ← hb]; simp [mintRes, Token.balanceOf, AMap.get?_insert, ha]

/-- **Withdrawal** (the indexer's `burn`): succeeds exactly when the balance suffices and then lowers it by the
amount; otherwise nothing changes (an overdraft is a no-op). -/
theorem C07.withdraw_exact_or_noop (c : Ctl) (h : Ledger.Good c) (tk : List UInt8) (from_ : Addr) (v : Nat)
    (hf : from_ ≠ 0) :
    (v ≤ c.balanceOf tk from_ ∧ (c.tokens.get? tk).isSome →
        (step c (.ctl c.owner (.burn tk from_ v))).balanceOf tk from_ = c.balanceOf tk from_ - v) ∧
    (c.balanceOf tk from_ < v → ∀ a, (step c (.ctl c.owner (.burn tk from_ v))).balanceOf tk a = c.balanceOf tk a) := by
  constructor
  · rintro ⟨hv, hsome⟩
    cases hg : c.tokens.get? tk with
    | none => simp [hg] at hsome
    | some t0 =>
      have hcb : c.balanceOf tk from_ = t0.balanceOf from_ := by simp [Ctl.balanceOf, hg]
      rw [hcb] at hv ⊢
      have u := burn_step_ok ((Ledger.good_iff _).mp h) tk from_ v hf t0 hg hv
      unfold Ctl.balanceOf; rw [u.get]
      simp [burnRes, Token.balanceOf, AMap.get?_insert]
  · intro hv a
    rw [burn_step_fail c tk from_ v hv]

/-- **Transfers conserve**: any message that is not a mint or burn by the owner keeps `balance(from) + balance(to)`
accounting exact: the sum of all balances of every token is unchanged. -/
theorem C07.transfers_conserve (c : Ctl) (h : Ledger.Good c) (m : Msg)
    (hs : match m with | .ctl s _ => s ≠ c.owner | .token s _ _ => s ≠ c.self) (tk : List UInt8) (t t' : Token)
    (ht : c.tokens.get? tk = some t) (ht' : (step c m).tokens.get? tk = some t') : t'.sumBalances = t.sumBalances := by
  have e := C07.only_owner_changes_supply c h m hs tk
  simp only [Ctl.totalSupply, ht, ht'] at e
  have h1 := (h.token_ok tk t ht).2.2.1
  have h2 := ((C07.good_step c m h).token_ok tk t' ht').2.2.1
  rw [← h1, ← h2, e]

end Brc20
