/-
C14 - The storage encoding is lossless, self-delimiting and order-preserving.

The codec model (`Model/Codec.lean`) is syntax-directed; the record descriptions are *regenerated from the Rust
source on every run* (`Gen/Codecs.lean`: the sequence each `impl Encode` writes and the sequence each
`impl Decode` reads).  `C14.codecs_aligned` is a kernel-checked `decide` over that whole table, so a swapped,
dropped or retyped field in any `decode` (or `encode`) body fails here, before any sampling.
-/
import Brc20.Proofs.Codec
import Brc20.Model.CodecRecords

namespace Brc20
open Ty

/-- Lossless and self-delimiting, for every type the codec can describe (all primitives, options, vectors,
pairs, hence every record, history and composite key): decoding `encode x ++ rest` returns exactly `x` and
exactly `rest`. Unbounded in sizes and nesting. -/
theorem C14.roundtrip (t : Ty) (x : t.denote) (rest : Bytes) (wf : WF t x) :
    decode t (encode t x ++ rest) = some (x, rest) :=
  Ty.roundtrip t x rest wf

/-- Hence values can be concatenated: a pair decodes componentwise from the concatenation. -/
theorem C14.concatenation (a b : Ty) (x : a.denote) (y : b.denote) (rest : Bytes) (wx : WF a x) (wy : WF b y) :
    decode (pair a b) (encode a x ++ encode b y ++ rest) = some ((x, y), rest) := by
  have := Ty.roundtrip (pair a b) (x, y) rest ⟨wx, wy⟩
  simpa [Ty.encode, List.append_assoc] using this

/-- Distinct well-formed values have distinct encodings. -/
theorem C14.injective (t : Ty) (x y : t.denote) (wx : WF t x) (wy : WF t y) (h : encode t x = encode t y) : x = y :=
  Ty.encode_injective t x y wx wy h

/-- Numeric keys (u64 block numbers, `U64ED`/`U128ED`/`U256ED`/`U512ED`: any fixed width) compare in their
encoded form exactly as their values do. -/
theorem C14.numeric_keys_order (w a b : Nat) (ha : a < 256 ^ w) (hb : b < 256 ^ w) :
    bytesLt (beBytes w a) (beBytes w b) = decide (a < b) :=
  be_order w a b ha hb

/-- Composite keys `(first, second)` with a fixed-width first component compare lexicographically:
in particular `(block, index)` keys (`U128ED` = block·2^64 + index is the 8+8 byte concatenation) and
`(address, nonce)` pending-pool keys. -/
theorem C14.composite_keys_order (x₁ x₂ y₁ y₂ : Bytes) (hl : x₁.length = x₂.length) :
    bytesLt (x₁ ++ y₁) (x₂ ++ y₂) = (bytesLt x₁ x₂ || (decide (x₁ = x₂) && bytesLt y₁ y₂)) :=
  bytesLt_append x₁ x₂ y₁ y₂ hl

/-! ## The tie to the source: the regenerated field lists -/

/-- A record's decode sequence reads the same types, in the same order, as its encode sequence writes, and
reads every non-legacy field under the name it was written under. -/
def Gen.RecordCodec.aligned (r : Gen.RecordCodec) : Bool :=
  decide (r.enc.map (·.ty) = r.dec.map (·.ty)) &&
  (r.enc.zip r.dec).all (fun p => p.1.name == p.2.name || p.1.name == "_" || p.2.name == "_" ||
    -- legacy: written from a defaulted struct field, ignored on read
    p.2.name.startsWith "_")

/-- **Kernel-checked over the whole regenerated table**: every record codec in `/repo/src/db/types` is aligned. -/
theorem C14.codecs_aligned : Gen.records.all Gen.RecordCodec.aligned = true := by decide

/-- The model knows every Rust type that occurs in the regenerated lists (no field silently falls outside the
model), on both the encode and the decode side. -/
theorem C14.codecs_modelled :
    Gen.records.all (fun r => (tyOfR Gen.records false 12 (.name r.name)).isSome && (tyOfR Gen.records true 12 (.name r.name)).isSome) = true := by
  decide

/-- The six record types the module persists are all in the table (a removed `impl` would drop out silently otherwise). -/
theorem C14.records_present :
    Gen.records.map (·.name) = ["AccountInfoED", "TxED", "TxReceiptED", "LogED", "BlockResponseED", "TraceED"] := by
  decide

/-- For every record: the description built from the source's *decode* sequence inverts the encoder built from
the source's *encode* sequence - because the two descriptions are equal (`decide`) and `C14.roundtrip` holds
for every description. -/
theorem C14.records_roundtrip :
    ∀ r ∈ Gen.records, tyOfR Gen.records true 12 (.name r.name) = tyOfR Gen.records false 12 (.name r.name) := by
  decide

/-- Per-key histories are stored as `u32 count ++ (u64 block ++ Option<V>)*`; they round-trip for any value codec. -/
theorem C14.history_roundtrip (v : Ty) (h : (vec (pair u64 (pair (opt v) unit))).denote) (rest : Bytes)
    (wf : WF _ h) : decode _ (encode (vec (pair u64 (pair (opt v) unit))) h ++ rest) = some (h, rest) :=
  Ty.roundtrip _ h rest wf

/-! Non-vacuity -/
example : WF (record [uint 4, uint 1, fixed 2]) ((5 : Nat), (7 : Nat), ([1, 2] : Bytes), ()) := by
  simp [WF, record]
example : decode (record [u8, opt u8]) (encode (record [u8, opt u8]) ((3 : Nat), some (9 : Nat), ()) ++ [0xAA])
    = some (((3 : Nat), some (9 : Nat), ()), [0xAA]) :=
  C14.roundtrip (record [u8, opt u8]) ((3 : Nat), some (9 : Nat), ()) [0xAA] (by simp [WF, record])

end Brc20
