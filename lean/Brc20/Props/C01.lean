/-
C01 - An accepted reorg restores exactly the state as of the chosen block.

Acceptance rule and restoration, at the level of the engine model.  `g i` is the plain per-key write log of table
`i` (`NodeSim`).  The window hypothesis `hwin` links the engine's acceptance test (highest block ever finalised
`≤ target + 10`) to each table's own window; it is an invariant of histories in which every write of a block is
stamped with that block's height and finalised before the reorg.  It fails for exactly one situation of the real
code, recorded as known finding F10: a signed transaction parked in the pending pool is a write stamped `H + 1`
while no block is under construction.
-/
import Brc20.Proofs.NodeSim
import Brc20.Proofs.NodeRun

namespace Brc20
open Node

/-- **Acceptance rule**: the call is refused (without effect, C05) exactly when a block is under construction, the
target is above the current height, or the target is more than 10 below the current height or below the highest
block ever finalised. -/
theorem C01.reorg_refused_iff (n : Node) (target : Nat) :
    (∃ e, (n.reorg target).2 = .err e) ↔
      (n.lbi.waiting ≠ 0 ∨ target > n.latestHeight ∨ n.latestHeight - target > W ∨ n.maxBlock.getD 0 > W + target) := by
  constructor
  · rintro ⟨e, he⟩
    apply Decidable.byContradiction
    intro hnr
    rw [Node.reorg_of_not_refused n target hnr] at he
    exact Node.reorgBody_not_err n target e he
  · exact Node.reorg_refused n target

/-- **Restoration**: an accepted reorg never hits the "too deep" panic and afterwards every table reads, for every
key, the value it had at the end of block `target`. -/
theorem C01.reorg_restores_tables (n : Node) (g : TId → TSpec String String) (hs : NodeSim n g) (target : Nat)
    (hwin : ∀ i, (g i).maxEver ≤ target + W ∧ target ≤ (g i).maxEver)
    (hacc : ¬ (n.lbi.waiting ≠ 0 ∨ target > n.latestHeight ∨ n.latestHeight - target > W ∨ n.maxBlock.getD 0 > W + target)) :
    (n.reorg target).2 = .ok ∧ ∀ i k, ((n.reorg target).1.t i).latest k = (g i).readAt k target := by
  obtain ⟨n1, e1, e2, e3, _⟩ := Node.reorgTables_sim n g hs target hwin
  rw [Node.reorg_of_not_refused n target hacc]
  unfold Node.reorgBody
  rw [e1]
  refine ⟨rfl, ?_⟩
  intro i k
  show ((n1.t i).commit W _).latest k = _
  rw [Table.latest_commit W _ (n1.t i) (e3 i).inv.cache_nodup k]
  obtain ⟨t', e', hr⟩ := Table.rollback_in_window (hs.sim i) target (hwin i).1 (hwin i).2
  rw [e2 i, Option.some.injEq] at e'
  rw [e']; exact hr k

/-- Block rows above the target are gone, rows at or below it are untouched; nothing is left in memory. -/
theorem C01.reorg_block_tables (n : Node) (target : Nat) (hok : (n.reorg target).2 = .ok) :
    ∀ i k, ((n.reorg target).1.b i).get k = (if k ≤ target then (n.b i).get k else none) := by
  obtain ⟨_, n1, e1, e2⟩ := Node.reorg_ok n target hok
  have hb := (Node.reorgTables_frame target allTIds n n1 e1).1
  rw [e2]
  intro i k
  show (((n1.b i).reorg target).commit.clear).get k = _
  rw [BlockDb.get_commit_clear, BlockDb.get_reorg, hb]

/-- After an accepted reorg the height is the target (when the target block exists). -/
theorem C01.reorg_height (n : Node) (hh : HeightInv n) (target : Nat) (hok : (n.reorg target).2 = .ok)
    (hex : ((n.b .numberToHash).get target).isSome) : (n.reorg target).1.latestHeight = target := by
  have hget := C01.reorg_block_tables n target hok .numberToHash
  obtain ⟨_, n1, e1, e2⟩ := Node.reorg_ok n target hok
  have hlat : (n.reorg target).1.latest = none := by rw [e2]; rfl
  have hlk : ((n.reorg target).1.b .numberToHash).lastKey = some target := by
    apply BlockDb.lastKey_of_get
    · rw [hget target]
      simp only [Nat.le_refl, if_true]
      intro h; rw [h] at hex; cases hex
    · intro k hk
      rw [hget k]
      have : ¬ k ≤ target := by omega
      simp [this]
  unfold Node.latestHeight
  rw [hlat, hlk]; rfl

/-- An accepted reorg leaves the node in simulation with the logs truncated at the target, so every later
execution continues from exactly that state. -/
theorem C01.reorg_keeps_simulation (n : Node) (g : TId → TSpec String String) (hs : NodeSim n g) (target : Nat)
    (hwin : ∀ i, (g i).maxEver ≤ target + W ∧ target ≤ (g i).maxEver)
    (hok : (n.reorg target).2 = .ok) :
    ∃ g', NodeSim (n.reorg target).1 g' ∧
      ∀ i k, (g' i).cur k = ((g i).cur k).filter (fun e => decide (e.1 ≤ target)) := by
  obtain ⟨n1, e1, _, e3, _⟩ := Node.reorgTables_sim n g hs target hwin
  obtain ⟨_, n1', e1', e2⟩ := Node.reorg_ok n target hok
  rw [e1, Option.some.injEq] at e1'
  subst e1'
  rw [e2]
  let nb := ({ n1 with b := fun i => (n1.b i).reorg target } : Node).nextHeight
  refine ⟨fun i => ((g i).step (.reorg target)).step (.commit nb), ⟨fun i => ?_⟩, fun i k => rfl⟩
  obtain ⟨t', e', s'⟩ := Table.step_sim (e3 i) (.commit nb) trivial
  simp only [Table.step, Option.some.injEq] at e'
  subst e'
  exact s'

/-! ### Every reachable state

`Node.Reach`: the empty node, closed under every operation of the model (initialise, mine, add transactions, signed
transactions incl. parked ones, finalise, commit, clear, reopen, reorg) with ANY arguments and ANY recorded events,
as long as the model answers `ok` or an error (a `reject` means the recorded events do not fit the model - a broken
correspondence - and a `panic` ends the process). -/

/-- The hypothesis `NodeSim` of the theorems above holds in every reachable state: every table refines a plain
per-key write log. -/
theorem C01.reachable_nodes_refine {n : Node} (h : Node.Reach n) : ∃ g, NodeSim n g := Node.reach_sim h

/-- **C01 for every reachable state.** There are plain logs `g` which the tables refine, whose stamps obey the block
discipline (nothing above the height being built; at a block boundary every table except the two pending-pool tables
carries nothing above the tip and nothing above the highest block ever finalised), and with respect to which EVERY
reorg the engine does not refuse answers `ok` and makes every table read, for every key, its value at the end of the
target block - provided the pending-pool tables were not passed a block number above the tip.  That proviso is exactly
known finding F10 (a signed transaction parked after the tip was finalised is stamped `height + 1`); for the other ten
tables the window hypothesis of `C01.reorg_restores_tables` is discharged here. -/
theorem C01.reorg_restores_reachable {n : Node} (h : Node.Reach n) :
    ∃ g : TId → TSpec String String, NodeSim n g ∧
      (∀ i, (g i).top ≤ n.nextHeight) ∧
      (∀ i, (g i).maxEver ≤ max (n.mb + 1) n.nextHeight) ∧
      (n.lbi.waiting = 0 → ∀ i, i ∉ poolTables → (g i).maxEver ≤ n.mb) ∧
      (n.lbi.waiting = 0 → ∀ i, i ∉ poolTables → (g i).top ≤ n.latestHeight) ∧
      ∀ target, ¬ Node.Refused n target →
        (∀ i, i ∈ poolTables → (g i).maxEver ≤ max n.latestHeight n.mb) →
        (n.reorg target).2 = .ok ∧ ∀ i k, ((n.reorg target).1.t i).latest k = (g i).readAt k target :=
  Node.reach_reorg_restores h

end Brc20
