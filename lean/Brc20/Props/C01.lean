/-
C01 - An accepted reorg restores exactly the state as of the chosen block.

Acceptance rule and restoration, at the level of the engine model.  `g i` is the plain per-key write log of table
`i` (`NodeSim`).  The window hypothesis `hwin` links the engine's acceptance test (highest block ever finalised
`≤ target + 10`) to each table's own window; it is an invariant of histories in which every write of a block is
stamped with that block's height and finalised before the reorg.  It fails for exactly one situation of the real
code, recorded as known finding F10: a signed transaction parked in the pending pool is a write stamped `H + 1`
while no block is under construction.
-/
import Brc20.Proofs.NodeSim

namespace Brc20
open Node

/-- **Acceptance rule**: the call is refused (without effect, C05) exactly when a block is under construction, the
target is above the current height, or the target is more than 10 below the current height or below the highest
block ever finalised. -/
theorem C01.reorg_refused_iff (n : Node) (target : Nat) :
    (∃ e, (n.reorg target).2 = .err e) ↔
      (n.lbi.waiting ≠ 0 ∨ target > n.latestHeight ∨ n.latestHeight - target > W ∨ n.maxBlock.getD 0 > W + target) := by
  constructor
  · rintro ⟨e, he⟩
    apply Decidable.byContradiction
    intro hnr
    rw [Node.reorg_of_not_refused n target hnr] at he
    exact Node.reorgBody_not_err n target e he
  · exact Node.reorg_refused n target

/-- **Restoration**: an accepted reorg never hits the "too deep" panic and afterwards every table reads, for every
key, the value it had at the end of block `target`. -/
theorem C01.reorg_restores_tables (n : Node) (g : TId → TSpec String String) (hs : NodeSim n g) (target : Nat)
    (hwin : ∀ i, (g i).maxEver ≤ target + W ∧ target ≤ (g i).maxEver)
    (hacc : ¬ (n.lbi.waiting ≠ 0 ∨ target > n.latestHeight ∨ n.latestHeight - target > W ∨ n.maxBlock.getD 0 > W + target)) :
    (n.reorg target).2 = .ok ∧ ∀ i k, ((n.reorg target).1.t i).latest k = (g i).readAt k target := by
  obtain ⟨n1, e1, e2, e3, _⟩ := Node.reorgTables_sim n g hs target hwin
  rw [Node.reorg_of_not_refused n target hacc]
  unfold Node.reorgBody
  rw [e1]
  refine ⟨rfl, ?_⟩
  intro i k
  show ((n1.t i).commit W _).latest k = _
  rw [Table.latest_commit W _ (n1.t i) (e3 i).inv.cache_nodup k]
  obtain ⟨t', e', hr⟩ := Table.rollback_in_window (hs.sim i) target (hwin i).1 (hwin i).2
  rw [e2 i, Option.some.injEq] at e'
  rw [e']; exact hr k

/-- Block rows above the target are gone, rows at or below it are untouched; nothing is left in memory. -/
theorem C01.reorg_block_tables (n : Node) (target : Nat) (hok : (n.reorg target).2 = .ok) :
    ∀ i k, ((n.reorg target).1.b i).get k = (if k ≤ target then (n.b i).get k else none) := by
  obtain ⟨_, n1, e1, e2⟩ := Node.reorg_ok n target hok
  have hb := (Node.reorgTables_frame target allTIds n n1 e1).1
  rw [e2]
  intro i k
  show (((n1.b i).reorg target).commit.clear).get k = _
  rw [BlockDb.get_commit_clear, BlockDb.get_reorg, hb]

/-- After an accepted reorg the height is the target (when the target block exists). -/
theorem C01.reorg_height (n : Node) (hh : HeightInv n) (target : Nat) (hok : (n.reorg target).2 = .ok)
    (hex : ((n.b .numberToHash).get target).isSome) : (n.reorg target).1.latestHeight = target := by
  have hget := C01.reorg_block_tables n target hok .numberToHash
  obtain ⟨_, n1, e1, e2⟩ := Node.reorg_ok n target hok
  have hlat : (n.reorg target).1.latest = none := by rw [e2]; rfl
  have hlk : ((n.reorg target).1.b .numberToHash).lastKey = some target := by
    apply BlockDb.lastKey_of_get
    · rw [hget target]
      simp only [Nat.le_refl, if_true]
      intro h; rw [h] at hex; cases hex
    · intro k hk
      rw [hget k]
      have : ¬ k ≤ target := by omega
      simp [this]
  unfold Node.latestHeight
  rw [hlat, hlk]; rfl

/-- An accepted reorg leaves the node in simulation with the logs truncated at the target, so every later
execution continues from exactly that state. -/
theorem C01.reorg_keeps_simulation (n : Node) (g : TId → TSpec String String) (hs : NodeSim n g) (target : Nat)
    (hwin : ∀ i, (g i).maxEver ≤ target + W ∧ target ≤ (g i).maxEver)
    (hok : (n.reorg target).2 = .ok) :
    ∃ g', NodeSim (n.reorg target).1 g' ∧
      ∀ i k, (g' i).cur k = ((g i).cur k).filter (fun e => decide (e.1 ≤ target)) := by
  obtain ⟨n1, e1, _, e3, _⟩ := Node.reorgTables_sim n g hs target hwin
  obtain ⟨_, n1', e1', e2⟩ := Node.reorg_ok n target hok
  rw [e1, Option.some.injEq] at e1'
  subst e1'
  rw [e2]
  let nb := ({ n1 with b := fun i => (n1.b i).reorg target } : Node).nextHeight
  refine ⟨fun i => ((g i).step (.reorg target)).step (.commit nb), ⟨fun i => ?_⟩, fun i k => rfl⟩
  obtain ⟨t', e', s'⟩ := Table.step_sim (e3 i) (.commit nb) trivial
  simp only [Table.step, Option.some.injEq] at e'
  subst e'
  exact s'

end Brc20
