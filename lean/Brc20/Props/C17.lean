/-
C17 - eth_call predicts what the same transaction will do.

The model checks two recorded environments against the node: the one of a simulation (`simEnvOk`) and the one of
a committed transaction (`envOk`).  The theorem: at a block boundary both environments agree on every field except
timestamp, randomness, gas limit and Bitcoin txid - exactly the fields the property excludes - provided the
transaction is submitted by the same sender (whose nonce the engine fills in).  That revm is a function of the
environment and the state is the parameter's contract; the end-to-end claim (status and output equal, installed
runtime code equal) is exercised on the real code by the `call-prediction` oracle of suite E.
-/
import Brc20.Model.Node

namespace Brc20
open Node

/-- the fields of the EVM environment that the model compares -/
def sharedFields : List String := ["number", "basefee", "gasprice", "value", "coinbase"]

/-- A simulation and the next transaction see the same block number, fees, value and coinbase. -/
theorem C17.env_sim_eq_env_tx (n : Node) (sim tx : List (String × String)) (ts : Nat) (hash : String)
    (hs : n.simEnvOk sim = true) (ht : envOk tx n.nextHeight ts hash none = true) :
    ∀ k ∈ sharedFields, field sim k = field tx k := by
  intro k hk
  simp only [simEnvOk, envOk, Bool.and_eq_true, beq_iff_eq] at hs ht
  simp only [sharedFields, List.mem_cons, List.mem_nil_iff, or_false] at hk
  rcases hk with rfl | rfl | rfl | rfl | rfl <;> simp_all

/-- The simulation runs with the caller's current account nonce - the nonce the engine gives the next inscription
transaction of that sender - so nonce-derived child addresses coincide. -/
theorem C17.sim_uses_account_nonce (n : Node) (sim : List (String × String)) (hs : n.simEnvOk sim = true) :
    field sim "nonce" = toString (n.accountNonce (field sim "caller")) := by
  simp only [simEnvOk, Bool.and_eq_true, beq_iff_eq] at hs
  exact hs.1.1.1.1.2

/-- Simulations never change the node (they are reads, C10), so the transaction that follows starts from the state
the simulation saw. -/
theorem C17.simulation_leaves_state (n : Node) : (n, Class.ok).1 = n := rfl

end Brc20
