/-
C17 - eth_call predicts what the same transaction will do.

The model checks two recorded environments against the node: the one of a simulation (`simEnvOk`) and the one of
a committed transaction (`envOk`).  The theorem: at a block boundary both environments agree on every field except
timestamp, randomness, gas limit and Bitcoin txid - exactly the fields the property excludes - provided the
transaction is submitted by the same sender (whose nonce the engine fills in).  That revm is a function of the
environment and the state is the parameter's contract; the end-to-end claim (status and output equal, installed
runtime code equal) is exercised on the real code by the `call-prediction` oracle of suite E.

Tie (since round 6): the recorded environment of *every* simulation that suite E makes without an explicit block -
`eth_call`, `eth_estimateGas` probes, `brc20_balance`, the `eth_call` made right before each predicted transaction,
and every call of every round of `eth_callMany` / `eth_estimateGasMany` - is sent to the model, which answers
`model-reject:sim-env` / `model-reject:simmulti-env` when height, caller nonce or fees differ from what it derives
from its own node (`DriverE.readStep`).
-/
import Brc20.Model.Node
import Brc20.Model.DriverE
import Brc20.Proofs.Sim

namespace Brc20
open Node

/-- the fields of the EVM environment that the model compares -/
def sharedFields : List String := ["number", "basefee", "gasprice", "value", "coinbase", "blockgaslimit"]

/-- A simulation and the next transaction see the same block number, fees, value, coinbase and block gas limit. -/
theorem C17.env_sim_eq_env_tx (n : Node) (sim tx : List (String × String)) (ts : Nat) (hash : String)
    (hs : n.simEnvOk sim = true) (ht : envOk tx n.nextHeight ts hash none = true) :
    ∀ k ∈ sharedFields, field sim k = field tx k := by
  intro k hk
  simp only [simEnvOk, envOk, Bool.and_eq_true, beq_iff_eq] at hs ht
  simp only [sharedFields, List.mem_cons, List.mem_nil_iff, or_false] at hk
  rcases hk with rfl | rfl | rfl | rfl | rfl | rfl <;> simp_all

/-- The simulation runs with the caller's current account nonce - the nonce the engine gives the next inscription
transaction of that sender - so nonce-derived child addresses coincide. -/
theorem C17.sim_uses_account_nonce (n : Node) (sim : List (String × String)) (hs : n.simEnvOk sim = true) :
    field sim "nonce" = toString (n.accountNonce (field sim "caller")) := by
  simp only [simEnvOk, Bool.and_eq_true, beq_iff_eq] at hs
  exact hs.1.1.1.1.1.2

/-- Simulations never change the node (they are reads, C10), so the transaction that follows starts from the state
the simulation saw. -/
theorem C17.simulation_leaves_state (n : Node) : (n, Class.ok).1 = n := rfl

/-! ### Multi-call simulations (`eth_callMany`, `eth_estimateGasMany`) -/

/-- The nonce bookkeeping of `read_contract_multi` (a `HashMap` seeded with account nonces, bumped per call) hands
the `i`-th call its caller's account nonce plus the number of earlier calls of the round by the same caller: the nonce
that call carries when the same list is submitted as transactions in this order, so nonce-derived child addresses
coincide call by call. -/
theorem C17.multi_nonces_are_sequential (acct : String → Nat) (callers : List String) :
    roundNoncesImpl acct [] callers = roundNonces acct [] callers :=
  roundNoncesImpl_eq acct callers [] [] (noncesInv_empty acct)

/-- position by position: the `i`-th nonce of a round -/
theorem C17.round_nonce_at (acct : String → Nat) (callers : List String) :
    ∀ (seen : List String) (i : Nat) (h : i < callers.length),
      (roundNonces acct seen callers)[i]? = some (acct callers[i] + (seen.count callers[i] + (callers.take i).count callers[i])) := by
  induction callers with
  | nil => intro seen i h; simp at h
  | cons c cs ih =>
    intro seen i h
    cases i with
    | zero => simp [roundNonces]
    | succ j =>
      simp only [List.length_cons, Nat.add_lt_add_iff_right] at h
      simp only [roundNonces, List.getElem?_cons_succ, List.getElem_cons_succ, List.take_succ_cons]
      rw [ih (c :: seen) j h]
      simp only [List.count_cons]
      congr 2
      omega

/-! ### ... and these are the nonces the same calls get as transactions

Executing the calls one after the other as transactions: a transaction runs with its sender's current account nonce,
and (unless revm refuses it outright) bumps it by one, whether it succeeds or reverts. -/

/-- account nonces after a transaction of `c` -/
def bumpNonce (acct : String → Nat) (c : String) : String → Nat := fun x => if x = c then acct x + 1 else acct x

/-- the nonces the calls carry when they are executed in order as transactions -/
def seqTxNonces (acct : String → Nat) : List String → List Nat
  | [] => []
  | c :: cs => acct c :: seqTxNonces (bumpNonce acct c) cs

theorem roundNonces_shift (acct : String → Nat) (c : String) (cs : List String) :
    ∀ seen : List String, roundNonces (bumpNonce acct c) seen cs = roundNonces acct (c :: seen) cs := by
  induction cs with
  | nil => intro seen; rfl
  | cons d ds ih =>
    intro seen
    simp only [roundNonces]
    congr 1
    · unfold bumpNonce
      by_cases h : d = c
      · subst h; simp [List.count_cons]; omega
      · have h' : ¬ (c == d) = true := by simpa using fun x => h x.symm
        simp [h, List.count_cons, h']
    · rw [ih (d :: seen)]
      -- the two `seen` lists are permutations of each other; `count` does not see the order
      have : ∀ (l : List String) (s1 s2 : List String), (∀ x, s1.count x = s2.count x) →
          roundNonces acct s1 l = roundNonces acct s2 l := by
        intro l
        induction l with
        | nil => intros; rfl
        | cons e es ihl =>
          intro s1 s2 hc
          simp only [roundNonces, hc e]
          congr 1
          exact ihl _ _ (fun x => by simp [List.count_cons, hc x])
      exact this ds _ _ (fun x => by simp [List.count_cons]; omega)

/-- **A multi-call simulation hands every call the nonce its transaction will carry** when the same calls are
submitted in the same order (each bumping its sender's nonce): nonce-derived child addresses coincide call by call. -/
theorem C17.multi_nonces_eq_tx_nonces (callers : List String) :
    ∀ acct : String → Nat, roundNoncesImpl acct [] callers = seqTxNonces acct callers := by
  intro acct
  rw [C17.multi_nonces_are_sequential]
  induction callers generalizing acct with
  | nil => rfl
  | cons c cs ih =>
    simp only [roundNonces, seqTxNonces, List.count_nil, Nat.add_zero]
    congr 1
    rw [← ih (bumpNonce acct c), roundNonces_shift]

/-- **An accepted multi-call read saw, call by call, the environment the transactions will see**: if the model
accepts the recorded runs of one complete round of `ncalls` calls (none refused by revm), then every call ran at the
height the next transaction is built at, with zero fees, and with nonce = its caller's account nonce + the number of
earlier calls of the round by the same caller. -/
theorem C17.accepted_round_env (n : Node) (ncalls : Nat) (runs : List (List (String × String) × Bool))
    (hok : ∀ r ∈ runs, r.2 = true) (hlen : runs.length ≤ ncalls)
    (hacc : n.simMultiOk ncalls runs = true) :
    ∀ (i : Nat) (h : i < runs.length),
      field runs[i].1 "number" = toString n.nextHeight ∧
      field runs[i].1 "basefee" = "0" ∧ field runs[i].1 "gasprice" = "0" ∧ field runs[i].1 "value" = "0" ∧
      field runs[i].1 "nonce" =
        toString (n.accountNonce (field runs[i].1 "caller") +
          ((runs.take i).map (fun r => field r.1 "caller")).count (field runs[i].1 "caller")) := by
  intro i h
  unfold simMultiOk at hacc
  rw [multiCheckAux_round n ncalls runs [] 0 [] (noncesInv_empty _) hok (by omega)] at hacc
  rw [List.all_eq_true] at hacc
  have hcl : i < (runs.map (fun r => field r.1 "caller")).length := by simpa using h
  have hn := C17.round_nonce_at n.accountNonce (runs.map (fun r => field r.1 "caller")) [] i hcl
  have hmem : (runs[i].1, n.accountNonce (field runs[i].1 "caller") +
      ((runs.take i).map (fun r => field r.1 "caller")).count (field runs[i].1 "caller")) ∈
      (runs.map (·.1)).zip (roundNonces n.accountNonce [] (runs.map (fun r => field r.1 "caller"))) := by
    rw [List.mem_iff_getElem?]
    refine ⟨i, ?_⟩
    rw [List.getElem?_zip_eq_some]
    constructor
    · simp [h]
    · rw [hn]; simp [List.map_take]
  have := hacc _ hmem
  simp only [simMultiEnvOk, Bool.and_eq_true, beq_iff_eq] at this
  obtain ⟨⟨⟨⟨⟨⟨h1, h2⟩, h3⟩, h4⟩, h5⟩, _⟩, _⟩ := this
  exact ⟨h1, h3, h4, h5, h2⟩

/-- A read whose recorded multi-call runs do not fit is refused by the model (this is what ties the statement above
to the code: suite E sends the runs of every `eth_callMany` / `eth_estimateGasMany`). -/
theorem C17.read_ok_means_env_ok (n : Node) (raw : List String) (evs : List Ev) (ncalls : Nat)
    (h : (DriverE.readStep n raw evs ncalls).2 = .ok) :
    (∀ fs ∈ simRuns evs, n.simEnvOk fs = true) ∧ n.simMultiOk ncalls (multiRuns evs) = true := by
  unfold DriverE.readStep at h
  simp only at h
  split at h
  · cases h
  · split at h
    · cases h
    · split at h
      · cases h
      · rename_i h1 h2 h3
        constructor
        · intro fs hfs
          cases hc : n.simEnvOk fs with
          | true => rfl
          | false => exact absurd (List.any_eq_true.mpr ⟨fs, hfs, by simp [hc]⟩) h2
        · cases hc : n.simMultiOk ncalls (multiRuns evs) with
          | true => rfl
          | false => exact absurd (by simp [hc]) h3

/-! ### The prediction itself, for any EVM

revm is a parameter: a function of the state view and the environment.  "Code that does not read the block timestamp,
randomness, remaining gas or the current Bitcoin transaction id" is an EVM whose outcome does not depend on those
four fields.  For every such function, the simulation's outcome is the transaction's outcome. -/

/-- the environment fields the engine fills in -/
structure Env where
  number : Nat
  caller : String
  target : String
  data : String
  nonce : Nat
  ts : Nat
  randomness : String
  gasLimit : Nat
  txid : String
  deriving DecidableEq

/-- environment of `eth_call` at a block boundary (`read_contract`): wall-clock timestamp `now`, zero randomness,
the call gas limit, zero txid -/
def Node.simEnv (n : Node) (caller target data : String) (now callGas : Nat) : Env :=
  { number := n.nextHeight, caller, target, data, nonce := n.accountNonce caller, ts := now,
    randomness := zeroHash, gasLimit := callGas, txid := zeroHash }

/-- environment of the transaction executed next (`add_tx_to_block` on a boundary node) -/
def Node.txEnv (n : Node) (caller target data : String) (ts : Nat) (hash : String) (allowance : Nat) (txid : String) : Env :=
  { number := n.nextHeight, caller, target, data, nonce := n.accountNonce caller, ts, randomness := hash,
    gasLimit := allowance, txid }

/-- an EVM (any function of state view and environment) whose outcome ignores the four excluded fields -/
def IgnoresExcluded {S O : Type} (evm : S → Env → O) : Prop :=
  ∀ s e ts r g t, evm s { e with ts := ts, randomness := r, gasLimit := g, txid := t } = evm s e

/-- **eth_call predicts the next transaction, for every EVM that ignores the excluded fields**: same node (C10: the
simulation did not change it), same sender, target and data. -/
theorem C17.prediction_for_any_evm {S O : Type} (evm : S → Env → O) (hev : IgnoresExcluded evm) (view : Node → S)
    (n : Node) (caller target data : String) (now callGas ts allowance : Nat) (hash txid : String) :
    evm (view n) (n.simEnv caller target data now callGas) =
      evm (view n) (n.txEnv caller target data ts hash allowance txid) := by
  have := hev (view n) (n.simEnv caller target data now callGas) ts hash allowance txid
  rw [← this]
  rfl

/-- non-vacuity: an EVM that returns (number, nonce, caller) - what NUMBER and the child-address derivation read -
ignores the excluded fields -/
example : IgnoresExcluded (fun (_ : Unit) (e : Env) => (e.number, e.nonce, e.caller)) := by
  intro s e ts r g t; rfl


end Brc20
