/-
C03 - Commit points are unobservable; uncommitted work is what is lost.

`NodeSim n g`: every versioned table of the node is in simulation (`Table.Sim`, see Proofs/Table.lean) with a plain
per-key-log specification `g i`.  Reads are `Table.latest` (point reads; scans are functions of them, C13) and
`BlockDb.get`.
-/
import Brc20.Proofs.NodeSim
import Brc20.Proofs.ReachProps
import Brc20.Gen.Tables

namespace Brc20
open Node

/-- **Commit is unobservable**: every table read, every block-table read and both heights are unchanged, the
block under construction is untouched (there is none), and the node stays in simulation (so the statement iterates
over any later history). -/
theorem C03.commit_unobservable (n : Node) (g : TId → TSpec String String) (hs : NodeSim n g) (hh : HeightInv n)
    (hw : n.lbi.waiting = 0) :
    n.commit.2 = .ok ∧
    (∀ i k, (n.commit.1.t i).latest k = (n.t i).latest k) ∧
    (∀ i k, (n.commit.1.b i).get k = (n.b i).get k) ∧
    n.commit.1.latestHeight = n.latestHeight ∧ n.commit.1.nextHeight = n.nextHeight ∧
    n.commit.1.lbi = n.lbi ∧ n.commit.1.maxBlock = n.maxBlock ∧
    (∃ g', NodeSim n.commit.1 g' ∧ ∀ i, (g' i).cur = (g i).cur) ∧ HeightInv n.commit.1 := by
  have e : n.commit = (n.commitAll, .ok) := by simp [Node.commit, hw]
  rw [e]
  have hlk : ((n.b .numberToHash).commit.clear).lastKey = (n.b .numberToHash).lastKey :=
    BlockDb.lastKey_commit_clear _
  refine ⟨rfl, ?_, ?_, ?_, ?_, rfl, rfl, ?_, ?_⟩
  · intro i k
    exact Table.latest_commit W n.nextHeight (n.t i) (hs.sim i).inv.cache_nodup k
  · intro i k
    exact BlockDb.get_commit_clear (n.b i) k
  · show ((n.b .numberToHash).commit.clear.lastKey).getD 0 = n.latestHeight
    rw [hlk]
    unfold Node.latestHeight
    cases hl : n.latest with
    | none => rfl
    | some p =>
      obtain ⟨h, x⟩ := p
      simp only [hh.latest_is_last h x hl, Option.getD_some]
  · show (match (n.b .numberToHash).commit.clear.lastKey with | some k => k + 1 | none => 0) = n.nextHeight
    rw [hlk]
    unfold Node.nextHeight
    cases hl : n.latest with
    | none => rfl
    | some p =>
      obtain ⟨h, x⟩ := p
      simp only [hh.latest_is_last h x hl]
  · refine ⟨fun i => (g i).step (.commit n.nextHeight), ⟨fun i => ?_⟩, fun i => rfl⟩
    obtain ⟨t', e', s'⟩ := Table.step_sim (hs.sim i) (.commit n.nextHeight) trivial
    simp only [Table.step, Option.some.injEq] at e'
    subst e'
    exact s'
  · refine ⟨fun h x hl => (by cases hl), fun i => ⟨?_, ?_⟩⟩
    · exact BlockDb.commit_nodup (n.b i) (hh.nodup i).1
    · show AMap.Nodup ([] : AMap Nat String)
      simp [AMap.Nodup, AMap.keys]

/-- **After a commit, stop + reopen changes nothing observable.** -/
theorem C03.reopen_after_commit (n : Node) (g : TId → TSpec String String) (hs : NodeSim n g) (hh : HeightInv n)
    (hw : n.lbi.waiting = 0) :
    (∀ i k, (n.commit.1.reopen.t i).latest k = (n.t i).latest k) ∧
    (∀ i k, (n.commit.1.reopen.b i).get k = (n.b i).get k) ∧
    n.commit.1.reopen.latestHeight = n.latestHeight := by
  obtain ⟨_, h1, h2, h3, _⟩ := C03.commit_unobservable n g hs hh hw
  have e : n.commit = (n.commitAll, .ok) := by simp [Node.commit, hw]
  rw [e] at h1 h2 h3 ⊢
  refine ⟨?_, ?_, ?_⟩
  · intro i k; rw [← h1 i k]; rfl
  · intro i k; rw [← h2 i k]; rfl
  · rw [← h3]; rfl

/-- **clearCaches / restart without commit = the state of the last commit**: every table reads its durable log
(the spec's `dur`), the block under construction is forgotten. -/
theorem C03.clear_is_last_commit (n : Node) (g : TId → TSpec String String) (hs : NodeSim n g) :
    (∀ i k, (n.clear.1.t i).latest k = ((g i).dur k).latest) ∧ n.clear.1.lbi = {} ∧ n.clear.1.latest = none ∧
    (∀ i k, (n.clear.1.b i).get k = (n.b i).db.get? k) ∧
    (∃ g', NodeSim n.clear.1 g' ∧ ∀ i, (g' i).cur = (g i).dur) := by
  refine ⟨?_, rfl, rfl, ?_, ?_⟩
  · intro i k
    exact Table.clear_reads_durable (hs.sim i) k
  · intro i k
    exact BlockDb.get_clear (n.b i) k
  · refine ⟨fun i => (g i).step .clear, ⟨fun i => ?_⟩, fun i => rfl⟩
    obtain ⟨t', e', s'⟩ := Table.step_sim (hs.sim i) .clear trivial
    simp only [Table.step, Option.some.injEq] at e'
    subst e'
    exact s'

/-- **No table is forgotten** (regenerated from `Brc20ProgDatabase` on every run): `commit_changes`, `clear_caches`
and `reorg` each walk every one of the twelve versioned and three block-keyed tables exactly once.  (The model's
`commitAll`, `clear` and `reorg` treat all tables uniformly; a table dropped from one of the three functions in the
Rust breaks this theorem before any history is run.) -/
theorem C03.every_table_committed_cleared_rolled_back :
    (∀ l ∈ [Gen.commitVersioned, Gen.clearVersioned, Gen.reorgVersioned], l.length = 12 ∧ ∀ i, i < 12 → i ∈ l) ∧
    (∀ l ∈ [Gen.commitBlock, Gen.clearBlock, Gen.reorgBlock], l.length = 3 ∧ ∀ i, i < 3 → i ∈ l) := by decide

/-- The tables of the source are the tables of the model: same directory names, same declaration order. -/
theorem C03.tables_of_the_source :
    Gen.versionedTables = allTIds.map TId.name ∧ Gen.blockTables = allBIds.map BId.name := by decide

/-! ## The same, for every reachable state

`Node.Reach n` (Proofs/NodeRun.lean): `n` is the empty node or the result of any call with any arguments and any
recorded events on a reachable node, as long as the model answered `ok` or `err`. The hypotheses `NodeSim n g` and
`HeightInv n` of the theorems above are discharged from it (`reach_sim`, `Reach.heightInv`). -/

/-- **Commit is unobservable on every reachable node** at a block boundary: it answers `ok`; no table read, no
block-table read, neither height, nor the highest finalised block changes; the result is reachable again. -/
theorem C03.commit_unobservable_reachable (n : Node) (hr : Reach n) (hw : n.lbi.waiting = 0) :
    n.commit.2 = .ok ∧
    (∀ i k, (n.commit.1.t i).latest k = (n.t i).latest k) ∧
    (∀ i k, (n.commit.1.b i).get k = (n.b i).get k) ∧
    n.commit.1.latestHeight = n.latestHeight ∧ n.commit.1.nextHeight = n.nextHeight ∧
    n.commit.1.lbi = n.lbi ∧ n.commit.1.maxBlock = n.maxBlock ∧ Reach n.commit.1 := by
  obtain ⟨g, hs⟩ := reach_sim hr
  obtain ⟨h1, h2, h3, h4, h5, h6, h7, _, _⟩ := C03.commit_unobservable n g hs (hr.heightInv hw) hw
  refine ⟨h1, h2, h3, h4, h5, h6, h7, ?_⟩
  exact Reach.step .commit hr (by show n.commit.2.accepted; rw [h1]; trivial)

/-- Mid-block a commit is refused and changes nothing at all, so: **on every reachable node, whatever `commit`
answers, no read and no height changes.** -/
theorem C03.commit_never_observable (n : Node) (hr : Reach n) :
    (∀ i k, (n.commit.1.t i).latest k = (n.t i).latest k) ∧
    (∀ i k, (n.commit.1.b i).get k = (n.b i).get k) ∧
    n.commit.1.latestHeight = n.latestHeight ∧ n.commit.1.nextHeight = n.nextHeight := by
  by_cases hw : n.lbi.waiting = 0
  · obtain ⟨_, h2, h3, h4, h5, _⟩ := C03.commit_unobservable_reachable n hr hw
    exact ⟨h2, h3, h4, h5⟩
  · have e : n.commit = (n, .err "waiting") := by simp [Node.commit, hw]
    rw [e]
    exact ⟨fun _ _ => rfl, fun _ _ => rfl, rfl, rfl⟩

/-- **Commit followed by stop + reopen changes no table read, no block-table read and no height**, on every
reachable node at a block boundary. -/
theorem C03.commit_then_reopen_reachable (n : Node) (hr : Reach n) (hw : n.lbi.waiting = 0) :
    (∀ i k, (n.commit.1.reopen.t i).latest k = (n.t i).latest k) ∧
    (∀ i k, (n.commit.1.reopen.b i).get k = (n.b i).get k) ∧
    n.commit.1.reopen.latestHeight = n.latestHeight ∧ n.commit.1.reopen.nextHeight = n.nextHeight ∧
    Reach n.commit.1.reopen := by
  obtain ⟨g, hs⟩ := reach_sim hr
  obtain ⟨h1, h2, h3⟩ := C03.reopen_after_commit n g hs (hr.heightInv hw) hw
  obtain ⟨_, _, _, _, h5, _, _, hr'⟩ := C03.commit_unobservable_reachable n hr hw
  refine ⟨h1, h2, h3, ?_, Reach.step .reopen hr' trivial⟩
  have e : n.commit = (n.commitAll, .ok) := by simp [Node.commit, hw]
  rw [e] at h5 ⊢
  rw [← h5]; rfl

/-- **`clear_caches` / restart without commit = the state of the last commit**, on every reachable node, with the
plain logs `G` that `ReachG` carries along: `G.d i` is the log of table `i` as of the last commit point (it is set to
the current log by an accepted `commit` / `reorg` and by nothing else: `Node.Op.ghost_d`,
`Node.Op.ghost_d_commitPoint`), and after `clear` - likewise after stop + reopen - every table reads, for every key,
what that log says. `G.d` is also the `dur` component of the current log. The block under construction and the
in-memory height are forgotten, block tables read their column, and the result is reachable with logs `G.clear`. -/
theorem C03.clear_is_last_commit_reachable (n : Node) (G : Ghost) (hr : ReachG n G) :
    (∀ i k, (n.clear.1.t i).latest k = (G.d i).read k) ∧
    (∀ i k, (n.reopen.t i).latest k = (G.d i).read k) ∧
    (∀ i k, (G.d i).read k = ((G.s i).dur k).latest) ∧
    n.clear.1.lbi = {} ∧ n.clear.1.latest = none ∧
    (∀ i k, (n.clear.1.b i).get k = (n.b i).db.get? k) ∧
    ReachG n.clear.1 G.clear := by
  have hc := hr.inv.core
  have hread : ∀ i k, (n.clear.1.t i).latest k = (G.d i).read k := fun i k => Table.sim_latest (hc.dsim i) k
  refine ⟨hread, hread, ?_, rfl, rfl, fun i k => BlockDb.get_clear (n.b i) k, ReachG.step .clear hr trivial trivial⟩
  intro i k
  show ((G.d i).cur k).latest = _
  rw [(hc.dur_coh i).1]

/-- **Uncommitted work is what is lost** (for every node, reachable or not): a call that is not a commit point
(anything but `commit` and `reorg`), whatever its arguments, recorded events and answer, writes caches only. After a
`clear` / restart the node is the one the `clear` would have produced without the call - up to the written-through
`max_block_number` row, which a finalise raises at once. In particular every table read, every block-table read and
both heights after the restart are those of the last commit point. -/
theorem C03.uncommitted_work_lost (n : Node) (op : Op) (hop : op.isCommitPoint = false) :
    ((op.run n).1.clear).1 = { (n.clear).1 with maxBlock := (op.run n).1.maxBlock } ∧
    (∀ i k, (((op.run n).1.clear).1.t i).latest k = ((n.clear).1.t i).latest k) ∧
    (∀ i k, (((op.run n).1.clear).1.b i).get k = ((n.clear).1.b i).get k) ∧
    ((op.run n).1.clear).1.latestHeight = (n.clear).1.latestHeight ∧
    ((op.run n).1.clear).1.nextHeight = (n.clear).1.nextHeight := by
  have e := (Op.run_clearEq op n hop).clear_eq
  refine ⟨e, ?_, ?_, ?_, ?_⟩
  · intro i k; rw [e]
  · intro i k; rw [e]
  · rw [e]; rfl
  · rw [e]; rfl

/-- **`HeightInv` holds on every reachable node, mid-block included**: the in-memory height, when present, is the
newest row of the hash table, and no block table binds a number twice. (The model refuses recorded block-table writes
in a call that adds transactions - the engine writes those tables in `finalise_block` only - so the restriction to
block boundaries of `Node.Reach.heightInv` is gone.) -/
theorem C03.heightInv_reachable (n : Node) (hr : Reach n) : HeightInv n := hr.heightInv_always

/-- **A call that adds transactions does not touch the block tables, the in-memory height or the highest finalised
block**, whatever its arguments, recorded events and answer (for every node). -/
theorem C03.transactions_leave_block_tables (n : Node) :
    (∀ ts h idx txid evs k, (n.addTxs ts h idx txid evs k).1.b = n.b ∧ (n.addTxs ts h idx txid evs k).1.latest = n.latest ∧
      (n.addTxs ts h idx txid evs k).1.maxBlock = n.maxBlock) ∧
    (∀ ts h idx txid d evs, (n.addRawTx ts h idx txid d evs).1.b = n.b ∧
      (n.addRawTx ts h idx txid d evs).1.latest = n.latest ∧ (n.addRawTx ts h idx txid d evs).1.maxBlock = n.maxBlock) :=
  ⟨fun ts h idx txid evs k => addTxs_block_frame n ts h idx txid evs k,
   fun ts h idx txid d evs => addRawTx_block_frame n ts h idx txid d evs⟩

namespace C03.Example
open Node.Example

-- the parked row of `Node.Example` is a 162-character string that `decide` has to walk through
set_option maxRecDepth 8192

/-- the node of `Node.Example` right before its final `commit`: genesis with a deployment, a parked transaction, one
block with a call, one mined block - nothing of blocks 1 and 2 committed yet -/
def pre : Node × Ghost := runOps (ops.take 5) ({}, Ghost.init)

theorem pre_reach : ReachG pre.1 pre.2 := reachG_runOps (ops.take 5) ReachG.init (by decide) (by decide)

/-- Non-vacuity of `C03.commit_unobservable_reachable`: it applies to that node ... -/
example : pre.1.commit.2 = .ok ∧
    (∀ i k, (pre.1.commit.1.t i).latest k = (pre.1.t i).latest k) ∧
    (∀ i k, (pre.1.commit.1.b i).get k = (pre.1.b i).get k) ∧
    pre.1.commit.1.latestHeight = pre.1.latestHeight ∧ pre.1.commit.1.nextHeight = pre.1.nextHeight := by
  obtain ⟨h1, h2, h3, h4, h5, _⟩ := C03.commit_unobservable_reachable pre.1 pre_reach.reach (by decide)
  exact ⟨h1, h2, h3, h4, h5⟩

/-- ... on which the commit is not a no-op: rows move from the caches to the columns, the in-memory height is
dropped, and a restart before the commit would have lost blocks 1 and 2 (height 0 instead of 2). -/
example : (pre.1.t .account).cache ≠ [] ∧ (pre.1.commit.1.t .account).cache = [] ∧
    (pre.1.b .numberToHash).db.get? 2 = none ∧ (pre.1.commit.1.b .numberToHash).db.get? 2 = some h2 ∧
    pre.1.latest = some (2, h2) ∧ pre.1.commit.1.latest = none ∧
    pre.1.latestHeight = 2 ∧ pre.1.reopen.latestHeight = 0 ∧ pre.1.commit.1.reopen.latestHeight = 2 := by decide

/-- the same history with a `commit` right after the genesis -/
def opsC : List Op := ops.take 1 ++ [.commit] ++ (ops.drop 1).take 4

def pre2 : Node × Ghost := runOps opsC ({}, Ghost.init)

theorem pre2_reach : ReachG pre2.1 pre2.2 := reachG_runOps opsC ReachG.init (by decide) (by decide)

/-- Non-vacuity of `C03.clear_is_last_commit_reachable`: after a restart the `account` row reads what the log as of
the last commit (the genesis) says, not the value written in block 1; the height is back to 0. -/
example : (pre2.1.t .account).latest "aa" = some acct1 ∧ (pre2.1.reopen.t .account).latest "aa" = some acct0 ∧
    (pre2.2.d .account).read "aa" = some acct0 ∧ pre2.1.latestHeight = 2 ∧ pre2.1.reopen.latestHeight = 0 :=
  ⟨by decide, by decide,
    ((C03.clear_is_last_commit_reachable pre2.1 pre2.2 pre2_reach).2.1 .account "aa").symm.trans (by decide),
    by decide, by decide⟩

/-- a call of block 1 whose recorded writes contain a hash row for the block under construction -/
def evCallRow : List Ev := evCall ++ [.s "block_number_to_hash" 1 "0000000000000001" (some "zz")]

/-- the node after the genesis -/
def gen : Node × Ghost := runOps [.initialise zeroHash 100 0 evGenesis] ({}, Ghost.init)

theorem gen_reach : ReachG gen.1 gen.2 :=
  reachG_runOps [.initialise zeroHash 100 0 evGenesis] ReachG.init (by decide) (by decide)

/-- **The former counterexample to `HeightInv` mid-block is now rejected by the model.** The model's `addTxs` used to
accept a recorded `block_number_to_hash` write stamped with the height being built, after which the newest hash row
(1) was above the in-memory height (0). The engine's `add_tx_to_block` issues no block-table write; the model now
refuses such an event list (`tx-wrote-block-table`) and leaves the node alone, while the same call without that
write is accepted. -/
example : (gen.1.addTxs 200 zeroHash 0 (some "ab") evCallRow (some 1)).2 = .reject "tx-wrote-block-table" ∧
    (gen.1.addTxs 200 zeroHash 0 (some "ab") evCallRow (some 1)).1.lbi = gen.1.lbi ∧
    (gen.1.addTxs 200 zeroHash 0 (some "ab") evCall (some 1)).2 = .ok := by decide

/-- the node in the middle of block 1 (one transaction appended) -/
def mid : Node × Ghost :=
  runOps [.initialise zeroHash 100 0 evGenesis, .addTxs 200 zeroHash 0 (some "ab") evCall (some 1)] ({}, Ghost.init)

theorem mid_reach : ReachG mid.1 mid.2 := reachG_runOps _ ReachG.init (by decide) (by decide)

/-- Non-vacuity of `C03.heightInv_reachable` mid-block: a reachable node with a transaction in its block; the newest
hash row is the in-memory height. -/
example : Reach mid.1 ∧ mid.1.lbi.waiting = 1 ∧ mid.1.latest = some (0, h0) ∧
    (mid.1.b .numberToHash).lastKey = some 0 ∧ HeightInv mid.1 :=
  ⟨mid_reach.reach, by decide, by decide, by decide, C03.heightInv_reachable mid.1 mid_reach.reach⟩

end C03.Example

end Brc20
