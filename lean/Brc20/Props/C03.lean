/-
C03 - Commit points are unobservable; uncommitted work is what is lost.

`NodeSim n g`: every versioned table of the node is in simulation (`Table.Sim`, see Proofs/Table.lean) with a plain
per-key-log specification `g i`.  Reads are `Table.latest` (point reads; scans are functions of them, C13) and
`BlockDb.get`.
-/
import Brc20.Proofs.NodeSim
import Brc20.Gen.Tables

namespace Brc20
open Node

/-- **Commit is unobservable**: every table read, every block-table read and both heights are unchanged, the
block under construction is untouched (there is none), and the node stays in simulation (so the statement iterates
over any later history). -/
theorem C03.commit_unobservable (n : Node) (g : TId → TSpec String String) (hs : NodeSim n g) (hh : HeightInv n)
    (hw : n.lbi.waiting = 0) :
    n.commit.2 = .ok ∧
    (∀ i k, (n.commit.1.t i).latest k = (n.t i).latest k) ∧
    (∀ i k, (n.commit.1.b i).get k = (n.b i).get k) ∧
    n.commit.1.latestHeight = n.latestHeight ∧ n.commit.1.nextHeight = n.nextHeight ∧
    n.commit.1.lbi = n.lbi ∧ n.commit.1.maxBlock = n.maxBlock ∧
    (∃ g', NodeSim n.commit.1 g' ∧ ∀ i, (g' i).cur = (g i).cur) ∧ HeightInv n.commit.1 := by
  have e : n.commit = (n.commitAll, .ok) := by simp [Node.commit, hw]
  rw [e]
  have hlk : ((n.b .numberToHash).commit.clear).lastKey = (n.b .numberToHash).lastKey :=
    BlockDb.lastKey_commit_clear _
  refine ⟨rfl, ?_, ?_, ?_, ?_, rfl, rfl, ?_, ?_⟩
  · intro i k
    exact Table.latest_commit W n.nextHeight (n.t i) (hs.sim i).inv.cache_nodup k
  · intro i k
    exact BlockDb.get_commit_clear (n.b i) k
  · show ((n.b .numberToHash).commit.clear.lastKey).getD 0 = n.latestHeight
    rw [hlk]
    unfold Node.latestHeight
    cases hl : n.latest with
    | none => rfl
    | some p =>
      obtain ⟨h, x⟩ := p
      simp only [hh.latest_is_last h x hl, Option.getD_some]
  · show (match (n.b .numberToHash).commit.clear.lastKey with | some k => k + 1 | none => 0) = n.nextHeight
    rw [hlk]
    unfold Node.nextHeight
    cases hl : n.latest with
    | none => rfl
    | some p =>
      obtain ⟨h, x⟩ := p
      simp only [hh.latest_is_last h x hl]
  · refine ⟨fun i => (g i).step (.commit n.nextHeight), ⟨fun i => ?_⟩, fun i => rfl⟩
    obtain ⟨t', e', s'⟩ := Table.step_sim (hs.sim i) (.commit n.nextHeight) trivial
    simp only [Table.step, Option.some.injEq] at e'
    subst e'
    exact s'
  · refine ⟨fun h x hl => (by cases hl), fun i => ⟨?_, ?_⟩⟩
    · exact BlockDb.commit_nodup (n.b i) (hh.nodup i).1
    · show AMap.Nodup ([] : AMap Nat String)
      simp [AMap.Nodup, AMap.keys]

/-- **After a commit, stop + reopen changes nothing observable.** -/
theorem C03.reopen_after_commit (n : Node) (g : TId → TSpec String String) (hs : NodeSim n g) (hh : HeightInv n)
    (hw : n.lbi.waiting = 0) :
    (∀ i k, (n.commit.1.reopen.t i).latest k = (n.t i).latest k) ∧
    (∀ i k, (n.commit.1.reopen.b i).get k = (n.b i).get k) ∧
    n.commit.1.reopen.latestHeight = n.latestHeight := by
  obtain ⟨_, h1, h2, h3, _⟩ := C03.commit_unobservable n g hs hh hw
  have e : n.commit = (n.commitAll, .ok) := by simp [Node.commit, hw]
  rw [e] at h1 h2 h3 ⊢
  refine ⟨?_, ?_, ?_⟩
  · intro i k; rw [← h1 i k]; rfl
  · intro i k; rw [← h2 i k]; rfl
  · rw [← h3]; rfl

/-- **clearCaches / restart without commit = the state of the last commit**: every table reads its durable log
(the spec's `dur`), the block under construction is forgotten. -/
theorem C03.clear_is_last_commit (n : Node) (g : TId → TSpec String String) (hs : NodeSim n g) :
    (∀ i k, (n.clear.1.t i).latest k = ((g i).dur k).latest) ∧ n.clear.1.lbi = {} ∧ n.clear.1.latest = none ∧
    (∀ i k, (n.clear.1.b i).get k = (n.b i).db.get? k) ∧
    (∃ g', NodeSim n.clear.1 g' ∧ ∀ i, (g' i).cur = (g i).dur) := by
  refine ⟨?_, rfl, rfl, ?_, ?_⟩
  · intro i k
    exact Table.clear_reads_durable (hs.sim i) k
  · intro i k
    exact BlockDb.get_clear (n.b i) k
  · refine ⟨fun i => (g i).step .clear, ⟨fun i => ?_⟩, fun i => rfl⟩
    obtain ⟨t', e', s'⟩ := Table.step_sim (hs.sim i) .clear trivial
    simp only [Table.step, Option.some.injEq] at e'
    subst e'
    exact s'

/-- **No table is forgotten** (regenerated from `Brc20ProgDatabase` on every run): `commit_changes`, `clear_caches`
and `reorg` each walk every one of the twelve versioned and three block-keyed tables exactly once.  (The model's
`commitAll`, `clear` and `reorg` treat all tables uniformly; a table dropped from one of the three functions in the
Rust breaks this theorem before any history is run.) -/
theorem C03.every_table_committed_cleared_rolled_back :
    (∀ l ∈ [Gen.commitVersioned, Gen.clearVersioned, Gen.reorgVersioned], l.length = 12 ∧ ∀ i, i < 12 → i ∈ l) ∧
    (∀ l ∈ [Gen.commitBlock, Gen.clearBlock, Gen.reorgBlock], l.length = 3 ∧ ∀ i, i < 3 → i ∈ l) := by decide

/-- The tables of the source are the tables of the model: same directory names, same declaration order. -/
theorem C03.tables_of_the_source :
    Gen.versionedTables = allTIds.map TId.name ∧ Gen.blockTables = allBIds.map BId.name := by decide

end Brc20
