/-
C09 - No request can crash, hang or wedge the server.

What is proved here is the part of the property that is logic of this code base:
  * the database slot: every control path of every closure that moves the database out puts it back before the
    closure is left (paths regenerated from src/engine/engine.rs on every run), hence after any sequence of
    requests, whatever the EVM answered, the real database is in the slot - and why one unbalanced path wedges the
    server for good;
  * the panic inventory: every place in the shipped code that can panic by itself (unwrap / expect / panic! /
    assert! / indexing; regenerated on every run) is in the reviewed table, with the category that says which guard,
    invariant or theorem keeps requests away from it;
  * the guards the inventory leans on that have a model: payload decoding refuses instead of panicking (C15), an
    accepted reorg never reaches the "Reorg too deep" panic (C01), handlers cannot deadlock (C11, separate file).
Not covered by proof (parameters, exercised by suite Z on the real code): panics, loops and recursion inside revm,
alloy, bitcoin, zstd, rocksdb, jsonrpsee; stack and memory exhaustion; the time a bounded loop takes.
-/
import Brc20.Model.Slot
import Brc20.Model.PanicReview
import Brc20.Gen.Slot
import Brc20.Gen.PanicSites
import Brc20.Props.C01
import Brc20.Props.C15

namespace Brc20
open Slot Node

/-- Every control path of every closure that moves the database out leaves it back in the slot. -/
theorem C09.slot_paths_balanced :
    ∀ r ∈ Gen.slotRegions, ∀ p ∈ r.2.2, balanced p = true := by decide

/-- Only `engine.rs` moves the database out (the regions above are all there are). -/
theorem C09.slot_only_in_engine : Gen.slotOtherFiles = [] := by decide

/-- While the database is moved out, the only operation that could panic by itself is the bounded index `tx_infos[idx]`
(`idx` ranges over `0..tx_infos.len()`). -/
theorem C09.moved_out_panic_sites : Gen.slotPanicSites.length ≤ 1 := by decide

/-- **The slot is never left empty**: serve any sequence of requests, each following any balanced path (which one
depends on the request and on what the EVM answered - the choice is arbitrary): the real database is in the slot
afterwards. -/
theorem C09.slot_always_full (ps : List (List Slot.Ev)) (h : ∀ p ∈ ps, balanced p = true) : serveAll true ps = true := by
  induction ps with
  | nil => rfl
  | cons p ps ih =>
    have hp : balanced p = true := h p (by simp)
    have e : serve true p = true := by
      unfold balanced at hp
      simp only [serve, ↓reduceIte]
      cases hr : runPath true p with
      | none => rw [hr] at hp; simp at hp
      | some s => rw [hr] at hp; simpa using hp
    show serveAll (serve true p) ps = true
    rw [e]
    exact ih (fun q hq => h q (by simp [hq]))

/-- ... instantiated with the regenerated table: any sequence of requests through the engine's three EVM entry
points. -/
theorem C09.engine_slot_always_full (ps : List (List Slot.Ev))
    (h : ∀ p ∈ ps, ∃ r ∈ Gen.slotRegions, p ∈ r.2.2) : serveAll true ps = true :=
  C09.slot_always_full ps (fun p hp => by
    obtain ⟨r, hr, hpr⟩ := h p hp
    exact C09.slot_paths_balanced r hr p hpr)

/-- Why it matters: once a request leaves the slot empty, every later request finds it empty - the server is wedged
for good (until restart). -/
theorem C09.empty_slot_stays_empty (ps : List (List Slot.Ev)) : serveAll false ps = false := by
  induction ps with
  | nil => rfl
  | cons p ps ih => simpa [serveAll, serve] using ih

/-- A path that exits between take and restore (the shape of `outputs.push(result?)` inside the moved-out region) is
rejected by the check, and does wedge the server. -/
theorem C09.exit_while_moved_out_wedges :
    balanced [.take, .exit] = false ∧ ∀ ps, serveAll true ([.take, .exit] :: ps) = false := by
  refine ⟨by decide, ?_⟩
  intro ps
  show serveAll (serve true [.take, .exit]) ps = false
  have : serve true [.take, .exit] = false := by decide
  rw [this]
  exact C09.empty_slot_stays_empty ps

/-- **Panic inventory**: every site of the shipped code that can panic by itself has been reviewed. -/
theorem C09.panic_sites_reviewed : ∀ k ∈ Gen.panicSiteKeys, k ∈ PanicReview.keys := by decide +kernel

/-- The inventory is not empty and the review table carries no stale rows (every reviewed key still exists). -/
theorem C09.review_table_current : Gen.panicSiteKeys.length = PanicReview.keys.length ∧
    ∀ k ∈ PanicReview.keys, k ∈ Gen.panicSiteKeys := by decide +kernel

/-- Guard used by the inventory (payload sites): an empty payload is refused, not indexed. -/
theorem C09.empty_payload_refused (limit : Nat) (zdec : List UInt8 → Option (List UInt8)) (t : List Char) :
    Payload.decodePayload limit zdec [] = none ∧ Payload.decodePayload limit zdec ('=' :: t) = none :=
  C15.empty_refused limit zdec t

/-- Guard used by the inventory (`Reorg too deep`): an accepted reorg does not panic. -/
theorem C09.accepted_reorg_does_not_panic (n : Node) (g : TId → TSpec String String) (hs : NodeSim n g)
    (target : Nat) (hwin : ∀ i, (g i).maxEver ≤ target + W ∧ target ≤ (g i).maxEver)
    (hacc : ¬ (n.lbi.waiting ≠ 0 ∨ target > n.latestHeight ∨ n.latestHeight - target > W ∨
      n.maxBlock.getD 0 > W + target)) : (n.reorg target).2 ≠ .panic := by
  rw [(C01.reorg_restores_tables n g hs target hwin hacc).1]
  decide

/-- A refused reorg is an error answer, not a panic. -/
theorem C09.refused_reorg_is_an_error (n : Node) (target : Nat)
    (h : n.lbi.waiting ≠ 0 ∨ target > n.latestHeight ∨ n.latestHeight - target > W ∨
      n.maxBlock.getD 0 > W + target) : ∃ e, (n.reorg target).2 = .err e :=
  (C01.reorg_refused_iff n target).2 h

end Brc20
