/-
C13 - Versioned tables behave like a simple map with a 10-block undo window.
Property theorems only; helper lemmas live in Brc20/Proofs.
-/
import Brc20.Proofs.Hist
import Brc20.Gen.Constants

namespace Brc20
open Hist

/-- The window constant the model driver uses is the one in the source. -/
theorem C13.window_is_source_constant : Gen.MAX_REORG_HISTORY_SIZE = 10 := by decide

end Brc20
