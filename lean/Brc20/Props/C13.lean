/-
C13 - Versioned tables behave like a simple map with a 10-block undo window.
Property theorems only; helper lemmas live in Brc20/Proofs.

Reading guide.  `Hist.valAt h m` is "the value in force at the end of block m according to history h"
(`none` = nothing at or below m, which is exactly when the Rust `reorg(m)` panics "Reorg too deep").
`Hist.Ok h top` = keys strictly ascending, all ≤ top, non-empty (what `BTreeMap` + the stamping discipline give).
-/
import Brc20.Proofs.HistOps
import Brc20.Proofs.Table
import Brc20.Proofs.TableScan
import Brc20.Proofs.Codec
import Brc20.Gen.Constants

namespace Brc20
open Hist

/-- The window constant the model driver uses is the one in the source. -/
theorem C13.window_is_source_constant : Gen.MAX_REORG_HISTORY_SIZE = 10 := by decide

section
variable {V : Type} [DecidableEq V]

/-- `set` at a stamp `b` not below the newest stored one never panics; inside the window `m ≥ b - W` the new
history answers `v` from block `b` on and what the old history answered below `b`; its newest value is `v`;
and it holds at most `W + 1` versions if the old one did. -/
theorem C13.hist_set_in_window (W : Nat) {h : Hist V} {top b : Nat} (o : Ok h top) (hb : top ≤ b) (v : V) :
    ∃ h', Hist.set W h b v = some h' ∧ Ok h' b ∧
      (∀ m, b ≤ m + W → valAt h' m = if b ≤ m then some (some v) else valAt h m) ∧
      (h.length ≤ W + 1 → h'.length ≤ W + 1) ∧ latest h' = some v := by
  obtain ⟨h', h1, h2, h3, h4, h5⟩ := set_spec W o hb v
  exact ⟨h', h1, h2, h3, h4, h5⟩

/-- Same for `unset` (a delete is the version `none`). -/
theorem C13.hist_unset_in_window (W : Nat) {h : Hist V} {top b : Nat} (o : Ok h top) (hb : top ≤ b) :
    ∃ h', Hist.unset W h b = some h' ∧ Ok h' b ∧
      (∀ m, b ≤ m + W → valAt h' m = if b ≤ m then some none else valAt h m) ∧
      (h.length ≤ W + 1 → h'.length ≤ W + 1) ∧ latest h' = none := by
  obtain ⟨h', h1, h2, h3, h4, h5⟩ := unset_spec W o hb
  exact ⟨h', h1, h2, h3, h4, h5⟩

/-- A stamp below the newest stored key is refused loudly (panic), never recorded. -/
theorem C13.hist_stale_stamp_refused {W : Nat} {h : Hist V} {b l : Nat} (hl : lastKey? h = some l) (hb : b < l)
    (v : V) : Hist.set W h b v = none :=
  set_panics hl hb v

/-- Rollback of one history is exact or loud: it panics iff the history holds nothing at or below `n`;
otherwise the surviving newest value is precisely the value that was in force at the end of block `n`,
every later look-up `m` answers what the old history answered at `min m n`, and no version is added. -/
theorem C13.hist_rollback_exact_or_loud {h : Hist V} {top : Nat} (o : Ok h top) (n : Nat) :
    (Hist.reorg h n = none ↔ valAt h n = none) ∧
    (∀ h', Hist.reorg h n = some h' →
        valAt h n = some (latest h') ∧ (∀ m, valAt h' m = valAt h (min m n)) ∧ h'.length ≤ h.length) := by
  obtain ⟨h1, h2⟩ := reorg_spec o n
  refine ⟨h1, ?_⟩
  intro h' hr
  obtain ⟨ok', hv, hlen⟩ := h2 h' hr
  refine ⟨?_, hv, hlen⟩
  have := ok'.valAt_top (m := n) (Nat.min_le_right top n)
  rw [hv n] at this
  simpa using this

/-- `is_old` is sound: a history that `commit(b)` drops has had one constant value throughout the window of `b`,
so the value column alone answers every rollback target `m ≥ b - W` correctly. -/
theorem C13.hist_old_is_constant {W : Nat} {h : Hist V} {top b : Nat} (o : Ok h top) (ho : isOld W h b = true)
    {m : Nat} (hm : b ≤ m + W) : valAt h m = some (latest h) :=
  isOld_const o ho hm

end

section
variable {K V : Type} [DecidableEq K] [DecidableEq V]
open Table

/-- **The table refines the plain map.** From an empty directory, every legal API history of any length
(set / unset with non-decreasing stamps, commit at any block, discard / reopen, rollback to a block at most
`W` below and not above the newest block ever passed) runs without panic and leaves the table in simulation
with the plain per-key-log specification `TSpec`. -/
theorem C13.table_refines_map (W : Nat) (ops : List (TOp K V))
    (hl : TSpec.legalRun W (TSpec.init : TSpec K V) ops) :
    ∃ t', (Table.empty : Table K V).run W ops = some t' ∧ Sim W t' ((TSpec.init : TSpec K V).run ops) :=
  run_sim (sim_init W) ops hl

/-- Point reads of a table in simulation are the plain map's. -/
theorem C13.reads_are_map_reads {W : Nat} {t : Table K V} {s : TSpec K V} (h : Sim W t s) (k : K) :
    t.latest k = s.read k :=
  sim_latest h k

/-- Consequently, after any legal history, every point read equals the plain map's read. -/
theorem C13.reads_after_any_history (W : Nat) (ops : List (TOp K V))
    (hl : TSpec.legalRun W (TSpec.init : TSpec K V) ops) (k : K) :
    ∃ t', (Table.empty : Table K V).run W ops = some t' ∧
      t'.latest k = ((TSpec.init : TSpec K V).run ops).read k := by
  obtain ⟨t', h1, h2⟩ := C13.table_refines_map W ops hl
  exact ⟨t', h1, sim_latest h2 k⟩

/-- **Rollback inside the window is exact**: it never panics and every key reads the value it had at the end
of block `n` in the full log. -/
theorem C13.rollback_in_window {W : Nat} {t : Table K V} {s : TSpec K V} (h : Sim W t s) (n : Nat)
    (hw : s.maxEver ≤ n + W) (hn : n ≤ s.maxEver) :
    ∃ t', t.reorg W n = some t' ∧ ∀ k, t'.latest k = s.readAt k n :=
  Table.rollback_in_window h n hw hn

/-- Commit is unobservable and durable: a reopened table reads what was readable before the commit. -/
theorem C13.commit_then_reopen {W : Nat} {t : Table K V} {s : TSpec K V} (h : Sim W t s) (b : Nat) (k : K) :
    ((t.commit W b).reopen).latest k = t.latest k :=
  commit_then_reopen_reads h b k

/-- Discard / reopen without commit is exactly the state of the last commit. -/
theorem C13.discard_is_last_commit {W : Nat} {t : Table K V} {s : TSpec K V} (h : Sim W t s) (k : K) :
    (t.clear).latest k = (s.dur k).latest :=
  clear_reads_durable h k

/-- No key keeps more than `W + 1` versions, in memory or on disk, along any legal history. -/
theorem C13.versions_bounded {W : Nat} {t : Table K V} {s : TSpec K V} (h : Sim W t s) (hv : VersionsLe W t)
    (op : TOp K V) (hl : TSpec.legal W s op) : ∀ t', t.step W op = some t' → VersionsLe W t' :=
  versions_le_step h hv op hl

/-- **Range scans are complete**: exactly the readable pairs with `lo ≤ k < hi` ... -/
theorem C13.range_scan_complete {lt : K → K → Bool} (st : StrictTotal lt) {t : Table K V}
    (hc : AMap.Nodup t.cache) (hd : AMap.Nodup t.db) (lo hi k : K) (v : V) :
    (k, v) ∈ t.getRange lt lo hi ↔ (lt k lo = false ∧ lt k hi = true ∧ t.latest k = some v) :=
  mem_getRange st hc hd lo hi k v

/-- ... **in key order**, each key once ... -/
theorem C13.range_scan_sorted {lt : K → K → Bool} (st : StrictTotal lt) {t : Table K V}
    (hc : AMap.Nodup t.cache) (hd : AMap.Nodup t.db) (lo hi : K) :
    (t.getRange lt lo hi).Pairwise (fun a b => lt a.1 b.1 = true) :=
  getRange_sorted st hc hd lo hi

/-- ... and **independent of the iteration order** of the in-memory `HashMap` and of where commits happened:
two tables that read the same return the same scan. -/
theorem C13.range_scan_order_independent {lt : K → K → Bool} (st : StrictTotal lt) {t t' : Table K V}
    (hc : AMap.Nodup t.cache) (hd : AMap.Nodup t.db) (hc' : AMap.Nodup t'.cache) (hd' : AMap.Nodup t'.db)
    (hl : ∀ k, t.latest k = t'.latest k) (lo hi : K) :
    t.getRange lt lo hi = t'.getRange lt lo hi :=
  getRange_order_independent st hc hd hc' hd' hl lo hi

/-- Full scans return exactly the readable pairs. -/
theorem C13.full_scan_complete {lt : K → K → Bool} (st : StrictTotal lt) {t : Table K V}
    (hc : AMap.Nodup t.cache) (hd : AMap.Nodup t.db) (k : K) (v : V) :
    (k, v) ∈ t.all lt ↔ t.latest k = some v :=
  mem_all st hc hd k v

/-- The duplicate-freeness the scan theorems assume is an invariant of every operation. -/
theorem C13.columns_stay_maps {W : Nat} {t t' : Table K V} (h : ColsNodup t) (op : TOp K V)
    (hs : t.step W op = some t') : ColsNodup t' :=
  colsNodup_step h op hs

end

/-- The order RocksDB iterates in (byte-lexicographic on encoded keys) is a strict total order, so the scan
theorems apply to the real key encoding. -/
theorem C13.byte_order_is_strict_total : Table.StrictTotal bytesLt :=
  ⟨bytesLt_irrefl, bytesLt_trans, bytesLt_total⟩

/-! Non-vacuity: a concrete history meets the hypotheses, and the equations are not trivial on it. -/
example : Ok ([(0, none), (3, some 7), (12, some 8)] : Hist Nat) 12 :=
  ⟨by simp [Sorted], by intro e he; simp at he; rcases he with h | h | h <;> subst h <;> simp, by simp⟩
example : Hist.set 10 ([(0, none), (3, some 7), (12, some 8)] : Hist Nat) 14 9
    = some [(3, some 7), (12, some 8), (14, some 9)] := by decide
example : Hist.reorg ([(3, some 7), (12, some 8), (14, some 9)] : Hist Nat) 2 = none := by decide
example : valAt ([(3, some 7), (12, some 8), (14, some 9)] : Hist Nat) 13 = some (some 8) := by decide

/-- A concrete legal history (writes, an idle stretch of 11 blocks, commit, rollback to the window edge)
satisfies `legalRun`, so `C13.table_refines_map` is not vacuous. -/
example : TSpec.legalRun 10 (TSpec.init : TSpec Nat Nat)
    [.set 1 7 100, .set 2 7 101, .unset 3 8, .commit 3, .set 14 7 102, .commit 14, .clear, .reorg 4] := by
  simp [TSpec.legalRun, TSpec.legal, TSpec.step, TSpec.init]

example : ((Table.empty : Table Nat Nat).run 10
    [.set 1 7 100, .set 2 7 101, .unset 3 8, .commit 3, .set 14 7 102, .commit 14, .clear, .reorg 4]).map
      (fun t => t.latest 7) = some (some 101) := by decide

end Brc20
